//! C05 family (wave 4, additive): entry points that no other family calls, a whole-document DOM /
//! JSON walk for adversarial inputs, and a per-case watchdog.
//!
//! Kinds
//!   c05.w <ms> <kind> <args...>   run another kind of ANY family under an in-process watchdog: if the case
//!                                  is still running after <ms> milliseconds the process aborts (the runner
//!                                  prints ABORT for exactly this case and goes on with the next one).  Without
//!                                  it a hang costs the runner's whole per-chunk timeout (600 s).
//!   c05.spin <ms>                  busy-waits <ms> milliseconds, then "OK" (positive control of the watchdog)
//!   c05.dom <hex>                  TextTape::from_slice, then EVERY reader of the DOM on EVERY node reachable
//!                                  from the root (fields, field_groups, values, remainder, read_*, tokens_len,
//!                                  len, size hints, Reader enum, GroupEntry), json() of every node (options
//!                                  rotate; the root with all 18 option combinations through to_writer / to_vec /
//!                                  to_string), ObjectReader::deserialize, TextDeserializer::from_reader /
//!                                  from_encoded_tape, both encodings.  Output `ERR` (parser refused) or
//!                                  `OK t=<tokens> n=<value readers visited>`; `RUNAWAY..` when an iterator
//!                                  yields more items than the tape has tokens; `BADUTF8` when json().to_string()
//!                                  (from_utf8_unchecked) is not UTF-8.
//!   c05.npv <hex> <tape>           side condition of the write_tape no-crash theorems (Props/C05_wtape.v) on the REAL tape:
//!                                  "1" when no ValueReader that fields() / values() / remainder() hand out anywhere in
//!                                  the document sits on a Parameter / UndefinedParameter token (write_value's
//!                                  unreachable!() arms), "0" otherwise; model side: WriteTapeSide.no_param_valuesb
//!   c05.trops <cap|slice> <sched> <hex> <ops>   a sequence of calls on ONE text TokenReader, state carried from call
//!                                  to call and across failing calls (a caller that retries): n = next, r = read (the
//!                                  only public reader method no other kind calls directly), k = skip_container,
//!                                  u = skip_unquoted_value, b<k> = read_bytes(k), T = next until the end; sched may
//!                                  contain F (fault).  Output: one item per call + final position; RUNAWAY when T
//!                                  yields more tokens than the input has bytes.
//!   c05.textapi <hex>              the small public functions over a byte string that no other kind calls
//!                                  (Scalar::is_ascii / Display / Debug, text Token::as_scalar,
//!                                  TextToken::as_scalar, Operator::symbol / name, TokenReader::new with the
//!                                  default buffer + into_parts, error accessors and Display of every error
//!                                  type, parse_slice_into_tape on a recycled tape, FromStr / Display of dates,
//!                                  RawDate::has_hour)
//!   c05.binapi <hex>               the same for the binary side (Lexer / TokenReader::new / error accessors,
//!                                  BinaryTapeParser::parse_slice_into_tape on a recycled tape, write_binary of
//!                                  every token of the parsed tape, the deserializer *constructors*
//!                                  with_flavor / from_slice / from_tape / from_reader + their deserialize())
//!   c05.z <ms> <kind> <args...>   (wave 6, s_c05: size ladders) like c05.w, but every argument that starts with `~` or `%` is
//!                                  expanded first, so that a 65536-byte input or a 70000-event read schedule is a short,
//!                                  readable replay line.  `~<item>,<item>,...` -> hex: every item is `<hex>` or `<hex>*<n>` (the
//!                                  hex string n times), concatenated (`-` when empty).  `%<item>,...` -> a comma separated
//!                                  list: every item is `<tok>` or `<tok>*<n>` (the token n times) (`-` when empty).
//!                                  e.g. `c05.z 10000 tr.stream 70000 %1*65536 ~22,61*65536,22`
use crate::util::*;
use jomini::binary::de::BinaryDeserializerBuilder;
use jomini::binary::{BinaryFlavor, BinaryTapeParser, FailedResolveStrategy, Lexer};
use jomini::common::{Date, DateHour, PdsDate, RawDate, UniformDate};
use jomini::json::{DuplicateKeyMode, JsonOptions, TypeNarrowing};
use jomini::text::{ArrayReader, ObjectReader, Reader, TextTapeParser, ValueReader};
use jomini::{BinaryTape, Encoding, Scalar, TextDeserializer, TextTape, TextToken, TextWriterBuilder, Utf8Encoding, Windows1252Encoding};
use serde::de::IgnoredAny;
use std::collections::HashMap;
use std::sync::atomic::{AtomicU64, Ordering};

// ------------------------------------------------------------------ watchdog
static DEADLINE_MS: AtomicU64 = AtomicU64::new(0);
static START: std::sync::OnceLock<std::time::Instant> = std::sync::OnceLock::new();
static WATCHDOG: std::sync::Once = std::sync::Once::new();

fn now_ms() -> u64 {
    START.get_or_init(std::time::Instant::now).elapsed().as_millis() as u64 + 1
}

struct Armed;
impl Armed {
    fn new(ms: u64) -> Armed {
        let _ = now_ms();
        WATCHDOG.call_once(|| {
            std::thread::spawn(|| loop {
                std::thread::sleep(std::time::Duration::from_millis(25));
                let d = DEADLINE_MS.load(Ordering::SeqCst);
                if d != 0 && now_ms() > d {
                    std::process::abort();
                }
            });
        });
        DEADLINE_MS.store(now_ms() + ms.max(1), Ordering::SeqCst);
        Armed
    }
}
impl Drop for Armed {
    fn drop(&mut self) {
        DEADLINE_MS.store(0, Ordering::SeqCst);
    }
}

// ------------------------------------------------------------------ a target type that asks for size hints
/// Accepts anything (keys of any kind included) and calls `size_hint()` of every SeqAccess / MapAccess before and
/// after every element -- serde's own `Vec<T>` / `HashMap<K, V>` / untagged-enum buffering do that, the dynamic
/// targets of the other families (and serde_json::Value) never do, so `array_len` / `object_len` / `fields_len`
/// behind the hints were unreached.
struct Hint;

struct HintV;

impl<'de> serde::de::Visitor<'de> for HintV {
    type Value = Hint;
    fn expecting(&self, f: &mut std::fmt::Formatter) -> std::fmt::Result {
        f.write_str("anything")
    }
    fn visit_bool<E>(self, _: bool) -> Result<Hint, E> {
        Ok(Hint)
    }
    fn visit_i64<E>(self, _: i64) -> Result<Hint, E> {
        Ok(Hint)
    }
    fn visit_u64<E>(self, _: u64) -> Result<Hint, E> {
        Ok(Hint)
    }
    fn visit_f64<E>(self, _: f64) -> Result<Hint, E> {
        Ok(Hint)
    }
    fn visit_str<E>(self, s: &str) -> Result<Hint, E> {
        let _ = valid(s);
        Ok(Hint)
    }
    fn visit_bytes<E>(self, _: &[u8]) -> Result<Hint, E> {
        Ok(Hint)
    }
    fn visit_none<E>(self) -> Result<Hint, E> {
        Ok(Hint)
    }
    fn visit_unit<E>(self) -> Result<Hint, E> {
        Ok(Hint)
    }
    fn visit_some<D: serde::Deserializer<'de>>(self, d: D) -> Result<Hint, D::Error> {
        <Hint as serde::Deserialize>::deserialize(d)
    }
    fn visit_newtype_struct<D: serde::Deserializer<'de>>(self, d: D) -> Result<Hint, D::Error> {
        <Hint as serde::Deserialize>::deserialize(d)
    }
    fn visit_seq<A: serde::de::SeqAccess<'de>>(self, mut seq: A) -> Result<Hint, A::Error> {
        loop {
            let _ = seq.size_hint();
            if seq.next_element::<Hint>()?.is_none() {
                break;
            }
        }
        let _ = seq.size_hint();
        Ok(Hint)
    }
    fn visit_map<A: serde::de::MapAccess<'de>>(self, mut map: A) -> Result<Hint, A::Error> {
        loop {
            let _ = map.size_hint();
            if map.next_key::<Hint>()?.is_none() {
                break;
            }
            let _ = map.size_hint();
            let _ = map.next_value::<Hint>()?;
        }
        let _ = map.size_hint();
        Ok(Hint)
    }
}

impl<'de> serde::Deserialize<'de> for Hint {
    fn deserialize<D: serde::Deserializer<'de>>(d: D) -> Result<Hint, D::Error> {
        d.deserialize_any(HintV)
    }
}

// ------------------------------------------------------------------ helpers
const OUT_CAP: usize = 1 << 20;

struct LimitedWriter {
    n: usize,
    keep: Option<Vec<u8>>,
}

impl std::io::Write for LimitedWriter {
    fn write(&mut self, d: &[u8]) -> std::io::Result<usize> {
        if self.n + d.len() > OUT_CAP {
            return Err(std::io::Error::new(std::io::ErrorKind::Other, "output limit"));
        }
        self.n += d.len();
        if let Some(k) = self.keep.as_mut() {
            k.extend_from_slice(d);
        }
        Ok(d.len())
    }
    fn flush(&mut self) -> std::io::Result<()> {
        Ok(())
    }
}

fn opts(k: usize) -> JsonOptions {
    JsonOptions::new()
        .with_prettyprint(k % 2 == 1)
        .with_duplicate_keys(match (k / 2) % 3 {
            0 => DuplicateKeyMode::Group,
            1 => DuplicateKeyMode::Preserve,
            _ => DuplicateKeyMode::KeyValuePairs,
        })
        .with_type_narrowing(match (k / 6) % 3 {
            0 => TypeNarrowing::All,
            1 => TypeNarrowing::Unquoted,
            _ => TypeNarrowing::None,
        })
}

struct St {
    cap: usize,
    nodes: usize,
    params: usize,
    k: usize,
    bad: Option<&'static str>,
}

impl St {
    fn over(&mut self, n: usize, what: &'static str) -> bool {
        if n > self.cap {
            self.bad = Some(what);
            true
        } else {
            false
        }
    }
}

/// every &str / String the API hands out is re-validated: several of them are made with from_utf8_unchecked
fn valid(s: &str) -> bool {
    std::str::from_utf8(std::hint::black_box(s.as_bytes())).is_ok()
}

fn touch_token(t: &TextToken) -> usize {
    let mut n = 0;
    if let Some(s) = t.as_scalar() {
        n += s.as_bytes().len() + s.is_ascii() as usize;
    }
    if let TextToken::Operator(op) = t {
        n += op.symbol().len() + op.name().len() + format!("{}", op).len();
    }
    n
}

fn shallow_values<E: Encoding + Clone>(a: &ArrayReader<E>, st: &mut St) {
    let mut n = 0;
    for v in a.values() {
        n += 1;
        if st.over(n, "RUNAWAY-values") {
            return;
        }
        let _ = touch_token(v.token());
        let _ = v.tokens_len();
    }
    let _ = (a.len(), a.is_empty(), a.tokens_len(), a.values().size_hint());
}

fn walk_array<E: Encoding + Clone>(a: &ArrayReader<E>, st: &mut St, depth: usize) {
    let _ = (a.len(), a.is_empty(), a.tokens_len(), a.values().size_hint());
    let mut n = 0;
    for v in a.values() {
        n += 1;
        if st.over(n, "RUNAWAY-values") || st.bad.is_some() {
            return;
        }
        walk_value(&v, st, depth + 1);
    }
    st.k += 1;
    let mut w = LimitedWriter { n: 0, keep: None };
    let _ = a.json().with_options(opts(st.k)).to_writer(&mut w);
}

fn walk_object<E: Encoding + Clone>(o: &ObjectReader<E>, st: &mut St, depth: usize) {
    let _ = (o.fields_len(), o.tokens_len());
    let mut fields = o.fields();
    let _ = fields.size_hint();
    let mut n = 0;
    for (key, op, v) in fields.by_ref() {
        n += 1;
        if st.over(n, "RUNAWAY-fields") || st.bad.is_some() {
            return;
        }
        let _ = (key.read_str().len(), key.read_string().len(), key.read_scalar().as_bytes().len(), touch_token(key.token()));
        if !valid(&key.read_str()) || !valid(&key.read_string()) {
            st.bad = Some("BADUTF8-key");
            return;
        }
        let rk = Reader::Scalar(key.clone());
        let _ = (rk.read_str().is_ok(), rk.read_string().is_ok(), rk.read_scalar().is_ok());
        if let Some(op) = op {
            let _ = (op.symbol(), op.name());
        }
        walk_value(&v, st, depth + 1);
    }
    // the tail of an object that turned into an array: write_tape does not write it (documented), so a parameter
    // token standing directly in the tail is not a *value* write_value can meet; everything nested inside is
    let rem = fields.remainder();
    let _ = (rem.len(), rem.is_empty(), rem.tokens_len(), rem.values().size_hint());
    let mut n = 0;
    for v in rem.values() {
        n += 1;
        if st.over(n, "RUNAWAY-values") || st.bad.is_some() {
            return;
        }
        let own = matches!(v.token(), TextToken::Parameter(_) | TextToken::UndefinedParameter(_));
        walk_value(&v, st, depth + 1);
        if own {
            st.params -= 1;
        }
    }
    st.k += 1;
    let mut w = LimitedWriter { n: 0, keep: None };
    let _ = rem.json().with_options(opts(st.k)).to_writer(&mut w);
    let mut groups = o.field_groups();
    let _ = groups.size_hint();
    let mut g = 0;
    while let Some((key, entry)) = groups.next() {
        g += 1;
        if st.over(g, "RUNAWAY-groups") {
            return;
        }
        let _ = key.read_scalar();
        let _ = (entry.len(), entry.is_empty());
        let mut m = 0;
        for (op, v) in entry.values() {
            m += 1;
            if st.over(m, "RUNAWAY-group-values") {
                return;
            }
            let _ = (op.map(|x| x.symbol()), v.tokens_len());
        }
    }
    shallow_values(&groups.remainder(), st);
    st.k += 1;
    let mut w = LimitedWriter { n: 0, keep: None };
    let _ = o.json().with_options(opts(st.k)).to_writer(&mut w);
    let ro = Reader::Object(o.clone());
    let _ = (ro.read_str().is_ok(), ro.read_string().is_ok(), ro.read_scalar().is_ok());
}

fn walk_value<E: Encoding + Clone>(v: &ValueReader<E>, st: &mut St, depth: usize) {
    st.nodes += 1;
    if st.over(depth, "RUNAWAY-depth") || st.nodes > 64 * (st.cap + 4) {
        st.bad = Some(st.bad.unwrap_or("RUNAWAY-nodes"));
        return;
    }
    let _ = touch_token(v.token());
    if matches!(v.token(), TextToken::Parameter(_) | TextToken::UndefinedParameter(_)) {
        st.params += 1;
    }
    let _ = (v.tokens_len(), v.read_scalar().is_ok(), v.read_str().is_ok(), v.read_string().is_ok());
    if v.read_str().map(|x| !valid(&x)).unwrap_or(false) || v.read_string().map(|x| !valid(&x)).unwrap_or(false) {
        st.bad = Some("BADUTF8-value");
        return;
    }
    let rv = Reader::Value(v.clone());
    let _ = (rv.read_str().is_ok(), rv.read_string().is_ok(), rv.read_scalar().is_ok());
    st.k += 1;
    let mut w = LimitedWriter { n: 0, keep: None };
    let _ = v.json().with_options(opts(st.k)).to_writer(&mut w);
    match v.token() {
        TextToken::Object { .. } => {
            if let Ok(o) = v.read_object() {
                walk_object(&o, st, depth);
            }
            // the other view of the same container: items only, no second descent
            if let Ok(a) = v.read_array() {
                shallow_values(&a, st);
                let ra = Reader::Array(a);
                let _ = ra.read_str().is_ok();
            }
        }
        TextToken::Array { .. } => {
            if let Ok(a) = v.read_array() {
                walk_array(&a, st, depth);
            }
            if let Ok(o) = v.read_object() {
                let _ = (o.fields_len(), o.fields().count().min(1), o.fields().remainder().len());
            }
        }
        TextToken::Header(_) => {
            let _ = v.read_object().is_ok();
            // the header's own array view is (header, container): the first item is this token again
            if let Ok(a) = v.read_array() {
                shallow_values(&a, st);
                st.k += 1;
                let mut w = LimitedWriter { n: 0, keep: None };
                let _ = a.json().with_options(opts(st.k)).to_writer(&mut w);
                let mut it = a.values();
                let _first = it.next();
                if let Some(c) = it.next() {
                    walk_value(&c, st, depth + 1);
                }
            }
        }
        _ => {
            let _ = (v.read_object().is_ok(), v.read_array().is_ok());
        }
    }
}

fn dom_root<E: Encoding + Clone>(tape: &TextTape, root: ObjectReader<E>, enc: E, st: &mut St) -> Option<&'static str> {
    walk_object(&root, st, 0);
    if st.bad.is_some() {
        return st.bad;
    }
    for k in 0..18 {
        let mut w = LimitedWriter { n: 0, keep: Some(Vec::new()) };
        if root.json().with_options(opts(k)).to_writer(&mut w).is_ok() && w.n < (1 << 16) {
            let v = root.json().with_options(opts(k)).to_vec();
            let s = root.json().with_options(opts(k)).to_string();
            if std::str::from_utf8(s.as_bytes()).is_err() {
                return Some("BADUTF8");
            }
            if Some(&v) != w.keep.as_ref() || s.as_bytes() != v.as_slice() {
                return Some("JSON-ENTRY-MISMATCH");
            }
        }
    }
    let _ = root.deserialize::<IgnoredAny>().is_ok();
    let _ = root.deserialize::<serde_json::Value>().is_ok();
    let _ = root.deserialize::<Hint>().is_ok();
    let _ = root.deserialize::<Vec<Hint>>().is_ok();
    let _ = root.deserialize::<HashMap<String, Vec<Hint>>>().is_ok();
    let _ = TextDeserializer::from_reader(&root).deserialize::<serde_json::Value>().is_ok();
    let _ = TextDeserializer::from_encoded_tape(tape, enc).deserialize::<serde_json::Value>().is_ok();
    None
}

fn dom(data: &[u8]) -> String {
    let tape = match TextTape::from_slice(data) {
        Ok(t) => t,
        Err(_) => return "ERR".to_string(),
    };
    let cap = tape.tokens().len() + 2;
    let mut total = 0;
    for enc in 0..2 {
        let mut st = St { cap, nodes: 0, params: 0, k: enc * 7, bad: None };
        let bad = if enc == 0 {
            dom_root(&tape, tape.windows1252_reader(), Windows1252Encoding::new(), &mut st)
        } else {
            dom_root(&tape, tape.utf8_reader(), Utf8Encoding::new(), &mut st)
        };
        if let Some(b) = bad {
            return b.to_string();
        }
        total += st.nodes;
    }
    format!("OK t={} n={}", tape.tokens().len(), total)
}

fn npv(data: &[u8], tape_str: &str) -> String {
    let tape = match TextTape::from_slice(data) {
        Ok(t) => t,
        Err(_) => return "ERR".to_string(),
    };
    if crate::fams::fam_texttape::show_tokens(tape.tokens()) != tape_str {
        return "TAPE-MISMATCH".to_string();
    }
    let mut st = St { cap: tape.tokens().len() + 2, nodes: 0, params: 0, k: 0, bad: None };
    walk_object(&tape.windows1252_reader(), &mut st, 0);
    match st.bad {
        Some(b) => b.to_string(),
        None => ((st.params == 0) as u8).to_string(),
    }
}

fn show_err(e: jomini::Error) -> usize {
    let n = format!("{}", e).len() + format!("{:?}", e).len() + e.offset().unwrap_or(0).min(1) + e.kind().offset().unwrap_or(0).min(1);
    let _ = std::error::Error::source(&e).is_some();
    let k = e.into_kind();
    n + k.offset().is_some() as usize
}

fn textapi(data: &[u8]) -> String {
    let mut acc = 0usize;
    let s = Scalar::new(data);
    acc += s.is_ascii() as usize + format!("{}", s).len() + format!("{:?}", s).len() + s.as_bytes().len();
    if !valid(&format!("{}", s)) || !valid(&format!("{:?}", s)) || !valid(&Windows1252Encoding::decode(data)) || !valid(&Utf8Encoding::decode(data)) {
        return "BADUTF8-scalar".to_string();
    }
    // zero-copy reader: Token::as_scalar, error accessors
    let mut rd = jomini::text::TokenReader::from_slice(data);
    let mut toks = 0usize;
    loop {
        if toks > data.len() + 2 {
            return "RUNAWAY-tokens".to_string();
        }
        match rd.next() {
            Ok(Some(t)) => {
                toks += 1;
                acc += t.as_scalar().map(|x| x.as_bytes().len()).unwrap_or(0);
                if let jomini::text::Token::Operator(op) = t {
                    acc += op.symbol().len() + op.name().len();
                }
            }
            Ok(None) => break,
            Err(e) => {
                acc += e.position().min(1) + format!("{}", e).len() + format!("{:?}", e.kind()).len();
                let _ = std::error::Error::source(&e).is_some();
                let _ = e.into_kind();
                break;
            }
        }
    }
    // default-buffer reader over a Read, run to the end, then into_parts
    let mut rd = jomini::text::TokenReader::new(data);
    let mut toks2 = 0usize;
    let mut end2 = 0u8;
    loop {
        if toks2 > data.len() + 2 {
            return "RUNAWAY-tokens".to_string();
        }
        match rd.next() {
            Ok(Some(_)) => toks2 += 1,
            Ok(None) => break,
            Err(_) => {
                end2 = 1;
                break;
            }
        }
    }
    let pos = rd.position();
    let (buf, rest) = rd.into_parts();
    if buf.len() != 32 * 1024 || pos > data.len() || rest.len() > data.len() {
        return format!("BAD-PARTS {} {} {}", buf.len(), pos, rest.len());
    }
    // tape parser on a recycled tape, error accessors
    let mut tape = TextTape::new();
    let first = TextTapeParser::new().parse_slice_into_tape(data, &mut tape);
    let n1 = tape.tokens().len();
    let bom = tape.utf8_bom();
    let half = &data[..data.len() / 2];
    let second = TextTape::parser().parse_slice_into_tape(half, &mut tape);
    if second.is_ok() {
        for t in tape.tokens() {
            acc += touch_token(t);
        }
    }
    let third = TextTapeParser::new().parse_slice_into_tape(data, &mut tape);
    if first.is_ok() != third.is_ok() || (first.is_ok() && (tape.tokens().len() != n1 || tape.utf8_bom() != bom)) {
        return "REUSE-MISMATCH".to_string();
    }
    for r in [first, second, third] {
        if let Err(e) = r {
            acc += show_err(e);
        }
    }
    if let Err(e) = jomini::text::de::from_utf8_slice::<IgnoredAny>(data) {
        acc += show_err(e);
    }
    // dates from bytes and from str
    if let Ok(d) = Date::parse(data) {
        acc += d.iso_8601().to_string().len() + d.game_fmt().to_string().len() + format!("{:?}", d).len();
        acc += (d.to_binary() as usize) & 1;
        acc += (d.days_until(&d) == 0) as usize;
        acc += Date::from_binary(d.to_binary()).is_some() as usize;
    }
    if let Ok(d) = DateHour::parse(data) {
        acc += d.iso_8601().to_string().len() + d.game_fmt().to_string().len() + d.hour() as usize + (d.to_binary() as usize & 1);
    }
    if let Ok(d) = UniformDate::parse(data) {
        acc += d.iso_8601().to_string().len() + d.game_fmt().to_string().len() + format!("{:?}", d).len();
    }
    match RawDate::parse(data) {
        Ok(d) => acc += d.has_hour() as usize + d.hour() as usize + d.game_fmt().to_string().len() + d.iso_8601().to_string().len() + format!("{:?}", d).len(),
        Err(e) => acc += format!("{}", e).len(),
    }
    if let Ok(txt) = std::str::from_utf8(data) {
        acc += txt.parse::<Date>().is_ok() as usize + txt.parse::<DateHour>().is_ok() as usize + txt.parse::<UniformDate>().is_ok() as usize + txt.parse::<RawDate>().is_ok() as usize;
        if txt.parse::<Date>().is_ok() != Date::parse(data).is_ok() {
            return "FROMSTR-MISMATCH".to_string();
        }
    }
    match (s.to_u64(), s.to_i64(), s.to_f64(), s.to_bool()) {
        (a, b, c, d) => {
            for e in [a.err(), b.err(), c.err(), d.err()].into_iter().flatten() {
                acc += format!("{}", e).len();
            }
        }
    }
    let _ = acc;
    format!("OK r={} s={}/{}", toks, toks2, end2)
}

#[derive(Clone, Copy, Debug)]
struct Fl(bool);

impl Encoding for Fl {
    fn decode<'a>(&self, data: &'a [u8]) -> std::borrow::Cow<'a, str> {
        if self.0 {
            Windows1252Encoding::decode(data)
        } else {
            Utf8Encoding::decode(data)
        }
    }
}

impl BinaryFlavor for Fl {
    fn visit_f32(&self, data: [u8; 4]) -> f32 {
        f32::from_le_bytes(data)
    }
    fn visit_f64(&self, data: [u8; 8]) -> f64 {
        f64::from_le_bytes(data)
    }
}

fn binapi(data: &[u8]) -> String {
    let mut acc = 0usize;
    let mut lx = Lexer::new(data);
    let mut toks = 0usize;
    loop {
        if toks > data.len() + 2 {
            return "RUNAWAY-tokens".to_string();
        }
        match lx.next_token() {
            Ok(Some(_)) => toks += 1,
            Ok(None) => break,
            Err(e) => {
                acc += e.position().min(1) + format!("{}", e).len() + format!("{:?}", e.kind()).len();
                let _ = e.into_kind();
                break;
            }
        }
    }
    if lx.position() > data.len() || lx.position() + lx.remainder().len() != data.len() {
        return "BAD-POSITION".to_string();
    }
    let mut rd = jomini::binary::TokenReader::new(data);
    let mut toks2 = 0usize;
    let mut end2 = 0u8;
    loop {
        if toks2 > data.len() + 2 {
            return "RUNAWAY-tokens".to_string();
        }
        match rd.next() {
            Ok(Some(_)) => toks2 += 1,
            Ok(None) => break,
            Err(e) => {
                acc += e.position().min(1) + format!("{}", e).len() + format!("{:?}", e.kind()).len();
                end2 = 1;
                break;
            }
        }
    }
    let pos = rd.position();
    let (buf, rest) = rd.into_parts();
    if buf.len() != 32 * 1024 || pos > data.len() || rest.len() > data.len() {
        return format!("BAD-PARTS {} {} {}", buf.len(), pos, rest.len());
    }
    // tape parser on a recycled tape; write_binary of every token
    let mut tape = BinaryTape::new();
    let first = BinaryTapeParser.parse_slice_into_tape(data, &mut tape);
    let n1 = tape.tokens().len();
    let half = &data[..data.len() / 2];
    let second = BinaryTapeParser.parse_slice_into_tape(half, &mut tape);
    let third = BinaryTapeParser.parse_slice_into_tape(data, &mut tape);
    if first.is_ok() != third.is_ok() || (first.is_ok() && tape.tokens().len() != n1) {
        return "REUSE-MISMATCH".to_string();
    }
    let mut written = 0usize;
    if third.is_ok() {
        let mut w = TextWriterBuilder::new().from_writer(LimitedWriter { n: 0, keep: None });
        for t in tape.tokens() {
            if w.write_binary(t).is_ok() {
                written += 1;
            }
        }
        acc += w.depth() + w.expecting_key() as usize;
    }
    let tape_ok = third.is_ok();
    for r in [first, second, third] {
        if let Err(e) = r {
            acc += show_err(e);
        }
    }
    // deserializer constructors
    let mut res: HashMap<u16, String> = HashMap::new();
    for (i, n) in [(0x2d84u16, "a"), (0x2d85, "b"), (0x1b, "name"), (0x167, "x")] {
        res.insert(i, n.to_string());
    }
    let strat = match data.len() % 3 {
        0 => FailedResolveStrategy::Error,
        1 => FailedResolveStrategy::Stringify,
        _ => FailedResolveStrategy::Ignore,
    };
    let fl = Fl(data.len() % 2 == 0);
    let mut de_ok = 0usize;
    {
        let mut b = BinaryDeserializerBuilder::with_flavor(fl);
        b.on_failed_resolve(strat);
        match b.from_slice(data, &res).deserialize::<IgnoredAny>() {
            Ok(_) => de_ok += 1,
            Err(e) => acc += show_err(e),
        }
    }
    {
        let mut b = BinaryDeserializerBuilder::with_flavor(fl);
        b.on_failed_resolve(strat);
        de_ok += b.from_slice(data, &res).deserialize::<serde_json::Value>().is_ok() as usize;
        let mut b = BinaryDeserializerBuilder::with_flavor(fl);
        b.on_failed_resolve(FailedResolveStrategy::Stringify);
        de_ok += b.from_slice(data, &res).deserialize::<Hint>().is_ok() as usize;
        let mut b = BinaryDeserializerBuilder::with_flavor(fl);
        b.on_failed_resolve(FailedResolveStrategy::Stringify);
        de_ok += b.from_reader(data, &res).deserialize::<Hint>().is_ok() as usize;
    }
    if tape_ok {
        let mut b = BinaryDeserializerBuilder::with_flavor(fl);
        b.on_failed_resolve(strat);
        let mut d = b.from_tape(&tape, &res);
        de_ok += d.deserialize::<IgnoredAny>().is_ok() as usize;
        d.on_failed_resolve(FailedResolveStrategy::Stringify);
        de_ok += d.deserialize::<serde_json::Value>().is_ok() as usize;
        de_ok += d.deserialize::<Hint>().is_ok() as usize;
        de_ok += d.deserialize::<HashMap<String, Vec<Hint>>>().is_ok() as usize;
        d.on_failed_resolve(FailedResolveStrategy::Ignore);
        de_ok += d.deserialize::<Hint>().is_ok() as usize;
    }
    {
        let mut b = BinaryDeserializerBuilder::with_flavor(fl);
        b.on_failed_resolve(strat);
        b.reader_config(jomini::binary::TokenReaderBuilder::default().buffer_len(64 + data.len() % 7));
        match b.from_reader(data, &res).deserialize::<IgnoredAny>() {
            Ok(_) => de_ok += 1,
            Err(e) => acc += show_err(e),
        }
    }
    let _ = (acc, written, de_ok);
    format!("OK l={} s={}/{} t={}", toks, toks2, end2, if tape_ok { n1 as i64 } else { -1 })
}

fn tr_ops<R: std::io::Read>(mut rd: jomini::text::TokenReader<R>, ops: &str, n: usize) -> String {
    use jomini::text::ReaderErrorKind as K;
    let cls = |e: &jomini::text::ReaderError| match e.kind() {
        K::Read(_) => "io",
        K::BufferFull => "full",
        K::Eof => "eof",
    };
    let mut out: Vec<String> = Vec::new();
    let mut last = 0usize;
    for op in ops.split(',') {
        let r = match op {
            "n" => match rd.next() {
                Ok(Some(_)) => "t".to_string(),
                Ok(None) => "end".to_string(),
                Err(e) => cls(&e).to_string(),
            },
            "r" => match rd.read() {
                Ok(_) => "t".to_string(),
                Err(e) => cls(&e).to_string(),
            },
            "k" => match rd.skip_container() {
                Ok(()) => "ok".to_string(),
                Err(e) => cls(&e).to_string(),
            },
            "u" => match rd.skip_unquoted_value() {
                Ok(()) => "ok".to_string(),
                Err(e) => cls(&e).to_string(),
            },
            "T" => {
                let mut k = 0usize;
                let mut errs = 0usize;
                loop {
                    if k > 2 * n + 40 {
                        break "RUNAWAY".to_string();
                    }
                    k += 1;
                    match rd.next() {
                        Ok(Some(_)) => {}
                        Ok(None) => break "end".to_string(),
                        Err(e) => {
                            errs += 1;
                            if errs > 6 || !matches!(e.kind(), K::Read(_)) {
                                break cls(&e).to_string();
                            }
                        }
                    }
                }
            }
            _ if op.starts_with('b') => match rd.read_bytes(op[1..].parse().unwrap_or(0)) {
                Ok(b) => format!("b{}", b.len()),
                Err(e) => cls(&e).to_string(),
            },
            _ => "?".to_string(),
        };
        let pos = rd.position();
        if pos < last {
            out.push("POSITION-BACKWARDS".to_string());
        }
        last = pos;
        out.push(r);
    }
    out.push(format!("@{}", rd.position()));
    out.join(" ")
}

// ------------------------------------------------------------------ wave 6: run-length encoded arguments
fn rle_items(spec: &str) -> Option<Vec<(&str, usize)>> {
    let mut v = Vec::new();
    if spec.is_empty() || spec == "-" {
        return Some(v);
    }
    for item in spec.split(',') {
        match item.split_once('*') {
            Some((t, n)) => v.push((t, n.parse().ok()?)),
            None => v.push((item, 1)),
        }
    }
    Some(v)
}

fn expand_arg(a: &str) -> Option<String> {
    if let Some(spec) = a.strip_prefix('~') {
        let mut s = String::new();
        for (t, n) in rle_items(spec)? {
            if t != "-" {
                for _ in 0..n {
                    s.push_str(t);
                }
            }
        }
        Some(if s.is_empty() { "-".to_string() } else { s })
    } else if let Some(spec) = a.strip_prefix('%') {
        let mut v: Vec<&str> = Vec::new();
        for (t, n) in rle_items(spec)? {
            for _ in 0..n {
                v.push(t);
            }
        }
        Some(if v.is_empty() { "-".to_string() } else { v.join(",") })
    } else {
        Some(a.to_string())
    }
}

pub fn dispatch(kind: &str, a: &[&str]) -> Option<String> {
    if !kind.starts_with("c05.") {
        return None;
    }
    let r = match (kind, a) {
        ("c05.w", [ms, inner, rest @ ..]) => {
            let _armed = Armed::new(ms.parse().ok()?);
            crate::fams::dispatch(inner, rest).unwrap_or_else(|| "NOKIND".to_string())
        }
        ("c05.z", [ms, inner, rest @ ..]) => {
            let mut ex: Vec<String> = Vec::new();
            for x in rest.iter() {
                match expand_arg(x) {
                    Some(e) => ex.push(e),
                    None => return Some("BADCASE".to_string()),
                }
            }
            let refs: Vec<&str> = ex.iter().map(|x| x.as_str()).collect();
            let _armed = Armed::new(ms.parse().ok()?);
            crate::fams::dispatch(inner, &refs).unwrap_or_else(|| "NOKIND".to_string())
        }
        ("c05.spin", [ms]) => {
            let ms: u64 = ms.parse().ok()?;
            let t0 = std::time::Instant::now();
            let mut x = 0u64;
            while (t0.elapsed().as_millis() as u64) < ms {
                x = x.wrapping_mul(6364136223846793005).wrapping_add(1442695040888963407);
                std::hint::black_box(x);
            }
            "OK".to_string()
        }
        ("c05.dom", [h]) => dom(&unhex(h)),
        ("c05.npv", [h, tape]) => npv(&unhex(h), tape),
        ("c05.trops", [cap, sched, h, ops]) => {
            let d = unhex(h);
            let n = d.len();
            if *cap == "slice" {
                tr_ops(jomini::text::TokenReader::from_slice(&d), ops, n)
            } else {
                let src = SchedRead::new(d, parse_sched(sched));
                tr_ops(jomini::text::TokenReader::builder().buffer_len(cap.parse().ok()?).build(src), ops, n)
            }
        }
        ("c05.textapi", [h]) => textapi(&unhex(h)),
        ("c05.binapi", [h]) => binapi(&unhex(h)),
        _ => "BADCASE".to_string(),
    };
    Some(r)
}
