//! [w_fwd, wave 5]  the method tables of the serde `Deserializer` impls (C04 / C02, model coq/theories/DeMethods.v)
//!
//!   de.meth.bin  <path> <strategy> <resolver> <flavor> <pos> <hint> <tok> <hex>
//!   de.meth.text <path> <enc> <hint> <tok> <hex>
//!
//! (<tok> = the kind of the token in <hex>, read by the model side only: ocaml/fam_dmeth.ml)

//! The document (`x = <value> s = 7`, or for pos = key `x = { <key> = 9 .. } s = 7`) is read through the real public
//! entry points (fam_de::run_bin / run_text) into a target that asks field `x` (resp. the first key of the map in `x`)
//! with `deserialize_<hint>` and answers with a RECORDING visitor: which visit call arrives.  A deserializer handed to
//! visit_some / visit_newtype_struct, and the variant of an enum, is asked `deserialize_any` and recorded as well; the
//! elements of sequences and maps are consumed (with deserialize_any) but not recorded.  Field `s`, written after `x`,
//! shows whether exactly the value was consumed.
//! Output:  <head>[><head>..] <status>     head = bool int u16 float char str bytes none some unit newtype seq map enum
//!                                          ("-" when no visit call arrived);  status = ok | err | badw (s did not read back)
//! Integer visits of every width print `int` (visit_u16 is kept apart: it carries a token id, not a number), visit_f32 /
//! visit_f64 print `float`, the three string visits `str`, the three byte visits `bytes`: the table decides WHICH KIND of
//! visit arrives, the payloads are the subject of the streams `methods` (C04) / `hints` (C02).
use serde::de::{self, Deserialize, DeserializeSeed, Deserializer, EnumAccess, IgnoredAny, MapAccess, SeqAccess, VariantAccess, Visitor};
use std::cell::RefCell;
use std::fmt;

thread_local! {
    static HEADS: RefCell<Vec<&'static str>> = RefCell::new(Vec::new());
    static HINT: RefCell<String> = RefCell::new(String::new());
    static POS: RefCell<String> = RefCell::new(String::new());
}

#[derive(Clone, Copy)]
struct Probe {
    rec: bool,
}

impl Probe {
    fn head(&self, h: &'static str) {
        if self.rec {
            HEADS.with(|x| x.borrow_mut().push(h));
        }
    }
}

struct AnySeed(bool);

impl<'de> DeserializeSeed<'de> for AnySeed {
    type Value = String;
    fn deserialize<D: Deserializer<'de>>(self, d: D) -> Result<String, D::Error> {
        d.deserialize_any(Probe { rec: self.0 })
    }
}

macro_rules! int_visit {
    ($name:ident, $ty:ty) => {
        fn $name<E: de::Error>(self, v: $ty) -> Result<String, E> {
            self.head("int");
            Ok(format!("i{}", v))
        }
    };
}

impl<'de> Visitor<'de> for Probe {
    type Value = String;
    fn expecting(&self, f: &mut fmt::Formatter) -> fmt::Result {
        f.write_str("anything (recording visitor)")
    }
    fn visit_bool<E: de::Error>(self, v: bool) -> Result<String, E> {
        self.head("bool");
        Ok(format!("b{}", v as u8))
    }
    int_visit!(visit_i8, i8);
    int_visit!(visit_i16, i16);
    int_visit!(visit_i32, i32);
    int_visit!(visit_i64, i64);
    int_visit!(visit_i128, i128);
    int_visit!(visit_u8, u8);
    int_visit!(visit_u32, u32);
    int_visit!(visit_u64, u64);
    int_visit!(visit_u128, u128);
    fn visit_u16<E: de::Error>(self, v: u16) -> Result<String, E> {
        self.head("u16");
        Ok(format!("t{}", v))
    }
    fn visit_f32<E: de::Error>(self, _v: f32) -> Result<String, E> {
        self.head("float");
        Ok("f".to_string())
    }
    fn visit_f64<E: de::Error>(self, _v: f64) -> Result<String, E> {
        self.head("float");
        Ok("f".to_string())
    }
    fn visit_char<E: de::Error>(self, _v: char) -> Result<String, E> {
        self.head("char");
        Ok("c".to_string())
    }
    fn visit_str<E: de::Error>(self, v: &str) -> Result<String, E> {
        self.head("str");
        Ok(format!("s{}", v))
    }
    fn visit_borrowed_str<E: de::Error>(self, v: &'de str) -> Result<String, E> {
        self.head("str");
        Ok(format!("s{}", v))
    }
    fn visit_string<E: de::Error>(self, v: String) -> Result<String, E> {
        self.head("str");
        Ok(format!("s{}", v))
    }
    fn visit_bytes<E: de::Error>(self, _v: &[u8]) -> Result<String, E> {
        self.head("bytes");
        Ok("y".to_string())
    }
    fn visit_borrowed_bytes<E: de::Error>(self, _v: &'de [u8]) -> Result<String, E> {
        self.head("bytes");
        Ok("y".to_string())
    }
    fn visit_byte_buf<E: de::Error>(self, _v: Vec<u8>) -> Result<String, E> {
        self.head("bytes");
        Ok("y".to_string())
    }
    fn visit_none<E: de::Error>(self) -> Result<String, E> {
        self.head("none");
        Ok("n".to_string())
    }
    fn visit_unit<E: de::Error>(self) -> Result<String, E> {
        self.head("unit");
        Ok("u".to_string())
    }
    fn visit_some<D: Deserializer<'de>>(self, d: D) -> Result<String, D::Error> {
        self.head("some");
        d.deserialize_any(self)
    }
    fn visit_newtype_struct<D: Deserializer<'de>>(self, d: D) -> Result<String, D::Error> {
        self.head("newtype");
        d.deserialize_any(self)
    }
    fn visit_seq<A: SeqAccess<'de>>(self, mut a: A) -> Result<String, A::Error> {
        self.head("seq");
        while let Some(_x) = a.next_element_seed(AnySeed(false))? {}
        Ok("q".to_string())
    }
    fn visit_map<A: MapAccess<'de>>(self, mut a: A) -> Result<String, A::Error> {
        self.head("map");
        while let Some(_k) = a.next_key_seed(AnySeed(false))? {
            a.next_value_seed(AnySeed(false))?;
        }
        Ok("m".to_string())
    }
    fn visit_enum<A: EnumAccess<'de>>(self, a: A) -> Result<String, A::Error> {
        self.head("enum");
        let (_name, acc) = a.variant_seed(AnySeed(self.rec))?;
        acc.unit_variant()?;
        Ok("e".to_string())
    }
}

struct HintSeed;

impl<'de> DeserializeSeed<'de> for HintSeed {
    type Value = String;
    fn deserialize<D: Deserializer<'de>>(self, d: D) -> Result<String, D::Error> {
        let hint = HINT.with(|h| h.borrow().clone());
        let p = Probe { rec: true };
        match hint.as_str() {
            "any" => d.deserialize_any(p),
            "bool" => d.deserialize_bool(p),
            "i8" => d.deserialize_i8(p),
            "i16" => d.deserialize_i16(p),
            "i32" => d.deserialize_i32(p),
            "i64" => d.deserialize_i64(p),
            "i128" => d.deserialize_i128(p),
            "u8" => d.deserialize_u8(p),
            "u16" => d.deserialize_u16(p),
            "u32" => d.deserialize_u32(p),
            "u64" => d.deserialize_u64(p),
            "u128" => d.deserialize_u128(p),
            "f32" => d.deserialize_f32(p),
            "f64" => d.deserialize_f64(p),
            "char" => d.deserialize_char(p),
            "str" => d.deserialize_str(p),
            "string" => d.deserialize_string(p),
            "bytes" => d.deserialize_bytes(p),
            "byte_buf" => d.deserialize_byte_buf(p),
            "option" => d.deserialize_option(p),
            "unit" => d.deserialize_unit(p),
            "unit_struct" => d.deserialize_unit_struct("ProbeUnit", p),
            "newtype_struct" => d.deserialize_newtype_struct("ProbeNewtype", p),
            "seq" => d.deserialize_seq(p),
            "tuple" => d.deserialize_tuple(2, p),
            "tuple_struct" => d.deserialize_tuple_struct("ProbeTuple", 2, p),
            "map" => d.deserialize_map(p),
            "struct" => d.deserialize_struct("ProbeStruct", &["a", "b"], p),
            "enum" => d.deserialize_enum("ProbeEnum", &["a", "b"], p),
            "identifier" => d.deserialize_identifier(p),
            "ignored_any" => d.deserialize_ignored_any(p),
            h => panic!("unknown hint {}", h),
        }
    }
}

/// pos = key: field x holds a map; its FIRST key is asked with the hint, everything else is ignored
struct KeyMapSeed;
struct KeyMapVisitor;

impl<'de> DeserializeSeed<'de> for KeyMapSeed {
    type Value = String;
    fn deserialize<D: Deserializer<'de>>(self, d: D) -> Result<String, D::Error> {
        d.deserialize_map(KeyMapVisitor)
    }
}

impl<'de> Visitor<'de> for KeyMapVisitor {
    type Value = String;
    fn expecting(&self, f: &mut fmt::Formatter) -> fmt::Result {
        f.write_str("a map whose first key is probed")
    }
    fn visit_map<A: MapAccess<'de>>(self, mut a: A) -> Result<String, A::Error> {
        let k = a.next_key_seed(HintSeed)?;
        if k.is_none() {
            return Ok("nokey".to_string());
        }
        a.next_value::<IgnoredAny>()?;
        while let Some(_k) = a.next_key::<IgnoredAny>()? {
            a.next_value::<IgnoredAny>()?;
        }
        Ok("k".to_string())
    }
}

struct Doc(String);
struct DocVisitor;

impl<'de> Visitor<'de> for DocVisitor {
    type Value = String;
    fn expecting(&self, f: &mut fmt::Formatter) -> fmt::Result {
        f.write_str("a document with fields x and s")
    }
    fn visit_map<A: MapAccess<'de>>(self, mut a: A) -> Result<String, A::Error> {
        let key_pos = POS.with(|p| p.borrow().as_str() == "key");
        let mut s: Option<String> = None;
        while let Some(k) = a.next_key::<String>()? {
            if k == "x" {
                if key_pos {
                    a.next_value_seed(KeyMapSeed)?;
                } else {
                    a.next_value_seed(HintSeed)?;
                }
            } else if k == "s" {
                s = Some(a.next_value_seed(AnySeed(false))?);
            } else {
                a.next_value::<IgnoredAny>()?;
            }
        }
        Ok(s.unwrap_or_else(|| "absent".to_string()))
    }
}

impl<'de> Deserialize<'de> for Doc {
    fn deserialize<D: Deserializer<'de>>(d: D) -> Result<Self, D::Error> {
        d.deserialize_map(DocVisitor).map(Doc)
    }
}

fn finish(r: Result<Doc, jomini::Error>, want: &str) -> String {
    let heads = HEADS.with(|x| x.borrow().join(">"));
    let heads = if heads.is_empty() { "-".to_string() } else { heads };
    let st = match r {
        Ok(d) if d.0 == want => "ok",
        Ok(_) => "badw",
        Err(_) => "err",
    };
    format!("{} {}", heads, st)
}

pub fn dispatch(kind: &str, a: &[&str]) -> Option<String> {
    match (kind, a) {
        ("de.meth.bin", [path, strat, res, fl, pos, hint, _tok, h]) => {
            HEADS.with(|x| x.borrow_mut().clear());
            HINT.with(|x| *x.borrow_mut() = hint.to_string());
            POS.with(|x| *x.borrow_mut() = pos.to_string());
            let data = crate::util::unhex(h);
            let res = match crate::fams::fam_de::parse_resolver(res) {
                Ok(r) => r,
                Err(e) => return Some(crate::fams::fam_de::err_class(&e)),
            };
            let mut stats = None;
            let r = crate::fams::fam_de::run_bin::<Doc>(
                path,
                crate::fams::fam_de::parse_strategy(strat),
                &res,
                crate::fams::fam_de::parse_flavor(fl),
                &data,
                &mut stats,
            );
            Some(finish(r, "i7"))
        }
        ("de.meth.text", [path, enc, hint, _tok, h]) => {
            HEADS.with(|x| x.borrow_mut().clear());
            HINT.with(|x| *x.borrow_mut() = hint.to_string());
            POS.with(|x| *x.borrow_mut() = "value".to_string());
            let data = crate::util::unhex(h);
            let mut stats = None;
            let r = crate::fams::fam_de::run_text::<Doc>(path, crate::fams::fam_de::parse_enc(enc), &data, &mut stats);
            Some(finish(r, "s7"))
        }
        _ => None,
    }
}
