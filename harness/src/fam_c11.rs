//! family c11 (wave 4): the whole public surface of `Scalar` / `ScalarError`, against the specification
//! functions of coq/theories/ScalarSpec.v.
//!   c11.u64 / c11.i64 / c11.bool <hex>   value | ERR:<class>
//!   c11.f64 <hex>                        16 hex digits | ERR:4:<bits of the PrecisionLoss payload> | ERR:<class>
//!   c11.u64t <hex> <start> / c11.i64t <hex>   the prefix parsers: "<value> <hex of the unread rest>" | ERR:<class>
//!   c11.at <hex> <off>                   the four conversions on a slice that starts `off` bytes after an
//!                                        8-byte aligned address (and is followed by non-digit garbage)
//!   c11.pub <hexa> <hexb>                as_bytes | is_ascii | Display | Debug | == | Copy/Clone
//!   c11.err <hex>                        accessors of the ScalarError of each failing conversion
use crate::util::*;
use jomini::{Scalar, ScalarError};
use std::error::Error;

fn f64_full(s: Scalar) -> String {
    match s.to_f64() {
        Ok(v) => format!("{:016x}", v.to_bits()),
        Err(ScalarError::PrecisionLoss(p)) => format!("ERR:4:{:016x}", p.to_bits()),
        Err(e) => scalar_err(&e),
    }
}
fn u64_s(s: Scalar) -> String {
    match s.to_u64() {
        Ok(v) => v.to_string(),
        Err(e) => scalar_err(&e),
    }
}
fn i64_s(s: Scalar) -> String {
    match s.to_i64() {
        Ok(v) => v.to_string(),
        Err(e) => scalar_err(&e),
    }
}
fn bool_s(s: Scalar) -> String {
    match s.to_bool() {
        Ok(v) => v.to_string(),
        Err(e) => scalar_err(&e),
    }
}

/// Display canonicalised: exact bytes for an all-ASCII scalar; for the other branch only "the message
/// mentions the length" (the wording of the message is not part of any property).
fn display_canon(d: &[u8], shown: &str) -> String {
    if d.iter().all(|b| *b < 128) {
        hex(shown.as_bytes())
    } else {
        format!("nonascii:{}", shown.contains(&d.len().to_string()))
    }
}

fn err_acc<T>(r: Result<T, ScalarError>) -> String {
    match r {
        Ok(_) => "ok".into(),
        Err(e) => {
            let c = e.clone();
            let same = match (&e, &c) {
                // PartialEq on the payload is f64 ==; compare the bits too
                (ScalarError::PrecisionLoss(a), ScalarError::PrecisionLoss(b)) => a.to_bits() == b.to_bits() && e == c,
                _ => e == c,
            };
            let other = if matches!(e, ScalarError::AllDigits) { ScalarError::Overflow } else { ScalarError::AllDigits };
            format!(
                "{}:{}:{}:{}:{}:{}",
                scalar_err(&e),
                !e.to_string().is_empty(),
                !format!("{:?}", e).is_empty(),
                e.source().is_none(),
                same,
                e != other
            )
        }
    }
}

pub fn dispatch(kind: &str, a: &[&str]) -> Option<String> {
    let r = match (kind, a) {
        ("c11.u64", [h]) => u64_s(Scalar::new(&unhex(h))),
        ("c11.i64", [h]) => i64_s(Scalar::new(&unhex(h))),
        ("c11.bool", [h]) => bool_s(Scalar::new(&unhex(h))),
        ("c11.f64", [h]) => f64_full(Scalar::new(&unhex(h))),
        ("c11.u64t", [h, st]) => match jomini::verif_hooks::to_u64_t(&unhex(h), st.parse::<u64>().ok()?) {
            Ok((v, r)) => format!("{} {}", v, hex(r)),
            Err(e) => scalar_err(&e),
        },
        ("c11.i64t", [h]) => match jomini::verif_hooks::to_i64_t(&unhex(h)) {
            Ok((v, r)) => format!("{} {}", v, hex(r)),
            Err(e) => scalar_err(&e),
        },
        ("c11.at", [h, off]) => {
            let d = unhex(h);
            let off: usize = off.parse().ok()?;
            // an 8-byte aligned backing store; the scalar starts at `off`, is preceded by digits and followed
            // by non-digit bytes, so that a conversion that reads outside its slice (chunked fast path) shows
            let words = (off + d.len()) / 8 + 3;
            let mut store: Vec<u64> = vec![0x3939393939393939u64; words];
            let bytes: &mut [u8] = unsafe { std::slice::from_raw_parts_mut(store.as_mut_ptr() as *mut u8, words * 8) };
            bytes[off..off + d.len()].copy_from_slice(&d);
            for b in bytes[off + d.len()..].iter_mut() {
                *b = b'x';
            }
            let s = Scalar::new(&bytes[off..off + d.len()]);
            format!("{};{};{};{}", u64_s(s), i64_s(s), f64_full(s), bool_s(s))
        }
        ("c11.pub", [ha, hb]) => {
            let (da, db) = (unhex(ha), unhex(hb));
            let (sa, sb) = (Scalar::new(&da), Scalar::new(&db));
            let copy = sa; // Copy
            #[allow(clippy::clone_on_copy)]
            let cl = sa.clone();
            let shown = sa.to_string();
            let dbg = format!("{:?}", sa);
            format!(
                "{}|{}|{}|{}|{}|{}",
                hex(sa.as_bytes()),
                sa.is_ascii(),
                display_canon(&da, &shown),
                dbg.contains(&shown) && dbg.len() > shown.len(),
                sa == sb,
                copy == sa && cl == sa && copy.as_bytes().as_ptr() == da.as_ptr()
            )
        }
        ("c11.err", [h]) => {
            let d = unhex(h);
            let s = Scalar::new(&d);
            format!("{}|{}|{}|{}", err_acc(s.to_u64()), err_acc(s.to_i64()), err_acc(s.to_f64()), err_acc(s.to_bool()))
        }
        _ => return None,
    };
    Some(r)
}
