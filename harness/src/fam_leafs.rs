//! family leafs (C11, C12): to_f64, UTF-8 foundations (std), encoding.rs decoders.
use crate::util::*;
use jomini::{Scalar, Utf8Encoding, Windows1252Encoding};
use std::borrow::Cow;

fn show_cow(c: Cow<str>) -> String {
    let tag = if matches!(c, Cow::Borrowed(_)) { "B:" } else { "O:" };
    format!("{}{}", tag, hex(c.as_bytes()))
}

pub fn dispatch(kind: &str, a: &[&str]) -> Option<String> {
    let r = match (kind, a) {
        ("f64.parse", [h]) => match Scalar::new(&unhex(h)).to_f64() {
            Ok(v) => format!("{:016x}", v.to_bits()),
            Err(e) => scalar_err(&e),
        },
        ("enc.w1252", [h]) => {
            let d = unhex(h);
            show_cow(Windows1252Encoding::decode(&d))
        }
        ("enc.utf8", [h]) => {
            let d = unhex(h);
            show_cow(Utf8Encoding::decode(&d))
        }
        ("utf8.lossy", [h]) => {
            let d = unhex(h);
            show_cow(String::from_utf8_lossy(&d))
        }
        ("utf8.valid", [h]) => std::str::from_utf8(&unhex(h)).is_ok().to_string(),
        ("utf8.encode", [c]) => match c.parse::<u32>().ok().and_then(char::from_u32) {
            Some(ch) => {
                let mut b = [0u8; 4];
                hex(ch.encode_utf8(&mut b).as_bytes())
            }
            None => "none".into(),
        },
        _ => return None,
    };
    Some(r)
}
