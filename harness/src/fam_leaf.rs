//! util / data / scalar / date families.
use crate::util::*;
use jomini::common::{Date, DateHour, PdsDate, RawDate, UniformDate};
use jomini::verif_hooks as hk;
use jomini::Scalar;

fn show_raw(y: i16, m: u8, d: u8, h: u8) -> String {
    format!("ok {} {} {} {}", y, m, d, h)
}
fn show_date(d: Option<Date>) -> String {
    match d {
        Some(d) => show_raw(d.year(), d.month(), d.day(), 0),
        None => "none".into(),
    }
}
fn show_dh(d: Option<DateHour>) -> String {
    match d {
        Some(d) => show_raw(d.year(), d.month(), d.day(), d.hour()),
        None => "none".into(),
    }
}
fn show_ud(d: Option<UniformDate>) -> String {
    match d {
        Some(d) => show_raw(d.year(), d.month(), d.day(), 0),
        None => "none".into(),
    }
}
fn show_rd(d: Option<RawDate>) -> String {
    match d {
        Some(d) => show_raw(d.year(), d.month(), d.day(), d.hour()),
        None => "none".into(),
    }
}
fn p<T: std::str::FromStr>(s: &str) -> Option<T> {
    s.parse::<T>().ok()
}

pub fn dispatch(kind: &str, a: &[&str]) -> Option<String> {
    let r = match (kind, a) {
        ("util.fdp", [w]) => match hk::fast_digit_parse(p::<u64>(w)?) {
            None => "none".into(),
            Some(v) => v.to_string(),
        },
        ("util.czb", [w]) => hk::contains_zero_byte(p::<u64>(w)?).to_string(),
        ("util.cc", [w, b]) => hk::count_chunk(p::<u64>(w)?, p::<u8>(b)?).to_string(),
        ("util.lw", [w]) => hk::leading_whitespace(p::<u64>(w)?).to_string(),
        ("util.rep", [b]) => hk::repeat_byte(p::<u8>(b)?).to_string(),
        ("data.boundary", [b]) => hk::boundary(p::<u8>(b)?).to_string(),
        ("data.w1252", [b]) => (hk::windows_1252(p::<u8>(b)?) as u32).to_string(),
        ("scalar.u64", [h]) => match Scalar::new(&unhex(h)).to_u64() {
            Ok(v) => v.to_string(),
            Err(e) => scalar_err(&e),
        },
        ("scalar.i64", [h]) => match Scalar::new(&unhex(h)).to_i64() {
            Ok(v) => v.to_string(),
            Err(e) => scalar_err(&e),
        },
        ("scalar.bool", [h]) => match Scalar::new(&unhex(h)).to_bool() {
            Ok(v) => v.to_string(),
            Err(e) => scalar_err(&e),
        },
        ("scalar.u64t", [h, s]) => match hk::to_u64_t(&unhex(h), p::<u64>(s)?) {
            Ok((v, r)) => format!("{} {}", v, hex(r)),
            Err(e) => scalar_err(&e),
        },
        ("scalar.i64t", [h]) => match hk::to_i64_t(&unhex(h)) {
            Ok((v, r)) => format!("{} {}", v, hex(r)),
            Err(e) => scalar_err(&e),
        },
        ("date.parse", [h]) => show_date(Date::parse(unhex(h)).ok()),
        ("dh.parse", [h]) => show_dh(DateHour::parse(unhex(h)).ok()),
        ("ud.parse", [h]) => show_ud(UniformDate::parse(unhex(h)).ok()),
        ("raw.parse", [h]) => show_rd(RawDate::parse(unhex(h)).ok()),
        ("date.frombin", [s]) => show_date(Date::from_binary(p::<i32>(s)?)),
        ("date.frombinh", [s]) => show_date(Date::from_binary_heuristic(p::<i32>(s)?)),
        ("dh.frombin", [s]) => show_dh(DateHour::from_binary(p::<i32>(s)?)),
        ("dh.frombinh", [s]) => show_dh(DateHour::from_binary_heuristic(p::<i32>(s)?)),
        ("date.ymd", [y, m, d]) => show_date(Date::from_ymd_opt(p(y)?, p(m)?, p(d)?)),
        ("dh.ymdh", [y, m, d, h]) => show_dh(DateHour::from_ymdh_opt(p(y)?, p(m)?, p(d)?, p(h)?)),
        ("ud.ymd", [y, m, d]) => show_ud(UniformDate::from_ymd_opt(p(y)?, p(m)?, p(d)?)),
        ("raw.ymdh", [y, m, d, h]) => show_rd(RawDate::from_ymdh_opt(p(y)?, p(m)?, p(d)?, p(h)?)),
        ("date.tobin", [y, m, d]) => match Date::from_ymd_opt(p(y)?, p(m)?, p(d)?) {
            Some(x) => x.to_binary().to_string(),
            None => "invalid".into(),
        },
        ("dh.tobin", [y, m, d, h]) => match DateHour::from_ymdh_opt(p(y)?, p(m)?, p(d)?, p(h)?) {
            Some(x) => x.to_binary().to_string(),
            None => "invalid".into(),
        },
        ("date.fmt", [which, y, m, d, h]) => {
            let (y, m, d, h): (i16, u8, u8, u8) = (p(y)?, p(m)?, p(d)?, p(h)?);
            let r: Option<(String, String)> = match *which {
                "date" => Date::from_ymd_opt(y, m, d).map(|x| (x.game_fmt().to_string(), x.iso_8601().to_string())),
                "dh" => DateHour::from_ymdh_opt(y, m, d, h).map(|x| (x.game_fmt().to_string(), x.iso_8601().to_string())),
                "ud" => UniformDate::from_ymd_opt(y, m, d).map(|x| (x.game_fmt().to_string(), x.iso_8601().to_string())),
                _ => RawDate::from_ymdh_opt(y, m, d, h).map(|x| (x.game_fmt().to_string(), x.iso_8601().to_string())),
            };
            match r {
                Some((g, i)) => format!("{} {}", hex(g.as_bytes()), hex(i.as_bytes())),
                None => "invalid".into(),
            }
        }
        ("date.add", [y, m, d, n]) => match Date::from_ymd_opt(p(y)?, p(m)?, p(d)?) {
            Some(x) => {
                let r = x.add_days(p::<i32>(n)?);
                show_raw(r.year(), r.month(), r.day(), 0)
            }
            None => "invalid".into(),
        },
        ("date.until", [y, m, d, y2, m2, d2]) => {
            match (Date::from_ymd_opt(p(y)?, p(m)?, p(d)?), Date::from_ymd_opt(p(y2)?, p(m2)?, p(d2)?)) {
                (Some(a), Some(b)) => a.days_until(&b).to_string(),
                _ => "invalid".into(),
            }
        }
        ("date.cmp", [y, m, d, y2, m2, d2]) => {
            match (Date::from_ymd_opt(p(y)?, p(m)?, p(d)?), Date::from_ymd_opt(p(y2)?, p(m2)?, p(d2)?)) {
                (Some(a), Some(b)) => match a.cmp(&b) {
                    std::cmp::Ordering::Less => "lt".into(),
                    std::cmp::Ordering::Equal => "eq".into(),
                    std::cmp::Ordering::Greater => "gt".into(),
                },
                _ => "invalid".into(),
            }
        }
        _ => return None,
    };
    Some(r)
}
