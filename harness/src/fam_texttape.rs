//! Text tape family: canonical printing of TextTape tokens (shared by tape / DOM / writer / JSON
//! families: phase 1 prints the real tape, later phases hand it to the models).
use crate::util::*;
use jomini::text::Operator;
use jomini::{TextTape, TextToken};

pub fn op_code(o: &Operator) -> u8 {
    match o {
        Operator::LessThan => 0,
        Operator::LessThanEqual => 1,
        Operator::GreaterThan => 2,
        Operator::GreaterThanEqual => 3,
        Operator::NotEqual => 4,
        Operator::Exact => 5,
        Operator::Equal => 6,
        Operator::Exists => 7,
    }
}

/// `U:<hex> Q:<hex> H:<hex> P:<hex> N:<hex> O:<end>:<m> A:<end>:<m> E:<i> M OP:<code>`
pub fn show_tokens(toks: &[TextToken]) -> String {
    let mut v: Vec<String> = Vec::with_capacity(toks.len());
    for t in toks {
        v.push(match t {
            TextToken::Array { end, mixed } => format!("A:{}:{}", end, *mixed as u8),
            TextToken::Object { end, mixed } => format!("O:{}:{}", end, *mixed as u8),
            TextToken::MixedContainer => "M".to_string(),
            TextToken::Unquoted(s) => format!("U:{}", hex(s.as_bytes())),
            TextToken::Quoted(s) => format!("Q:{}", hex(s.as_bytes())),
            TextToken::Parameter(s) => format!("P:{}", hex(s.as_bytes())),
            TextToken::UndefinedParameter(s) => format!("N:{}", hex(s.as_bytes())),
            TextToken::Operator(o) => format!("OP:{}", op_code(o)),
            TextToken::End(i) => format!("E:{}", i),
            TextToken::Header(s) => format!("H:{}", hex(s.as_bytes())),
        });
    }
    if v.is_empty() {
        "-".to_string()
    } else {
        v.join(" ")
    }
}

// >>> a_c06 (C06): scalars with their pointer offsets relative to the input slice.
/// like `show_tokens`, but every scalar token is printed `<tag>@<offset>:<hex>` where offset is
/// `scalar.as_ptr() - data.as_ptr()`; `@X` when the pointer range is not inside the input slice.
pub fn show_tokens_ptr(toks: &[TextToken], data: &[u8]) -> String {
    let lo = data.as_ptr() as usize;
    let hi = lo + data.len();
    let mut v: Vec<String> = Vec::with_capacity(toks.len());
    for t in toks {
        let (tag, s) = match t {
            TextToken::Unquoted(s) => ("U", s),
            TextToken::Quoted(s) => ("Q", s),
            TextToken::Parameter(s) => ("P", s),
            TextToken::UndefinedParameter(s) => ("N", s),
            TextToken::Header(s) => ("H", s),
            other => {
                v.push(show_tokens(std::slice::from_ref(other)));
                continue;
            }
        };
        let b = s.as_bytes();
        let a = b.as_ptr() as usize;
        if a < lo || a + b.len() > hi {
            v.push(format!("{}@X:{}", tag, hex(b)));
        } else {
            v.push(format!("{}@{}:{}", tag, a - lo, hex(b)));
        }
    }
    if v.is_empty() {
        "-".to_string()
    } else {
        v.join(" ")
    }
}
// <<< a_c06

pub fn show_tape(r: &Result<TextTape, jomini::Error>) -> String {
    match r {
        Ok(t) => format!("ok {} {}", t.utf8_bom() as u8, show_tokens(t.tokens())),
        Err(_) => "ERR".to_string(),
    }
}

pub fn dispatch(kind: &str, a: &[&str]) -> Option<String> {
    let r = match (kind, a) {
        // parse into a fresh tape
        ("tt.parse", [h]) => {
            let d = unhex(h);
            let r = TextTape::from_slice(&d);
            show_tape(&r)
        }
        // parse into a tape that previously held another document
        ("tt.parse_reuse", [prev, h]) => {
            let p = unhex(prev);
            let d = unhex(h);
            let mut tape = TextTape::new();
            let _ = TextTape::parser().parse_slice_into_tape(&p, &mut tape);
            let r = TextTape::parser().parse_slice_into_tape(&d, &mut tape);
            match r {
                Ok(()) => format!("ok {} {}", tape.utf8_bom() as u8, show_tokens(tape.tokens())),
                Err(_) => "ERR".to_string(),
            }
        }
        // per-function scanners through the hooks; `pad` bytes of left padding shift the alignment
        ("tt.split", [h]) => {
            let d = unhex(h);
            let (a, b) = jomini::text::tape_verif_hooks::split_at_scalar(&d);
            format!("{} {}", hex(a), hex(b))
        }
        ("tt.split_fb", [h]) => {
            let d = unhex(h);
            let (a, b) = jomini::text::tape_verif_hooks::split_at_scalar_fallback(&d);
            format!("{} {}", hex(a), hex(b))
        }
        ("tt.quote", [h]) => {
            let d = unhex(h);
            match jomini::text::tape_verif_hooks::parse_quote_scalar(&d) {
                Some((a, b)) => format!("{} {}", hex(a), hex(b)),
                None => "ERR".to_string(),
            }
        }
        ("tt.quote_fb", [h]) => {
            let d = unhex(h);
            match jomini::text::tape_verif_hooks::parse_quote_scalar_fallback(&d) {
                Some((a, b)) => format!("{} {}", hex(a), hex(b)),
                None => "ERR".to_string(),
            }
        }
        // >>> a_c06 (C06): pointer range of every scalar vs the input slice, three entry points
        // TextTapeParser::new().parse_slice
        ("tt.ptr", [h]) => {
            let d = unhex(h);
            let r = jomini::text::TextTapeParser::new().parse_slice(&d);
            // the convenience entry point must produce the same tape
            let direct = TextTape::from_slice(&d);
            match (&r, &direct) {
                (Ok(t), Ok(t2)) => {
                    if show_tokens(t.tokens()) != show_tokens(t2.tokens()) || t.utf8_bom() != t2.utf8_bom() {
                        "from_slice-differs".to_string()
                    } else {
                        format!("ok {} {}", t.utf8_bom() as u8, show_tokens_ptr(t.tokens(), &d))
                    }
                }
                (Err(_), Err(_)) => "ERR".to_string(),
                _ => "from_slice-differs".to_string(),
            }
        }
        // parse_slice_into_tape on a tape that holds the tokens of another document (twice: the
        // previous parse may have succeeded or failed half-way, leaving tokens behind)
        ("tt.ptr_reuse", [prev, h]) => {
            let p = unhex(prev);
            let d = unhex(h);
            let mut tape = TextTape::new();
            let _ = TextTape::parser().parse_slice_into_tape(&p, &mut tape);
            let r = TextTape::parser().parse_slice_into_tape(&d, &mut tape);
            match r {
                Ok(()) => format!("ok {} {}", tape.utf8_bom() as u8, show_tokens_ptr(tape.tokens(), &d)),
                Err(_) => "ERR".to_string(),
            }
        }
        // <<< a_c06
        // >>> a_c01 (C01): a chain of parses into ONE tape (2..n documents, some rejected, some with a
        // BOM, some empty), alternating the two ways of obtaining a parser; the convenience entry point
        // `TextTapeParser::new().parse_slice` is checked against it on every step.  One field per step.
        ("tt.chain", docs) if !docs.is_empty() => {
            let bufs: Vec<Vec<u8>> = docs.iter().map(|h| unhex(h)).collect();
            let mut tape = TextTape::new();
            let mut out: Vec<String> = Vec::with_capacity(bufs.len());
            for (k, d) in bufs.iter().enumerate() {
                let r = if k % 2 == 0 {
                    TextTape::parser().parse_slice_into_tape(d, &mut tape)
                } else {
                    jomini::text::TextTapeParser::new().parse_slice_into_tape(d, &mut tape)
                };
                let s = match r {
                    Ok(()) => format!("ok {} {}", tape.utf8_bom() as u8, show_tokens(tape.tokens())),
                    Err(_) => "ERR".to_string(),
                };
                let direct = show_tape(&jomini::text::TextTapeParser::new().parse_slice(d));
                if direct != s {
                    out.push(format!("parse_slice-differs[{}]", s));
                } else {
                    out.push(s);
                }
            }
            out.join(" | ")
        }
        // Operator::symbol / name / Display of every Operator token of the tape (src/text/operator.rs)
        ("tt.ops", [h]) => {
            let d = unhex(h);
            match TextTape::from_slice(&d) {
                Ok(t) => {
                    let v: Vec<String> = t
                        .tokens()
                        .iter()
                        .filter_map(|x| match x {
                            TextToken::Operator(o) => Some(format!(
                                "{}:{}:{}:{}",
                                op_code(o),
                                hex(o.symbol().as_bytes()),
                                o.name(),
                                hex(format!("{}", o).as_bytes())
                            )),
                            _ => None,
                        })
                        .collect();
                    if v.is_empty() { "ok -".to_string() } else { format!("ok {}", v.join(" ")) }
                }
                Err(_) => "ERR".to_string(),
            }
        }
        // <<< a_c01
        _ => return None,
    };
    Some(r)
}
