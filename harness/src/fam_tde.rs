//! text serde walks (C02 stream `walk_model`): the implementation side of
//!   de.model.text <path> <enc> <shape> <hex> <aux>
//! is exactly `de.text <path> <enc> <shape> <hex>` (fam_de.rs); <aux> is the canonical tape
//! (`tt.parse`) or the reader tokens (`tr.slice`) of <hex>, obtained in a first phase and consumed
//! by the extracted model only.
pub fn dispatch(kind: &str, a: &[&str]) -> Option<String> {
    match (kind, a) {
        ("de.model.text", [path, enc, shape, h, _aux]) => crate::fams::fam_de::dispatch("de.text", &[path, enc, shape, h]),
        _ => None,
    }
}
