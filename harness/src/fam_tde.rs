//! text serde walks (C02 stream `walk_model`): the implementation side of
//!   de.model.text <path> <enc> <shape> <hex> <aux>
//! is exactly `de.text <path> <enc> <shape> <hex>` (fam_de.rs); <aux> is the canonical tape
//! (`tt.parse`) or the reader tokens (`tr.slice`) of <hex>, obtained in a first phase and consumed
//! by the extracted model only.
pub fn dispatch(kind: &str, a: &[&str]) -> Option<String> {
    match (kind, a) {
        ("de.model.text", [path, enc, shape, h, _aux]) => crate::fams::fam_de::dispatch("de.text", &[path, enc, shape, h]),
        // [w_c02] the implementation side of de.model.enum is de.text with the same struct(name*:denum(..)) shape
        ("de.model.enum", [path, enc, shape, h, _aux]) => crate::fams::fam_de::dispatch("de.text", &[path, enc, shape, h]),
        ("de.model.kmap", [path, enc, shape, h, _aux]) | ("de.model.hints", [path, enc, shape, h, _aux]) => {
            crate::fams::fam_de::dispatch("de.text", &[path, enc, shape, h])
        }
        ("de.hint", _) => dispatch_hint(kind, a),
        ("de.hint.model", _) => dispatch_hint_model(kind, a),
        _ => None,
    }
}

// ------------------------------------------------------------------------------------------------
// [a_c02, wave 4]  de.hint <path> <enc> <hint> <hex>
//
// The Deserializer methods of the two text deserializers that NO shape of fam_de.rs ever calls
// (deserialize_char / str / bytes / byte_buf / unit / unit_struct / newtype_struct / tuple_struct /
// i128 / u128 / identifier on a value, and every typed hint seen by a visitor that records WHICH
// visit_* call it received).  The document is read through the real public entry points
// (fam_de::run_text: slice | tape | objreader | reader:.. | freader:..) into
//     struct { v: <hint>, w: any }          (other keys ignored)
// where field `v` is requested with `deserialize_<hint>` and answered by a recording visitor, and
// field `w` (written AFTER v in the generated documents) shows whether the deserializer is still
// positioned correctly after v.  Output:  v=<rec> w=<rec>   | ERR:<class>
//   rec = (bool b) (i64 n) (u64 n) (i128 n) (u128 n) (f64 hex16) (str hex) (bytes hex) (unit) (none)
//         (some rec) (newtype rec) (seq rec..) (map (rec rec)..) (enum hexname) (absent)
// visit_str / visit_borrowed_str / visit_string are all printed `str` (likewise bytes): the property
// distinguishes values, not borrowing.
use serde::de::{self, Deserialize, DeserializeSeed, Deserializer, EnumAccess, IgnoredAny, MapAccess, SeqAccess, VariantAccess, Visitor};
use std::cell::RefCell;
use std::fmt;

thread_local! {
    static HINT: RefCell<String> = RefCell::new(String::new());
}

fn hx(b: &[u8]) -> String {
    if b.is_empty() {
        "-".to_string()
    } else {
        crate::util::hex(b)
    }
}

struct Probe;
struct AnySeed;
struct HintSeed(String);

impl<'de> DeserializeSeed<'de> for AnySeed {
    type Value = String;
    fn deserialize<D: Deserializer<'de>>(self, d: D) -> Result<String, D::Error> {
        d.deserialize_any(Probe)
    }
}

impl<'de> Visitor<'de> for Probe {
    type Value = String;
    fn expecting(&self, f: &mut fmt::Formatter) -> fmt::Result {
        f.write_str("anything (probe)")
    }
    fn visit_bool<E: de::Error>(self, v: bool) -> Result<String, E> {
        Ok(format!("(bool {})", v as u8))
    }
    fn visit_i64<E: de::Error>(self, v: i64) -> Result<String, E> {
        Ok(format!("(i64 {})", v))
    }
    fn visit_u64<E: de::Error>(self, v: u64) -> Result<String, E> {
        Ok(format!("(u64 {})", v))
    }
    fn visit_i128<E: de::Error>(self, v: i128) -> Result<String, E> {
        Ok(format!("(i128 {})", v))
    }
    fn visit_u128<E: de::Error>(self, v: u128) -> Result<String, E> {
        Ok(format!("(u128 {})", v))
    }
    fn visit_f64<E: de::Error>(self, v: f64) -> Result<String, E> {
        Ok(format!("(f64 {:016x})", v.to_bits()))
    }
    fn visit_str<E: de::Error>(self, v: &str) -> Result<String, E> {
        Ok(format!("(str {})", hx(v.as_bytes())))
    }
    fn visit_bytes<E: de::Error>(self, v: &[u8]) -> Result<String, E> {
        Ok(format!("(bytes {})", hx(v)))
    }
    fn visit_none<E: de::Error>(self) -> Result<String, E> {
        Ok("(none)".to_string())
    }
    fn visit_unit<E: de::Error>(self) -> Result<String, E> {
        Ok("(unit)".to_string())
    }
    fn visit_some<D: Deserializer<'de>>(self, d: D) -> Result<String, D::Error> {
        Ok(format!("(some {})", d.deserialize_any(Probe)?))
    }
    fn visit_newtype_struct<D: Deserializer<'de>>(self, d: D) -> Result<String, D::Error> {
        Ok(format!("(newtype {})", d.deserialize_any(Probe)?))
    }
    fn visit_seq<A: SeqAccess<'de>>(self, mut a: A) -> Result<String, A::Error> {
        let mut s = String::from("(seq");
        while let Some(x) = a.next_element_seed(AnySeed)? {
            s.push(' ');
            s.push_str(&x);
        }
        s.push(')');
        Ok(s)
    }
    fn visit_map<A: MapAccess<'de>>(self, mut a: A) -> Result<String, A::Error> {
        let mut s = String::from("(map");
        while let Some(k) = a.next_key_seed(AnySeed)? {
            let v = a.next_value_seed(AnySeed)?;
            s.push_str(&format!(" ({} {})", k, v));
        }
        s.push(')');
        Ok(s)
    }
    fn visit_enum<A: EnumAccess<'de>>(self, a: A) -> Result<String, A::Error> {
        let (name, acc) = a.variant::<String>()?;
        acc.unit_variant()?;
        Ok(format!("(enum {})", hx(name.as_bytes())))
    }
}

impl<'de> DeserializeSeed<'de> for HintSeed {
    type Value = String;
    fn deserialize<D: Deserializer<'de>>(self, d: D) -> Result<String, D::Error> {
        match self.0.as_str() {
            "any" => d.deserialize_any(Probe),
            "bool" => d.deserialize_bool(Probe),
            "i8" => d.deserialize_i8(Probe),
            "i16" => d.deserialize_i16(Probe),
            "i32" => d.deserialize_i32(Probe),
            "i64" => d.deserialize_i64(Probe),
            "i128" => d.deserialize_i128(Probe),
            "u8" => d.deserialize_u8(Probe),
            "u16" => d.deserialize_u16(Probe),
            "u32" => d.deserialize_u32(Probe),
            "u64" => d.deserialize_u64(Probe),
            "u128" => d.deserialize_u128(Probe),
            "f32" => d.deserialize_f32(Probe),
            "f64" => d.deserialize_f64(Probe),
            "char" => d.deserialize_char(Probe),
            "str" => d.deserialize_str(Probe),
            "string" => d.deserialize_string(Probe),
            "bytes" => d.deserialize_bytes(Probe),
            "byte_buf" => d.deserialize_byte_buf(Probe),
            "option" => d.deserialize_option(Probe),
            "unit" => d.deserialize_unit(Probe),
            "unit_struct" => d.deserialize_unit_struct("ProbeUnit", Probe),
            "newtype_struct" => d.deserialize_newtype_struct("ProbeNewtype", Probe),
            "seq" => d.deserialize_seq(Probe),
            "tuple" => d.deserialize_tuple(2, Probe),
            "tuple_struct" => d.deserialize_tuple_struct("ProbeTuple", 2, Probe),
            "map" => d.deserialize_map(Probe),
            "struct" => d.deserialize_struct("ProbeStruct", &["a", "b"], Probe),
            "enum" => d.deserialize_enum("ProbeEnum", &["a", "b"], Probe),
            "identifier" => d.deserialize_identifier(Probe),
            "ignored_any" => d.deserialize_ignored_any(Probe),
            h => panic!("unknown hint {}", h),
        }
    }
}

struct HintDoc(String);
struct HintDocV;

impl<'de> Visitor<'de> for HintDocV {
    type Value = String;
    fn expecting(&self, f: &mut fmt::Formatter) -> fmt::Result {
        f.write_str("a document with fields v and w")
    }
    fn visit_map<A: MapAccess<'de>>(self, mut a: A) -> Result<String, A::Error> {
        let hint = HINT.with(|h| h.borrow().clone());
        let mut v: Option<String> = None;
        let mut w: Option<String> = None;
        while let Some(k) = a.next_key::<String>()? {
            if k == "v" {
                v = Some(a.next_value_seed(HintSeed(hint.clone()))?);
            } else if k == "w" {
                w = Some(a.next_value_seed(AnySeed)?);
            } else {
                a.next_value::<IgnoredAny>()?;
            }
        }
        Ok(format!("v={} w={}", v.unwrap_or_else(|| "(absent)".to_string()), w.unwrap_or_else(|| "(absent)".to_string())))
    }
}

impl<'de> Deserialize<'de> for HintDoc {
    fn deserialize<D: Deserializer<'de>>(d: D) -> Result<Self, D::Error> {
        d.deserialize_map(HintDocV).map(HintDoc)
    }
}

pub fn dispatch_hint(kind: &str, a: &[&str]) -> Option<String> {
    match (kind, a) {
        ("de.hint", [path, enc, hint, h]) => {
            HINT.with(|x| *x.borrow_mut() = hint.to_string());
            let data = crate::util::unhex(h);
            let mut stats = None;
            let r = crate::fams::fam_de::run_text::<HintDoc>(path, crate::fams::fam_de::parse_enc(enc), &data, &mut stats);
            Some(match r {
                Ok(x) => x.0,
                Err(e) => crate::fams::fam_de::err_class(&e),
            })
        }
        _ => None,
    }
}

// [a_c02] de.hint.model <cls> <enc> <hint> <hex> <aux>: the implementation side of the model kind of
// ocaml/fam_tde.ml -- `de.hint` through the slice path (cls = tape) or a reader with the default buffer
// (cls = stream), reduced to what ONE deserializer step decides: the primitive visit with its payload, or the
// kind of the compound visit.
fn reduce_hint(out: &str) -> String {
    let rest = match out.strip_prefix("v=") {
        Some(r) => r,
        None => return out.to_string(),
    };
    // the record of v: up to its matching parenthesis
    let mut depth = 0usize;
    let mut end = rest.len();
    for (i, c) in rest.char_indices() {
        if c == '(' {
            depth += 1;
        } else if c == ')' {
            depth -= 1;
            if depth == 0 {
                end = i + 1;
                break;
            }
        }
    }
    let rec = &rest[..end];
    for head in ["some", "newtype", "seq", "map", "enum"] {
        if rec.starts_with(&format!("({} ", head)) || rec == format!("({})", head) {
            return format!("({})", head);
        }
    }
    rec.to_string()
}

pub fn dispatch_hint_model(kind: &str, a: &[&str]) -> Option<String> {
    match (kind, a) {
        ("de.hint.model", [cls, enc, hint, h, _aux]) => {
            let path = if *cls == "tape" { "slice" } else { "reader:32768:-" };
            dispatch_hint("de.hint", &[path, enc, hint, h]).map(|o| reduce_hint(&o))
        }
        _ => None,
    }
}
