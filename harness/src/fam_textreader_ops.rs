//! C07 (wave 4): every public entry point of text::TokenReader driven as a *list of calls* on one
//! reader -- next / read / read_bytes / position after each call / into_parts -- over every way of
//! constructing it: from_slice, new (default 32 KiB), builder().buffer_len(n), builder().buffer(b)
//! with a dirty buffer, and a buffer really recycled from a previous reader via into_parts().
use crate::fam_textreader::err_class;
use crate::fam_texttape::op_code;
use crate::util::*;
use jomini::text::{Token, TokenReader};
use std::io::Read;

fn show_tok(t: &Token) -> String {
    match t {
        Token::Open => "O".into(),
        Token::Close => "C".into(),
        Token::Operator(o) => format!("OP:{}", op_code(o)),
        Token::Unquoted(s) => format!("U:{}", hex(s.as_bytes())),
        Token::Quoted(s) => format!("Q:{}", hex(s.as_bytes())),
    }
}

/// `tr.ops` prints the results only (and the final position), `tr.opsp` also `@position()` after every
/// call: the position in the middle of the stream depends on whether the fast path swallowed the blank
/// behind an unquoted value, which the property does not fix -- it is judged by an oracle, not compared
/// with the model.
/// ops: comma separated `n` (next), `r` (read), `b<k>` (read_bytes k), `N` / `R` (next / read until
/// the end).  Every call prints its result followed by `@position()`.  Stops at the first clean
/// end or error.
fn exec<R: Read>(rd: &mut TokenReader<R>, ops: &str, limit: usize, out: &mut Vec<String>, with_pos: bool) {
    let mut budget = limit;
    for op in ops.split(',') {
        if op.is_empty() || op == "-" {
            continue;
        }
        let repeat = op == "N" || op == "R";
        loop {
            if budget == 0 {
                out.push("RUNAWAY".into());
                return;
            }
            budget -= 1;
            let mut stop = false;
            let item = if let Some(k) = op.strip_prefix('b') {
                match rd.read_bytes(k.parse::<usize>().unwrap()) {
                    Ok(b) => format!("B:{}", hex(b)),
                    Err(e) => {
                        stop = true;
                        err_class(&e).to_string()
                    }
                }
            } else if op == "r" || op == "R" {
                match rd.read() {
                    Ok(t) => show_tok(&t),
                    Err(e) => {
                        stop = true;
                        err_class(&e).to_string()
                    }
                }
            } else {
                match rd.next() {
                    Ok(Some(t)) => show_tok(&t),
                    Ok(None) => {
                        stop = true;
                        "END".to_string()
                    }
                    Err(e) => {
                        stop = true;
                        err_class(&e).to_string()
                    }
                }
            };
            if with_pos {
                out.push(format!("{}@{}", item, rd.position()));
            } else {
                out.push(item);
            }
            if stop {
                return;
            }
            if !repeat {
                break;
            }
        }
    }
}

fn p(s: &str) -> usize {
    s.parse::<usize>().unwrap()
}

fn finish(out: &mut Vec<String>, pos: usize, buf: Box<[u8]>, delivered: usize) -> String {
    out.push(format!("P{}", pos));
    out.push(format!("L{}", buf.len()));
    out.push(format!("D{}", delivered));
    out.join(" ")
}

// >>> s_c07 (wave 6): measurement kind `tr.trace` -- for every next() call the length of the window when the call
// was made (bytes delivered by the Read minus position()), the number of Read::read calls the call caused and the
// length of the token it returned.  No model counterpart: used to MEASURE which window lengths / refill counts the
// generators reach (audit/C07.md, "Size dimensions") and to assert that the ladders reach what they claim.
struct CountedRead {
    inner: SchedRead,
    stat: std::rc::Rc<std::cell::Cell<(usize, usize)>>,
}

impl Read for CountedRead {
    fn read(&mut self, buf: &mut [u8]) -> std::io::Result<usize> {
        let r = self.inner.read(buf);
        let (d, c) = self.stat.get();
        self.stat.set((d + r.as_ref().map(|x| *x).unwrap_or(0), c + 1));
        r
    }
}

fn trace<R: Read>(rd: &mut TokenReader<R>, total: usize, stat: Option<&std::rc::Rc<std::cell::Cell<(usize, usize)>>>, limit: usize) -> String {
    let mut out: Vec<String> = Vec::new();
    for _ in 0..limit {
        let (d0, c0) = stat.map(|s| s.get()).unwrap_or((total, 0));
        let w = d0 - rd.position();
        let (k, len, stop) = match rd.next() {
            Ok(Some(Token::Open)) => ('O', 1, false),
            Ok(Some(Token::Close)) => ('C', 1, false),
            Ok(Some(Token::Operator(_))) => ('P', 1, false),
            Ok(Some(Token::Unquoted(s))) => ('U', s.as_bytes().len(), false),
            Ok(Some(Token::Quoted(s))) => ('Q', s.as_bytes().len(), false),
            Ok(None) => ('E', 0, true),
            Err(_) => ('X', 0, true),
        };
        let (_, c1) = stat.map(|s| s.get()).unwrap_or((total, 0));
        out.push(format!("{}:{}:{}:{}", k, w, c1 - c0, len));
        if stop {
            break;
        }
    }
    out.join(" ")
}

pub fn dispatch_trace(kind: &str, a: &[&str]) -> Option<String> {
    match (kind, a) {
        // tr.trace <cap | new | slice> <sched> <hex>
        ("tr.trace", [cap, sched, h]) => {
            let d = unhex(h);
            let n = d.len();
            if *cap == "slice" {
                let mut rd = TokenReader::from_slice(&d);
                return Some(trace(&mut rd, n, None, n + 2));
            }
            let stat = std::rc::Rc::new(std::cell::Cell::new((0usize, 0usize)));
            let src = CountedRead { inner: SchedRead::new(d, parse_sched(sched)), stat: stat.clone() };
            let mut rd = if *cap == "new" { TokenReader::new(src) } else { TokenReader::builder().buffer_len(p(cap)).build(src) };
            Some(trace(&mut rd, n, Some(&stat), n + 2))
        }
        _ => None,
    }
}
// <<< s_c07

pub fn dispatch(kind: &str, a: &[&str]) -> Option<String> {
    // >>> s_c07 (wave 6)
    if let Some(r) = dispatch_trace(kind, a) {
        return Some(r);
    }
    // <<< s_c07
    let r = match (kind, a) {
        // tr.ops <mode> <cap> <sched> <hex> <ops>
        //   mode: slice | new | len | buf<fill byte>
        ("tr.ops", [mode, cap, sched, h, ops]) | ("tr.opsp", [mode, cap, sched, h, ops]) => {
            let wp = kind == "tr.opsp";
            let d = unhex(h);
            let n = d.len();
            let limit = 2 * n + 8 + ops.len();
            let mut out = Vec::new();
            if *mode == "slice" {
                let mut rd = TokenReader::from_slice(&d);
                exec(&mut rd, ops, limit, &mut out, wp);
                let pos = rd.position();
                let (buf, _) = rd.into_parts();
                finish(&mut out, pos, buf, 0)
            } else {
                let src = SchedRead::new(d, parse_sched(sched));
                let mut rd = if *mode == "new" {
                    TokenReader::new(src)
                } else if *mode == "len" {
                    TokenReader::builder().buffer_len(p(cap)).build(src)
                } else if let Some(f) = mode.strip_prefix("buf") {
                    let fill = f.parse::<u8>().unwrap();
                    TokenReader::builder().buffer(vec![fill; p(cap)].into_boxed_slice()).build(src)
                } else {
                    return Some("BADCASE".into());
                };
                exec(&mut rd, ops, limit, &mut out, wp);
                let pos = rd.position();
                let (buf, src) = rd.into_parts();
                finish(&mut out, pos, buf, src.delivered)
            }
        }
        // tr.opsrec <cap> <sched> <hex> <ops> <sched0> <hex0> <ops0>: a first reader with a fresh buffer of
        // <cap> bytes runs <ops0> over <hex0>; its buffer is taken back with into_parts() and given to the
        // reader under test (stale *real tokens* lie behind and in front of every window)
        ("tr.opsrec", [cap, sched, h, ops, sched0, h0, ops0]) | ("tr.opsrecp", [cap, sched, h, ops, sched0, h0, ops0]) => {
            let wp = kind == "tr.opsrecp";
            let d0 = unhex(h0);
            let n0 = d0.len();
            let mut first = TokenReader::builder().buffer_len(p(cap)).build(SchedRead::new(d0, parse_sched(sched0)));
            let mut scratch = Vec::new();
            exec(&mut first, ops0, 2 * n0 + 8 + ops0.len(), &mut scratch, false);
            let (buf, _) = first.into_parts();
            let d = unhex(h);
            let n = d.len();
            let mut out = Vec::new();
            let mut rd = TokenReader::builder().buffer(buf).build(SchedRead::new(d, parse_sched(sched)));
            exec(&mut rd, ops, 2 * n + 8 + ops.len(), &mut out, wp);
            let pos = rd.position();
            let (buf, src) = rd.into_parts();
            finish(&mut out, pos, buf, src.delivered)
        }
        _ => return None,
    };
    Some(r)
}
