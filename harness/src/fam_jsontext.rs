//! JSON family, text half (C16, wave 4): the exact bytes `to_writer` / `to_vec` / `to_string` emit,
//! for all three builders (value / object / array readers) on any node.
//!
//! json.print  <doc> <tape> <enc> <idx> <entry v|o|a> <pretty> <dup> <narrow>
//!   -> hex of the text, where every number token that is not a plain integer is first checked
//!      against the JSON number grammar (else FLOAT-LEX) and then replaced by `#<16 hex digits of
//!      the f64 it denotes>#` (the model's float printer is a parameter; ryu is not modelled);
//!      ENTRY-MISMATCH when the three entry points differ, DEFAULT-MISMATCH when `json()` without
//!      `with_options` differs from `with_options(JsonOptions::default())` (checked when the case's
//!      options are the default ones), E when the reader refuses the token, UNREACH, OUTPUT-LIMIT.
use crate::fams::fam_dom::{find_in_object, watchdog_enter, WatchdogGuard};
use crate::fams::fam_texttape::show_tokens;
use crate::util::*;
use jomini::json::{DuplicateKeyMode, JsonOptions, TypeNarrowing};
use jomini::text::ObjectReader;
use jomini::{Encoding, TextTape};

const OUT_CAP: usize = 1 << 18;

struct LimitedWriter {
    buf: Vec<u8>,
}

impl std::io::Write for LimitedWriter {
    fn write(&mut self, d: &[u8]) -> std::io::Result<usize> {
        if self.buf.len() + d.len() > OUT_CAP {
            return Err(std::io::Error::new(std::io::ErrorKind::Other, "output limit"));
        }
        self.buf.extend_from_slice(d);
        Ok(d.len())
    }
    fn flush(&mut self) -> std::io::Result<()> {
        Ok(())
    }
}

fn options(pretty: &str, dup: &str, narrow: &str) -> JsonOptions {
    JsonOptions::new()
        .with_prettyprint(pretty == "1")
        .with_duplicate_keys(match dup {
            "g" => DuplicateKeyMode::Group,
            "p" => DuplicateKeyMode::Preserve,
            _ => DuplicateKeyMode::KeyValuePairs,
        })
        .with_type_narrowing(match narrow {
            "a" => TypeNarrowing::All,
            "u" => TypeNarrowing::Unquoted,
            _ => TypeNarrowing::None,
        })
}

/// one builder kind: to_writer first (bounded), then to_vec and to_string must give the same bytes
macro_rules! three_ways {
    ($mk:expr, $opts:expr, $is_default:expr) => {{
        let mut w = LimitedWriter { buf: Vec::new() };
        match $mk.with_options($opts).to_writer(&mut w) {
            Err(_) => Err("OUTPUT-LIMIT".to_string()),
            Ok(()) => {
                let v = w.buf;
                let v2 = $mk.with_options($opts).to_vec();
                let s = $mk.with_options($opts).to_string();
                if v2 != v || s.as_bytes() != v.as_slice() {
                    Err("ENTRY-MISMATCH".to_string())
                } else if $is_default && $mk.to_string().as_bytes() != v.as_slice() {
                    Err("DEFAULT-MISMATCH".to_string())
                } else {
                    Ok(v)
                }
            }
        }
    }};
}

fn json_text<E: Encoding + Clone>(
    tape: &TextTape,
    top: ObjectReader<E>,
    idx: &str,
    entry: &str,
    opts: JsonOptions,
) -> Result<Vec<u8>, String> {
    let tokens = tape.tokens();
    let is_default = opts == JsonOptions::default() && JsonOptions::new() == JsonOptions::default();
    if idx == "top" {
        return three_ways!(top.json(), opts, is_default);
    }
    let target: usize = idx.parse().unwrap();
    let v = match find_in_object(tokens, &top, target) {
        Some(v) => v,
        None => return Err("UNREACH".to_string()),
    };
    match entry {
        "v" => three_ways!(v.json(), opts, is_default),
        "o" => match v.read_object() {
            Ok(o) => three_ways!(o.json(), opts, is_default),
            Err(_) => Err("E".to_string()),
        },
        _ => match v.read_array() {
            Ok(a) => three_ways!(a.json(), opts, is_default),
            Err(_) => Err("E".to_string()),
        },
    }
}

fn is_json_number(t: &[u8]) -> bool {
    // number = [ minus ] int [ frac ] [ exp ]
    let mut i = 0;
    if i < t.len() && t[i] == b'-' {
        i += 1;
    }
    if i >= t.len() {
        return false;
    }
    if t[i] == b'0' {
        i += 1;
    } else if t[i].is_ascii_digit() {
        while i < t.len() && t[i].is_ascii_digit() {
            i += 1;
        }
    } else {
        return false;
    }
    if i < t.len() && t[i] == b'.' {
        i += 1;
        let s = i;
        while i < t.len() && t[i].is_ascii_digit() {
            i += 1;
        }
        if i == s {
            return false;
        }
    }
    if i < t.len() && (t[i] == b'e' || t[i] == b'E') {
        i += 1;
        if i < t.len() && (t[i] == b'+' || t[i] == b'-') {
            i += 1;
        }
        let s = i;
        while i < t.len() && t[i].is_ascii_digit() {
            i += 1;
        }
        if i == s {
            return false;
        }
    }
    i == t.len()
}

/// replace the float tokens (outside strings) by `#bits#`
fn canonical_floats(text: &[u8]) -> Result<Vec<u8>, String> {
    let b = text;
    let mut out = Vec::with_capacity(b.len());
    let mut i = 0;
    while i < b.len() {
        let c = b[i];
        if c == b'"' {
            let s = i;
            i += 1;
            while i < b.len() && b[i] != b'"' {
                if b[i] == b'\\' {
                    i += 1;
                }
                i += 1;
            }
            i += 1;
            out.extend_from_slice(&b[s..i.min(b.len())]);
        } else if c == b'-' || c.is_ascii_digit() {
            let s = i;
            while i < b.len() && (b[i] == b'-' || b[i] == b'+' || b[i] == b'.' || b[i] == b'e' || b[i] == b'E' || b[i].is_ascii_digit()) {
                i += 1;
            }
            let t = &b[s..i];
            if !is_json_number(t) {
                return Err("FLOAT-LEX".to_string());
            }
            if t.iter().any(|x| *x == b'.' || *x == b'e' || *x == b'E') {
                let f: f64 = match std::str::from_utf8(t).ok().and_then(|x| x.parse().ok()) {
                    Some(f) => f,
                    None => return Err("FLOAT-LEX".to_string()),
                };
                out.extend_from_slice(format!("#{:016x}#", f.to_bits()).as_bytes());
            } else {
                out.extend_from_slice(t);
            }
        } else {
            out.push(c);
            i += 1;
        }
    }
    Ok(out)
}

pub fn dispatch(kind: &str, a: &[&str]) -> Option<String> {
    if kind != "json.print" {
        return None;
    }
    watchdog_enter();
    let _guard = WatchdogGuard;
    if a.len() != 8 {
        return Some("BADCASE".to_string());
    }
    let doc = unhex(a[0]);
    let tape = match TextTape::from_slice(&doc) {
        Ok(t) => t,
        Err(_) => return Some("ERR".to_string()),
    };
    if show_tokens(tape.tokens()) != a[1] {
        return Some("TAPE-MISMATCH".to_string());
    }
    let opts = options(a[5], a[6], a[7]);
    let text = if a[2] == "u" {
        json_text(&tape, tape.utf8_reader(), a[3], a[4], opts)
    } else {
        json_text(&tape, tape.windows1252_reader(), a[3], a[4], opts)
    };
    Some(match text {
        Err(e) => e,
        Ok(t) => match canonical_floats(&t) {
            Ok(c) => hex(&c),
            Err(e) => e,
        },
    })
}
