//! buffer.rs at storage level (wave 5, w_buf): op sequences run on the real `BufferWindow`
//! (fill_buf over a scripted Read, advance, advance_to, get, window, position, consumed_data),
//! over a dirty buffer (`builder().buffer(..)`), a zeroed one (`buffer_len`), the bufferless
//! slice window, and a buffer recycled from a previous window.  Model: coq/theories/BufStore.v.
use crate::util::*;
use jomini::verif_hooks::buffer::*;
use std::io::Read;

/// The scripted Read; when `scr` is set it also dirties the part of the slice it was handed but
/// does not report as read (std::io::Read only promises n <= buf.len()).
struct ScribbleRead {
    inner: SchedRead,
    scr: Option<u8>,
    /// answer Ok(0) without touching the schedule, although data may be left (op `z`)
    zero: bool,
}

impl Read for ScribbleRead {
    fn read(&mut self, buf: &mut [u8]) -> std::io::Result<usize> {
        if self.zero {
            if let Some(j) = self.scr {
                buf.fill(j);
            }
            return Ok(0);
        }
        match self.inner.read(buf) {
            Ok(k) => {
                if let Some(j) = self.scr {
                    buf[k..].fill(j);
                }
                Ok(k)
            }
            Err(e) => {
                if let Some(j) = self.scr {
                    buf.fill(j);
                }
                Err(e)
            }
        }
    }
}

fn observe(ev: String, w: &BufferWindow) -> String {
    format!("{}:{}@{}/{}", ev, hex(w.window()), w.position(), w.consumed_data())
}

fn two(s: &str) -> (usize, usize) {
    let mut it = s.split('.');
    let a = it.next().unwrap().parse::<usize>().unwrap();
    let b = it.next().unwrap().parse::<usize>().unwrap();
    (a, b)
}

fn run_ops(w: &mut BufferWindow, rd: &mut ScribbleRead, ops: &str, out: &mut Vec<String>) {
    for op in ops.split(',') {
        if op.is_empty() || op == "-" {
            continue;
        }
        let (c, arg) = op.split_at(1);
        match c {
            "f" | "z" => {
                rd.zero = c == "z";
                rd.scr = if arg.is_empty() { None } else { Some(u8::from_str_radix(arg, 16).unwrap()) };
                let ev = match w.fill_buf(&mut *rd) {
                    Ok(n) => format!("F{}", n),
                    Err(BufferError::Io(_)) => "IO".to_string(),
                    Err(BufferError::BufferFull) => "FULL".to_string(),
                };
                out.push(observe(ev, w));
            }
            "a" => {
                let amt = arg.parse::<usize>().unwrap() % (w.window_len() + 1);
                w.advance(amt);
                out.push(observe(format!("A{}", amt), w));
            }
            "t" => {
                let amt = arg.parse::<usize>().unwrap() % (w.window_len() + 1);
                let to = w.consumed_data() + amt;
                advance_to_offset(w, to);
                out.push(observe(format!("A{}", amt), w));
            }
            "g" => {
                let (i, j) = two(arg);
                let e = end_offset(w);
                let a = i % (e + 1);
                let b = a + j % (e - a + 1);
                let got = get_offsets(w, a, b);
                out.push(observe(format!("G{}", hex(&got)), w));
            }
            // raw ops: not resolved against the window.  Only run on the debug profile, where the
            // debug_assert!s in front of the unsafe blocks turn a violated precondition into a panic.
            "A" => {
                let k = arg.parse::<usize>().unwrap();
                w.advance(k);
                out.push(observe(format!("A{}", k), w));
            }
            "T" => {
                let p = arg.parse::<usize>().unwrap();
                let before = w.consumed_data();
                advance_to_offset(w, p);
                out.push(observe(format!("A{}", p.saturating_sub(before)), w));
            }
            "G" => {
                let (i, j) = two(arg);
                let got = get_offsets(w, i, j);
                out.push(observe(format!("G{}", hex(&got)), w));
            }
            _ => panic!("bad op"),
        }
    }
}

fn finish(out: Vec<String>) -> String {
    if out.is_empty() {
        "-".to_string()
    } else {
        out.join(" ")
    }
}

fn ops_case(a: &[&str]) -> String {
    let (mode, spec, h, sched, ops) = (a[0], a[1], a[2], a[3], a[4]);
    let data = unhex(h);
    let mut rd = ScribbleRead { inner: SchedRead::new(data.clone(), parse_sched(sched)), scr: None, zero: false };
    let mut out = Vec::new();
    match mode {
        "buf" => {
            let mut w = BufferWindowBuilder::default().buffer(unhex(spec).into_boxed_slice()).build();
            run_ops(&mut w, &mut rd, ops, &mut out);
        }
        "len" => {
            let mut w = BufferWindowBuilder::default().buffer_len(spec.parse::<usize>().unwrap()).build();
            run_ops(&mut w, &mut rd, ops, &mut out);
        }
        "slice" => {
            let mut w = BufferWindow::from_slice(&data);
            run_ops(&mut w, &mut rd, ops, &mut out);
        }
        _ => panic!("bad mode"),
    }
    finish(out)
}

fn rec_case(a: &[&str]) -> String {
    let (spec, h1, sched1, ops1, h2, sched2, ops2) = (a[0], a[1], a[2], a[3], a[4], a[5], a[6]);
    let mut rd1 = ScribbleRead { inner: SchedRead::new(unhex(h1), parse_sched(sched1)), scr: None, zero: false };
    let mut w1 = BufferWindowBuilder::default().buffer(unhex(spec).into_boxed_slice()).build();
    let mut scratch = Vec::new();
    run_ops(&mut w1, &mut rd1, ops1, &mut scratch);
    // what TokenReader::into_parts hands back
    let recycled = w1.buf;
    let mut rd2 = ScribbleRead { inner: SchedRead::new(unhex(h2), parse_sched(sched2)), scr: None, zero: false };
    let mut w2 = BufferWindowBuilder::default().buffer(recycled).build();
    let mut out = Vec::new();
    run_ops(&mut w2, &mut rd2, ops2, &mut out);
    finish(out)
}

pub fn dispatch(kind: &str, a: &[&str]) -> Option<String> {
    match kind {
        "bs.ops" | "bs.abs" if a.len() == 5 => Some(ops_case(a)),
        "bs.rec" if a.len() == 7 => Some(rec_case(a)),
        _ => None,
    }
}
