//! serde deserializer family (C02, C04, C10, C18, C20).
//!
//! A *runtime-shape* deserializer interpreter: the target type is a case argument (`Shape`), not
//! a fixed set of Rust structs.  `DynValue` implements `serde::Deserialize` by interpreting the
//! shape on top of a thread-local stack, so that the real public generic entry points of jomini
//! (`from_windows1252_slice::<T>`, `ObjectReader::deserialize::<T>`, `deserialize_tape::<_, T>`,
//! ...) are what is exercised.  Primitive shapes delegate to serde's own `Deserialize` impls
//! (`u64`, `String`, `bool`, ...), so serde's primitive visitor coercions are the real ones.
//!
//! Kinds
//!   de.text  <path> <enc> <shape> <hex>
//!       path = slice | tape | objreader[@k] | reader:<buflen>:<sched>
//!       enc  = w1252 | utf8
//!   de.bin   <path> <strategy> <resolver> <flavor> <shape> <hex>
//!       path = tape | slice | reader:<buflen>:<sched>
//!       strategy = error | stringify | ignore
//!       resolver = map:<id>=<hexname>,... | lines:<id>=<hexname>,... | rawlines:<hex of file> ("-" = empty)
//!       flavor = eu4 (windows-1252, fixed point floats) | raw (utf-8, IEEE floats)
//!   de.calls.text / de.calls.bin : same arguments, prints the number of read calls issued and the
//!       bytes delivered by the scripted `Read` (reader paths only).
//!   de.resolver <resolver> <id>,<id>,... : what the resolver answers (line parser of
//!       BasicTokenResolver::from_text_lines).
//!
//! sched = <base>[@<k>F|@<k>P]   base = "-" (always fill) | n,n,F,n[*]  ("*" = cycle, otherwise
//!       full reads afterwards); `F` = one-shot fault, `P` = persistent fault; `@kF` injects a fault
//!       at read-call index k (0-based) on top of the base schedule.
//!
//! Output: the value as an s-expression, or `ERR:<class>` with class in
//!   io eof full syntax dup missing unktoken de.
use crate::util::*;
use jomini::binary::{BasicTokenResolver, BinaryFlavor, FailedResolveStrategy, TokenResolver};
use jomini::text::ObjectReader;
use jomini::{BinaryDeserializer, BinaryTape, Encoding, TextDeserializer, TextTape, Utf8Encoding, Windows1252Encoding};
use serde::de::{self, DeserializeOwned, DeserializeSeed, Deserializer, IgnoredAny, MapAccess, SeqAccess, Visitor};
use serde::Deserialize;
use std::cell::{Cell, RefCell};
use std::collections::HashMap;
use std::fmt;
use std::io::Read;
use std::rc::Rc;

// ---------------------------------------------------------------------------------- shapes
#[derive(Debug, Clone, Copy, PartialEq)]
pub enum Mode {
    Once,
    Collect,
    Last,
}

#[derive(Debug)]
pub struct Field {
    pub name: &'static str,
    pub token: Option<u16>,
    pub mode: Mode,
    pub shape: Shape,
}

#[derive(Debug)]
pub enum Shape {
    Str,
    Bool,
    U(u8),
    I(u8),
    F32,
    F64,
    Date,
    DateHour,
    Opt(Box<Shape>),
    Seq(Box<Shape>),
    Tup(Vec<Shape>),
    Map(Box<Shape>),
    Struct { fields: Vec<Field>, names: &'static [&'static str], token: bool },
    Prop(Box<Shape>),
    Enum(&'static [&'static str]),
    Any,
    Ignore,
    // >>> a_c04 (wave 4): one shape per remaining `Deserializer` method, size hints, typed map keys
    Char,
    Unit,
    UnitStruct,
    Newtype(Box<Shape>),
    TupS(Vec<Shape>),
    Bytes,
    ByteBuf,
    SRef,
    BRef,
    Ident,
    U128,
    I128,
    HSeq(Box<Shape>),
    HMap(Box<Shape>),
    KMap(Box<Shape>, Box<Shape>),
    // <<< a_c04
    // >>> w_c02 (wave 5): an enum with data-carrying variants (externally tagged, as serde-derive generates)
    DEnum { names: &'static [&'static str], variants: Vec<VShape> },
    // <<< w_c02
}

// >>> w_c02 (wave 5)
/// the payload of one enum variant
#[derive(Debug)]
pub enum VShape {
    Unit,
    Newtype(Box<Shape>),
    Tuple(Vec<Shape>),
    Struct { fields: Vec<Field>, names: &'static [&'static str] },
}
// <<< w_c02

thread_local! {
    static INTERN: RefCell<HashMap<String, &'static str>> = RefCell::new(HashMap::new());
    static INTERN_L: RefCell<HashMap<Vec<&'static str>, &'static [&'static str]>> = RefCell::new(HashMap::new());
    static STACK: RefCell<Vec<*const Shape>> = RefCell::new(Vec::new());
}

/// serde wants `&'static str` names; leak them once per distinct string (test harness).
fn intern(s: &str) -> &'static str {
    INTERN.with(|m| {
        let mut m = m.borrow_mut();
        if let Some(x) = m.get(s) {
            return *x;
        }
        let l: &'static str = Box::leak(s.to_string().into_boxed_str());
        m.insert(s.to_string(), l);
        l
    })
}

fn intern_list(v: Vec<&'static str>) -> &'static [&'static str] {
    INTERN_L.with(|m| {
        let mut m = m.borrow_mut();
        if let Some(x) = m.get(&v) {
            return *x;
        }
        let l: &'static [&'static str] = Box::leak(v.clone().into_boxed_slice());
        m.insert(v, l);
        l
    })
}

struct P<'a> {
    s: &'a [u8],
    i: usize,
}

impl<'a> P<'a> {
    fn peek(&self) -> u8 {
        if self.i < self.s.len() {
            self.s[self.i]
        } else {
            0
        }
    }
    fn eat(&mut self, c: u8) {
        if self.peek() != c {
            panic!("shape syntax: expected {} at {}", c as char, self.i);
        }
        self.i += 1;
    }
    fn word(&mut self) -> &'a str {
        let st = self.i;
        while self.i < self.s.len() && (self.s[self.i].is_ascii_alphanumeric() || self.s[self.i] == b'-') {
            self.i += 1;
        }
        std::str::from_utf8(&self.s[st..self.i]).unwrap()
    }
    fn hexname(&mut self) -> &'static str {
        let w = self.word();
        let b = unhex(w);
        intern(std::str::from_utf8(&b).expect("utf8 name"))
    }
    fn shape(&mut self) -> Shape {
        let w = self.word();
        match w {
            "str" => Shape::Str,
            "bool" => Shape::Bool,
            "u8" => Shape::U(8),
            "u16" => Shape::U(16),
            "u32" => Shape::U(32),
            "u64" => Shape::U(64),
            "i8" => Shape::I(8),
            "i16" => Shape::I(16),
            "i32" => Shape::I(32),
            "i64" => Shape::I(64),
            "f32" => Shape::F32,
            "f64" => Shape::F64,
            "date" => Shape::Date,
            "dh" => Shape::DateHour,
            "any" => Shape::Any,
            "ign" => Shape::Ignore,
            // >>> a_c04
            "char" => Shape::Char,
            "unit" => Shape::Unit,
            "ustruct" => Shape::UnitStruct,
            "bytes" => Shape::Bytes,
            "bytebuf" => Shape::ByteBuf,
            "sref" => Shape::SRef,
            "bref" => Shape::BRef,
            "ident" => Shape::Ident,
            "u128" => Shape::U128,
            "i128" => Shape::I128,
            "newtype" | "hseq" | "hmap" => {
                self.eat(b'(');
                let s = Box::new(self.shape());
                self.eat(b')');
                match w {
                    "newtype" => Shape::Newtype(s),
                    "hseq" => Shape::HSeq(s),
                    _ => Shape::HMap(s),
                }
            }
            "kmap" => {
                self.eat(b'(');
                let k = Box::new(self.shape());
                self.eat(b',');
                let v = Box::new(self.shape());
                self.eat(b')');
                Shape::KMap(k, v)
            }
            "tups" => {
                self.eat(b'(');
                let mut v = Vec::new();
                while self.peek() != b')' {
                    v.push(self.shape());
                    if self.peek() == b',' {
                        self.i += 1;
                    }
                }
                self.eat(b')');
                Shape::TupS(v)
            }
            // <<< a_c04
            // >>> w_c02: denum(<hexname>:u, <hexname>:n:<shape>, <hexname>:t:tup(..), <hexname>:s:struct(..))
            "denum" => {
                self.eat(b'(');
                let mut names = Vec::new();
                let mut variants = Vec::new();
                while self.peek() != b')' {
                    names.push(self.hexname());
                    self.eat(b':');
                    let k = self.word();
                    variants.push(match k {
                        "u" => VShape::Unit,
                        "n" => {
                            self.eat(b':');
                            VShape::Newtype(Box::new(self.shape()))
                        }
                        "t" => {
                            self.eat(b':');
                            match self.shape() {
                                Shape::Tup(v) => VShape::Tuple(v),
                                _ => panic!("shape syntax: tuple variant wants tup(..)"),
                            }
                        }
                        "s" => {
                            self.eat(b':');
                            match self.shape() {
                                Shape::Struct { fields, names, token: false } => VShape::Struct { fields, names },
                                _ => panic!("shape syntax: struct variant wants struct(..)"),
                            }
                        }
                        _ => panic!("shape syntax: variant kind {:?}", k),
                    });
                    if self.peek() == b',' {
                        self.i += 1;
                    }
                }
                self.eat(b')');
                Shape::DEnum { names: intern_list(names), variants }
            }
            // <<< w_c02
            "opt" | "seq" | "map" | "prop" => {
                self.eat(b'(');
                let s = Box::new(self.shape());
                self.eat(b')');
                match w {
                    "opt" => Shape::Opt(s),
                    "seq" => Shape::Seq(s),
                    "map" => Shape::Map(s),
                    _ => Shape::Prop(s),
                }
            }
            "tup" => {
                self.eat(b'(');
                let mut v = Vec::new();
                while self.peek() != b')' {
                    v.push(self.shape());
                    if self.peek() == b',' {
                        self.i += 1;
                    }
                }
                self.eat(b')');
                Shape::Tup(v)
            }
            "enum" => {
                self.eat(b'(');
                let mut v = Vec::new();
                while self.peek() != b')' {
                    v.push(self.hexname());
                    if self.peek() == b',' {
                        self.i += 1;
                    }
                }
                self.eat(b')');
                Shape::Enum(intern_list(v))
            }
            "struct" | "tstruct" => {
                self.eat(b'(');
                let mut fields = Vec::new();
                while self.peek() != b')' {
                    let name = self.hexname();
                    let mut token = None;
                    if self.peek() == b'#' {
                        self.i += 1;
                        token = Some(u16::from_str_radix(self.word(), 16).expect("token"));
                    }
                    let mode = match self.peek() {
                        b'*' => {
                            self.i += 1;
                            Mode::Collect
                        }
                        b'!' => {
                            self.i += 1;
                            Mode::Last
                        }
                        _ => Mode::Once,
                    };
                    self.eat(b':');
                    let shape = self.shape();
                    fields.push(Field { name, token, mode, shape });
                    if self.peek() == b',' {
                        self.i += 1;
                    }
                }
                self.eat(b')');
                let names = intern_list(fields.iter().map(|f| f.name).collect());
                Shape::Struct { fields, names, token: w == "tstruct" }
            }
            _ => panic!("shape syntax: unknown word {:?}", w),
        }
    }
}

pub fn parse_shape(s: &str) -> Shape {
    let mut p = P { s: s.as_bytes(), i: 0 };
    let r = p.shape();
    if p.i != s.len() {
        panic!("shape syntax: trailing input");
    }
    r
}

// ---------------------------------------------------------------------------------- values
#[derive(Debug)]
pub enum Value {
    Str(String),
    Bytes(Vec<u8>),
    Bool(bool),
    U(u64),
    I(i64),
    F32(f32),
    F64(f64),
    Date(i16, u8, u8, u8),
    None,
    Some(Box<Value>),
    Unit,
    Ign,
    Seq(Vec<Value>),
    Map(Vec<(String, Value)>),
    AMap(Vec<(Value, Value)>),
    Struct(Vec<(&'static str, Value)>),
    Prop(u8, Box<Value>),
    Enum(&'static str),
    // >>> a_c04
    Char(char),
    BigU(u128),
    BigI(i128),
    /// the size hints seen before every next_element / next_key call, then the value
    Hint(Vec<Option<usize>>, Box<Value>),
    // <<< a_c04
    // >>> w_c02
    Variant(&'static str, Box<Value>),
    // <<< w_c02
}

pub fn show_value(v: &Value, o: &mut String) {
    use std::fmt::Write;
    match v {
        Value::Str(s) => {
            let _ = write!(o, "(str {})", hex(s.as_bytes()));
        }
        Value::Bytes(s) => {
            let _ = write!(o, "(bytes {})", hex(s));
        }
        Value::Bool(b) => {
            let _ = write!(o, "(bool {})", *b as u8);
        }
        Value::U(n) => {
            let _ = write!(o, "(u {})", n);
        }
        Value::I(n) => {
            let _ = write!(o, "(i {})", n);
        }
        Value::F32(f) => {
            let _ = write!(o, "(f32 {:08x})", f.to_bits());
        }
        Value::F64(f) => {
            let _ = write!(o, "(f64 {:016x})", f.to_bits());
        }
        Value::Date(y, m, d, h) => {
            let _ = write!(o, "(date {} {} {} {})", y, m, d, h);
        }
        Value::None => o.push_str("(none)"),
        Value::Some(x) => {
            o.push_str("(some ");
            show_value(x, o);
            o.push(')');
        }
        Value::Unit => o.push_str("(unit)"),
        Value::Ign => o.push_str("(ign)"),
        Value::Seq(xs) => {
            o.push_str("(seq");
            for x in xs {
                o.push(' ');
                show_value(x, o);
            }
            o.push(')');
        }
        Value::Map(xs) => {
            o.push_str("(map");
            for (k, x) in xs {
                let _ = write!(o, " ({} ", hex(k.as_bytes()));
                show_value(x, o);
                o.push(')');
            }
            o.push(')');
        }
        Value::AMap(xs) => {
            o.push_str("(amap");
            for (k, x) in xs {
                o.push_str(" (");
                show_value(k, o);
                o.push(' ');
                show_value(x, o);
                o.push(')');
            }
            o.push(')');
        }
        Value::Struct(xs) => {
            o.push_str("(struct");
            for (k, x) in xs {
                let _ = write!(o, " ({} ", hex(k.as_bytes()));
                show_value(x, o);
                o.push(')');
            }
            o.push(')');
        }
        Value::Prop(op, x) => {
            let _ = write!(o, "(prop {} ", op);
            show_value(x, o);
            o.push(')');
        }
        Value::Enum(s) => {
            let _ = write!(o, "(enum {})", hex(s.as_bytes()));
        }
        // >>> a_c04
        Value::Char(c) => {
            let mut b = [0u8; 4];
            let _ = write!(o, "(char {})", hex(c.encode_utf8(&mut b).as_bytes()));
        }
        Value::BigU(n) => {
            let _ = write!(o, "(u {})", n);
        }
        Value::BigI(n) => {
            let _ = write!(o, "(i {})", n);
        }
        Value::Hint(h, x) => {
            let hs: Vec<String> = h.iter().map(|x| x.map(|n| n.to_string()).unwrap_or_else(|| "-".to_string())).collect();
            let _ = write!(o, "(hint {} ", hs.join(","));
            show_value(x, o);
            o.push(')');
        }
        // <<< a_c04
        // >>> w_c02
        Value::Variant(n, x) => {
            let _ = write!(o, "(variant {} ", hex(n.as_bytes()));
            show_value(x, o);
            o.push(')');
        }
        // <<< w_c02
    }
}

// ---------------------------------------------------------------------------------- interpreter
/// `Deserialize` driven by the shape on top of the thread-local stack.
pub struct DynValue(pub Value);

fn with_shape<R>(sh: &Shape, f: impl FnOnce() -> R) -> R {
    STACK.with(|s| s.borrow_mut().push(sh as *const Shape));
    struct Guard;
    impl Drop for Guard {
        fn drop(&mut self) {
            STACK.with(|s| {
                s.borrow_mut().pop();
            });
        }
    }
    let _g = Guard;
    f()
}

impl<'de> Deserialize<'de> for DynValue {
    fn deserialize<D: Deserializer<'de>>(d: D) -> Result<Self, D::Error> {
        let p = STACK.with(|s| *s.borrow().last().expect("shape stack empty"));
        // the pointee outlives the call: with_shape's caller holds the borrow
        let sh: &Shape = unsafe { &*p };
        Seed(sh).deserialize(d).map(DynValue)
    }
}

#[derive(Clone, Copy)]
struct Seed<'s>(&'s Shape);

impl<'de, 's> DeserializeSeed<'de> for Seed<'s> {
    type Value = Value;
    fn deserialize<D: Deserializer<'de>>(self, d: D) -> Result<Value, D::Error> {
        use jomini::common::PdsDate;
        match self.0 {
            Shape::Str => String::deserialize(d).map(Value::Str),
            Shape::Bool => bool::deserialize(d).map(Value::Bool),
            Shape::U(8) => u8::deserialize(d).map(|x| Value::U(x as u64)),
            Shape::U(16) => u16::deserialize(d).map(|x| Value::U(x as u64)),
            Shape::U(32) => u32::deserialize(d).map(|x| Value::U(x as u64)),
            Shape::U(_) => u64::deserialize(d).map(Value::U),
            Shape::I(8) => i8::deserialize(d).map(|x| Value::I(x as i64)),
            Shape::I(16) => i16::deserialize(d).map(|x| Value::I(x as i64)),
            Shape::I(32) => i32::deserialize(d).map(|x| Value::I(x as i64)),
            Shape::I(_) => i64::deserialize(d).map(Value::I),
            Shape::F32 => f32::deserialize(d).map(Value::F32),
            Shape::F64 => f64::deserialize(d).map(Value::F64),
            Shape::Date => jomini::common::Date::deserialize(d).map(|x| Value::Date(x.year(), x.month(), x.day(), 0)),
            Shape::DateHour => jomini::common::DateHour::deserialize(d).map(|x| Value::Date(x.year(), x.month(), x.day(), x.hour())),
            Shape::Opt(s) => d.deserialize_option(OptV(s)),
            Shape::Seq(s) => d.deserialize_seq(SeqV(s)),
            Shape::Tup(v) => d.deserialize_tuple(v.len(), TupV(v)),
            Shape::Map(s) => d.deserialize_map(MapV(s)),
            Shape::Struct { fields, names, token } => d.deserialize_struct("DynStruct", names, StructV { fields, token: *token }),
            Shape::Prop(s) => {
                // the real serde-derived `Property<T>`; T = DynValue reads the inner shape
                let r = with_shape(s, || jomini::text::Property::<DynValue>::deserialize(d));
                r.map(|p| {
                    let op = crate::fams::fam_texttape::op_code(&p.operator());
                    Value::Prop(op, Box::new(p.into_value().0))
                })
            }
            Shape::Enum(vars) => d.deserialize_enum("DynEnum", vars, EnumV(vars)),
            Shape::Any => d.deserialize_any(AnyV),
            Shape::Ignore => IgnoredAny::deserialize(d).map(|_| Value::Ign),
            // >>> a_c04
            Shape::Char => char::deserialize(d).map(Value::Char),
            Shape::Unit => <()>::deserialize(d).map(|_| Value::Unit),
            Shape::UnitStruct => d.deserialize_unit_struct("DynUnit", UnitV),
            Shape::Newtype(s) => d.deserialize_newtype_struct("DynNewtype", NewtypeV(s)),
            Shape::TupS(v) => d.deserialize_tuple_struct("DynTupS", v.len(), TupV(v)),
            Shape::Bytes => d.deserialize_bytes(AnyV),
            Shape::ByteBuf => d.deserialize_byte_buf(AnyV),
            Shape::SRef => d.deserialize_str(StrV),
            // serde's own `&'de str`: only a BORROWED string is accepted (visit_borrowed_str)
            Shape::BRef => <&'de str as serde::Deserialize<'de>>::deserialize(d).map(|x| Value::Str(x.to_string())),
            Shape::Ident => d.deserialize_identifier(StrV),
            Shape::U128 => u128::deserialize(d).map(Value::BigU),
            Shape::I128 => i128::deserialize(d).map(Value::BigI),
            Shape::HSeq(s) => d.deserialize_seq(HSeqV(s)),
            Shape::HMap(s) => d.deserialize_map(HMapV(s)),
            Shape::KMap(k, v) => d.deserialize_map(KMapV(k, v)),
            // <<< a_c04
            // >>> w_c02
            Shape::DEnum { names, variants } => d.deserialize_enum("DynDEnum", names, DEnumV { names, variants }),
            // <<< w_c02
        }
    }
}

// >>> a_c04: visitors of the added shapes (what serde / serde_derive generate for the corresponding Rust types)
/// unit struct: like serde_derive's visitor, only visit_unit
struct UnitV;
impl<'de> Visitor<'de> for UnitV {
    type Value = Value;
    fn expecting(&self, f: &mut fmt::Formatter) -> fmt::Result {
        f.write_str("unit struct DynUnit")
    }
    fn visit_unit<E: de::Error>(self) -> Result<Value, E> {
        Ok(Value::Unit)
    }
}

/// newtype struct: like serde_derive's visitor, visit_newtype_struct and visit_seq (first element)
struct NewtypeV<'s>(&'s Shape);
impl<'de, 's> Visitor<'de> for NewtypeV<'s> {
    type Value = Value;
    fn expecting(&self, f: &mut fmt::Formatter) -> fmt::Result {
        f.write_str("tuple struct DynNewtype")
    }
    fn visit_newtype_struct<D: Deserializer<'de>>(self, d: D) -> Result<Value, D::Error> {
        Seed(self.0).deserialize(d)
    }
    fn visit_seq<A: SeqAccess<'de>>(self, mut a: A) -> Result<Value, A::Error> {
        match a.next_element_seed(Seed(self.0))? {
            Some(x) => Ok(x),
            None => Err(de::Error::invalid_length(0, &self)),
        }
    }
}

/// `&str` / `Cow<str>` / identifier-like targets: strings only, however they are handed over
struct StrV;
impl<'de> Visitor<'de> for StrV {
    type Value = Value;
    fn expecting(&self, f: &mut fmt::Formatter) -> fmt::Result {
        f.write_str("a string")
    }
    fn visit_str<E: de::Error>(self, v: &str) -> Result<Value, E> {
        Ok(Value::Str(v.to_string()))
    }
}

/// Vec<T>-like visitor that also records SeqAccess::size_hint before every step
struct HSeqV<'s>(&'s Shape);
impl<'de, 's> Visitor<'de> for HSeqV<'s> {
    type Value = Value;
    fn expecting(&self, f: &mut fmt::Formatter) -> fmt::Result {
        f.write_str("a sequence")
    }
    fn visit_seq<A: SeqAccess<'de>>(self, mut a: A) -> Result<Value, A::Error> {
        let mut v = Vec::new();
        let mut h = vec![a.size_hint()];
        while let Some(x) = a.next_element_seed(Seed(self.0))? {
            v.push(x);
            h.push(a.size_hint());
        }
        Ok(Value::Hint(h, Box::new(Value::Seq(v))))
    }
}

/// HashMap<String, T>-like visitor that also records MapAccess::size_hint before every step
struct HMapV<'s>(&'s Shape);
impl<'de, 's> Visitor<'de> for HMapV<'s> {
    type Value = Value;
    fn expecting(&self, f: &mut fmt::Formatter) -> fmt::Result {
        f.write_str("a map")
    }
    fn visit_map<A: MapAccess<'de>>(self, mut a: A) -> Result<Value, A::Error> {
        let mut v = Vec::new();
        let mut h = vec![a.size_hint()];
        while let Some(k) = a.next_key::<String>()? {
            let x = a.next_value_seed(Seed(self.0))?;
            v.push((k, x));
            h.push(a.size_hint());
        }
        Ok(Value::Hint(h, Box::new(Value::Map(v))))
    }
}

/// HashMap<K, T>-like visitor with a typed key
struct KMapV<'s>(&'s Shape, &'s Shape);
impl<'de, 's> Visitor<'de> for KMapV<'s> {
    type Value = Value;
    fn expecting(&self, f: &mut fmt::Formatter) -> fmt::Result {
        f.write_str("a map")
    }
    fn visit_map<A: MapAccess<'de>>(self, mut a: A) -> Result<Value, A::Error> {
        let mut v = Vec::new();
        while let Some(k) = a.next_key_seed(Seed(self.0))? {
            let x = a.next_value_seed(Seed(self.1))?;
            v.push((k, x));
        }
        Ok(Value::AMap(v))
    }
}
// <<< a_c04

struct OptV<'s>(&'s Shape);
impl<'de, 's> Visitor<'de> for OptV<'s> {
    type Value = Value;
    fn expecting(&self, f: &mut fmt::Formatter) -> fmt::Result {
        f.write_str("option")
    }
    fn visit_none<E: de::Error>(self) -> Result<Value, E> {
        Ok(Value::None)
    }
    fn visit_unit<E: de::Error>(self) -> Result<Value, E> {
        Ok(Value::None)
    }
    fn visit_some<D: Deserializer<'de>>(self, d: D) -> Result<Value, D::Error> {
        Seed(self.0).deserialize(d).map(|v| Value::Some(Box::new(v)))
    }
}

struct SeqV<'s>(&'s Shape);
impl<'de, 's> Visitor<'de> for SeqV<'s> {
    type Value = Value;
    fn expecting(&self, f: &mut fmt::Formatter) -> fmt::Result {
        f.write_str("a sequence")
    }
    fn visit_seq<A: SeqAccess<'de>>(self, mut a: A) -> Result<Value, A::Error> {
        let mut v = Vec::new();
        while let Some(x) = a.next_element_seed(Seed(self.0))? {
            v.push(x);
        }
        Ok(Value::Seq(v))
    }
}

struct TupV<'s>(&'s [Shape]);
impl<'de, 's> Visitor<'de> for TupV<'s> {
    type Value = Value;
    fn expecting(&self, f: &mut fmt::Formatter) -> fmt::Result {
        f.write_str("a tuple")
    }
    fn visit_seq<A: SeqAccess<'de>>(self, mut a: A) -> Result<Value, A::Error> {
        // like serde's tuple visitors: exactly n elements are requested, the end is not probed
        let mut v = Vec::new();
        for (i, s) in self.0.iter().enumerate() {
            match a.next_element_seed(Seed(s))? {
                Some(x) => v.push(x),
                None => return Err(de::Error::invalid_length(i, &self)),
            }
        }
        Ok(Value::Seq(v))
    }
}

struct MapV<'s>(&'s Shape);
impl<'de, 's> Visitor<'de> for MapV<'s> {
    type Value = Value;
    fn expecting(&self, f: &mut fmt::Formatter) -> fmt::Result {
        f.write_str("a map")
    }
    fn visit_map<A: MapAccess<'de>>(self, mut a: A) -> Result<Value, A::Error> {
        let mut v = Vec::new();
        while let Some(k) = a.next_key::<String>()? {
            let x = a.next_value_seed(Seed(self.0))?;
            v.push((k, x));
        }
        Ok(Value::Map(v))
    }
}

/// field identifier: like the `__FieldVisitor` generated by JominiDeserialize (visit_str matches
/// the name, visit_u16 matches the token); requested through deserialize_u16 when the struct is a
/// token struct and through deserialize_identifier otherwise.
struct FieldSeed<'s> {
    fields: &'s [Field],
    token: bool,
}
impl<'de, 's> DeserializeSeed<'de> for FieldSeed<'s> {
    type Value = Option<usize>;
    fn deserialize<D: Deserializer<'de>>(self, d: D) -> Result<Option<usize>, D::Error> {
        if self.token {
            d.deserialize_u16(self)
        } else {
            d.deserialize_identifier(self)
        }
    }
}
impl<'de, 's> Visitor<'de> for FieldSeed<'s> {
    type Value = Option<usize>;
    fn expecting(&self, f: &mut fmt::Formatter) -> fmt::Result {
        f.write_str("field identifier")
    }
    fn visit_str<E: de::Error>(self, v: &str) -> Result<Option<usize>, E> {
        Ok(self.fields.iter().position(|f| f.name == v))
    }
    fn visit_u16<E: de::Error>(self, v: u16) -> Result<Option<usize>, E> {
        Ok(self.fields.iter().position(|f| f.token == Some(v)))
    }
}

struct StructV<'s> {
    fields: &'s [Field],
    token: bool,
}
impl<'de, 's> Visitor<'de> for StructV<'s> {
    type Value = Value;
    fn expecting(&self, f: &mut fmt::Formatter) -> fmt::Result {
        f.write_str("struct DynStruct")
    }
    fn visit_map<A: MapAccess<'de>>(self, mut a: A) -> Result<Value, A::Error> {
        let n = self.fields.len();
        let mut slots: Vec<Option<Value>> = (0..n).map(|_| None).collect();
        let mut coll: Vec<Vec<Value>> = (0..n).map(|_| Vec::new()).collect();
        while let Some(k) = a.next_key_seed(FieldSeed { fields: self.fields, token: self.token })? {
            match k {
                None => {
                    a.next_value::<IgnoredAny>()?;
                }
                Some(i) => {
                    let f = &self.fields[i];
                    match f.mode {
                        Mode::Once => {
                            if slots[i].is_some() {
                                return Err(de::Error::duplicate_field(f.name));
                            }
                            slots[i] = Some(a.next_value_seed(Seed(&f.shape))?);
                        }
                        Mode::Last => {
                            slots[i] = Some(a.next_value_seed(Seed(&f.shape))?);
                        }
                        Mode::Collect => {
                            let x = a.next_value_seed(Seed(&f.shape))?;
                            coll[i].push(x);
                        }
                    }
                }
            }
        }
        let mut out = Vec::with_capacity(n);
        for (i, f) in self.fields.iter().enumerate() {
            let v = match f.mode {
                Mode::Collect => Value::Seq(std::mem::take(&mut coll[i])),
                _ => match slots[i].take() {
                    Some(v) => v,
                    None => match f.shape {
                        Shape::Opt(_) => Value::None,
                        _ => return Err(de::Error::missing_field(f.name)),
                    },
                },
            };
            out.push((f.name, v));
        }
        Ok(Value::Struct(out))
    }
}

struct VariantSeed(&'static [&'static str]);
impl<'de> DeserializeSeed<'de> for VariantSeed {
    type Value = &'static str;
    fn deserialize<D: Deserializer<'de>>(self, d: D) -> Result<&'static str, D::Error> {
        d.deserialize_identifier(self)
    }
}
impl<'de> Visitor<'de> for VariantSeed {
    type Value = &'static str;
    fn expecting(&self, f: &mut fmt::Formatter) -> fmt::Result {
        f.write_str("variant identifier")
    }
    fn visit_str<E: de::Error>(self, v: &str) -> Result<&'static str, E> {
        match self.0.iter().find(|x| **x == v) {
            Some(x) => Ok(*x),
            None => Err(de::Error::unknown_variant(v, self.0)),
        }
    }
}

struct EnumV(&'static [&'static str]);
impl<'de> Visitor<'de> for EnumV {
    type Value = Value;
    fn expecting(&self, f: &mut fmt::Formatter) -> fmt::Result {
        f.write_str("enum DynEnum")
    }
    fn visit_enum<A: de::EnumAccess<'de>>(self, a: A) -> Result<Value, A::Error> {
        use serde::de::VariantAccess;
        let (v, acc) = a.variant_seed(VariantSeed(self.0))?;
        acc.unit_variant()?;
        Ok(Value::Enum(v))
    }
}

// >>> w_c02 (wave 5): what serde-derive generates for `enum E { A, B(T), C(T, U), D { x: T } }`: variant_seed with the
// variant identifier visitor, then unit_variant / newtype_variant_seed / tuple_variant(n, tuple visitor: exactly n
// elements, end not probed) / struct_variant(fields, struct visitor)
struct DEnumV<'s> {
    names: &'static [&'static str],
    variants: &'s [VShape],
}
impl<'de, 's> Visitor<'de> for DEnumV<'s> {
    type Value = Value;
    fn expecting(&self, f: &mut fmt::Formatter) -> fmt::Result {
        f.write_str("enum DynDEnum")
    }
    fn visit_enum<A: de::EnumAccess<'de>>(self, a: A) -> Result<Value, A::Error> {
        use serde::de::VariantAccess;
        let (v, acc) = a.variant_seed(VariantSeed(self.names))?;
        let i = self.names.iter().position(|x| *x == v).expect("variant index");
        let payload = match &self.variants[i] {
            VShape::Unit => {
                acc.unit_variant()?;
                Value::Unit
            }
            VShape::Newtype(s) => acc.newtype_variant_seed(Seed(s))?,
            VShape::Tuple(ss) => acc.tuple_variant(ss.len(), TupV(ss))?,
            VShape::Struct { fields, names } => acc.struct_variant(names, StructV { fields, token: false })?,
        };
        Ok(Value::Variant(v, Box::new(payload)))
    }
}

/// real serde-derived enums (kind de.enum.real): the anchor of the runtime interpreter above
#[derive(Deserialize, Debug)]
enum RealEnum {
    #[serde(rename = "rgb")]
    Rgb(u8, u8, u8),
    #[serde(rename = "hsv")]
    Hsv(f64, f64, f64),
    #[serde(rename = "named")]
    Named { a: u8, b: String },
    #[serde(rename = "num")]
    Num(u32),
    #[serde(rename = "list")]
    List(Vec<String>),
    #[serde(rename = "plain")]
    Plain,
}
#[derive(Deserialize, Debug)]
struct RealRoot {
    color: RealEnum,
}
pub const REAL_ENUM_SHAPE: &str = "struct(636f6c6f72:denum(726762:t:tup(u8,u8,u8),687376:t:tup(f64,f64,f64),6e616d6564:s:struct(61:u8,62:str),6e756d:n:u32,6c697374:n:seq(str),706c61696e:u))";
fn show_real(r: Result<RealRoot, jomini::Error>) -> String {
    let x = match r {
        Ok(x) => x,
        Err(e) => return err_class(&e),
    };
    let (n, p) = match x.color {
        RealEnum::Rgb(a, b, c) => ("rgb", format!("(seq (u {}) (u {}) (u {}))", a, b, c)),
        RealEnum::Hsv(a, b, c) => ("hsv", format!("(seq (f64 {:016x}) (f64 {:016x}) (f64 {:016x}))", a.to_bits(), b.to_bits(), c.to_bits())),
        RealEnum::Named { a, b } => ("named", format!("(struct (61 (u {})) (62 (str {})))", a, hex(b.as_bytes()))),
        RealEnum::Num(a) => ("num", format!("(u {})", a)),
        RealEnum::List(v) => ("list", format!("(seq{})", v.iter().map(|s| format!(" (str {})", hex(s.as_bytes()))).collect::<String>())),
        RealEnum::Plain => ("plain", "(unit)".to_string()),
    };
    format!("(struct (636f6c6f72 (variant {} {})))", hex(n.as_bytes()), p)
}
// <<< w_c02

struct AnyV;
impl<'de> DeserializeSeed<'de> for AnyV {
    type Value = Value;
    fn deserialize<D: Deserializer<'de>>(self, d: D) -> Result<Value, D::Error> {
        d.deserialize_any(AnyV)
    }
}
impl<'de> Visitor<'de> for AnyV {
    type Value = Value;
    fn expecting(&self, f: &mut fmt::Formatter) -> fmt::Result {
        f.write_str("anything")
    }
    fn visit_bool<E: de::Error>(self, v: bool) -> Result<Value, E> {
        Ok(Value::Bool(v))
    }
    fn visit_i64<E: de::Error>(self, v: i64) -> Result<Value, E> {
        Ok(Value::I(v))
    }
    fn visit_u64<E: de::Error>(self, v: u64) -> Result<Value, E> {
        Ok(Value::U(v))
    }
    fn visit_f32<E: de::Error>(self, v: f32) -> Result<Value, E> {
        Ok(Value::F32(v))
    }
    fn visit_f64<E: de::Error>(self, v: f64) -> Result<Value, E> {
        Ok(Value::F64(v))
    }
    fn visit_str<E: de::Error>(self, v: &str) -> Result<Value, E> {
        Ok(Value::Str(v.to_string()))
    }
    fn visit_bytes<E: de::Error>(self, v: &[u8]) -> Result<Value, E> {
        Ok(Value::Bytes(v.to_vec()))
    }
    fn visit_none<E: de::Error>(self) -> Result<Value, E> {
        Ok(Value::None)
    }
    fn visit_unit<E: de::Error>(self) -> Result<Value, E> {
        Ok(Value::Unit)
    }
    fn visit_some<D: Deserializer<'de>>(self, d: D) -> Result<Value, D::Error> {
        d.deserialize_any(AnyV).map(|v| Value::Some(Box::new(v)))
    }
    fn visit_newtype_struct<D: Deserializer<'de>>(self, d: D) -> Result<Value, D::Error> {
        d.deserialize_any(AnyV)
    }
    fn visit_seq<A: SeqAccess<'de>>(self, mut a: A) -> Result<Value, A::Error> {
        let mut v = Vec::new();
        while let Some(x) = a.next_element_seed(AnyV)? {
            v.push(x);
        }
        Ok(Value::Seq(v))
    }
    fn visit_map<A: MapAccess<'de>>(self, mut a: A) -> Result<Value, A::Error> {
        let mut v = Vec::new();
        while let Some(k) = a.next_key_seed(AnyV)? {
            let x = a.next_value_seed(AnyV)?;
            v.push((k, x));
        }
        Ok(Value::AMap(v))
    }
}

// ---------------------------------------------------------------------------------- scripted Read
#[derive(Debug, Clone, Copy)]
enum Ev {
    Data(usize),
    Fail,
    Persist,
}

pub struct Stats {
    pub calls: Cell<usize>,
    pub delivered: Cell<usize>,
}

pub struct SchedRead {
    data: Vec<u8>,
    pos: usize,
    events: Vec<Ev>,
    cycle: bool,
    idx: usize,
    inject: Option<(usize, bool)>,
    // s_c20 (wave 6): explicit io::ErrorKind (entry of util::injected_fault's table) and run length of the injected fault
    inj_kind: Option<usize>,
    inj_run: usize,
    dead: bool,
    stats: Rc<Stats>,
}

impl SchedRead {
    pub fn new(data: &[u8], sched: &str) -> (SchedRead, Rc<Stats>) {
        let (base, inj) = match sched.split_once('@') {
            Some((b, i)) => (b, Some(i)),
            None => (sched, None),
        };
        let mut events = Vec::new();
        let mut cycle = false;
        let mut b = base;
        if let Some(x) = b.strip_suffix('*') {
            cycle = true;
            b = x;
        }
        if b != "-" && !b.is_empty() {
            for t in b.split(',') {
                events.push(match t {
                    "F" => Ev::Fail,
                    "P" => Ev::Persist,
                    n => Ev::Data(n.parse::<usize>().expect("sched number").max(1)),
                });
            }
        }
        // s_c20 (wave 6): @<k>(F|P)[<kind>][x<run>]: kind = explicit io::ErrorKind of the injected fault (default: rotating),
        // run = number of consecutive failing calls of a one-shot fault (default 1)
        let mut inj_kind = None;
        let mut inj_run = 1usize;
        let inj = inj.map(|i| {
            let (i, run) = match i.split_once('x') {
                Some((a, r)) => (a, r.parse::<usize>().expect("inject run")),
                None => (i, 1),
            };
            inj_run = run;
            let at = i.find(|c| c == 'F' || c == 'P').expect("inject F|P");
            if at + 1 < i.len() {
                inj_kind = Some(i[at + 1..].parse::<usize>().expect("inject kind"));
            }
            &i[..at + 1]
        });
        let inject = inj.map(|i| {
            let persistent = i.ends_with('P');
            let k = i[..i.len() - 1].parse::<usize>().expect("inject index");
            (k, persistent)
        });
        let stats = Rc::new(Stats { calls: Cell::new(0), delivered: Cell::new(0) });
        (SchedRead { data: data.to_vec(), pos: 0, events, cycle, idx: 0, inject, inj_kind, inj_run, dead: false, stats: stats.clone() }, stats)
    }
}

impl Read for SchedRead {
    fn read(&mut self, buf: &mut [u8]) -> std::io::Result<usize> {
        let call = self.stats.calls.get();
        self.stats.calls.set(call + 1);
        let salt = self.inj_kind.unwrap_or(self.pos + call);
        let fault = || crate::util::injected_fault(salt);
        if self.dead {
            return Err(fault());
        }
        if let Some((k, persistent)) = self.inject {
            if call >= k && call < k + self.inj_run {
                if persistent {
                    self.dead = true;
                }
                return Err(fault());
            }
        }
        let ev = if self.idx < self.events.len() {
            let e = self.events[self.idx];
            self.idx += 1;
            if self.cycle && self.idx == self.events.len() {
                self.idx = 0;
            }
            e
        } else {
            Ev::Data(usize::MAX)
        };
        match ev {
            Ev::Fail => Err(fault()),
            Ev::Persist => {
                self.dead = true;
                Err(fault())
            }
            Ev::Data(n) => {
                let k = n.min(buf.len()).min(self.data.len() - self.pos);
                buf[..k].copy_from_slice(&self.data[self.pos..self.pos + k]);
                self.pos += k;
                self.stats.delivered.set(self.stats.delivered.get() + k);
                Ok(k)
            }
        }
    }
}

// ---------------------------------------------------------------------------------- errors
pub fn err_class(e: &jomini::Error) -> String {
    use jomini::{DeserializeErrorKind as D, ErrorKind as K};
    let c = match e.kind() {
        K::Eof => "eof",
        K::StackEmpty { .. } | K::InvalidEmptyObject { .. } | K::InvalidSyntax { .. } => "syntax",
        K::Io(_) => "io",
        K::BufferFull => "full",
        K::Deserialize(d) => match d.kind() {
            D::UnknownToken { .. } => "unktoken",
            D::Message(m) if m.starts_with("duplicate field") => "dup",
            D::Message(m) if m.starts_with("missing field") => "missing",
            _ => "de",
        },
        _ => "other",
    };
    format!("ERR:{}", c)
}

// ---------------------------------------------------------------------------------- paths
#[derive(Clone, Copy, PartialEq)]
pub enum Enc {
    W1252,
    Utf8,
}

fn parse_reader_path(path: &str) -> Option<(usize, &str)> {
    let rest = path.strip_prefix("reader:")?;
    let (n, sched) = rest.split_once(':')?;
    Some((n.parse().ok()?, sched))
}

/// every public text entry point, generic in the target type
pub fn run_text<T: DeserializeOwned>(path: &str, enc: Enc, data: &[u8], stats: &mut Option<Rc<Stats>>) -> Result<T, jomini::Error> {
    if path == "slice" {
        return match enc {
            Enc::W1252 => jomini::text::de::from_windows1252_slice::<T>(data),
            Enc::Utf8 => jomini::text::de::from_utf8_slice::<T>(data),
        };
    }
    if path == "tape" {
        let tape = TextTape::from_slice(data)?;
        return match enc {
            Enc::W1252 => TextDeserializer::from_windows1252_tape(&tape).deserialize::<T>(),
            Enc::Utf8 => TextDeserializer::from_utf8_tape(&tape).deserialize::<T>(),
        };
    }
    if let Some(rest) = path.strip_prefix("objreader") {
        let tape = TextTape::from_slice(data)?;
        let k: Option<usize> = rest.strip_prefix('@').map(|x| x.parse().expect("objreader index"));
        fn go<T: DeserializeOwned, E: Encoding + Clone>(root: ObjectReader<E>, k: Option<usize>) -> Result<T, jomini::Error> {
            match k {
                None => root.deserialize::<T>(),
                Some(k) => {
                    let (_, _, v) = root.fields().nth(k).expect("objreader@k: no such field");
                    let o = v.read_object().map_err(jomini::Error::from)?;
                    o.deserialize::<T>()
                }
            }
        }
        return match enc {
            Enc::W1252 => go::<T, _>(tape.windows1252_reader(), k),
            Enc::Utf8 => go::<T, _>(tape.utf8_reader(), k),
        };
    }
    if let Some((buflen, sched)) = parse_reader_path(path) {
        let (rd, st) = SchedRead::new(data, sched);
        *stats = Some(st);
        let tr = jomini::text::TokenReader::builder().buffer_len(buflen).build(rd);
        return match enc {
            Enc::W1252 => TextDeserializer::from_windows1252_reader(tr).deserialize::<T>(),
            Enc::Utf8 => TextDeserializer::from_utf8_reader(tr).deserialize::<T>(),
        };
    }
    if let Some((_, sched)) = path.strip_prefix("freader:").map(|s| (0, s)) {
        // the convenience functions with the default buffer
        let (rd, st) = SchedRead::new(data, sched);
        *stats = Some(st);
        return match enc {
            Enc::W1252 => jomini::text::de::from_windows1252_reader::<T, _>(rd),
            Enc::Utf8 => jomini::text::de::from_utf8_reader::<T, _>(rd),
        };
    }
    // [a_c10] the deserializer-returning constructors called directly (the free functions wrap them)
    if path == "mslice" {
        return match enc {
            Enc::W1252 => TextDeserializer::from_windows1252_slice(data)?.deserialize::<T>(),
            Enc::Utf8 => TextDeserializer::from_utf8_slice(data)?.deserialize::<T>(),
        };
    }
    if path == "etape" {
        let tape = TextTape::from_slice(data)?;
        return match enc {
            Enc::W1252 => TextDeserializer::from_encoded_tape(&tape, Windows1252Encoding::new()).deserialize::<T>(),
            Enc::Utf8 => TextDeserializer::from_encoded_tape(&tape, Utf8Encoding::new()).deserialize::<T>(),
        };
    }
    panic!("unknown text path {}", path)
}

#[derive(Clone, Copy, Debug)]
pub enum Fl {
    Eu4,
    Raw,
}

impl Encoding for Fl {
    fn decode<'a>(&self, data: &'a [u8]) -> std::borrow::Cow<'a, str> {
        match self {
            Fl::Eu4 => Windows1252Encoding::decode(data),
            Fl::Raw => Utf8Encoding::decode(data),
        }
    }
}

impl BinaryFlavor for Fl {
    fn visit_f32(&self, data: [u8; 4]) -> f32 {
        match self {
            Fl::Eu4 => i32::from_le_bytes(data) as f32 / 1000.0,
            Fl::Raw => f32::from_le_bytes(data),
        }
    }
    fn visit_f64(&self, data: [u8; 8]) -> f64 {
        match self {
            Fl::Eu4 => {
                let val = i64::from_le_bytes(data) as f64 / 32768.0;
                (val * 10_0000.0).round() / 10_0000.0
            }
            Fl::Raw => f64::from_le_bytes(data),
        }
    }
}

pub enum Res {
    Map(HashMap<u16, String>),
    Lines(BasicTokenResolver),
}

impl TokenResolver for Res {
    fn resolve(&self, token: u16) -> Option<&str> {
        match self {
            Res::Map(m) => m.resolve(token),
            Res::Lines(b) => b.resolve(token),
        }
    }
    fn is_empty(&self) -> bool {
        match self {
            Res::Map(m) => TokenResolver::is_empty(m),
            Res::Lines(b) => b.is_empty(),
        }
    }
}

pub fn parse_resolver(spec: &str) -> Result<Res, jomini::Error> {
    let (kind, rest) = spec.split_once(':').expect("resolver spec");
    let pairs = || -> Vec<(u16, String)> {
        if rest == "-" || rest.is_empty() {
            return Vec::new();
        }
        rest.split(',')
            .map(|kv| {
                let (k, v) = kv.split_once('=').expect("resolver pair");
                (u16::from_str_radix(k, 16).expect("resolver id"), String::from_utf8(unhex(v)).expect("resolver name"))
            })
            .collect()
    };
    match kind {
        "map" => Ok(Res::Map(pairs().into_iter().collect())),
        "lines" => {
            let mut txt = String::new();
            for (k, v) in pairs() {
                txt.push_str(&format!("0x{:04x} {}\n", k, v));
            }
            Ok(Res::Lines(BasicTokenResolver::from_text_lines(txt.as_bytes())?))
        }
        "rawlines" => Ok(Res::Lines(BasicTokenResolver::from_text_lines(&unhex(rest)[..])?)),
        _ => panic!("resolver kind"),
    }
}

pub fn parse_strategy(s: &str) -> FailedResolveStrategy {
    match s {
        "error" => FailedResolveStrategy::Error,
        "stringify" => FailedResolveStrategy::Stringify,
        "ignore" => FailedResolveStrategy::Ignore,
        _ => panic!("strategy"),
    }
}

/// every public binary entry point, generic in the target type
pub fn run_bin<T: DeserializeOwned>(path: &str, strat: FailedResolveStrategy, res: &Res, fl: Fl, data: &[u8], stats: &mut Option<Rc<Stats>>) -> Result<T, jomini::Error> {
    let mut b = BinaryDeserializer::builder_flavor(fl);
    b.on_failed_resolve(strat);
    if path == "tape" {
        let tape = BinaryTape::from_slice(data)?;
        return b.deserialize_tape::<_, T>(&tape, res);
    }
    if path == "slice" {
        return b.deserialize_slice::<_, T>(data, res);
    }
    if let Some((buflen, sched)) = parse_reader_path(path) {
        let (rd, st) = SchedRead::new(data, sched);
        *stats = Some(st);
        b.reader_config(jomini::binary::TokenReaderBuilder::default().buffer_len(buflen));
        return b.deserialize_reader::<_, T, _>(rd, res);
    }
    if let Some(sched) = path.strip_prefix("freader:") {
        // BinaryFlavor::deserialize_reader (default strategy and buffer)
        let (rd, st) = SchedRead::new(data, sched);
        *stats = Some(st);
        return fl.deserialize_reader::<T, _, _>(rd, res);
    }
    if path == "fslice" {
        return fl.deserialize_slice::<T, _>(data, res);
    }
    // [a_c10] the deserializer-returning builder methods called directly; `btape` sets the strategy on the finished
    // BinaryDeserializer (BinaryDeserializer::on_failed_resolve) instead of on the builder
    if path == "btape" {
        let tape = BinaryTape::from_slice(data)?;
        let mut d = BinaryDeserializer::builder_flavor(fl).from_tape(&tape, res);
        d.on_failed_resolve(strat);
        return d.deserialize::<T>();
    }
    if path == "bslice" {
        return b.from_slice(data, res).deserialize::<T>();
    }
    if let Some(rest) = path.strip_prefix("breader:") {
        let (n, sched) = rest.split_once(':').expect("breader:<buflen>:<sched>");
        let (rd, st) = SchedRead::new(data, sched);
        *stats = Some(st);
        b.reader_config(jomini::binary::TokenReaderBuilder::default().buffer_len(n.parse().expect("buflen")));
        return b.from_reader(rd, res).deserialize::<T>();
    }
    panic!("unknown binary path {}", path)
}

pub fn parse_enc(s: &str) -> Enc {
    match s {
        "w1252" => Enc::W1252,
        "utf8" => Enc::Utf8,
        _ => panic!("encoding"),
    }
}

pub fn parse_flavor(s: &str) -> Fl {
    match s {
        "eu4" => Fl::Eu4,
        "raw" => Fl::Raw,
        _ => panic!("flavor"),
    }
}

fn show_result(r: Result<DynValue, jomini::Error>) -> String {
    match r {
        Ok(v) => {
            let mut s = String::new();
            show_value(&v.0, &mut s);
            s
        }
        Err(e) => err_class(&e),
    }
}

fn show_stats(st: &Option<Rc<Stats>>) -> String {
    match st {
        Some(s) => format!("calls={} delivered={}", s.calls.get(), s.delivered.get()),
        None => "calls=0 delivered=0".to_string(),
    }
}

// >>> a_c04
/// `de.bin.entry <variant> ...`: variant =
///   tape-from2            from_tape(..) once, BinaryDeserializer::deserialize twice (must be equal)
///   tape-late             builder left at its default strategy, BinaryDeserializer::on_failed_resolve afterwards
///   slice-from2           from_slice(..) once, OndemandBinaryDeserializer::deserialize twice: "first ;; second"
///   reader-from2:<n>:<s>  from_reader(..) once, BinaryReaderDeserializer::deserialize twice
///   wf-tape | wf-slice | wf-reader:<n>:<s>   BinaryDeserializerBuilder::with_flavor
///   ref-tape | ref-slice                      BinaryFlavor::deserializer() (flavor = &Fl) + on_failed_resolve
///   box-slice | box-tape                      flavor = Box<Fl>
///   res-ref-slice | res-box-slice | res-box-tape   resolver behind & / Box<dyn TokenResolver>
fn run_entry(variant: &str, strat: FailedResolveStrategy, res: &Res, fl: Fl, data: &[u8]) -> String {
    use jomini::binary::de::BinaryDeserializerBuilder;
    let show2 = |a: Result<DynValue, jomini::Error>, b: Result<DynValue, jomini::Error>| format!("{} ;; {}", show_result(a), show_result(b));
    match variant {
        "tape-from2" | "tape-late" => {
            let tape = match BinaryTape::from_slice(data) {
                Ok(t) => t,
                Err(e) => return err_class(&e),
            };
            let mut b = BinaryDeserializer::builder_flavor(fl);
            if variant == "tape-from2" {
                b.on_failed_resolve(strat);
                let d = b.from_tape(&tape, res);
                let r1 = show_result(d.deserialize::<DynValue>());
                let r2 = show_result(d.deserialize::<DynValue>());
                if r1 == r2 {
                    r1
                } else {
                    format!("DIFF:{}|{}", r1, r2)
                }
            } else {
                let mut d = b.from_tape(&tape, res);
                d.on_failed_resolve(strat);
                show_result(d.deserialize::<DynValue>())
            }
        }
        "slice-from2" => {
            let mut b = BinaryDeserializer::builder_flavor(fl);
            b.on_failed_resolve(strat);
            let mut d = b.from_slice(data, res);
            let r1 = d.deserialize::<DynValue>();
            let r2 = d.deserialize::<DynValue>();
            show2(r1, r2)
        }
        "wf-tape" | "box-tape" | "ref-tape" => {
            let tape = match BinaryTape::from_slice(data) {
                Ok(t) => t,
                Err(e) => return err_class(&e),
            };
            match variant {
                "wf-tape" => {
                    let mut b = BinaryDeserializerBuilder::with_flavor(fl);
                    b.on_failed_resolve(strat);
                    show_result(b.deserialize_tape::<_, DynValue>(&tape, res))
                }
                "box-tape" => {
                    let mut b = BinaryDeserializer::builder_flavor(Box::new(fl));
                    b.on_failed_resolve(strat);
                    show_result(b.deserialize_tape::<_, DynValue>(&tape, res))
                }
                _ => {
                    let mut b = fl.deserializer();
                    b.on_failed_resolve(strat);
                    show_result(b.deserialize_tape::<_, DynValue>(&tape, res))
                }
            }
        }
        "wf-slice" => {
            let mut b = BinaryDeserializerBuilder::with_flavor(fl);
            b.on_failed_resolve(strat);
            show_result(b.deserialize_slice::<_, DynValue>(data, res))
        }
        "box-slice" => {
            let mut b = BinaryDeserializer::builder_flavor(Box::new(fl));
            b.on_failed_resolve(strat);
            show_result(b.deserialize_slice::<_, DynValue>(data, res))
        }
        "ref-slice" => {
            let mut b = fl.deserializer();
            b.on_failed_resolve(strat);
            show_result(b.deserialize_slice::<_, DynValue>(data, res))
        }
        // `impl TokenResolver for &T` / `Box<T>`
        "res-ref-slice" => {
            let mut b = BinaryDeserializer::builder_flavor(fl);
            b.on_failed_resolve(strat);
            let rr: &Res = res;
            show_result(b.deserialize_slice::<&Res, DynValue>(data, &rr))
        }
        "res-box-slice" | "res-box-tape" => {
            let mut b = BinaryDeserializer::builder_flavor(fl);
            b.on_failed_resolve(strat);
            let boxed: Box<dyn TokenResolver + '_> = Box::new(res);
            if variant == "res-box-slice" {
                show_result(b.deserialize_slice::<Box<dyn TokenResolver + '_>, DynValue>(data, &boxed))
            } else {
                let tape = match BinaryTape::from_slice(data) {
                    Ok(t) => t,
                    Err(e) => return err_class(&e),
                };
                show_result(b.deserialize_tape::<Box<dyn TokenResolver + '_>, DynValue>(&tape, &boxed))
            }
        }
        _ => {
            if let Some(rest) = variant.strip_prefix("reader-from2:") {
                let (n, sched) = rest.split_once(':').expect("reader-from2:<n>:<sched>");
                let (rd, _st) = SchedRead::new(data, sched);
                let mut b = BinaryDeserializer::builder_flavor(fl);
                b.on_failed_resolve(strat);
                b.reader_config(jomini::binary::TokenReaderBuilder::default().buffer_len(n.parse().expect("buflen")));
                let mut d = b.from_reader(rd, res);
                let r1 = d.deserialize::<DynValue>();
                let r2 = d.deserialize::<DynValue>();
                return show2(r1, r2);
            }
            if let Some(rest) = variant.strip_prefix("wf-reader:") {
                let (n, sched) = rest.split_once(':').expect("wf-reader:<n>:<sched>");
                let (rd, _st) = SchedRead::new(data, sched);
                let mut b = BinaryDeserializerBuilder::with_flavor(fl);
                // the two setters in the other order than run_bin
                b.reader_config(jomini::binary::TokenReaderBuilder::default().buffer_len(n.parse().expect("buflen")));
                b.on_failed_resolve(strat);
                return show_result(b.deserialize_reader::<_, DynValue, _>(rd, res));
            }
            panic!("unknown entry variant {}", variant)
        }
    }
}
// <<< a_c04

pub fn dispatch(kind: &str, a: &[&str]) -> Option<String> {
    let r = match (kind, a) {
        ("de.text", [path, enc, shape, h]) | ("de.calls.text", [path, enc, shape, h]) => {
            let sh = parse_shape(shape);
            let data = unhex(h);
            let mut st = None;
            let r = with_shape(&sh, || run_text::<DynValue>(path, parse_enc(enc), &data, &mut st));
            if kind == "de.text" {
                show_result(r)
            } else {
                format!("{} {}", show_stats(&st), if r.is_ok() { "ok" } else { "err" })
            }
        }
        ("de.bin", [path, strat, res, fl, shape, h]) | ("de.calls.bin", [path, strat, res, fl, shape, h]) => {
            let sh = parse_shape(shape);
            let data = unhex(h);
            let res = match parse_resolver(res) {
                Ok(r) => r,
                Err(e) => return Some(format!("RESOLVER-{}", err_class(&e))),
            };
            let mut st = None;
            let r = with_shape(&sh, || run_bin::<DynValue>(path, parse_strategy(strat), &res, parse_flavor(fl), &data, &mut st));
            if kind == "de.bin" {
                show_result(r)
            } else {
                format!("{} {}", show_stats(&st), if r.is_ok() { "ok" } else { "err" })
            }
        }
        // >>> w_c02: the serde-derived RealRoot { color: RealEnum } through the same entry points
        ("de.enum.real", [path, enc, h]) => {
            let data = unhex(h);
            let mut st = None;
            show_real(run_text::<RealRoot>(path, parse_enc(enc), &data, &mut st))
        }
        // <<< w_c02
        // scalar level (per-function correspondence with Serde.text_scalar / Serde.bin_scalar)
        ("de.sc.text", [shape, h]) => {
            let sh = parse_shape(&format!("struct(78:{})", shape));
            let mut data = b"x=".to_vec();
            data.extend_from_slice(&unhex(h));
            let mut st = None;
            show_result(with_shape(&sh, || run_text::<DynValue>("slice", Enc::W1252, &data, &mut st)))
        }
        ("de.sc.bin", [shape, tok, arg]) => {
            let sh = parse_shape(&format!("struct(78:{})", shape));
            let mut data = vec![0x17, 0x00, 0x01, 0x00, b'x', 0x01, 0x00];
            match *tok {
                "I32" => {
                    data.extend_from_slice(&[0x0c, 0x00]);
                    data.extend_from_slice(&arg.parse::<i32>().ok()?.to_le_bytes());
                }
                "U32" => {
                    data.extend_from_slice(&[0x14, 0x00]);
                    data.extend_from_slice(&arg.parse::<u32>().ok()?.to_le_bytes());
                }
                "I64" => {
                    data.extend_from_slice(&[0x17, 0x03]);
                    data.extend_from_slice(&arg.parse::<i64>().ok()?.to_le_bytes());
                }
                "U64" => {
                    data.extend_from_slice(&[0x9c, 0x02]);
                    data.extend_from_slice(&arg.parse::<u64>().ok()?.to_le_bytes());
                }
                "BOOL" => {
                    data.extend_from_slice(&[0x0e, 0x00, (*arg == "1") as u8]);
                }
                _ => {
                    let b = unhex(arg);
                    data.extend_from_slice(&[0x0f, 0x00]);
                    data.extend_from_slice(&(b.len() as u16).to_le_bytes());
                    data.extend_from_slice(&b);
                }
            }
            let mut st = None;
            let res = Res::Map(HashMap::new());
            show_result(with_shape(&sh, || run_bin::<DynValue>("slice", FailedResolveStrategy::Error, &res, Fl::Eu4, &data, &mut st)))
        }
        // >>> a_c04: the remaining public entry points / ways to get at the three deserializers
        ("de.bin.entry", [variant, strat, res, fl, shape, h]) => {
            let sh = parse_shape(shape);
            let data = unhex(h);
            let res = match parse_resolver(res) {
                Ok(r) => r,
                Err(e) => return Some(format!("RESOLVER-{}", err_class(&e))),
            };
            with_shape(&sh, || run_entry(variant, parse_strategy(strat), &res, parse_flavor(fl), &data))
        }
        // <<< a_c04
        ("de.resolver", [res, ids]) => {
            let res = match parse_resolver(res) {
                Ok(r) => r,
                Err(e) => return Some(err_class(&e)),
            };
            let mut out = Vec::new();
            for id in ids.split(',') {
                let id = u16::from_str_radix(id, 16).expect("id");
                out.push(match res.resolve(id) {
                    Some(s) => hex(s.as_bytes()),
                    None => "none".to_string(),
                });
            }
            format!("{} {}", res.is_empty() as u8, out.join(","))
        }
        _ => return None,
    };
    Some(r)
}
