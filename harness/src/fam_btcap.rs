//! w_btcap (wave 5, C05): the binary tape parser on a token vector of a chosen capacity, with the
//! capacity of the vector afterwards (model: coq/theories/BinTapeCap.v).  Needs the hooks
//! `jomini::binary::tape_verif_hooks::{tape_with_capacity, tape_capacity}`.
use crate::util::*;
use jomini::binary::tape_verif_hooks::{tape_capacity, tape_with_capacity};
use jomini::binary::{BinaryTape, BinaryTapeParser, BinaryToken};

fn show_tok(t: &BinaryToken) -> String {
    match t {
        BinaryToken::Array(e) => format!("A:{}", e),
        BinaryToken::Object(e) => format!("O:{}", e),
        BinaryToken::MixedContainer => "M".into(),
        BinaryToken::Equal => "EQ".into(),
        BinaryToken::End(i) => format!("E:{}", i),
        BinaryToken::Bool(b) => format!("B:{}", if *b { 1 } else { 0 }),
        BinaryToken::U32(x) => format!("U32:{}", x),
        BinaryToken::U64(x) => format!("U64:{}", x),
        BinaryToken::I64(x) => format!("I64:{}", x),
        BinaryToken::I32(x) => format!("I32:{}", x),
        BinaryToken::Quoted(s) => format!("Q:{}", hex(s.as_bytes())),
        BinaryToken::Unquoted(s) => format!("U:{}", hex(s.as_bytes())),
        BinaryToken::F32(x) => format!("F32:{}", hex(x)),
        BinaryToken::F64(x) => format!("F64:{}", hex(x)),
        BinaryToken::Token(x) => format!("T:{}", x),
        BinaryToken::Rgb(c) => format!(
            "RGB:{},{},{},{}",
            c.r,
            c.g,
            c.b,
            match c.a {
                Some(a) => a.to_string(),
                None => "-".into(),
            }
        ),
    }
}

fn show(r: Result<(), jomini::Error>, t: &BinaryTape) -> String {
    match r {
        Ok(()) => {
            let mut s = String::from("OK");
            for x in t.tokens() {
                s.push(' ');
                s.push_str(&show_tok(x));
            }
            // the vector never holds more than it has room for
            if tape_capacity(t) < t.tokens().len() {
                return format!("LEN>CAP {} {}", t.tokens().len(), tape_capacity(t));
            }
            format!("{} cap={}", s, tape_capacity(t))
        }
        Err(_) => "ERR".to_string(),
    }
}

pub fn dispatch(kind: &str, a: &[&str]) -> Option<String> {
    let r = match (kind, a) {
        // bt.cap <c0> <hex>: both parsers on a fresh vector of capacity c0
        ("bt.cap", [c0, h]) => {
            let c0: usize = c0.parse().ok()?;
            let data = unhex(h);
            let mut t1 = tape_with_capacity(c0);
            let mut t2 = tape_with_capacity(c0);
            if tape_capacity(&t1) != c0 {
                return Some(format!("with_capacity({}) gave {}", c0, tape_capacity(&t1)));
            }
            let ro = BinaryTapeParser.parse_slice_into_tape(&data, &mut t1);
            let rr = BinaryTapeParser.parse_slice_into_tape_unoptimized(&data, &mut t2);
            format!("opt={} | ref={}", show(ro, &t1), show(rr, &t2))
        }
        // bt.capreuse <c0> <hex1> <hex2>: the second parse runs on the vector the first one left behind; the
        // model is told the capacity the implementation had in between (printed first)
        ("bt.capreuse", [c0, h1, h2]) => {
            let c0: usize = c0.parse().ok()?;
            let first = unhex(h1);
            let data = unhex(h2);
            let mut t1 = tape_with_capacity(c0);
            if BinaryTapeParser.parse_slice_into_tape(&first, &mut t1).is_err() {
                return Some("FIRST-ERR".to_string());
            }
            let mid = tape_capacity(&t1);
            let ro = BinaryTapeParser.parse_slice_into_tape(&data, &mut t1);
            format!("mid={} opt={}", mid, show(ro, &t1))
        }
        _ => return None,
    };
    Some(r)
}
