//! DOM family, iterator half (C17, wave 4): the iterators of text/dom.rs observed at EVERY
//! iteration point, and the whole ValueReader / Reader API on every value a node yields
//! (leaf tokens included).  Same case layout as fam_dom.rs (document hex, tape string, encoding,
//! node index); the model side is DomIter.v.
//!
//! dom.iter  obj=F:<pt;..>|G:<gpt;..>|z=<0/1> arr=V:<lo/hi;..>|z=<0/1>
//!           pt  = size_hint().0 / remainder().tokens_len() / remainder().len() / first index of remainder().values()
//!                 before the first next() and after every next() (the last one returned None)
//!           gpt = key token of the group returned by the call ('-' = none) / size_hint().0 / the same three of remainder()
//!           lo/hi = ValuesIter::size_hint() before the first next() and after every next()
//!           z   = 1 when the iterators are fused (None stays None, state unchanged) and
//!                 GroupEntry::len() == values().count() for every group
//! dom.leaf  every value the node yields (fields' values, then the array view's values), each as
//!           idx:token:tokens_len:read_scalar:read_str:read_object:read_array:Reader-enum results
use crate::fams::fam_dom::{find_in_object, idx_of, op_str, tok_str, watchdog_enter, WatchdogGuard, CAP};
use crate::fams::fam_texttape::show_tokens;
use crate::util::*;
use jomini::text::{ArrayReader, GroupEntry, ObjectReader, Reader, ScalarReader, ValueReader};
use jomini::{Encoding, TextTape, TextToken};

fn rem_str<E: Encoding + Clone>(tokens: &[TextToken], rem: &ArrayReader<E>) -> String {
    let first = match rem.values().next() {
        Some(v) => idx_of(tokens, &v).to_string(),
        None => "-".to_string(),
    };
    format!("{}/{}/{}", rem.tokens_len(), rem.len(), first)
}

fn hi_str(h: Option<usize>) -> String {
    h.map(|x| x.to_string()).unwrap_or_else(|| "-".to_string())
}

fn object_iter<E: Encoding + Clone>(tokens: &[TextToken], r: &ObjectReader<E>) -> String {
    let mut fused = true;
    // FieldsIter
    let mut fields = r.fields();
    let mut fpts = Vec::new();
    let mut rounds = 0;
    loop {
        // only the lower bound is compared: any correct upper bound would be a harmless change
        let (lo, _hi) = fields.size_hint();
        fpts.push(format!("{}/{}", lo, rem_str(tokens, &fields.remainder())));
        rounds += 1;
        if rounds > CAP || fields.next().is_none() {
            break;
        }
    }
    {
        let before = rem_str(tokens, &fields.remainder());
        if fields.next().is_some() || rem_str(tokens, &fields.remainder()) != before || fields.size_hint().0 != 0 {
            fused = false;
        }
    }
    // FieldGroupsIter
    let mut groups = r.field_groups();
    let mut gpts = Vec::new();
    gpts.push(format!("-/{}/{}", groups.size_hint().0, rem_str(tokens, &groups.remainder())));
    rounds = 0;
    loop {
        rounds += 1;
        if rounds > CAP {
            break;
        }
        let g = groups.next();
        let key = match &g {
            Some((key, group)) => {
                let n = group.len();
                let mut it = group.values();
                let mut c = 0;
                while it.next().is_some() {
                    c += 1;
                }
                if c != n || it.next().is_some() || group.is_empty() {
                    fused = false;
                }
                if let GroupEntry::One(_) = group {
                    if n != 1 {
                        fused = false;
                    }
                }
                tok_str(key.token())
            }
            None => "-".to_string(),
        };
        gpts.push(format!("{}/{}/{}", key, groups.size_hint().0, rem_str(tokens, &groups.remainder())));
        if g.is_none() {
            break;
        }
    }
    {
        let before = rem_str(tokens, &groups.remainder());
        if groups.next().is_some() || rem_str(tokens, &groups.remainder()) != before {
            fused = false;
        }
    }
    format!("F:{}|G:{}|z={}", fpts.join(";"), gpts.join(";"), fused as u8)
}

fn array_iter<E: Encoding + Clone>(_tokens: &[TextToken], r: &ArrayReader<E>) -> String {
    let mut values = r.values();
    let mut pts = Vec::new();
    let mut rounds = 0;
    loop {
        let (lo, hi) = values.size_hint();
        pts.push(format!("{}/{}", lo, hi_str(hi)));
        rounds += 1;
        if rounds > CAP || values.next().is_none() {
            break;
        }
    }
    let fused = values.next().is_none() && values.size_hint() == (0, Some(0));
    format!("V:{}|z={}", pts.join(";"), fused as u8)
}

fn res_hex<T: AsRef<[u8]>, X>(r: Result<T, X>) -> String {
    match r {
        Ok(s) => hex(s.as_ref()),
        Err(_) => "E".to_string(),
    }
}

fn leaf_str<E: Encoding + Clone>(tokens: &[TextToken], v: &ValueReader<E>) -> String {
    let sc = match v.read_scalar() {
        Ok(s) => hex(s.as_bytes()),
        Err(_) => "E".to_string(),
    };
    let st = match v.read_str() {
        Ok(s) => {
            // read_string is the same data; `impl Encoding for ValueReader` is the reader's own decoder
            let same = v.read_string().map(|x| x.as_bytes() == s.as_bytes()).unwrap_or(false);
            let dec_ok = match v.read_scalar() {
                Ok(raw) => v.decode(raw.as_bytes()).as_bytes() == s.as_bytes(),
                Err(_) => true,
            };
            if same && dec_ok {
                hex(s.as_bytes())
            } else {
                "MISMATCH".to_string()
            }
        }
        Err(_) => {
            if v.read_string().is_ok() {
                "MISMATCH".to_string()
            } else {
                "E".to_string()
            }
        }
    };
    let ob = match v.read_object() {
        Ok(o) => format!("o{}/{}", o.tokens_len(), o.fields_len()),
        Err(_) => "E".to_string(),
    };
    let ar = match v.read_array() {
        Ok(a) => format!("a{}/{}", a.tokens_len(), a.len()),
        Err(_) => "E".to_string(),
    };
    // the Reader enum over the same value
    let rv = Reader::Value(v.clone());
    let rs = res_hex(rv.read_str().map(|x| x.into_owned()));
    let rstring = res_hex(rv.read_string());
    let rc = match rv.read_scalar() {
        Ok(s) => hex(s.as_bytes()),
        Err(_) => "E".to_string(),
    };
    let renum = if rs == rstring { format!("{}/{}", rs, rc) } else { "MISMATCH".to_string() };
    format!("{}:{}:{}:{}:{}:{}:{}:{}", idx_of(tokens, v), tok_str(v.token()), v.tokens_len(), sc, st, ob, ar, renum)
}

fn key_str<E: Encoding + Clone>(k: &ScalarReader<E>) -> String {
    // Reader::Scalar over a key: read_str / read_string / read_scalar
    let r = Reader::Scalar(k.clone());
    let rs = res_hex(r.read_str().map(|x| x.into_owned()));
    let rstring = res_hex(r.read_string());
    let rc = match r.read_scalar() {
        Ok(s) => hex(s.as_bytes()),
        Err(_) => "E".to_string(),
    };
    let direct = hex(k.read_scalar().as_bytes());
    if rs != rstring || rc != direct || rs != hex(k.read_str().as_bytes()) {
        return "MISMATCH".to_string();
    }
    format!("k{}/{}", rs, rc)
}

fn leaves<E: Encoding + Clone>(tokens: &[TextToken], o: Option<ObjectReader<E>>, a: Option<ArrayReader<E>>) -> String {
    let mut out = Vec::new();
    if let Some(o) = &o {
        // the enum wrappers refuse containers
        let r = Reader::Object(o.clone());
        if r.read_str().is_ok() || r.read_string().is_ok() || r.read_scalar().is_ok() {
            out.push("MISMATCH".to_string());
        }
        for (key, op, val) in o.fields().take(CAP) {
            out.push(format!("{}{}={}", key_str(&key), op_str(&op), leaf_str(tokens, &val)));
        }
    }
    out.push("|".to_string());
    if let Some(a) = &a {
        let r = Reader::Array(a.clone());
        if r.read_str().is_ok() || r.read_string().is_ok() || r.read_scalar().is_ok() {
            out.push("MISMATCH".to_string());
        }
        for val in a.values().take(CAP) {
            out.push(leaf_str(tokens, &val));
        }
    }
    out.join(" ")
}

fn run<E: Encoding + Clone>(kind: &str, tape: &TextTape, top: ObjectReader<E>, idx: &str) -> String {
    let tokens = tape.tokens();
    let (o, a) = if idx == "top" {
        (Some(top), None)
    } else {
        let target: usize = idx.parse().unwrap();
        let v = match find_in_object(tokens, &top, target) {
            Some(v) => v,
            None => return "UNREACH".to_string(),
        };
        (v.read_object().ok(), v.read_array().ok())
    };
    if kind == "dom.leaf" {
        return leaves(tokens, o, a);
    }
    let os = match &o {
        Some(o) => object_iter(tokens, o),
        None => "E".to_string(),
    };
    let ars = match &a {
        Some(a) => array_iter(tokens, a),
        None => "E".to_string(),
    };
    format!("obj={} arr={}", os, ars)
}

pub fn dispatch(kind: &str, a: &[&str]) -> Option<String> {
    if kind != "dom.iter" && kind != "dom.leaf" {
        return None;
    }
    watchdog_enter();
    let _guard = WatchdogGuard;
    if a.len() != 4 {
        return Some("BADCASE".to_string());
    }
    let doc = unhex(a[0]);
    let tape = match TextTape::from_slice(&doc) {
        Ok(t) => t,
        Err(_) => return Some("ERR".to_string()),
    };
    if show_tokens(tape.tokens()) != a[1] {
        return Some("TAPE-MISMATCH".to_string());
    }
    Some(if a[2] == "u" {
        run(kind, &tape, tape.utf8_reader(), a[3])
    } else {
        run(kind, &tape, tape.windows1252_reader(), a[3])
    })
}
