//! Shared helpers: hex <-> bytes ("-" is the empty string).
pub fn unhex(s: &str) -> Vec<u8> {
    if s == "-" || s.is_empty() {
        return Vec::new();
    }
    let b = s.as_bytes();
    let mut v = Vec::with_capacity(b.len() / 2);
    let hv = |c: u8| -> u8 {
        match c {
            b'0'..=b'9' => c - b'0',
            b'a'..=b'f' => c - b'a' + 10,
            b'A'..=b'F' => c - b'A' + 10,
            _ => panic!("bad hex"),
        }
    };
    let mut i = 0;
    while i + 1 < b.len() {
        v.push(hv(b[i]) * 16 + hv(b[i + 1]));
        i += 2;
    }
    v
}

pub fn hex(d: &[u8]) -> String {
    if d.is_empty() {
        return "-".to_string();
    }
    let mut s = String::with_capacity(d.len() * 2);
    for b in d {
        s.push_str(&format!("{:02x}", b));
    }
    s
}

pub fn scalar_err(e: &jomini::ScalarError) -> String {
    use jomini::ScalarError::*;
    match e {
        AllDigits => "ERR:1".into(),
        Overflow => "ERR:2".into(),
        InvalidBool => "ERR:3".into(),
        PrecisionLoss(_) => "ERR:4".into(),
    }
}

/// A `Read` that follows a schedule: event i is `Some(n)` (deliver min(max(n,1), buf.len(),
/// remaining) bytes) or `None` (fail).  When the schedule runs out every call fills the buffer.
pub struct SchedRead {
    pub data: Vec<u8>,
    pub pos: usize,
    pub sched: Vec<Option<usize>>,
    pub idx: usize,
    pub delivered: usize,
}

impl SchedRead {
    pub fn new(data: Vec<u8>, sched: Vec<Option<usize>>) -> Self {
        SchedRead { data, pos: 0, sched, idx: 0, delivered: 0 }
    }
}

impl std::io::Read for SchedRead {
    fn read(&mut self, buf: &mut [u8]) -> std::io::Result<usize> {
        let ev = if self.idx < self.sched.len() { self.sched[self.idx] } else { Some(1_000_000_000) };
        self.idx += 1;
        match ev {
            None => {
                // the io::ErrorKind of an injected fault varies deterministically with the reader's state, so that code
                // which special-cases one kind (UnexpectedEof as "end of data", Interrupted / WouldBlock as "retry")
                // is exercised; the canonical output maps every kind to the same class
                Err(injected_fault(self.pos + self.idx))
            }
            Some(n) => {
                let k = n.max(1).min(buf.len()).min(self.data.len() - self.pos);
                buf[..k].copy_from_slice(&self.data[self.pos..self.pos + k]);
                self.pos += k;
                self.delivered += k;
                Ok(k)
            }
        }
    }
}

/// the error of an injected read fault; its io::ErrorKind rotates with `salt` (reader state)
pub fn injected_fault(salt: usize) -> std::io::Error {
    use std::io::ErrorKind::*;
    const KINDS: [std::io::ErrorKind; 8] = [Other, UnexpectedEof, BrokenPipe, UnexpectedEof, WouldBlock, Interrupted, UnexpectedEof, TimedOut];
    std::io::Error::new(KINDS[salt % 8], "injected fault")
}

/// "-" = empty schedule; otherwise comma separated counts, `F` = fault
/// (s_c20, wave 6: `F<k>` = fault whose io::ErrorKind is entry k of the table of `injected_fault`; readers that do
/// not ask `parse_sched_kinds` treat it as a plain `F`)
pub fn parse_sched(s: &str) -> Vec<Option<usize>> {
    if s == "-" || s.is_empty() {
        return Vec::new();
    }
    s.split(',').map(|x| if x == "F" || fault_kind(x).is_some() { None } else { Some(x.parse::<usize>().unwrap()) }).collect()
}

/// `F<k>` -> Some(k); anything else (a plain `F`, a count) -> None
pub fn fault_kind(x: &str) -> Option<usize> {
    x.strip_prefix('F').filter(|d| !d.is_empty()).and_then(|d| d.parse::<usize>().ok())
}

/// the explicit fault kind of every event of a schedule (parallel to `parse_sched`); `injected_fault(k)` builds the error
pub fn parse_sched_kinds(s: &str) -> Vec<Option<usize>> {
    if s == "-" || s.is_empty() {
        return Vec::new();
    }
    s.split(',').map(fault_kind).collect()
}
