//! Shared helpers: hex <-> bytes ("-" is the empty string).
pub fn unhex(s: &str) -> Vec<u8> {
    if s == "-" || s.is_empty() {
        return Vec::new();
    }
    let b = s.as_bytes();
    let mut v = Vec::with_capacity(b.len() / 2);
    let hv = |c: u8| -> u8 {
        match c {
            b'0'..=b'9' => c - b'0',
            b'a'..=b'f' => c - b'a' + 10,
            b'A'..=b'F' => c - b'A' + 10,
            _ => panic!("bad hex"),
        }
    };
    let mut i = 0;
    while i + 1 < b.len() {
        v.push(hv(b[i]) * 16 + hv(b[i + 1]));
        i += 2;
    }
    v
}

pub fn hex(d: &[u8]) -> String {
    if d.is_empty() {
        return "-".to_string();
    }
    let mut s = String::with_capacity(d.len() * 2);
    for b in d {
        s.push_str(&format!("{:02x}", b));
    }
    s
}

pub fn scalar_err(e: &jomini::ScalarError) -> String {
    use jomini::ScalarError::*;
    match e {
        AllDigits => "ERR:1".into(),
        Overflow => "ERR:2".into(),
        InvalidBool => "ERR:3".into(),
        PrecisionLoss(_) => "ERR:4".into(),
    }
}
