//! binary tape family (C03, binary half of C06): optimised parser, reference parser
//! (pre-existing cfg(unoptimized_build)), structural checker on the real tapes.
use crate::util::*;
use jomini::binary::{BinaryTape, BinaryTapeParser, BinaryToken};

fn show_tok(t: &BinaryToken) -> String {
    match t {
        BinaryToken::Array(e) => format!("A:{}", e),
        BinaryToken::Object(e) => format!("O:{}", e),
        BinaryToken::MixedContainer => "M".into(),
        BinaryToken::Equal => "EQ".into(),
        BinaryToken::End(i) => format!("E:{}", i),
        BinaryToken::Bool(b) => format!("B:{}", if *b { 1 } else { 0 }),
        BinaryToken::U32(x) => format!("U32:{}", x),
        BinaryToken::U64(x) => format!("U64:{}", x),
        BinaryToken::I64(x) => format!("I64:{}", x),
        BinaryToken::I32(x) => format!("I32:{}", x),
        BinaryToken::Quoted(s) => format!("Q:{}", hex(s.as_bytes())),
        BinaryToken::Unquoted(s) => format!("U:{}", hex(s.as_bytes())),
        BinaryToken::F32(x) => format!("F32:{}", hex(x)),
        BinaryToken::F64(x) => format!("F64:{}", hex(x)),
        BinaryToken::Token(x) => format!("T:{}", x),
        BinaryToken::Rgb(c) => format!(
            "RGB:{},{},{},{}",
            c.r,
            c.g,
            c.b,
            match c.a {
                Some(a) => a.to_string(),
                None => "-".into(),
            }
        ),
    }
}

fn show_tape(toks: &[BinaryToken]) -> String {
    let mut s = String::from("OK");
    for t in toks {
        s.push(' ');
        s.push_str(&show_tok(t));
    }
    s
}

/// Dyck check with a stack of (start, stored end); no container at index 0, no End(0);
/// every string scalar lies inside the input and starts after the previous one.
/// 'y' sound, 'n' links/nesting broken, 'p' a payload is not a slice of the input.
fn wf(toks: &[BinaryToken], data: &[u8]) -> char {
    let mut stack: Vec<(usize, usize)> = Vec::new();
    for (pos, t) in toks.iter().enumerate() {
        match t {
            BinaryToken::Array(e) | BinaryToken::Object(e) => {
                if pos == 0 {
                    return 'n';
                }
                stack.push((pos, *e));
            }
            BinaryToken::End(i) => match stack.pop() {
                Some((p, e)) => {
                    if p != *i || e != pos {
                        return 'n';
                    }
                }
                None => return 'n',
            },
            _ => {}
        }
    }
    if !stack.is_empty() {
        return 'n';
    }
    let lo = data.as_ptr() as usize;
    let hi = lo + data.len();
    let mut prev = 0usize;
    for t in toks {
        if let BinaryToken::Quoted(s) | BinaryToken::Unquoted(s) = t {
            let b = s.as_bytes();
            let a = b.as_ptr() as usize;
            // a string payload is preceded by its id and its length: at least 4 bytes further on
            if a < lo + 4 || a + b.len() > hi || a < prev + 4 {
                return 'p';
            }
            let off = a - lo;
            let len = u16::from_le_bytes([data[off - 2], data[off - 1]]) as usize;
            if len != b.len() {
                return 'p';
            }
            prev = a;
        }
    }
    'y'
}

// >>> a_c06 (C06)
/// tape with the offset of every string payload relative to the input slice (`Q@<off>:<hex>`,
/// `@X` when the pointer range is outside the slice); everything else as `show_tok`.
fn show_tape_ptr(toks: &[BinaryToken], data: &[u8]) -> String {
    let lo = data.as_ptr() as usize;
    let hi = lo + data.len();
    let mut s = String::from("OK");
    for t in toks {
        s.push(' ');
        match t {
            BinaryToken::Quoted(x) | BinaryToken::Unquoted(x) => {
                let tag = if matches!(t, BinaryToken::Quoted(_)) { "Q" } else { "U" };
                let b = x.as_bytes();
                let a = b.as_ptr() as usize;
                if a < lo || a + b.len() > hi {
                    s.push_str(&format!("{}@X:{}", tag, hex(b)));
                } else {
                    s.push_str(&format!("{}@{}:{}", tag, a - lo, hex(b)));
                }
            }
            _ => s.push_str(&show_tok(t)),
        }
    }
    s
}

/// `A:<e>` / `O:<e>` / `E:<i>` / anything else = a scalar: input of the structural checker alone
fn toks_of_shape(s: &str) -> Vec<BinaryToken<'static>> {
    let mut v = Vec::new();
    if s == "-" || s.is_empty() {
        return v;
    }
    for t in s.split(' ') {
        let num = |x: &str| x.parse::<usize>().unwrap();
        if let Some(e) = t.strip_prefix("A:") {
            v.push(BinaryToken::Array(num(e)));
        } else if let Some(e) = t.strip_prefix("O:") {
            v.push(BinaryToken::Object(num(e)));
        } else if let Some(e) = t.strip_prefix("E:") {
            v.push(BinaryToken::End(num(e)));
        } else if t == "M" {
            v.push(BinaryToken::MixedContainer);
        } else if t == "EQ" {
            v.push(BinaryToken::Equal);
        } else {
            v.push(BinaryToken::Bool(true));
        }
    }
    v
}
// <<< a_c06

fn all_with<'a>(data: &'a [u8], topt: &mut BinaryTape<'a>, tref: &mut BinaryTape<'a>) -> String {
    let ro = BinaryTapeParser.parse_slice_into_tape(data, topt);
    let rr = BinaryTapeParser.parse_slice_into_tape_unoptimized(data, tref);
    let (so, wo) = match ro {
        Ok(()) => (show_tape(topt.tokens()), wf(topt.tokens(), data)),
        Err(_) => ("ERR".to_string(), '-'),
    };
    let (sr, wr) = match rr {
        Ok(()) => (show_tape(tref.tokens()), wf(tref.tokens(), data)),
        Err(_) => ("ERR".to_string(), '-'),
    };
    format!("opt={} | ref={} | wf={}{}", so, sr, wo, wr)
}

pub fn dispatch(kind: &str, a: &[&str]) -> Option<String> {
    let r = match (kind, a) {
        ("bt.all", [h]) => {
            let data = unhex(h);
            let mut t1 = BinaryTape::new();
            let mut t2 = BinaryTape::new();
            // the public convenience entry point must agree with parse_slice_into_tape
            let direct = BinaryTape::from_slice(&data);
            let s = all_with(&data, &mut t1, &mut t2);
            let d = match &direct {
                Ok(t) => show_tape(t.tokens()),
                Err(_) => "ERR".to_string(),
            };
            if !s.starts_with(&format!("opt={} | ", d)) {
                format!("from_slice-differs {} vs {}", d, s)
            } else {
                s
            }
        }
        ("bt.reuse", [h1, h2]) => {
            let first = unhex(h1);
            let data = unhex(h2);
            let mut t1 = BinaryTape::new();
            let mut t2 = BinaryTape::new();
            let _ = BinaryTapeParser.parse_slice_into_tape(&first, &mut t1);
            let _ = BinaryTapeParser.parse_slice_into_tape_unoptimized(&first, &mut t2);
            all_with(&data, &mut t1, &mut t2)
        }
        // >>> a_c06 (C06)
        // the structural checker of this file alone, on an arbitrary token shape (cross-checked
        // against BinTapeWf.tape_wfb and the Python checker, on sound AND unsound tapes)
        ("bt.wfcheck", [shape]) => {
            let toks = toks_of_shape(shape);
            wf(&toks, &[]).to_string()
        }
        // BinaryTapeParser.parse_slice (fresh tape) and parse_slice_into_tape on a used tape:
        // string payload offsets relative to the input
        ("bt.ptr", [h]) => {
            let data = unhex(h);
            match BinaryTapeParser.parse_slice(&data) {
                Ok(t) => show_tape_ptr(t.tokens(), &data),
                Err(_) => "ERR".to_string(),
            }
        }
        ("bt.ptr_reuse", [h1, h2]) => {
            let first = unhex(h1);
            let data = unhex(h2);
            let mut t1 = BinaryTape::new();
            let _ = BinaryTapeParser.parse_slice_into_tape(&first, &mut t1);
            match BinaryTapeParser.parse_slice_into_tape(&data, &mut t1) {
                Ok(()) => show_tape_ptr(t1.tokens(), &data),
                Err(_) => "ERR".to_string(),
            }
        }
        // <<< a_c06
        _ => return dispatch_mirror(kind, a), // a_c03: additional kinds below
    };
    Some(r)
}

// >>> a_c03: "mirrors the token stream" checked on the real tape against the real Lexer's tokens.
// raw token stream = Lexer::read_token, except that the RGB id is an ordinary id (the tape parser
// decides by context whether an rgb block follows); the tape parser's loop stops when fewer than two
// bytes remain.  untape = the token stream a tape denotes (container start -> `{`, End -> `}`,
// MixedContainer -> nothing, Rgb -> its seven/eight tokens).  Both are compared without `=`:
//   m: the stream is the tape plus deleted adjacent `{ }` pairs (ghost objects)      y / n
//   s: the tape is a subsequence of the stream (nothing fabricated, altered, reordered) y / n
//   x: the parser accepted an input that the lexer cannot tokenize
mod mirror {
    use super::*;
    use jomini::binary::{LexemeId, Lexer, Token};

    fn show_raw(t: &Token) -> String {
        match t {
            Token::Open => "{".into(),
            Token::Close => "}".into(),
            Token::Equal => "=".into(),
            Token::U32(x) => format!("U32:{}", x),
            Token::U64(x) => format!("U64:{}", x),
            Token::I32(x) => format!("I32:{}", x),
            Token::Bool(b) => format!("B:{}", if *b { 1 } else { 0 }),
            Token::Quoted(s) => format!("Q:{}", hex(s.as_bytes())),
            Token::Unquoted(s) => format!("U:{}", hex(s.as_bytes())),
            Token::F32(x) => format!("F32:{}", hex(x)),
            Token::F64(x) => format!("F64:{}", hex(x)),
            Token::Rgb(_) => "RGB?".into(),
            Token::I64(x) => format!("I64:{}", x),
            Token::Id(x) => format!("T:{}", x),
        }
    }

    pub fn raw_lex(data: &[u8]) -> Option<Vec<String>> {
        let mut lx = Lexer::new(data);
        let mut out = Vec::new();
        while lx.remainder().len() >= 2 {
            let id = lx.peek_id()?;
            if id == LexemeId::RGB {
                lx.read_id().ok()?;
                out.push(format!("T:{}", LexemeId::RGB.0));
            } else {
                match lx.read_token() {
                    Ok(t) => out.push(show_raw(&t)),
                    Err(_) => return None,
                }
            }
        }
        Some(out)
    }

    pub fn untape(toks: &[BinaryToken]) -> Vec<String> {
        let mut out = Vec::new();
        for t in toks {
            match t {
                BinaryToken::Array(_) | BinaryToken::Object(_) => out.push("{".into()),
                BinaryToken::End(_) => out.push("}".into()),
                BinaryToken::MixedContainer => {}
                BinaryToken::Equal => out.push("=".into()),
                BinaryToken::Rgb(c) => {
                    out.push(format!("T:{}", LexemeId::RGB.0));
                    out.push("{".into());
                    out.push(format!("U32:{}", c.r));
                    out.push(format!("U32:{}", c.g));
                    out.push(format!("U32:{}", c.b));
                    if let Some(a) = c.a {
                        out.push(format!("U32:{}", a));
                    }
                    out.push("}".into());
                }
                other => out.push(show_tok(other)),
            }
        }
        out
    }

    fn ge(s: &[String], t: &[String], i: usize, j: usize, dead: &mut std::collections::HashSet<(usize, usize)>) -> bool {
        if dead.contains(&(i, j)) {
            return false;
        }
        let r = if i == s.len() {
            j == t.len()
        } else {
            (j < t.len() && s[i] == t[j] && ge(s, t, i + 1, j + 1, dead))
                || (i + 1 < s.len() && s[i] == "{" && s[i + 1] == "}" && ge(s, t, i + 2, j, dead))
        };
        if !r {
            dead.insert((i, j));
        }
        r
    }

    fn sub(s: &[String], t: &[String]) -> bool {
        let mut i = 0;
        for x in t {
            while i < s.len() && &s[i] != x {
                i += 1;
            }
            if i == s.len() {
                return false;
            }
            i += 1;
        }
        true
    }

    pub fn flags(data: &[u8], res: Result<(), jomini::Error>, tape: &BinaryTape) -> String {
        if res.is_err() {
            return "--".into();
        }
        let s: Vec<String> = match raw_lex(data) {
            Some(v) => v.into_iter().filter(|x| x != "=").collect(),
            None => return "xx".into(),
        };
        let t: Vec<String> = untape(tape.tokens()).into_iter().filter(|x| x != "=").collect();
        let mut dead = std::collections::HashSet::new();
        let m = ge(&s, &t, 0, 0, &mut dead);
        format!("{}{}", if m { 'y' } else { 'n' }, if sub(&s, &t) { 'y' } else { 'n' })
    }
}

pub fn dispatch_mirror(kind: &str, a: &[&str]) -> Option<String> {
    let r = match (kind, a) {
        ("bt.mir", [h]) => {
            let data = unhex(h);
            let mut t1 = BinaryTape::new();
            let mut t2 = BinaryTape::new();
            let ro = BinaryTapeParser.parse_slice_into_tape(&data, &mut t1);
            let rr = BinaryTapeParser.parse_slice_into_tape_unoptimized(&data, &mut t2);
            format!("opt={} ref={}", mirror::flags(&data, ro, &t1), mirror::flags(&data, rr, &t2))
        }
        // a chain of parses into ONE tape (h1;h2;...;hn), the tape shown after the last one, and a
        // fresh-tape parse of the last input by each entry point next to it: previously used tape = fresh tape
        ("bt.chain", [hs]) => {
            let datas: Vec<Vec<u8>> = hs.split(';').map(|h| unhex(h)).collect();
            let mut t1 = BinaryTape::new();
            let mut t2 = BinaryTape::new();
            let mut last = String::from("NONE");
            for (k, d) in datas.iter().enumerate() {
                // alternate the entry point that fills the shared tapes
                let (ro, rr) = if k % 2 == 0 {
                    (
                        BinaryTapeParser.parse_slice_into_tape(d, &mut t1),
                        BinaryTapeParser.parse_slice_into_tape_unoptimized(d, &mut t2),
                    )
                } else {
                    (
                        BinaryTapeParser.parse_slice_into_tape_unoptimized(d, &mut t1),
                        BinaryTapeParser.parse_slice_into_tape(d, &mut t2),
                    )
                };
                let so = match ro {
                    Ok(()) => show_tape(t1.tokens()),
                    Err(_) => "ERR".into(),
                };
                let sr = match rr {
                    Ok(()) => show_tape(t2.tokens()),
                    Err(_) => "ERR".into(),
                };
                let fo = match BinaryTapeParser.parse_slice(d) {
                    Ok(t) => show_tape(t.tokens()),
                    Err(_) => "ERR".into(),
                };
                let mut t3 = BinaryTape::new();
                let fr = match BinaryTapeParser.parse_slice_into_tape_unoptimized(d, &mut t3) {
                    Ok(()) => show_tape(t3.tokens()),
                    Err(_) => "ERR".into(),
                };
                last = format!("a={} | b={} | fo={} | fr={}", so, sr, fo, fr);
            }
            last
        }
        _ => return dispatch_ladder(kind, a), // s_c03: additional kind below
    };
    Some(r)
}
// <<< a_c03

// >>> s_c03 (wave 6): bt.mir for LONG inputs -- the decider `mirror::ge` recurses once per token, so the comparison
// runs on a thread with a large stack (the parsers themselves run exactly as in bt.mir)
pub fn dispatch_ladder(kind: &str, a: &[&str]) -> Option<String> {
    match (kind, a) {
        ("bt.mirl", [h]) => {
            let data = unhex(h);
            let t = std::thread::Builder::new().stack_size(1 << 30).spawn(move || {
                let mut t1 = BinaryTape::new();
                let mut t2 = BinaryTape::new();
                let ro = BinaryTapeParser.parse_slice_into_tape(&data, &mut t1);
                let rr = BinaryTapeParser.parse_slice_into_tape_unoptimized(&data, &mut t2);
                format!("opt={} ref={}", mirror::flags(&data, ro, &t1), mirror::flags(&data, rr, &t2))
            });
            match t {
                Ok(j) => Some(j.join().unwrap_or_else(|_| "PANIC".to_string())),
                Err(_) => Some("NOTHREAD".to_string()),
            }
        }
        _ => None,
    }
}
// <<< s_c03
