//! binary tape family (C03, binary half of C06): optimised parser, reference parser
//! (pre-existing cfg(unoptimized_build)), structural checker on the real tapes.
use crate::util::*;
use jomini::binary::{BinaryTape, BinaryTapeParser, BinaryToken};

fn show_tok(t: &BinaryToken) -> String {
    match t {
        BinaryToken::Array(e) => format!("A:{}", e),
        BinaryToken::Object(e) => format!("O:{}", e),
        BinaryToken::MixedContainer => "M".into(),
        BinaryToken::Equal => "EQ".into(),
        BinaryToken::End(i) => format!("E:{}", i),
        BinaryToken::Bool(b) => format!("B:{}", if *b { 1 } else { 0 }),
        BinaryToken::U32(x) => format!("U32:{}", x),
        BinaryToken::U64(x) => format!("U64:{}", x),
        BinaryToken::I64(x) => format!("I64:{}", x),
        BinaryToken::I32(x) => format!("I32:{}", x),
        BinaryToken::Quoted(s) => format!("Q:{}", hex(s.as_bytes())),
        BinaryToken::Unquoted(s) => format!("U:{}", hex(s.as_bytes())),
        BinaryToken::F32(x) => format!("F32:{}", hex(x)),
        BinaryToken::F64(x) => format!("F64:{}", hex(x)),
        BinaryToken::Token(x) => format!("T:{}", x),
        BinaryToken::Rgb(c) => format!(
            "RGB:{},{},{},{}",
            c.r,
            c.g,
            c.b,
            match c.a {
                Some(a) => a.to_string(),
                None => "-".into(),
            }
        ),
    }
}

fn show_tape(toks: &[BinaryToken]) -> String {
    let mut s = String::from("OK");
    for t in toks {
        s.push(' ');
        s.push_str(&show_tok(t));
    }
    s
}

/// Dyck check with a stack of (start, stored end); no container at index 0, no End(0);
/// every string scalar lies inside the input and starts after the previous one.
/// 'y' sound, 'n' links/nesting broken, 'p' a payload is not a slice of the input.
fn wf(toks: &[BinaryToken], data: &[u8]) -> char {
    let mut stack: Vec<(usize, usize)> = Vec::new();
    for (pos, t) in toks.iter().enumerate() {
        match t {
            BinaryToken::Array(e) | BinaryToken::Object(e) => {
                if pos == 0 {
                    return 'n';
                }
                stack.push((pos, *e));
            }
            BinaryToken::End(i) => match stack.pop() {
                Some((p, e)) => {
                    if p != *i || e != pos {
                        return 'n';
                    }
                }
                None => return 'n',
            },
            _ => {}
        }
    }
    if !stack.is_empty() {
        return 'n';
    }
    let lo = data.as_ptr() as usize;
    let hi = lo + data.len();
    let mut prev = 0usize;
    for t in toks {
        if let BinaryToken::Quoted(s) | BinaryToken::Unquoted(s) = t {
            let b = s.as_bytes();
            let a = b.as_ptr() as usize;
            // a string payload is preceded by its id and its length: at least 4 bytes further on
            if a < lo + 4 || a + b.len() > hi || a < prev + 4 {
                return 'p';
            }
            let off = a - lo;
            let len = u16::from_le_bytes([data[off - 2], data[off - 1]]) as usize;
            if len != b.len() {
                return 'p';
            }
            prev = a;
        }
    }
    'y'
}

// >>> a_c06 (C06)
/// tape with the offset of every string payload relative to the input slice (`Q@<off>:<hex>`,
/// `@X` when the pointer range is outside the slice); everything else as `show_tok`.
fn show_tape_ptr(toks: &[BinaryToken], data: &[u8]) -> String {
    let lo = data.as_ptr() as usize;
    let hi = lo + data.len();
    let mut s = String::from("OK");
    for t in toks {
        s.push(' ');
        match t {
            BinaryToken::Quoted(x) | BinaryToken::Unquoted(x) => {
                let tag = if matches!(t, BinaryToken::Quoted(_)) { "Q" } else { "U" };
                let b = x.as_bytes();
                let a = b.as_ptr() as usize;
                if a < lo || a + b.len() > hi {
                    s.push_str(&format!("{}@X:{}", tag, hex(b)));
                } else {
                    s.push_str(&format!("{}@{}:{}", tag, a - lo, hex(b)));
                }
            }
            _ => s.push_str(&show_tok(t)),
        }
    }
    s
}

/// `A:<e>` / `O:<e>` / `E:<i>` / anything else = a scalar: input of the structural checker alone
fn toks_of_shape(s: &str) -> Vec<BinaryToken<'static>> {
    let mut v = Vec::new();
    if s == "-" || s.is_empty() {
        return v;
    }
    for t in s.split(' ') {
        let num = |x: &str| x.parse::<usize>().unwrap();
        if let Some(e) = t.strip_prefix("A:") {
            v.push(BinaryToken::Array(num(e)));
        } else if let Some(e) = t.strip_prefix("O:") {
            v.push(BinaryToken::Object(num(e)));
        } else if let Some(e) = t.strip_prefix("E:") {
            v.push(BinaryToken::End(num(e)));
        } else if t == "M" {
            v.push(BinaryToken::MixedContainer);
        } else if t == "EQ" {
            v.push(BinaryToken::Equal);
        } else {
            v.push(BinaryToken::Bool(true));
        }
    }
    v
}
// <<< a_c06

fn all_with<'a>(data: &'a [u8], topt: &mut BinaryTape<'a>, tref: &mut BinaryTape<'a>) -> String {
    let ro = BinaryTapeParser.parse_slice_into_tape(data, topt);
    let rr = BinaryTapeParser.parse_slice_into_tape_unoptimized(data, tref);
    let (so, wo) = match ro {
        Ok(()) => (show_tape(topt.tokens()), wf(topt.tokens(), data)),
        Err(_) => ("ERR".to_string(), '-'),
    };
    let (sr, wr) = match rr {
        Ok(()) => (show_tape(tref.tokens()), wf(tref.tokens(), data)),
        Err(_) => ("ERR".to_string(), '-'),
    };
    format!("opt={} | ref={} | wf={}{}", so, sr, wo, wr)
}

pub fn dispatch(kind: &str, a: &[&str]) -> Option<String> {
    let r = match (kind, a) {
        ("bt.all", [h]) => {
            let data = unhex(h);
            let mut t1 = BinaryTape::new();
            let mut t2 = BinaryTape::new();
            // the public convenience entry point must agree with parse_slice_into_tape
            let direct = BinaryTape::from_slice(&data);
            let s = all_with(&data, &mut t1, &mut t2);
            let d = match &direct {
                Ok(t) => show_tape(t.tokens()),
                Err(_) => "ERR".to_string(),
            };
            if !s.starts_with(&format!("opt={} | ", d)) {
                format!("from_slice-differs {} vs {}", d, s)
            } else {
                s
            }
        }
        ("bt.reuse", [h1, h2]) => {
            let first = unhex(h1);
            let data = unhex(h2);
            let mut t1 = BinaryTape::new();
            let mut t2 = BinaryTape::new();
            let _ = BinaryTapeParser.parse_slice_into_tape(&first, &mut t1);
            let _ = BinaryTapeParser.parse_slice_into_tape_unoptimized(&first, &mut t2);
            all_with(&data, &mut t1, &mut t2)
        }
        // >>> a_c06 (C06)
        // the structural checker of this file alone, on an arbitrary token shape (cross-checked
        // against BinTapeWf.tape_wfb and the Python checker, on sound AND unsound tapes)
        ("bt.wfcheck", [shape]) => {
            let toks = toks_of_shape(shape);
            wf(&toks, &[]).to_string()
        }
        // BinaryTapeParser.parse_slice (fresh tape) and parse_slice_into_tape on a used tape:
        // string payload offsets relative to the input
        ("bt.ptr", [h]) => {
            let data = unhex(h);
            match BinaryTapeParser.parse_slice(&data) {
                Ok(t) => show_tape_ptr(t.tokens(), &data),
                Err(_) => "ERR".to_string(),
            }
        }
        ("bt.ptr_reuse", [h1, h2]) => {
            let first = unhex(h1);
            let data = unhex(h2);
            let mut t1 = BinaryTape::new();
            let _ = BinaryTapeParser.parse_slice_into_tape(&first, &mut t1);
            match BinaryTapeParser.parse_slice_into_tape(&data, &mut t1) {
                Ok(()) => show_tape_ptr(t1.tokens(), &data),
                Err(_) => "ERR".to_string(),
            }
        }
        // <<< a_c06
        _ => return None,
    };
    Some(r)
}
