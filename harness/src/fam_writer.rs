//! Text writer family (C14, C15): the real TextWriter into a Vec<u8>, driven by call lists or tapes.
//!
//! cfg    = `<indent_char>,<indent_factor>,<r|d>` (the profile letter is for the model only); `d` in place of
//!          indent_char / indent_factor = that builder setter is not called (wave 4)
//! calls  = `;`-separated: u:<hex> q:<hex> op:<code> h:<hex> s os as e b:<0|1> i32:<z> u32:<n> u64:<n>
//!          i64:<z> f32:<bits>:<text> f64:<bits>:<text> f32p:<bits>:<prec>:<text> f64p:..
//!          date:<d|h|u>:<y>:<m>:<d>:<h> dateiso:<d|h|u>:<y>:<m>:<d>:<h> rgb:<r>:<g>:<b>[:<a>] m fmt:<hex> bin:<TOKEN...>
//!          (bits in hex; <text> = what Display prints, consumed by the model only)
//! output = `<hex of bytes written> <log>`, log = per call `[E]<depth>.<k + 2u + 4a>` joined by `,`
use super::fam_texttape::{show_tape, show_tokens};
use crate::util::*;
use jomini::binary::Rgb;
use jomini::common::{Date, DateHour, PdsDate, UniformDate};
use jomini::text::Operator;
use jomini::{BinaryToken, Scalar, TextTape, TextToken, TextWriter, TextWriterBuilder};

fn op_of(c: &str) -> Option<Operator> {
    Some(match c {
        "0" => Operator::LessThan,
        "1" => Operator::LessThanEqual,
        "2" => Operator::GreaterThan,
        "3" => Operator::GreaterThanEqual,
        "4" => Operator::NotEqual,
        "5" => Operator::Exact,
        "6" => Operator::Equal,
        "7" => Operator::Exists,
        _ => return None,
    })
}

fn builder(cfg: &str) -> Option<TextWriterBuilder> {
    let mut it = cfg.split(',');
    // `d` = the setter is not called at all (TextWriterBuilder's own default: space / 2)
    let ch = it.next()?;
    let fa = it.next()?;
    let mut b = TextWriterBuilder::new();
    if ch != "d" {
        b.indent_char(ch.parse().ok()?);
    }
    if fa != "d" {
        b.indent_factor(fa.parse().ok()?);
    }
    Some(b)
}

fn rgb_of(p: &[&str]) -> Option<Rgb> {
    let r = p.first()?.parse().ok()?;
    let g = p.get(1)?.parse().ok()?;
    let b = p.get(2)?.parse().ok()?;
    let a = match p.get(3) {
        Some(x) => Some(x.parse().ok()?),
        None => None,
    };
    Some(Rgb { r, g, b, a })
}

fn f32_of(bits: &str) -> Option<f32> {
    Some(f32::from_bits(u32::from_str_radix(bits, 16).ok()?))
}
fn f64_of(bits: &str) -> Option<f64> {
    Some(f64::from_bits(u64::from_str_radix(bits, 16).ok()?))
}

/// One call; None = malformed case.
fn apply<W: std::io::Write>(w: &mut TextWriter<W>, call: &str) -> Option<Result<(), jomini::Error>> {
    let p: Vec<&str> = call.split(':').collect();
    let r = match p[0] {
        "u" => w.write_unquoted(&unhex(p.get(1)?)),
        "q" => w.write_quoted(&unhex(p.get(1)?)),
        "op" => w.write_operator(op_of(p.get(1)?)?),
        "h" => w.write_header(&unhex(p.get(1)?)),
        "s" => w.write_start(),
        "os" => w.write_object_start(),
        "as" => w.write_array_start(),
        "e" => w.write_end(),
        "b" => w.write_bool(*p.get(1)? == "1"),
        "i32" => w.write_i32(p.get(1)?.parse().ok()?),
        "u32" => w.write_u32(p.get(1)?.parse().ok()?),
        "u64" => w.write_u64(p.get(1)?.parse().ok()?),
        "i64" => w.write_i64(p.get(1)?.parse().ok()?),
        "f32" => w.write_f32(f32_of(p.get(1)?)?),
        "f64" => w.write_f64(f64_of(p.get(1)?)?),
        "f32p" => w.write_f32_precision(f32_of(p.get(1)?)?, p.get(2)?.parse().ok()?),
        "f64p" => w.write_f64_precision(f64_of(p.get(1)?)?, p.get(2)?.parse().ok()?),
        "date" => {
            let y: i16 = p.get(2)?.parse().ok()?;
            let m: u8 = p.get(3)?.parse().ok()?;
            let d: u8 = p.get(4)?.parse().ok()?;
            let h: u8 = p.get(5)?.parse().ok()?;
            match *p.get(1)? {
                "d" => w.write_date(Date::from_ymd_opt(y, m, d)?.game_fmt()),
                "h" => w.write_date(DateHour::from_ymdh_opt(y, m, d, h)?.game_fmt()),
                "u" => w.write_date(UniformDate::from_ymd_opt(y, m, d)?.game_fmt()),
                _ => return None,
            }
        }
        // write_date with the ISO-8601 formatter of the same three date types
        "dateiso" => {
            let y: i16 = p.get(2)?.parse().ok()?;
            let m: u8 = p.get(3)?.parse().ok()?;
            let d: u8 = p.get(4)?.parse().ok()?;
            let h: u8 = p.get(5)?.parse().ok()?;
            match *p.get(1)? {
                "d" => w.write_date(Date::from_ymd_opt(y, m, d)?.iso_8601()),
                "h" => w.write_date(DateHour::from_ymdh_opt(y, m, d, h)?.iso_8601()),
                "u" => w.write_date(UniformDate::from_ymd_opt(y, m, d)?.iso_8601()),
                _ => return None,
            }
        }
        "rgb" => w.write_rgb(&rgb_of(&p[1..])?),
        "m" => {
            w.start_mixed_mode();
            Ok(())
        }
        "fmt" => {
            let b = unhex(p.get(1)?);
            let s = std::str::from_utf8(&b).ok()?;
            w.write_fmt(format_args!("{}", s))
        }
        "bin" => {
            let sb;
            let tok = match *p.get(1)? {
                "A" => BinaryToken::Array(p.get(2).and_then(|x| x.parse().ok()).unwrap_or(0)),
                "O" => BinaryToken::Object(p.get(2).and_then(|x| x.parse().ok()).unwrap_or(0)),
                "M" => BinaryToken::MixedContainer,
                "EQ" => BinaryToken::Equal,
                "E" => BinaryToken::End(p.get(2).and_then(|x| x.parse().ok()).unwrap_or(0)),
                "B" => BinaryToken::Bool(*p.get(2)? == "1"),
                "U32" => BinaryToken::U32(p.get(2)?.parse().ok()?),
                "U64" => BinaryToken::U64(p.get(2)?.parse().ok()?),
                "I64" => BinaryToken::I64(p.get(2)?.parse().ok()?),
                "I32" => BinaryToken::I32(p.get(2)?.parse().ok()?),
                "Q" => {
                    sb = unhex(p.get(2)?);
                    BinaryToken::Quoted(Scalar::new(&sb))
                }
                "U" => {
                    sb = unhex(p.get(2)?);
                    BinaryToken::Unquoted(Scalar::new(&sb))
                }
                "F32" => BinaryToken::F32(u32::from_str_radix(p.get(2)?, 16).ok()?.to_le_bytes()),
                "F64" => BinaryToken::F64(u64::from_str_radix(p.get(2)?, 16).ok()?.to_le_bytes()),
                "T" => BinaryToken::Token(p.get(2)?.parse().ok()?),
                "RGB" => BinaryToken::Rgb(rgb_of(&p[2..])?),
                _ => return None,
            };
            w.write_binary(&tok)
        }
        _ => return None,
    };
    Some(r)
}

fn queries<W: std::io::Write>(w: &TextWriter<W>) -> String {
    let f = (w.expecting_key() as u8) + 2 * (w.at_unknown_start() as u8) + 4 * (w.at_array_value() as u8);
    format!("{}.{}", w.depth(), f)
}

/// Runs the calls; returns (bytes written, log) or None for a malformed case.
fn run_calls(cfg: &str, calls: &str) -> Option<(Vec<u8>, String)> {
    let b = builder(cfg)?;
    let mut out: Vec<u8> = Vec::new();
    let mut log: Vec<String> = Vec::new();
    {
        let mut w = b.from_writer(&mut out);
        if calls != "-" && !calls.is_empty() {
            for c in calls.split(';') {
                let r = apply(&mut w, c)?;
                log.push(format!("{}{}", if r.is_err() { "E" } else { "" }, queries(&w)));
            }
        }
    }
    Some((out, if log.is_empty() { "-".to_string() } else { log.join(",") }))
}

fn write_tape(cfg: &str, tape: &TextTape) -> Option<(Vec<u8>, bool, String)> {
    let b = builder(cfg)?;
    let mut out: Vec<u8> = Vec::new();
    let (ok, q);
    {
        let mut w = b.from_writer(&mut out);
        ok = w.write_tape(tape).is_ok();
        q = queries(&w);
    }
    Some((out, ok, q))
}

/// A writer *session* (wave 4): one TextWriter over an OWNED Vec<u8>, driven by a list of segments
///   `c=<calls>`               direct calls (same syntax as writer.calls)
///   `t=<input hex>|<tape>`    write_tape of the parsed input (the tape string is what the model gets)
///   `i=<hex>`                 bytes written behind the writer's back through inner()
/// and finished with into_inner().  Log: per segment, joined by `/`: the per-call entries of a `c=`
/// segment, `T<queries>` / `TE<queries>` for a tape, `I` for a raw write.
fn run_session(cfg: &str, segs: &[&str]) -> Option<Result<(Vec<u8>, String), &'static str>> {
    use std::io::Write;
    let b = builder(cfg)?;
    let mut w = b.from_writer(Vec::<u8>::new());
    let mut log: Vec<String> = Vec::new();
    for s in segs {
        let (k, body) = s.split_once('=')?;
        match k {
            "c" => {
                let mut l: Vec<String> = Vec::new();
                if body != "-" && !body.is_empty() {
                    for c in body.split(';') {
                        let r = apply(&mut w, c)?;
                        l.push(format!("{}{}", if r.is_err() { "E" } else { "" }, queries(&w)));
                    }
                }
                log.push(if l.is_empty() { "-".to_string() } else { l.join(",") });
            }
            "t" => {
                let (input, tape) = body.split_once('|')?;
                let d = unhex(input);
                let t = match TextTape::from_slice(&d) {
                    Ok(t) => t,
                    Err(_) => return Some(Err("PARSE-ERR")),
                };
                if show_tokens(t.tokens()) != tape {
                    return Some(Err("TAPE-MISMATCH"));
                }
                let ok = w.write_tape(&t).is_ok();
                log.push(format!("T{}{}", if ok { "" } else { "E" }, queries(&w)));
            }
            "i" => {
                w.inner().write_all(&unhex(body)).ok()?;
                log.push("I".to_string());
            }
            _ => return None,
        }
    }
    let out: Vec<u8> = w.into_inner();
    Some(Ok((out, if log.is_empty() { "-".to_string() } else { log.join("/") })))
}

fn show_opt<T: ToString, E>(r: Result<T, E>) -> String {
    match r {
        Ok(v) => v.to_string(),
        Err(_) => "-".to_string(),
    }
}

pub fn dispatch(kind: &str, a: &[&str]) -> Option<String> {
    let r = match (kind, a) {
        ("writer.calls", [cfg, calls]) => match run_calls(cfg, calls) {
            Some((out, log)) => format!("{} {}", hex(&out), log),
            None => "BADCASE".to_string(),
        },
        // parse with the real parser, check the canonical tape, then write_tape
        ("writer.tape", [cfg, input, tape]) => {
            let d = unhex(input);
            match TextTape::from_slice(&d) {
                Err(_) => "PARSE-ERR".to_string(),
                Ok(t) => {
                    if show_tokens(t.tokens()) != *tape {
                        "TAPE-MISMATCH".to_string()
                    } else {
                        match write_tape(cfg, &t) {
                            Some((out, true, q)) => format!("ok {} {}", hex(&out), q),
                            Some((out, false, q)) => format!("ERR {} {}", hex(&out), q),
                            None => "BADCASE".to_string(),
                        }
                    }
                }
            }
        }
        ("writer.escape", [h]) => hex(&jomini::text::verif_hooks_writer::escape(&unhex(h))),
        ("writer.escape_reuse", [p, h]) => hex(&jomini::text::verif_hooks_writer::escape_reuse(&unhex(p), &unhex(h))),

        // ---------- implementation-only kinds (property oracles, no model counterpart) ----------
        // Display text of a float: 32|64, bits (hex), optional precision
        ("writer.fdisp", [w, bits]) => match *w {
            "32" => hex(format!("{}", f32_of(bits)?).as_bytes()),
            _ => hex(format!("{}", f64_of(bits)?).as_bytes()),
        },
        ("writer.fdisp", [w, bits, prec]) => {
            let p: usize = prec.parse().ok()?;
            match *w {
                "32" => hex(format!("{0:.1$}", f32_of(bits)?, p).as_bytes()),
                _ => hex(format!("{0:.1$}", f64_of(bits)?, p).as_bytes()),
            }
        }
        // calls -> bytes -> real parser: `ok <bom> <tape>` | `ERR`
        ("writer.reparse", [cfg, calls]) => match run_calls(cfg, calls) {
            Some((out, _)) => show_tape(&TextTape::from_slice(&out)),
            None => "BADCASE".to_string(),
        },
        // calls -> bytes -> parser -> every scalar token decoded: Q:<raw>:<w1252 utf8>:<utf8 utf8> / U:<raw>:<i64>:<u64>:<f64 bits>
        ("writer.values", [cfg, calls]) => match run_calls(cfg, calls) {
            None => "BADCASE".to_string(),
            Some((out, _)) => match TextTape::from_slice(&out) {
                Err(_) => "ERR".to_string(),
                Ok(t) => {
                    let mut v: Vec<String> = Vec::new();
                    for tok in t.tokens() {
                        match tok {
                            TextToken::Quoted(s) => v.push(format!(
                                "Q:{}:{}:{}",
                                hex(s.as_bytes()),
                                hex(jomini::Windows1252Encoding::decode(s.as_bytes()).as_bytes()),
                                hex(jomini::Utf8Encoding::decode(s.as_bytes()).as_bytes())
                            )),
                            TextToken::Unquoted(s) | TextToken::Header(s) => v.push(format!(
                                "U:{}:{}:{}:{}",
                                hex(s.as_bytes()),
                                show_opt(s.to_i64()),
                                show_opt(s.to_u64()),
                                match s.to_f64() {
                                    Ok(f) => format!("{:016x}", f.to_bits()),
                                    Err(_) => "-".to_string(),
                                }
                            )),
                            _ => {}
                        }
                    }
                    if v.is_empty() {
                        "-".to_string()
                    } else {
                        v.join(" ")
                    }
                }
            },
        },
        // ---------- wave 5 (w_wr): is <s> read back as ONE unquoted scalar where the writer prints it (`a=<s> b=c`)? -> 1 | 0
        ("writer.wfword", [h]) => {
            let s = unhex(h);
            let mut x = b"a=".to_vec();
            x.extend_from_slice(&s);
            x.extend_from_slice(b" b=c");
            let ok = match TextTape::from_slice(&x) {
                Ok(t) => {
                    let k = t.tokens();
                    let is = |i: usize, w: &[u8]| matches!(&k[i], TextToken::Unquoted(v) if v.as_bytes() == w);
                    k.len() == 4 && is(0, b"a") && is(1, &s) && is(2, b"b") && is(3, b"c")
                }
                Err(_) => false,
            };
            (if ok { "1" } else { "0" }).to_string()
        }
        // ---------- wave 4: sessions (reused writers, write_tape at depth, inner / into_inner) ----------
        ("writer.session", [cfg, segs @ ..]) => match run_session(cfg, segs) {
            Some(Ok((out, log))) => format!("{} {}", hex(&out), log),
            Some(Err(e)) => e.to_string(),
            None => "BADCASE".to_string(),
        },
        // implementation only: the session's bytes through the real parser
        ("writer.session_reparse", [cfg, segs @ ..]) => match run_session(cfg, segs) {
            Some(Ok((out, _))) => show_tape(&TextTape::from_slice(&out)),
            Some(Err(e)) => e.to_string(),
            None => "BADCASE".to_string(),
        },
        // implementation only: calls -> bytes -> parser -> every unquoted scalar read back as a typed value
        //   U:<raw>:<bool 1|0|->:<Date game_fmt hex|->:<DateHour ..|->:<UniformDate ..|->
        ("writer.typed", [cfg, calls]) => match run_calls(cfg, calls) {
            None => "BADCASE".to_string(),
            Some((out, _)) => match TextTape::from_slice(&out) {
                Err(_) => "ERR".to_string(),
                Ok(t) => {
                    let mut v: Vec<String> = Vec::new();
                    for tok in t.tokens() {
                        if let TextToken::Unquoted(s) = tok {
                            let b = match s.to_bool() {
                                Ok(true) => "1",
                                Ok(false) => "0",
                                Err(_) => "-",
                            };
                            let d = Date::parse(s.as_bytes()).map(|x| hex(x.game_fmt().to_string().as_bytes())).unwrap_or_else(|_| "-".to_string());
                            let dh = DateHour::parse(s.as_bytes()).map(|x| hex(x.game_fmt().to_string().as_bytes())).unwrap_or_else(|_| "-".to_string());
                            let du = UniformDate::parse(s.as_bytes()).map(|x| hex(x.game_fmt().to_string().as_bytes())).unwrap_or_else(|_| "-".to_string());
                            v.push(format!("U:{}:{}:{}:{}:{}", hex(s.as_bytes()), b, d, dh, du));
                        }
                    }
                    if v.is_empty() {
                        "-".to_string()
                    } else {
                        v.join(" ")
                    }
                }
            },
        },
        // C14 oracle: parse x, write, parse again, write again
        ("writer.rt", [cfg, input]) => {
            let d = unhex(input);
            match TextTape::from_slice(&d) {
                Err(_) => "PARSE-ERR".to_string(),
                Ok(t1) => {
                    let s1 = show_tokens(t1.tokens());
                    match write_tape(cfg, &t1) {
                        None => "BADCASE".to_string(),
                        Some((o1, false, _)) => format!("t1={}|o1=ERR:{}", s1, hex(&o1)),
                        Some((o1, true, _)) => match TextTape::from_slice(&o1) {
                            Err(_) => format!("t1={}|o1={}|t2=ERR", s1, hex(&o1)),
                            Ok(t2) => {
                                let s2 = show_tokens(t2.tokens());
                                match write_tape(cfg, &t2) {
                                    Some((o2, true, _)) => format!("t1={}|o1={}|t2={}|o2={}", s1, hex(&o1), s2, hex(&o2)),
                                    _ => format!("t1={}|o1={}|t2={}|o2=ERR", s1, hex(&o1), s2),
                                }
                            }
                        },
                    }
                }
            }
        }
        _ => return None,
    };
    Some(r)
}
