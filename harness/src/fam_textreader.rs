//! Streaming text TokenReader family (C07, text half of C09, reader part of C20).
use crate::fam_texttape::op_code;
use crate::util::*;
use jomini::text::{ReaderError, ReaderErrorKind, Token, TokenReader};
use std::io::Read;

fn show_tok(t: &Token) -> String {
    match t {
        Token::Open => "O".into(),
        Token::Close => "C".into(),
        Token::Operator(o) => format!("OP:{}", op_code(o)),
        Token::Unquoted(s) => format!("U:{}", hex(s.as_bytes())),
        Token::Quoted(s) => format!("Q:{}", hex(s.as_bytes())),
    }
}

pub fn err_class(e: &ReaderError) -> &'static str {
    match e.kind() {
        ReaderErrorKind::Read(_) => "ERR:100",
        ReaderErrorKind::BufferFull => "ERR:101",
        ReaderErrorKind::Eof => "ERR:102",
    }
}

/// all tokens until the end, terminal event, final position
fn drain<R: Read>(rd: &mut TokenReader<R>, out: &mut Vec<String>, limit: usize) {
    let mut n = 0;
    loop {
        if n > limit {
            out.push("RUNAWAY".into());
            break;
        }
        n += 1;
        match rd.next() {
            Ok(Some(t)) => out.push(show_tok(&t)),
            Ok(None) => {
                out.push("END".into());
                break;
            }
            Err(e) => {
                out.push(err_class(&e).into());
                break;
            }
        }
    }
    out.push(format!("@{}", rd.position()));
}

fn p(s: &str) -> usize {
    s.parse::<usize>().unwrap()
}

pub fn dispatch(kind: &str, a: &[&str]) -> Option<String> {
    let r = match (kind, a) {
        ("tr.slice", [h]) => {
            let d = unhex(h);
            let mut rd = TokenReader::from_slice(&d);
            let mut out = Vec::new();
            drain(&mut rd, &mut out, d.len() + 2);
            out.join(" ")
        }
        // tr.slicepos <hex>: slice reader, every token with position() after it (C09: where token
        // counting lands), then the terminal event with the final position
        ("tr.slicepos", [h]) => {
            let d = unhex(h);
            let mut rd = TokenReader::from_slice(&d);
            let mut out: Vec<String> = Vec::new();
            let mut n = 0;
            loop {
                if n > d.len() + 2 {
                    out.push("RUNAWAY".into());
                    break;
                }
                n += 1;
                match rd.next() {
                    Ok(Some(t)) => {
                        let s = show_tok(&t);
                        out.push(format!("{}@{}", s, rd.position()))
                    }
                    Ok(None) => {
                        out.push(format!("END@{}", rd.position()));
                        break;
                    }
                    Err(e) => {
                        out.push(format!("{}@{}", err_class(&e), rd.position()));
                        break;
                    }
                }
            }
            out.join(" ")
        }
        // tr.subslice <hex> <n>: a slice reader over the first n bytes of a larger allocation (what lies
        // behind the window is real memory: an off-by-one read is not caught by the allocator)
        ("tr.subslice", [h, n]) => {
            let d = unhex(h);
            let n = p(n).min(d.len());
            let mut rd = TokenReader::from_slice(&d[..n]);
            let mut out = Vec::new();
            drain(&mut rd, &mut out, n + 2);
            out.join(" ")
        }
        // tr.stream <cap> <sched> <hex> [recycled-fill-byte]
        ("tr.stream", [cap, sched, h]) | ("tr.stream", [cap, sched, h, _]) => {
            let d = unhex(h);
            let n = d.len();
            let src = SchedRead::new(d, parse_sched(sched));
            let mut b = TokenReader::builder();
            if a.len() == 4 {
                // a buffer recycled from a previous reader: arbitrary stale contents
                let fill = a[3].parse::<u8>().unwrap();
                b = b.buffer(vec![fill; p(cap)].into_boxed_slice());
            } else {
                b = b.buffer_len(p(cap));
            }
            let mut rd = b.build(src);
            let mut out = Vec::new();
            drain(&mut rd, &mut out, n + 2);
            out.join(" ")
        }
        // tr.retry <cap> <sched> <hex>: like tr.stream but keeps calling next() after an error
        // (what a caller retrying a transient I/O failure does); prints delivered byte count
        ("tr.retry", [cap, sched, h]) => {
            let d = unhex(h);
            let n = d.len();
            let src = SchedRead::new(d, parse_sched(sched));
            let mut rd = TokenReader::builder().buffer_len(p(cap)).build(src);
            let mut out: Vec<String> = Vec::new();
            let mut errs = 0;
            let mut steps = 0;
            loop {
                steps += 1;
                if steps > 2 * n + 40 {
                    out.push("RUNAWAY".into());
                    break;
                }
                match rd.next() {
                    Ok(Some(t)) => out.push(show_tok(&t)),
                    Ok(None) => {
                        out.push("END".into());
                        break;
                    }
                    Err(e) => {
                        out.push(err_class(&e).into());
                        errs += 1;
                        if errs > 6 || !matches!(e.kind(), ReaderErrorKind::Read(_)) {
                            break;
                        }
                    }
                }
            }
            let pos = rd.position();
            let (_, src) = rd.into_parts();
            out.push(format!("@{}", pos));
            out.push(format!("D{}", src.delivered));
            out.join(" ")
        }
        // tr.skip <cap|slice> <sched> <hex> <ntok> : read ntok tokens (the last must be Open), skip_container, drain
        ("tr.skip", [cap, sched, h, ntok]) | ("tr.skipuv", [cap, sched, h, ntok]) => {
            let d = unhex(h);
            let n = d.len();
            let mut out = Vec::new();
            macro_rules! go {
                ($rd:expr) => {{
                    let mut ok = true;
                    for _ in 0..p(ntok) {
                        match $rd.next() {
                            Ok(Some(_)) => {}
                            _ => {
                                ok = false;
                                break;
                            }
                        }
                    }
                    if !ok {
                        out.push("SHORT".to_string());
                    } else {
                        let r = if kind == "tr.skip" { $rd.skip_container() } else { $rd.skip_unquoted_value() };
                        match r {
                            Ok(()) => {
                                out.push(format!("SKIP@{}", $rd.position()));
                                drain(&mut $rd, &mut out, n + 2);
                            }
                            Err(e) => {
                                out.push(err_class(&e).to_string());
                            }
                        }
                    }
                }};
            }
            if *cap == "slice" {
                let mut rd = TokenReader::from_slice(&d);
                go!(rd);
            } else {
                let src = SchedRead::new(d.clone(), parse_sched(sched));
                let mut rd = TokenReader::builder().buffer_len(p(cap)).build(src);
                go!(rd);
            }
            out.join(" ")
        }
        // >>> s_c09 (wave 6): a HISTORY of calls on one reader
        // tr.skipn <cap|slice> <sched> <hex> <ops>: ops = comma separated `n<k>` (k calls of next(), each must yield a
        // token), `k` (skip_container), `u` (skip_unquoted_value); every skip prints `SKIP@position()`; then drain
        ("tr.skipn", [cap, sched, h, ops]) => {
            let d = unhex(h);
            let n = d.len();
            let mut out = Vec::new();
            macro_rules! go {
                ($rd:expr) => {{
                    let mut live = true;
                    'ops: for op in ops.split(',') {
                        if op.is_empty() || op == "-" {
                            continue;
                        }
                        if let Some(k) = op.strip_prefix('n') {
                            for _ in 0..p(k) {
                                match $rd.next() {
                                    Ok(Some(_)) => {}
                                    _ => {
                                        out.push("SHORT".to_string());
                                        live = false;
                                        break 'ops;
                                    }
                                }
                            }
                        } else {
                            let r = if op == "k" { $rd.skip_container() } else { $rd.skip_unquoted_value() };
                            match r {
                                Ok(()) => out.push(format!("SKIP@{}", $rd.position())),
                                Err(e) => {
                                    out.push(err_class(&e).to_string());
                                    live = false;
                                    break 'ops;
                                }
                            }
                        }
                    }
                    if live {
                        drain(&mut $rd, &mut out, n + 2);
                    }
                }};
            }
            if *cap == "slice" {
                let mut rd = TokenReader::from_slice(&d);
                go!(rd);
            } else {
                let src = SchedRead::new(d.clone(), parse_sched(sched));
                let mut rd = TokenReader::builder().buffer_len(p(cap)).build(src);
                go!(rd);
            }
            out.join(" ")
        }
        // <<< s_c09
        // tr.readbytes <cap|slice> <sched> <hex> <ntok> <nbytes>
        ("tr.readbytes", [cap, sched, h, ntok, nb]) => {
            let d = unhex(h);
            let n = d.len();
            let mut out = Vec::new();
            macro_rules! go {
                ($rd:expr) => {{
                    for _ in 0..p(ntok) {
                        let _ = $rd.next();
                    }
                    match $rd.read_bytes(p(nb)) {
                        Ok(b) => {
                            out.push(format!("B:{}", hex(b)));
                            drain(&mut $rd, &mut out, n + 2);
                        }
                        Err(e) => {
                            out.push(err_class(&e).to_string());
                        }
                    }
                }};
            }
            if *cap == "slice" {
                let mut rd = TokenReader::from_slice(&d);
                go!(rd);
            } else {
                let src = SchedRead::new(d.clone(), parse_sched(sched));
                let mut rd = TokenReader::builder().buffer_len(p(cap)).build(src);
                go!(rd);
            }
            out.join(" ")
        }
        _ => return None,
    };
    Some(r)
}
