//! DOM / JSON family (C17, C16): every observation the reader API offers for one node of a
//! parsed tape, and the JSON conversion parsed back with serde_json (strict) into a canonical tree.
//!
//! Cases carry the document (hex) *and* the canonical tape string printed by `tt.parse`; the
//! harness re-parses the document with the real parser and refuses (`TAPE-MISMATCH`) when the
//! tape it obtains is not the one the model is given.
use crate::fams::fam_texttape::{op_code, show_tokens};
use crate::util::*;
use jomini::json::{DuplicateKeyMode, JsonOptions, TypeNarrowing};
use jomini::text::{ArrayReader, GroupEntry, ObjectReader, Operator, ValueReader};
use jomini::{Encoding, TextTape, TextToken, Utf8Encoding, Windows1252Encoding};
use serde::de::{Deserialize, Deserializer, MapAccess, SeqAccess, Visitor};
use std::fmt;

/// no document of the streams has more than a few hundred tokens: an iterator that yields more than
/// CAP items, or a JSON text longer than OUT_CAP bytes, is a runaway (reported, not followed)
pub const CAP: usize = 100_000;
const OUT_CAP: usize = 1 << 18;

struct LimitedWriter {
    buf: Vec<u8>,
}

impl std::io::Write for LimitedWriter {
    fn write(&mut self, d: &[u8]) -> std::io::Result<usize> {
        if self.buf.len() + d.len() > OUT_CAP {
            return Err(std::io::Error::new(std::io::ErrorKind::Other, "output limit"));
        }
        self.buf.extend_from_slice(d);
        Ok(d.len())
    }
    fn flush(&mut self) -> std::io::Result<()> {
        Ok(())
    }
}

pub fn tok_str(t: &TextToken) -> String {
    show_tokens(std::slice::from_ref(t))
}

pub fn idx_of<E>(tokens: &[TextToken], v: &ValueReader<E>) -> usize {
    let base = tokens.as_ptr() as usize;
    let p = v.token() as *const TextToken as usize;
    (p - base) / std::mem::size_of::<TextToken>()
}

pub fn str_of<E: Encoding + Clone>(v: &ValueReader<E>) -> String {
    match v.read_str() {
        Ok(s) => hex(s.as_bytes()),
        Err(_) => "E".to_string(),
    }
}

pub fn op_str(op: &Option<Operator>) -> String {
    match op {
        Some(o) => format!("{}", op_code(o)),
        None => "-".to_string(),
    }
}

fn join(v: Vec<String>) -> String {
    v.join(";")
}

fn array_view<E: Encoding + Clone>(tokens: &[TextToken], r: &ArrayReader<E>) -> String {
    let vals: Vec<String> = r.values().take(CAP).map(|v| idx_of(tokens, &v).to_string()).collect();
    let (lo, hi) = r.values().size_hint();
    let strs: Vec<String> = r.values().take(CAP).map(|v| str_of(&v)).collect();
    format!(
        "A{{n={},v=[{}],vs=[{}],tl={},e={},vh={}/{}}}",
        r.len(),
        join(vals),
        join(strs),
        r.tokens_len(),
        r.is_empty() as u8,
        lo,
        hi.map(|x| x.to_string()).unwrap_or_else(|| "-".to_string())
    )
}

fn object_view<E: Encoding + Clone>(tokens: &[TextToken], r: &ObjectReader<E>) -> String {
    let mut fields = r.fields();
    let hint = fields.size_hint().0;
    let mut fs = Vec::new();
    let mut ks = Vec::new();
    let mut vs = Vec::new();
    for (key, op, val) in fields.by_ref().take(CAP) {
        vs.push(str_of(&val));
        fs.push(format!("{}/{}/{}", tok_str(key.token()), op_str(&op), idx_of(tokens, &val)));
        ks.push(hex(key.read_str().as_bytes()));
        // read_string and read_scalar are the same data
        assert_eq!(key.read_string().as_bytes(), key.read_str().as_bytes());
    }
    let rem = fields.remainder();
    let remv: Vec<String> = rem.values().take(CAP).map(|v| idx_of(tokens, &v).to_string()).collect();
    let mut groups = r.field_groups();
    let gh = groups.size_hint().0;
    let mut gs = Vec::new();
    let mut ghs = Vec::new();
    let mut rounds = 0;
    while let Some((key, group)) = groups.next() {
        rounds += 1;
        if rounds > CAP {
            break;
        }
        let n = group.len();
        let vs: Vec<String> = group
            .values()
            .take(CAP)
            .map(|(op, v)| format!("{}/{}", op_str(&op), idx_of(tokens, &v)))
            .collect();
        let kind = match group {
            GroupEntry::One(_) => "1",
            GroupEntry::Multiple(_) => "m",
        };
        assert!(!group.is_empty());
        gs.push(format!("{}{}{}({})", tok_str(key.token()), kind, n, vs.join("+")));
        ghs.push(groups.size_hint().0.to_string());
    }
    let grem = groups.remainder();
    let gremv: Vec<String> = grem.values().take(CAP).map(|v| idx_of(tokens, &v).to_string()).collect();
    format!(
        "O{{fl={},h={},f=[{}],rem=[{}]/{}/{},g=[{}],gh={}:{},grem=[{}],tl={},ks=[{}],vs=[{}]}}",
        r.fields_len(),
        hint,
        join(fs),
        join(remv),
        rem.len(),
        rem.tokens_len(),
        join(gs),
        gh,
        ghs.join(","),
        join(gremv),
        r.tokens_len(),
        join(ks),
        join(vs)
    )
}

/// depth first search for the ValueReader whose token sits at `target`
fn find_in_values<'d, 't, E: Encoding + Clone>(
    tokens: &'t [TextToken<'d>],
    it: impl Iterator<Item = ValueReader<'d, 't, E>>,
    target: usize,
) -> Option<ValueReader<'d, 't, E>> {
    for v in it.take(CAP) {
        let i = idx_of(tokens, &v);
        if i == target {
            return Some(v);
        }
        let r = match v.token() {
            TextToken::Array { end, .. } | TextToken::Object { end, .. } => {
                if i < target && target < *end {
                    find_in_value(tokens, &v, target)
                } else {
                    None
                }
            }
            TextToken::Header(_) => {
                // the header's own array view is (header, container)
                if target > i {
                    match v.read_array().ok().and_then(|a| a.values().nth(1)) {
                        Some(c) => find_in_values(tokens, std::iter::once(c), target),
                        None => None,
                    }
                } else {
                    None
                }
            }
            _ => None,
        };
        if r.is_some() {
            return r;
        }
    }
    None
}

pub fn find_in_object<'d, 't, E: Encoding + Clone>(
    tokens: &'t [TextToken<'d>],
    o: &ObjectReader<'d, 't, E>,
    target: usize,
) -> Option<ValueReader<'d, 't, E>> {
    let mut fields = o.fields();
    let vals: Vec<ValueReader<'d, 't, E>> = fields.by_ref().take(CAP).map(|(_, _, v)| v).collect();
    if let Some(r) = find_in_values(tokens, vals.into_iter(), target) {
        return Some(r);
    }
    find_in_values(tokens, fields.remainder().values(), target)
}

fn find_in_value<'d, 't, E: Encoding + Clone>(
    tokens: &'t [TextToken<'d>],
    v: &ValueReader<'d, 't, E>,
    target: usize,
) -> Option<ValueReader<'d, 't, E>> {
    match v.token() {
        TextToken::Object { .. } => find_in_object(tokens, &v.read_object().ok()?, target),
        TextToken::Array { .. } => find_in_values(tokens, v.read_array().ok()?.values(), target),
        _ => None,
    }
}

fn node_view<E: Encoding + Clone>(tape: &TextTape, top: ObjectReader<E>, idx: &str) -> String {
    let tokens = tape.tokens();
    if idx == "top" {
        return object_view(tokens, &top);
    }
    let target: usize = idx.parse().unwrap();
    let v = match find_in_object(tokens, &top, target) {
        Some(v) => v,
        None => return "UNREACH".to_string(),
    };
    let sc = match v.read_scalar() {
        Ok(s) => hex(s.as_bytes()),
        Err(_) => "E".to_string(),
    };
    let st = match v.read_str() {
        Ok(s) => {
            assert_eq!(v.read_string().unwrap().as_bytes(), s.as_bytes());
            hex(s.as_bytes())
        }
        Err(_) => "E".to_string(),
    };
    let ob = match v.read_object() {
        Ok(o) => object_view(tokens, &o),
        Err(_) => "E".to_string(),
    };
    let ar = match v.read_array() {
        Ok(a) => array_view(tokens, &a),
        Err(_) => "E".to_string(),
    };
    format!("tok={} tl={} sc={} str={} obj={} arr={}", tok_str(v.token()), v.tokens_len(), sc, st, ob, ar)
}

// ------------------------------------------------------------------ JSON tree
enum Tree {
    Null,
    Bool(bool),
    Int(i128),
    Float,
    Str(String),
    Arr(Vec<Tree>),
    Obj(Vec<(String, Tree)>),
}

struct TreeVisitor;

impl<'de> Visitor<'de> for TreeVisitor {
    type Value = Tree;
    fn expecting(&self, f: &mut fmt::Formatter) -> fmt::Result {
        f.write_str("any JSON value")
    }
    fn visit_unit<E>(self) -> Result<Tree, E> {
        Ok(Tree::Null)
    }
    fn visit_bool<E>(self, b: bool) -> Result<Tree, E> {
        Ok(Tree::Bool(b))
    }
    fn visit_i64<E>(self, v: i64) -> Result<Tree, E> {
        Ok(Tree::Int(v as i128))
    }
    fn visit_u64<E>(self, v: u64) -> Result<Tree, E> {
        Ok(Tree::Int(v as i128))
    }
    fn visit_f64<E>(self, _v: f64) -> Result<Tree, E> {
        // the exact value is re-read from the number's own text (see float_tokens)
        Ok(Tree::Float)
    }
    fn visit_str<E>(self, s: &str) -> Result<Tree, E> {
        Ok(Tree::Str(s.to_string()))
    }
    fn visit_string<E>(self, s: String) -> Result<Tree, E> {
        Ok(Tree::Str(s))
    }
    fn visit_seq<A: SeqAccess<'de>>(self, mut seq: A) -> Result<Tree, A::Error> {
        let mut v = Vec::new();
        while let Some(x) = seq.next_element::<Tree>()? {
            v.push(x);
        }
        Ok(Tree::Arr(v))
    }
    fn visit_map<A: MapAccess<'de>>(self, mut map: A) -> Result<Tree, A::Error> {
        // serde_json hands over every entry as it appears: duplicates and order are preserved
        let mut v = Vec::new();
        while let Some((k, x)) = map.next_entry::<String, Tree>()? {
            v.push((k, x));
        }
        Ok(Tree::Obj(v))
    }
}

impl<'de> Deserialize<'de> for Tree {
    fn deserialize<D: Deserializer<'de>>(d: D) -> Result<Tree, D::Error> {
        d.deserialize_any(TreeVisitor)
    }
}

/// texts of the numbers that are not plain integers, in document order
fn float_tokens(text: &str) -> Vec<String> {
    let b = text.as_bytes();
    let mut out = Vec::new();
    let mut i = 0;
    while i < b.len() {
        let c = b[i];
        if c == b'"' {
            i += 1;
            while i < b.len() && b[i] != b'"' {
                if b[i] == b'\\' {
                    i += 1;
                }
                i += 1;
            }
            i += 1;
        } else if c == b'-' || c.is_ascii_digit() {
            let s = i;
            while i < b.len() && (b[i] == b'-' || b[i] == b'+' || b[i] == b'.' || b[i] == b'e' || b[i] == b'E' || b[i].is_ascii_digit()) {
                i += 1;
            }
            let t = &text[s..i];
            if t.contains('.') || t.contains('e') || t.contains('E') {
                out.push(t.to_string());
            }
        } else {
            i += 1;
        }
    }
    out
}

fn show_tree(t: &Tree, floats: &mut std::vec::IntoIter<String>, out: &mut String) -> bool {
    match t {
        Tree::Null => out.push('n'),
        Tree::Bool(true) => out.push('t'),
        Tree::Bool(false) => out.push('f'),
        Tree::Int(i) => out.push_str(&format!("i{}", i)),
        Tree::Float => match floats.next() {
            Some(s) => match s.parse::<f64>() {
                Ok(f) => out.push_str(&format!("d{:016x}", f.to_bits())),
                Err(_) => return false,
            },
            None => return false,
        },
        Tree::Str(s) => out.push_str(&format!("s{}", hex(s.as_bytes()))),
        Tree::Arr(v) => {
            out.push('[');
            for (k, x) in v.iter().enumerate() {
                if k > 0 {
                    out.push(',');
                }
                if !show_tree(x, floats, out) {
                    return false;
                }
            }
            out.push(']');
        }
        Tree::Obj(v) => {
            out.push('{');
            for (k, (key, x)) in v.iter().enumerate() {
                if k > 0 {
                    out.push(',');
                }
                out.push_str(&format!("s{}:", hex(key.as_bytes())));
                if !show_tree(x, floats, out) {
                    return false;
                }
            }
            out.push('}');
        }
    }
    true
}

fn canonical_tree(text: &[u8]) -> String {
    let s = match std::str::from_utf8(text) {
        Ok(s) => s,
        Err(_) => return "INVALID-UTF8".to_string(),
    };
    let mut de = serde_json::Deserializer::from_str(s);
    let tree = match Tree::deserialize(&mut de) {
        Ok(t) => t,
        Err(_) => return "INVALID-JSON".to_string(),
    };
    if de.end().is_err() {
        return "INVALID-JSON".to_string();
    }
    let mut floats = float_tokens(s).into_iter();
    let mut out = String::new();
    if !show_tree(&tree, &mut floats, &mut out) || floats.next().is_some() {
        return "FLOAT-LEX-MISMATCH".to_string();
    }
    out
}

fn options(pretty: &str, dup: &str, narrow: &str) -> JsonOptions {
    JsonOptions::new()
        .with_prettyprint(pretty == "1")
        .with_duplicate_keys(match dup {
            "g" => DuplicateKeyMode::Group,
            "p" => DuplicateKeyMode::Preserve,
            _ => DuplicateKeyMode::KeyValuePairs,
        })
        .with_type_narrowing(match narrow {
            "a" => TypeNarrowing::All,
            "u" => TypeNarrowing::Unquoted,
            _ => TypeNarrowing::None,
        })
}

/// the JSON text of one entry point, or None when the reader refuses (not an object / array)
fn json_text<E: Encoding + Clone>(
    tape: &TextTape,
    top: ObjectReader<E>,
    idx: &str,
    entry: &str,
    opts: JsonOptions,
) -> Result<Vec<u8>, String> {
    let tokens = tape.tokens();
    let limited = |r: Result<(), std::io::Error>, w: LimitedWriter| -> Result<Vec<u8>, String> {
        match r {
            Ok(()) => Ok(w.buf),
            Err(_) => Err("OUTPUT-LIMIT".to_string()),
        }
    };
    if idx == "top" {
        let mut w = LimitedWriter { buf: Vec::new() };
        let r = top.json().with_options(opts).to_writer(&mut w);
        let v = limited(r, w)?;
        // to_vec and to_string are the same serializer (only tried once the output is known to be finite)
        let v2 = top.json().with_options(opts).to_vec();
        let s = top.json().with_options(opts).to_string();
        if s.as_bytes() != v.as_slice() || v2 != v {
            return Err("ENTRY-MISMATCH".to_string());
        }
        return Ok(v);
    }
    let target: usize = idx.parse().unwrap();
    let v = match find_in_object(tokens, &top, target) {
        Some(v) => v,
        None => return Err("UNREACH".to_string()),
    };
    let mut w = LimitedWriter { buf: Vec::new() };
    match entry {
        "v" => {
            let r = v.json().with_options(opts).to_writer(&mut w);
            limited(r, w)
        }
        "o" => match v.read_object() {
            Ok(o) => {
                let r = o.json().with_options(opts).to_writer(&mut w);
                limited(r, w)
            }
            Err(_) => Err("E".to_string()),
        },
        _ => match v.read_array() {
            Ok(a) => {
                let r = a.json().with_options(opts).to_writer(&mut w);
                limited(r, w)
            }
            Err(_) => Err("E".to_string()),
        },
    }
}

// >>> w_json (wave 5): the keys and leaves of a canonical tree in text order (stream `atoms`):
// K<hex> for an object key, V<leaf> for a leaf; brackets and braces vanish
fn atoms_of_canonical(s: &str) -> String {
    let b = s.as_bytes();
    let mut out: Vec<String> = Vec::new();
    let mut i = 0;
    while i < b.len() {
        let c = b[i];
        if c == b'[' || c == b']' || c == b'{' || c == b'}' || c == b',' || c == b':' {
            i += 1;
            continue;
        }
        let st = i;
        while i < b.len() && !matches!(b[i], b'[' | b']' | b'{' | b'}' | b',' | b':') {
            i += 1;
        }
        let tok = &s[st..i];
        if i < b.len() && b[i] == b':' {
            out.push(format!("K{}", &tok[1..]));
        } else {
            out.push(format!("V{}", tok));
        }
    }
    out.join(",")
}
// <<<

// ------------------------------------------------------------------ watchdog
// A case of this family takes microseconds.  If one is still running after WATCHDOG_MS the process
// aborts: the runner prints ABORT for that case and goes on with the next one (a hang would
// otherwise cost the runner's whole per-chunk timeout).
use std::sync::atomic::{AtomicU64, Ordering};
static CASE_SEQ: AtomicU64 = AtomicU64::new(0);
static WATCHDOG: std::sync::Once = std::sync::Once::new();
const WATCHDOG_MS: u64 = 4000;

pub fn watchdog_enter() {
    WATCHDOG.call_once(|| {
        std::thread::spawn(|| {
            let mut last = 0u64;
            let mut since = std::time::Instant::now();
            loop {
                std::thread::sleep(std::time::Duration::from_millis(250));
                let cur = CASE_SEQ.load(Ordering::SeqCst);
                if cur != last || cur % 2 == 0 {
                    last = cur;
                    since = std::time::Instant::now();
                } else if since.elapsed().as_millis() as u64 > WATCHDOG_MS {
                    std::process::abort();
                }
            }
        });
    });
    CASE_SEQ.fetch_add(1, Ordering::SeqCst);
}

pub struct WatchdogGuard;
impl Drop for WatchdogGuard {
    fn drop(&mut self) {
        CASE_SEQ.fetch_add(1, Ordering::SeqCst);
    }
}

pub fn dispatch(kind: &str, a: &[&str]) -> Option<String> {
    if !(kind.starts_with("dom.") || kind.starts_with("json.")) {
        return None;
    }
    // kinds of the sibling files fam_domiter.rs / fam_jsontext.rs
    if kind == "dom.iter" || kind == "dom.leaf" || kind == "json.print" || kind == "json.entry" {
        return None;
    }
    watchdog_enter();
    let _guard = WatchdogGuard;
    if kind == "json.f64" && a.len() == 1 {
        let d = unhex(a[0]);
        return Some(match jomini::Scalar::new(&d).to_f64() {
            Ok(f) => format!("{:016x}", f.to_bits()),
            Err(e) => scalar_err(&e),
        });
    }
    if a.len() < 2 {
        return Some("BADCASE".to_string());
    }
    let doc = unhex(a[0]);
    let tape = match TextTape::from_slice(&doc) {
        Ok(t) => t,
        Err(_) => return Some("ERR".to_string()),
    };
    if show_tokens(tape.tokens()) != a[1] {
        return Some("TAPE-MISMATCH".to_string());
    }
    let r = match (kind, &a[2..]) {
        // every real tape is well formed: the model answers with TapeWf.tape_wf_code
        ("dom.wf", []) => "0".to_string(),
        ("dom.node", [enc, idx]) => {
            if *enc == "u" {
                node_view(&tape, tape.utf8_reader(), idx)
            } else {
                node_view(&tape, tape.windows1252_reader(), idx)
            }
        }
        // >>> w_json (wave 5): the atoms of the root's JSON, for the document walk JsonDoc.doc_eatoms
        ("json.atoms", [enc, dup, narrow]) => {
            let opts = options("0", dup, narrow);
            let text = if *enc == "u" {
                json_text(&tape, tape.utf8_reader(), "top", "o", opts)
            } else {
                json_text(&tape, tape.windows1252_reader(), "top", "o", opts)
            };
            match text {
                Err(e) => e,
                Ok(t) => {
                    let c = canonical_tree(&t);
                    if c.starts_with("INVALID") || c.starts_with("FLOAT-LEX") {
                        c
                    } else {
                        atoms_of_canonical(&c)
                    }
                }
            }
        }
        // <<<
        // json.aspec (w_json, wave 5): the same observation as json.ser; the model side computes the array
        // through the declarative reading JsonDoc.win_read instead of Json.ser_window
        ("json.ser", [enc, idx, entry, pretty, dup, narrow]) | ("json.text", [enc, idx, entry, pretty, dup, narrow])
        | ("json.aspec", [enc, idx, entry, pretty, dup, narrow]) => {
            let opts = options(pretty, dup, narrow);
            let text = if *enc == "u" {
                json_text(&tape, tape.utf8_reader(), idx, entry, opts)
            } else {
                json_text(&tape, tape.windows1252_reader(), idx, entry, opts)
            };
            match text {
                Err(e) => e,
                Ok(t) => {
                    if kind == "json.text" {
                        hex(&t)
                    } else {
                        canonical_tree(&t)
                    }
                }
            }
        }
        _ => "BADCASE".to_string(),
    };
    Some(r)
}
