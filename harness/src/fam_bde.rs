//! binary serde deserializer walks (C04/C10 walk models): the model-side kind `de.model.bin` takes the
//! arguments of `de.bin`; on the implementation side it IS `de.bin` (harness/src/fam_de.rs).
pub fn dispatch(kind: &str, a: &[&str]) -> Option<String> {
    match kind {
        "de.model.bin" => crate::fams::fam_de::dispatch("de.bin", a),
        _ => None,
    }
}
