//! binary lexer / streaming reader family (C08, binary half of C09).
use crate::util::*;
use jomini::binary::{LexError, Lexer, LexerError, LexemeId, ReaderError, ReaderErrorKind, Rgb, Token, TokenReader};
use jomini::Scalar;
use std::io::Read;

const E_IO: u32 = 100;
const E_BUFFER_FULL: u32 = 101;
const E_LEX_EOF: u32 = 110;
const E_INVALID_RGB: u32 = 111;

fn lex_class(e: &LexError) -> u32 {
    match e {
        LexError::Eof => E_LEX_EOF,
        LexError::InvalidRgb => E_INVALID_RGB,
    }
}
fn lexer_err(e: &LexerError) -> String {
    format!("ERR:{}", lex_class(e.kind()))
}
fn reader_err(e: &ReaderError) -> String {
    match e.kind() {
        ReaderErrorKind::Read(_) => format!("ERR:{}", E_IO),
        ReaderErrorKind::BufferFull => format!("ERR:{}", E_BUFFER_FULL),
        ReaderErrorKind::Lexer(l) => format!("ERR:{}", lex_class(l)),
    }
}

fn show_rgb(c: &Rgb) -> String {
    match c.a {
        None => format!("RGB:{},{},{}", c.r, c.g, c.b),
        Some(a) => format!("RGB:{},{},{},{}", c.r, c.g, c.b, a),
    }
}

fn show_tok(t: &Token) -> String {
    match t {
        Token::Open => "O".into(),
        Token::Close => "C".into(),
        Token::Equal => "EQ".into(),
        Token::U32(x) => format!("U32:{}", x),
        Token::U64(x) => format!("U64:{}", x),
        Token::I32(x) => format!("I32:{}", x),
        Token::Bool(x) => format!("BOOL:{}", if *x { 1 } else { 0 }),
        Token::Quoted(s) => format!("Q:{}", hex(s.as_bytes())),
        Token::Unquoted(s) => format!("U:{}", hex(s.as_bytes())),
        Token::F32(x) => format!("F32:{}", hex(&x[..])),
        Token::F64(x) => format!("F64:{}", hex(&x[..])),
        Token::Rgb(c) => show_rgb(c),
        Token::I64(x) => format!("I64:{}", x),
        Token::Id(x) => format!("T:{}", x),
    }
}

/// owned form of a token spec (strings are kept alive next to the tokens)
enum OTok {
    Plain(Token<'static>),
    Q(Vec<u8>),
    U(Vec<u8>),
}

fn parse_tok(s: &str) -> Option<OTok> {
    let (k, v) = match s.find(':') {
        Some(i) => (&s[..i], &s[i + 1..]),
        None => (s, ""),
    };
    Some(match k {
        "O" => OTok::Plain(Token::Open),
        "C" => OTok::Plain(Token::Close),
        "EQ" => OTok::Plain(Token::Equal),
        "U32" => OTok::Plain(Token::U32(v.parse().ok()?)),
        "U64" => OTok::Plain(Token::U64(v.parse().ok()?)),
        "I32" => OTok::Plain(Token::I32(v.parse().ok()?)),
        "BOOL" => OTok::Plain(Token::Bool(v == "1")),
        "Q" => OTok::Q(unhex(v)),
        "U" => OTok::U(unhex(v)),
        "F32" => {
            let b = unhex(v);
            OTok::Plain(Token::F32([b[0], b[1], b[2], b[3]]))
        }
        "F64" => {
            let b = unhex(v);
            OTok::Plain(Token::F64([b[0], b[1], b[2], b[3], b[4], b[5], b[6], b[7]]))
        }
        "RGB" => {
            let p: Vec<u32> = v.split(',').map(|x| x.parse::<u32>().unwrap()).collect();
            OTok::Plain(Token::Rgb(Rgb {
                r: p[0],
                g: p[1],
                b: p[2],
                a: if p.len() > 3 { Some(p[3]) } else { None },
            }))
        }
        "I64" => OTok::Plain(Token::I64(v.parse().ok()?)),
        "T" => OTok::Plain(Token::Id(v.parse().ok()?)),
        _ => return None,
    })
}

#[derive(Clone, Copy)]
enum Ev {
    Data(usize),
    Fail,
}

/// The scheduled Read of BufWin.rd_read: call i delivers min(max(n,1), buf.len(), remaining)
/// bytes or fails; when the schedule is exhausted every call delivers as much as possible.
struct SchedReader {
    data: Vec<u8>,
    pos: usize,
    sched: Vec<Ev>,
    idx: usize,
}

impl Read for SchedReader {
    fn read(&mut self, buf: &mut [u8]) -> std::io::Result<usize> {
        let ev = self.sched.get(self.idx).copied().unwrap_or(Ev::Data(1_000_000_000));
        self.idx += 1;
        match ev {
            Ev::Fail => Err(crate::util::injected_fault(self.pos + self.idx)),
            Ev::Data(n) => {
                let k = n.max(1).min(buf.len()).min(self.data.len() - self.pos);
                buf[..k].copy_from_slice(&self.data[self.pos..self.pos + k]);
                self.pos += k;
                Ok(k)
            }
        }
    }
}

fn parse_sched(s: &str) -> Vec<Ev> {
    if s == "-" || s.is_empty() {
        return Vec::new();
    }
    s.split(',')
        .map(|x| if x == "F" { Ev::Fail } else { Ev::Data(x.parse::<usize>().unwrap()) })
        .collect()
}

fn mk_reader(data: &[u8], cap: usize, sched: &str) -> TokenReader<SchedReader> {
    let rd = SchedReader {
        data: data.to_vec(),
        pos: 0,
        sched: parse_sched(sched),
        idx: 0,
    };
    // a recycled, dirty buffer: stale contents must be unobservable
    let buf = vec![0xA5u8; cap].into_boxed_slice();
    TokenReader::builder().buffer(buf).build(rd)
}

fn show_run(toks: &[String], end: String, pos: usize) -> String {
    let t = if toks.is_empty() { "-".to_string() } else { toks.join(" ") };
    format!("{}|{}|{}", t, end, pos)
}

fn run_lexer(data: &[u8]) -> String {
    let mut lx = Lexer::new(data);
    let mut toks = Vec::new();
    let end = loop {
        match lx.next_token() {
            Ok(Some(t)) => toks.push(show_tok(&t)),
            Ok(None) => break "END".to_string(),
            Err(e) => break lexer_err(&e),
        }
    };
    show_run(&toks, end, lx.position())
}

fn run_reader<R: Read>(mut rd: TokenReader<R>) -> String {
    let mut toks = Vec::new();
    let end = loop {
        match rd.next() {
            Ok(Some(t)) => toks.push(show_tok(&t)),
            Ok(None) => break "END".to_string(),
            Err(e) => break reader_err(&e),
        }
    };
    show_run(&toks, end, rd.position())
}

fn opt_tok(t: Option<Token>) -> String {
    match t {
        Some(t) => show_tok(&t),
        None => "NONE".into(),
    }
}
fn opt_id(t: Option<LexemeId>) -> String {
    match t {
        Some(t) => format!("ID:{}", t.0),
        None => "NONE".into(),
    }
}

fn lex_ops(data: &[u8], ops: &str) -> Option<String> {
    let mut lx = Lexer::new(data);
    let mut out: Vec<String> = Vec::new();
    macro_rules! emit {
        ($s:expr) => {{
            let s: String = $s;
            out.push(format!("{}@{}", s, lx.position()));
        }};
    }
    macro_rules! res {
        ($r:expr, $pr:expr) => {{
            let r = match $r {
                Ok(v) => $pr(v),
                Err(e) => lexer_err(&e),
            };
            emit!(r);
        }};
    }
    if ops != "-" && !ops.is_empty() {
        for op in ops.split(',') {
            match op {
                "t" => res!(lx.read_token(), |t: Token| show_tok(&t)),
                "n" => res!(lx.next_token(), opt_tok),
                "i" => res!(lx.read_id(), |i: LexemeId| format!("ID:{}", i.0)),
                "ni" => res!(lx.next_id(), opt_id),
                "pi" => emit!(opt_id(lx.peek_id())),
                "pt" => emit!(opt_tok(lx.peek_token())),
                // >>> a_c08: Lexer::remainder
                "rem" => emit!(format!("REM:{}", hex(lx.remainder()))),
                // <<< a_c08
                "s" => res!(lx.read_string(), |s: Scalar| hex(s.as_bytes())),
                "b" => res!(lx.read_bool(), |b: bool| (if b { "1" } else { "0" }).to_string()),
                "u32" => res!(lx.read_u32(), |x: u32| x.to_string()),
                "u64" => res!(lx.read_u64(), |x: u64| x.to_string()),
                "i32" => res!(lx.read_i32(), |x: i32| x.to_string()),
                "i64" => res!(lx.read_i64(), |x: i64| x.to_string()),
                "f32" => res!(lx.read_f32(), |x: [u8; 4]| hex(&x[..])),
                "f64" => res!(lx.read_f64(), |x: [u8; 8]| hex(&x[..])),
                "rgb" => res!(lx.read_rgb(), |c: Rgb| show_rgb(&c)),
                "svo" => res!(lx.skip_value(LexemeId::OPEN), |_| "OK".to_string()),
                "svi" => match lx.read_id() {
                    Ok(id) => res!(lx.skip_value(id), |_| "OK".to_string()),
                    Err(e) => emit!(lexer_err(&e)),
                },
                "T" => loop {
                    let r = lx.next_token();
                    let go = matches!(r, Ok(Some(_)));
                    res!(r, opt_tok);
                    if !go {
                        break;
                    }
                },
                _ if op.starts_with("sv:") => {
                    let id: u16 = op[3..].parse().ok()?;
                    res!(lx.skip_value(LexemeId::new(id)), |_| "OK".to_string())
                }
                _ if op.starts_with("by") => {
                    let n: usize = op[2..].parse().ok()?;
                    res!(lx.read_bytes(n), |b: &[u8]| hex(b))
                }
                _ => return None,
            }
        }
    }
    Some(if out.is_empty() { "-".into() } else { out.join(" ") })
}

fn rdr_ops<R: Read>(mut rd: TokenReader<R>, ops: &str) -> Option<String> {
    let mut out: Vec<String> = Vec::new();
    macro_rules! res {
        ($r:expr, $pr:expr) => {{
            let r = match $r {
                Ok(v) => $pr(v),
                Err(e) => reader_err(&e),
            };
            out.push(format!("{}@{}", r, rd.position()));
        }};
    }
    if ops != "-" && !ops.is_empty() {
        for op in ops.split(',') {
            match op {
                "n" => res!(rd.next(), opt_tok),
                "r" => res!(rd.read(), |t: Token| show_tok(&t)),
                "k" => res!(rd.skip_container(), |_| "OK".to_string()),
                "T" => loop {
                    let r = rd.next();
                    let go = matches!(r, Ok(Some(_)));
                    res!(r, opt_tok);
                    if !go {
                        break;
                    }
                },
                _ if op.starts_with("by") => {
                    let n: usize = op[2..].parse().ok()?;
                    res!(rd.read_bytes(n), |b: &[u8]| hex(b))
                }
                _ => return None,
            }
        }
    }
    Some(if out.is_empty() { "-".into() } else { out.join(" ") })
}

pub fn dispatch(kind: &str, a: &[&str]) -> Option<String> {
    let r = match (kind, a) {
        ("bl.lex", [h]) => run_lexer(&unhex(h)),
        ("bl.stream", [h, cap, sch]) => run_reader(mk_reader(&unhex(h), cap.parse().ok()?, sch)),
        ("bl.rslice", [h]) => {
            let d = unhex(h);
            run_reader(TokenReader::from_slice(&d))
        }
        ("bl.write", [ts]) => {
            let mut out: Vec<u8> = Vec::new();
            if *ts != "-" {
                for s in ts.split(' ') {
                    match parse_tok(s)? {
                        OTok::Plain(t) => t.write(&mut out).ok()?,
                        OTok::Q(b) => Token::Quoted(Scalar::new(&b)).write(&mut out).ok()?,
                        OTok::U(b) => Token::Unquoted(Scalar::new(&b)).write(&mut out).ok()?,
                    }
                }
            }
            hex(&out)
        }
        ("bl.isid", [x]) => LexemeId::new(x.parse().ok()?).is_id().to_string(),
        ("bl.lops", [h, ops]) => lex_ops(&unhex(h), ops)?,
        ("bl.rops", [h, cap, sch, ops]) => rdr_ops(mk_reader(&unhex(h), cap.parse().ok()?, sch), ops)?,
        ("bl.rsops", [h, ops]) => {
            let d = unhex(h);
            rdr_ops(TokenReader::from_slice(&d), ops)?
        }
        // >>> a_c08 (wave 4): exhaustive id sweep, reader construction modes, bounded writer
        ("bl.allids", []) => all_ids(),
        ("bl.mk", [mode, h, cap, sch, h2, n2]) => mk_modes(mode, &unhex(h), cap.parse().ok()?, sch, &unhex(h2), n2.parse().ok()?)?,
        ("bl.writelim", [ts, lim]) => write_limited(ts, lim.parse().ok()?)?,
        ("bl.errapi", [h]) => err_api(&unhex(h)),
        // call mixes (n / r|t / by<k> only), model side = extracted BinOps.reader_ops / lexer_ops
        ("bl.mrops", [h, cap, sch, ops]) => rdr_ops(mk_reader(&unhex(h), cap.parse().ok()?, sch), ops)?,
        ("bl.mlops", [h, ops]) => lex_ops(&unhex(h), ops)?,
        // <<< a_c08
        // >>> s_c08 (wave 6)
        _ => return dispatch_sizes(kind, a),
        // <<< s_c08
    };
    Some(r)
}

// >>> a_c08 (wave 4)
/// every one of the 65536 lexeme ids through LexemeId::is_id, Lexer::read_token and Token::write
fn all_ids() -> String {
    let mut notid: Vec<String> = Vec::new();
    let (mut lexid, mut wr, mut agree) = (0u32, 0u32, 0u32);
    for x in 0..=u16::MAX {
        let isid = LexemeId::new(x).is_id();
        if !isid {
            notid.push(x.to_string());
        }
        let mut data = x.to_le_bytes().to_vec();
        data.extend_from_slice(&[1, 0, 0, 0, 0, 0, 0, 0, 0, 0]);
        let mut lx = Lexer::new(&data);
        let as_id = matches!(lx.read_token(), Ok(Token::Id(y)) if y == x) && lx.position() == 2;
        if as_id {
            lexid += 1;
        }
        if as_id == isid {
            agree += 1;
        }
        let mut out: Vec<u8> = Vec::new();
        if Token::Id(x).write(&mut out).is_ok() && out == x.to_le_bytes() {
            wr += 1;
        }
    }
    format!("notid:{}|lexid:{}|wr:{}|agree:{}", notid.join(","), lexid, wr, agree)
}

/// the ways a TokenReader can be constructed: `new` (default buffer), `len` (builder().buffer_len),
/// `buf` (builder().buffer with a dirty buffer), `rec` (a buffer recycled through into_parts of a
/// reader that first ran over other data, so that it holds stale *tokens*)
fn mk_modes(mode: &str, data: &[u8], cap: usize, sched: &str, first: &[u8], n_first: usize) -> Option<String> {
    let rd = SchedReader {
        data: data.to_vec(),
        pos: 0,
        sched: parse_sched(sched),
        idx: 0,
    };
    let (run, blen, inner_ok) = match mode {
        "new" => (run_reader(TokenReader::new(rd)), 32 * 1024, true),
        "len" => (run_reader(TokenReader::builder().buffer_len(cap).build(rd)), cap, true),
        "buf" => (run_reader(TokenReader::builder().buffer(vec![0xA5u8; cap].into_boxed_slice()).build(rd)), cap, true),
        "rec" => {
            let rd0 = SchedReader {
                data: first.to_vec(),
                pos: 0,
                sched: parse_sched(sched),
                idx: 0,
            };
            let mut a = TokenReader::builder().buffer_len(cap).build(rd0);
            for _ in 0..n_first {
                if !matches!(a.next(), Ok(Some(_))) {
                    break;
                }
            }
            let pos_a = a.position();
            let (buf, inner) = a.into_parts();
            let blen = buf.len();
            // the inner reader has delivered at least what the token reader consumed, and only its own data
            let ok = inner.pos >= pos_a && inner.pos <= first.len() && inner.data == first;
            (run_reader(TokenReader::builder().buffer(buf).build(rd)), blen, ok)
        }
        _ => return None,
    };
    Some(format!("{} buf={} inner={}", run, blen, if inner_ok { 1 } else { 0 }))
}

/// the accessor functions of LexerError / ReaderError (position, kind, into_kind, Display, Error::source):
/// class of the first error of the lexer and of the slice reader, and whether the reported offset lies
/// inside the input (the exact offset and the message are not part of the canonical output)
fn err_api(data: &[u8]) -> String {
    use std::error::Error;
    let mut lx = Lexer::new(data);
    let l = loop {
        match lx.next_token() {
            Ok(Some(_)) => {}
            Ok(None) => break "END".to_string(),
            Err(e) => {
                let inrange = e.position() <= data.len();
                let shown = !e.to_string().is_empty() && !e.kind().to_string().is_empty() && e.source().is_none();
                let k = lex_class(e.kind());
                let same = lex_class(&e.into_kind()) == k;
                break format!("ERR:{}:{}", k, if inrange && shown && same { 1 } else { 0 });
            }
        }
    };
    let mut rd = TokenReader::from_slice(data);
    let r = loop {
        match rd.next() {
            Ok(Some(_)) => {}
            Ok(None) => break "END".to_string(),
            Err(e) => {
                let inrange = e.position() <= data.len();
                let shown = !e.to_string().is_empty();
                let k = reader_err(&e);
                let same = match e.into_kind() {
                    ReaderErrorKind::Lexer(x) => format!("ERR:{}", lex_class(&x)) == k,
                    _ => false,
                };
                break format!("{}:{}", k, if inrange && shown && same { 1 } else { 0 });
            }
        }
    };
    format!("{} {}", l, r)
}

/// Token::write into a writer that accepts only `lim` bytes (`&mut [u8]`): which token fails, what was written
fn write_limited(ts: &str, lim: usize) -> Option<String> {
    let mut store = vec![0u8; lim];
    let mut n_ok = 0usize;
    let mut failed = false;
    let left;
    {
        let mut w: &mut [u8] = &mut store[..];
        if ts != "-" {
            for s in ts.split(' ') {
                let r = match parse_tok(s)? {
                    OTok::Plain(t) => t.write(&mut w),
                    OTok::Q(b) => Token::Quoted(Scalar::new(&b)).write(&mut w),
                    OTok::U(b) => Token::Unquoted(Scalar::new(&b)).write(&mut w),
                };
                if r.is_err() {
                    failed = true;
                    break;
                }
                n_ok += 1;
            }
        }
        left = w.len();
    }
    Some(format!("{}:{}:{}", if failed { "ERR" } else { "OK" }, n_ok, hex(&store[..lim - left])))
}
// <<< a_c08

// >>> s_c08 (wave 6): size ladders -- Token::write into sinks that take short writes, a buffer recycled many times
/// A sink that accepts at most `sizes[i % len]` bytes on its i-th call.  `vectored` = it also implements
/// write_vectored itself (taking bytes across the slices, up to the same limit); otherwise the default
/// write_vectored of std (first non-empty slice through `write`) applies.
struct ChunkSink {
    out: Vec<u8>,
    sizes: Vec<usize>,
    idx: usize,
    vectored: bool,
}

impl ChunkSink {
    fn quota(&mut self) -> usize {
        let k = self.sizes[self.idx % self.sizes.len()].max(1);
        self.idx += 1;
        k
    }
}

impl std::io::Write for ChunkSink {
    fn write(&mut self, buf: &[u8]) -> std::io::Result<usize> {
        let n = buf.len().min(self.quota());
        self.out.extend_from_slice(&buf[..n]);
        Ok(n)
    }

    fn write_vectored(&mut self, bufs: &[std::io::IoSlice<'_>]) -> std::io::Result<usize> {
        if !self.vectored {
            let first = bufs.iter().find(|b| !b.is_empty()).map_or(&[][..], |b| &**b);
            return self.write(first);
        }
        let mut left = self.quota();
        let mut n = 0;
        for b in bufs {
            let k = b.len().min(left);
            self.out.extend_from_slice(&b[..k]);
            left -= k;
            n += k;
            if left == 0 {
                break;
            }
        }
        Ok(n)
    }

    fn flush(&mut self) -> std::io::Result<()> {
        Ok(())
    }
}

fn write_chunked(ts: &str, sizes: &str, vectored: bool) -> Option<String> {
    let sizes: Vec<usize> = sizes.split(',').map(|x| x.parse::<usize>().ok()).collect::<Option<Vec<_>>>()?;
    if sizes.is_empty() {
        return None;
    }
    let mut w = ChunkSink {
        out: Vec::new(),
        sizes,
        idx: 0,
        vectored,
    };
    let mut n_ok = 0usize;
    if ts != "-" {
        for s in ts.split(' ') {
            let r = match parse_tok(s)? {
                OTok::Plain(t) => t.write(&mut w),
                OTok::Q(b) => Token::Quoted(Scalar::new(&b)).write(&mut w),
                OTok::U(b) => Token::Unquoted(Scalar::new(&b)).write(&mut w),
            };
            if r.is_err() {
                return Some(format!("ERR:{}:{}", n_ok, hex(&w.out)));
            }
            n_ok += 1;
        }
    }
    Some(hex(&w.out))
}

/// one buffer handed from reader to reader `rounds` times through into_parts (every reader runs over the same data with
/// the same schedule): the run of the first reader, how many of the later runs were identical, the final buffer length
fn reuse_buffer(data: &[u8], cap: usize, sched: &str, rounds: usize) -> String {
    let mut buf = vec![0xA5u8; cap].into_boxed_slice();
    let mut first: Option<String> = None;
    let mut same = 0usize;
    for _ in 0..rounds {
        let rd = SchedReader {
            data: data.to_vec(),
            pos: 0,
            sched: parse_sched(sched),
            idx: 0,
        };
        let mut tr = TokenReader::builder().buffer(buf).build(rd);
        let mut toks = Vec::new();
        let end = loop {
            match tr.next() {
                Ok(Some(t)) => toks.push(show_tok(&t)),
                Ok(None) => break "END".to_string(),
                Err(e) => break reader_err(&e),
            }
        };
        let run = show_run(&toks, end, tr.position());
        buf = tr.into_parts().0;
        match &first {
            None => first = Some(run),
            Some(f) => {
                if *f == run {
                    same += 1
                }
            }
        }
    }
    format!("{} same={}/{} buf={}", first.unwrap_or_else(|| "-".into()), same, rounds.saturating_sub(1), buf.len())
}

pub fn dispatch_sizes(kind: &str, a: &[&str]) -> Option<String> {
    let r = match (kind, a) {
        ("bl.writechunk", [ts, sizes, vec]) => write_chunked(ts, sizes, *vec == "1")?,
        ("bl.reuse", [h, cap, sch, rounds]) => reuse_buffer(&unhex(h), cap.parse().ok()?, sch, rounds.parse().ok()?),
        _ => return None,
    };
    Some(r)
}
// <<< s_c08
