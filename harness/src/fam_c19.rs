//! C19 (wave 4, a_c19): what a caller SEES of a (possibly truncated) text document after the tape
//! parser accepted it -- the tape, the DOM readers and the JSON conversion, in one case.
//!
//!   c19.view <enc> <hex>      enc = w (windows-1252) | u (utf-8)
//!       ERR                                   the tape parser refused the input
//!       tape=<tt.parse syntax> | dom=<fields> | json=<hex of the JSON text>
//!
//! dom: the top-level ObjectReader walked through the public reader API only
//!   (`fields()`, `remainder()`, `read_object()`, `read_array()`, `read_scalar()`, `values()`):
//!   top-level fields joined by `;`, nested fields / values joined by `,`:
//!       field  = <key>~<op>~<value>        key = U<hex> | Q<hex> | P<hex> | N<hex>, op = 0..7 | -
//!       value  = U<hex> | Q<hex> | {field,field^value,value} | [value,value] | H<hex>(value)
//!   (`^` separates the fields of an object from its trailing bare values, also at top level).
//! json: `ObjectReader::json()` with DuplicateKeyMode::Preserve and no type narrowing, so that
//!   every scalar is a JSON string and duplicate keys stay in document order.
//!
//! Nothing here is compared with a model: the Python side (props/C19_view.py) judges the three
//! views of a prefix against the same three views of the complete document.
use crate::fams::fam_texttape::{op_code, show_tokens};
use crate::util::*;
use jomini::json::{DuplicateKeyMode, JsonOptions, TypeNarrowing};
use jomini::text::{ObjectReader, ValueReader};
use jomini::{Encoding, TextTape, TextToken};

const CAP: usize = 100_000;

fn sc(tag: &str, b: &[u8]) -> String {
    format!("{}{}", tag, hex(b))
}

fn value<E: Encoding + Clone>(v: &ValueReader<E>, depth: usize, out: &mut String) {
    if depth > 200 {
        out.push_str("DEEP");
        return;
    }
    match v.token() {
        TextToken::Unquoted(s) => out.push_str(&sc("U", s.as_bytes())),
        TextToken::Quoted(s) => {
            // the reader's own accessor must hand out the same bytes as the token
            match v.read_scalar() {
                Ok(x) if x.as_bytes() == s.as_bytes() => out.push_str(&sc("Q", s.as_bytes())),
                _ => out.push_str("SCALAR-MISMATCH"),
            }
        }
        TextToken::Parameter(s) => out.push_str(&sc("P", s.as_bytes())),
        TextToken::UndefinedParameter(s) => out.push_str(&sc("N", s.as_bytes())),
        TextToken::Header(h) => {
            out.push_str(&sc("H", h.as_bytes()));
            out.push('(');
            match v.read_array() {
                Ok(a) => {
                    // (header, container): the container is the second value
                    match a.values().nth(1) {
                        Some(c) => value(&c, depth + 1, out),
                        None => out.push_str("NOBODY"),
                    }
                }
                Err(_) => out.push_str("E"),
            }
            out.push(')');
        }
        TextToken::Object { .. } => match v.read_object() {
            Ok(o) => {
                out.push('{');
                object(&o, depth + 1, ",", out);
                out.push('}');
            }
            Err(_) => out.push_str("E"),
        },
        TextToken::Array { .. } => match v.read_array() {
            Ok(a) => {
                out.push('[');
                for (i, x) in a.values().take(CAP).enumerate() {
                    if i > 0 {
                        out.push(',');
                    }
                    value(&x, depth + 1, out);
                }
                out.push(']');
            }
            Err(_) => out.push_str("E"),
        },
        TextToken::MixedContainer => out.push('M'),
        TextToken::Operator(o) => out.push_str(&format!("OP{}", op_code(o))),
        TextToken::End(_) => out.push_str("END"),
    }
}

fn object<E: Encoding + Clone>(o: &ObjectReader<E>, depth: usize, sep: &str, out: &mut String) {
    let mut fields = o.fields();
    let mut first = true;
    for (key, op, val) in fields.by_ref().take(CAP) {
        if !first {
            out.push_str(sep);
        }
        first = false;
        let tag = match key.token() {
            TextToken::Unquoted(_) => "U",
            TextToken::Quoted(_) => "Q",
            TextToken::Parameter(_) => "P",
            TextToken::UndefinedParameter(_) => "N",
            _ => "X",
        };
        out.push_str(&sc(tag, key.read_scalar().as_bytes()));
        out.push('~');
        match op {
            Some(o) => out.push_str(&format!("{}", op_code(&o))),
            None => out.push('-'),
        }
        out.push('~');
        value(&val, depth, out);
    }
    let rem = fields.remainder();
    if !rem.is_empty() {
        out.push('^');
        for (i, x) in rem.values().take(CAP).enumerate() {
            if i > 0 {
                out.push(',');
            }
            value(&x, depth, out);
        }
    }
}

fn view<E: Encoding + Clone>(tape: &TextTape, top: ObjectReader<E>) -> String {
    let mut dom = String::new();
    object(&top, 0, ";", &mut dom);
    if dom.is_empty() {
        dom.push('-');
    }
    let opts = JsonOptions::new()
        .with_prettyprint(false)
        .with_duplicate_keys(DuplicateKeyMode::Preserve)
        .with_type_narrowing(TypeNarrowing::None);
    let json = top.json().with_options(opts).to_string();
    format!("tape={} | dom={} | json={}", show_tokens(tape.tokens()), dom, hex(json.as_bytes()))
}

pub fn dispatch(kind: &str, a: &[&str]) -> Option<String> {
    let r = match (kind, a) {
        ("c19.view", [enc, h]) => {
            let d = unhex(h);
            match TextTape::from_slice(&d) {
                Err(_) => "ERR".to_string(),
                Ok(tape) => {
                    if *enc == "u" {
                        view(&tape, tape.utf8_reader())
                    } else {
                        view(&tape, tape.windows1252_reader())
                    }
                }
            }
        }
        _ => return None,
    };
    Some(r)
}
