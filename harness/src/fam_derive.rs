//! C18: representative `#[derive(JominiDeserialize)]` structs run through every deserializer path.
//!
//! Kinds
//!   dv.text <path> <enc> <struct> <hex>
//!   dv.bin  <path> <strategy> <resolver> <flavor> <struct> <hex>
//! (paths, resolvers, flavors, schedules as in fam_de.rs).  Output: `(struct (<hex field> <value>)...)`
//! in declaration order, or `ERR:<class>`.
use crate::fams::fam_de::{err_class, parse_enc, parse_flavor, parse_resolver, parse_strategy, run_bin, run_text};
use crate::util::*;
use jomini::common::{Date, PdsDate};
use jomini::JominiDeserialize;
use std::fmt::Write;

pub trait Show {
    fn show(&self, o: &mut String);
}
impl Show for String {
    fn show(&self, o: &mut String) {
        let _ = write!(o, "(str {})", hex(self.as_bytes()));
    }
}
impl Show for bool {
    fn show(&self, o: &mut String) {
        let _ = write!(o, "(bool {})", *self as u8);
    }
}
macro_rules! show_u {
    ($($t:ty),*) => {$(impl Show for $t { fn show(&self, o: &mut String) { let _ = write!(o, "(u {})", self); } })*};
}
macro_rules! show_i {
    ($($t:ty),*) => {$(impl Show for $t { fn show(&self, o: &mut String) { let _ = write!(o, "(i {})", self); } })*};
}
show_u!(u8, u16, u32, u64);
show_i!(i8, i16, i32, i64);
impl Show for f32 {
    fn show(&self, o: &mut String) {
        let _ = write!(o, "(f32 {:08x})", self.to_bits());
    }
}
impl Show for Date {
    fn show(&self, o: &mut String) {
        let _ = write!(o, "(date {} {} {} 0)", self.year(), self.month(), self.day());
    }
}
impl<T: Show> Show for Option<T> {
    fn show(&self, o: &mut String) {
        match self {
            None => o.push_str("(none)"),
            Some(x) => {
                o.push_str("(some ");
                x.show(o);
                o.push(')');
            }
        }
    }
}
impl<T: Show> Show for Vec<T> {
    fn show(&self, o: &mut String) {
        o.push_str("(seq");
        for x in self {
            o.push(' ');
            x.show(o);
        }
        o.push(')');
    }
}
macro_rules! show_struct {
    ($name:ident, $($f:ident),*) => {
        impl Show for $name {
            fn show(&self, o: &mut String) {
                o.push_str("(struct");
                $(
                    let _ = write!(o, " ({} ", hex(stringify!($f).as_bytes()));
                    self.$f.show(o);
                    o.push(')');
                )*
                o.push(')');
            }
        }
    };
}

fn default_true() -> bool {
    true
}
fn default_date() -> Date {
    Date::from_ymd(1444, 11, 11)
}
fn default_seven() -> u8 {
    7
}

/// no tokens: default fn, Option, alias, duplicated + alias, plain required (a container), take_last, default
#[derive(JominiDeserialize, Debug)]
pub struct DA {
    #[jomini(default = "default_true")]
    human: bool,
    first: Option<u16>,
    #[jomini(alias = "forth")]
    fourth: u16,
    #[jomini(alias = "core", duplicated)]
    cores: Vec<String>,
    names: Vec<String>,
    #[jomini(take_last)]
    checksum: String,
    #[jomini(default)]
    count: u32,
}
show_struct!(DA, human, first, fourth, cores, names, checksum, count);

/// token attribute on every field
#[derive(JominiDeserialize, Debug)]
pub struct DB {
    #[jomini(token = 0x2d82)]
    field1: String,
    #[jomini(token = 0x2d83, default)]
    field2: u32,
    #[jomini(token = 0x2d84, duplicated)]
    items: Vec<i32>,
    #[jomini(token = 0x2d85, take_last)]
    last: Option<i64>,
    #[jomini(token = 0x2d86)]
    req: bool,
}
show_struct!(DB, field1, field2, items, last, req);

/// token ids below the largest reserved lexeme id (0x0317) that are not lexemes themselves:
/// real game fields have such ids (0x00e1 "type", 0x001b "name")
#[derive(JominiDeserialize, Debug)]
pub struct DG {
    #[jomini(token = 0x00e1)]
    kind: String,
    #[jomini(token = 0x001b, default)]
    name: String,
    #[jomini(token = 0x0165, duplicated)]
    nums: Vec<i32>,
    #[jomini(token = 0x02ff)]
    flag: bool,
}
show_struct!(DG, kind, name, nums, flag);

/// attributes split over several `#[jomini(..)]` lists, and Option fields spelled with a qualified
/// path (what macro-generated structs use)
#[derive(JominiDeserialize, Debug)]
pub struct DH {
    #[jomini(alias = "core")]
    #[jomini(duplicated)]
    cores: Vec<String>,
    #[jomini(take_last)]
    #[jomini(alias = "chk")]
    checksum: String,
    opt_q: std::option::Option<u32>,
    opt_c: ::core::option::Option<String>,
    #[jomini(default)]
    #[jomini(alias = "n")]
    count: u32,
}
show_struct!(DH, cores, checksum, opt_q, opt_c, count);

/// a token-keyed parent with a nested token-keyed derived struct: keys the child ignores are keys the parent reads
#[derive(JominiDeserialize, Debug)]
pub struct DJ {
    #[jomini(token = 0x2f03)]
    id: u32,
    #[jomini(token = 0x2f05, default)]
    tag: String,
}
show_struct!(DJ, id, tag);

#[derive(JominiDeserialize, Debug)]
pub struct DI {
    #[jomini(token = 0x2f00)]
    sub: DJ,
    #[jomini(token = 0x2f01, duplicated)]
    core: Vec<String>,
    #[jomini(token = 0x2f02, default)]
    next: u32,
    #[jomini(token = 0x2f04)]
    req: bool,
}
show_struct!(DI, sub, core, next, req);

#[derive(JominiDeserialize, Debug)]
pub struct DSub {
    id: u32,
    #[jomini(default)]
    tag: String,
    #[jomini(duplicated, alias = "val")]
    vals: Vec<u8>,
}
show_struct!(DSub, id, tag, vals);

/// nested derived structs: duplicated containers, optional container, take_last + default fn on a date
#[derive(JominiDeserialize, Debug)]
pub struct DC {
    name: String,
    #[jomini(duplicated, alias = "sub")]
    subs: Vec<DSub>,
    opt_sub: Option<DSub>,
    #[jomini(take_last, default = "default_date")]
    date: Date,
    #[jomini(default = "default_seven", alias = "lvl")]
    level: u8,
}
show_struct!(DC, name, subs, opt_sub, date, level);

/// every field plain and required (what serde's own derive would do)
#[derive(JominiDeserialize, Debug)]
pub struct DD {
    a: u8,
    b: String,
    c: bool,
}
show_struct!(DD, a, b, c);

/// duplicated numbers, take_last Option, duplicated with the field's own name
#[derive(JominiDeserialize, Debug)]
pub struct DE {
    #[jomini(duplicated)]
    n: Vec<i64>,
    #[jomini(take_last)]
    t: Option<String>,
    #[jomini(duplicated)]
    f: Vec<f32>,
    #[jomini(default)]
    z: Option<bool>,
}
show_struct!(DE, n, t, f, z);

fn fin<T: Show>(r: Result<T, jomini::Error>) -> String {
    match r {
        Ok(v) => {
            let mut s = String::new();
            v.show(&mut s);
            s
        }
        Err(e) => err_class(&e),
    }
}

pub fn dispatch(kind: &str, a: &[&str]) -> Option<String> {
    let r = match (kind, a) {
        ("dv.text", [path, enc, st, h]) | ("dv.text.m", [path, enc, st, h, _, _]) => {
            let data = unhex(h);
            let e = parse_enc(enc);
            let mut s = None;
            match *st {
                "DA" => fin(run_text::<DA>(path, e, &data, &mut s)),
                "DB" => fin(run_text::<DB>(path, e, &data, &mut s)),
                "DG" => fin(run_text::<DG>(path, e, &data, &mut s)),
                "DH" => fin(run_text::<DH>(path, e, &data, &mut s)),
                "DI" => fin(run_text::<DI>(path, e, &data, &mut s)),
                "DJ" => fin(run_text::<DJ>(path, e, &data, &mut s)),
                "DC" => fin(run_text::<DC>(path, e, &data, &mut s)),
                "DD" => fin(run_text::<DD>(path, e, &data, &mut s)),
                "DE" => fin(run_text::<DE>(path, e, &data, &mut s)),
                "DSub" => fin(run_text::<DSub>(path, e, &data, &mut s)),
                _ => return None,
            }
        }
        ("dv.bin", [path, strat, res, fl, st, h]) | ("dv.bin.m", [path, strat, res, fl, st, h, _, _]) => {
            let data = unhex(h);
            let res = match parse_resolver(res) {
                Ok(r) => r,
                Err(e) => return Some(format!("RESOLVER-{}", err_class(&e))),
            };
            let sg = parse_strategy(strat);
            let f = parse_flavor(fl);
            let mut s = None;
            match *st {
                "DA" => fin(run_bin::<DA>(path, sg, &res, f, &data, &mut s)),
                "DB" => fin(run_bin::<DB>(path, sg, &res, f, &data, &mut s)),
                "DG" => fin(run_bin::<DG>(path, sg, &res, f, &data, &mut s)),
                "DH" => fin(run_bin::<DH>(path, sg, &res, f, &data, &mut s)),
                "DI" => fin(run_bin::<DI>(path, sg, &res, f, &data, &mut s)),
                "DJ" => fin(run_bin::<DJ>(path, sg, &res, f, &data, &mut s)),
                "DC" => fin(run_bin::<DC>(path, sg, &res, f, &data, &mut s)),
                "DD" => fin(run_bin::<DD>(path, sg, &res, f, &data, &mut s)),
                "DE" => fin(run_bin::<DE>(path, sg, &res, f, &data, &mut s)),
                "DSub" => fin(run_bin::<DSub>(path, sg, &res, f, &data, &mut s)),
                _ => return None,
            }
        }
        _ => return None,
    };
    Some(r)
}
