//! C13 wave 4: the date entry points fam_leaf.rs does not reach (RawDate::from_binary, formatter in
//! all three DateFormats, Ord/PartialOrd/Eq/Hash of the four types, FromStr, serde impls, panicking
//! constructors) and exhaustive sweeps with an in-harness reference that shares no code with the crate.
use crate::util::*;
use jomini::common::{Date, DateFormat, DateHour, PdsDate, PdsDateFormatter, RawDate, UniformDate};
use std::cmp::Ordering;
use std::collections::hash_map::DefaultHasher;
use std::hash::{Hash, Hasher};
use std::str::FromStr;

fn p<T: FromStr>(s: &str) -> Option<T> {
    s.parse::<T>().ok()
}
fn show(y: i16, m: u8, d: u8, h: u8) -> String {
    format!("ok {} {} {} {}", y, m, d, h)
}

/// the four date types behind one face
#[derive(Clone, Copy, PartialEq, Eq, PartialOrd, Ord, Hash, Debug)]
enum Any {
    D(Date),
    H(DateHour),
    U(UniformDate),
    R(RawDate),
}
impl Any {
    fn make(which: &str, y: i16, m: u8, d: u8, h: u8) -> Option<Any> {
        match which {
            "date" => Date::from_ymd_opt(y, m, d).map(Any::D),
            "dh" => DateHour::from_ymdh_opt(y, m, d, h).map(Any::H),
            "ud" => UniformDate::from_ymd_opt(y, m, d).map(Any::U),
            "raw" => RawDate::from_ymdh_opt(y, m, d, h).map(Any::R),
            _ => None,
        }
    }
    fn fields(&self) -> (i16, u8, u8, u8) {
        match self {
            Any::D(x) => (x.year(), x.month(), x.day(), 0),
            Any::H(x) => (x.year(), x.month(), x.day(), x.hour()),
            Any::U(x) => (x.year(), x.month(), x.day(), 0),
            Any::R(x) => (x.year(), x.month(), x.day(), x.hour()),
        }
    }
    fn show(&self) -> String {
        let (y, m, d, h) = self.fields();
        show(y, m, d, h)
    }
    fn game(&self) -> String {
        match self {
            Any::D(x) => x.game_fmt().to_string(),
            Any::H(x) => x.game_fmt().to_string(),
            Any::U(x) => x.game_fmt().to_string(),
            Any::R(x) => x.game_fmt().to_string(),
        }
    }
    fn iso(&self) -> String {
        match self {
            Any::D(x) => x.iso_8601().to_string(),
            Any::H(x) => x.iso_8601().to_string(),
            Any::U(x) => x.iso_8601().to_string(),
            Any::R(x) => x.iso_8601().to_string(),
        }
    }
}

fn ord_name(o: Ordering) -> &'static str {
    match o {
        Ordering::Less => "lt",
        Ordering::Equal => "eq",
        Ordering::Greater => "gt",
    }
}
fn hash_of<T: Hash>(x: &T) -> u64 {
    let mut h = DefaultHasher::new();
    x.hash(&mut h);
    h.finish()
}
fn cmp_line<T: Ord + Hash>(a: &T, b: &T) -> String {
    let ops = [a < b, a <= b, a > b, a >= b, a != b];
    format!(
        "{} {} {} {} {}",
        ord_name(a.cmp(b)),
        a.partial_cmp(b).map(ord_name).unwrap_or("none"),
        (a == b) as u8,
        ops.iter().map(|x| if *x { '1' } else { '0' }).collect::<String>(),
        (hash_of(a) == hash_of(b)) as u8
    )
}

// ---------------------------------------------------------------- reference (no crate code)
const DPM: [i32; 13] = [0, 31, 28, 31, 30, 31, 30, 31, 31, 30, 31, 30, 31];
fn ref_ordinal(m: i32, d: i32) -> i32 {
    let mut o = 0;
    for k in 1..m {
        o += DPM[k as usize];
    }
    o + d - 1
}
fn ref_md(ord: i32) -> (i32, i32) {
    let mut o = ord;
    let mut m = 1;
    while o >= DPM[m as usize] {
        o -= DPM[m as usize];
        m += 1;
    }
    (m, o + 1)
}
/// `{:0w}` of a signed number, written out by hand
fn pad(v: i64, w: usize) -> String {
    let digits = v.unsigned_abs().to_string();
    let neg = v < 0;
    let len = digits.len() + neg as usize;
    let mut s = String::new();
    if neg {
        s.push('-');
    }
    for _ in len..w {
        s.push('0');
    }
    s.push_str(&digits);
    s
}
fn ref_game(y: i32, m: i32, d: i32, h: i32, wide: bool) -> String {
    let w = if wide { 2 } else { 0 };
    let mut s = format!("{}.{}.{}", pad(y as i64, 0), pad(m as i64, w), pad(d as i64, w));
    if h != 0 {
        s.push('.');
        s.push_str(&pad(h as i64, w));
    }
    s
}
fn ref_iso(y: i32, m: i32, d: i32, h: i32) -> String {
    let mut s = format!("{}-{}-{}", pad(y as i64, 4), pad(m as i64, 2), pad(d as i64, 2));
    if h != 0 {
        s.push('T');
        s.push_str(&pad((h - 1) as i64, 2));
    }
    s
}
/// day number as the crate defines it (year*365 +- ordinal); only used to decide "same side of year 0"
fn ref_days(y: i32, ord: i32) -> i64 {
    let yd = y as i64 * 365;
    if yd < 0 {
        yd - ord as i64
    } else {
        yd + ord as i64
    }
}

struct Tally {
    n: u64,
    acc: u64,
    bad: u64,
    first: Option<String>,
}
impl Tally {
    fn new() -> Self {
        Tally { n: 0, acc: 0, bad: 0, first: None }
    }
    fn check(&mut self, ok: bool, what: impl FnOnce() -> String) {
        self.n += 1;
        if !ok {
            self.bad += 1;
            if self.first.is_none() {
                self.first = Some(what());
            }
        }
    }
    fn line(&self, extra: &str) -> String {
        format!(
            "n={} acc={} bad={}{} first={}",
            self.n,
            self.acc,
            self.bad,
            extra,
            self.first.clone().map(|s| s.replace(['\t', '\n', ' '], "_")).unwrap_or_else(|| "-".into())
        )
    }
}

/// every calendar day of every year in [lo, hi]: constructors, accessors, the three renderings,
/// parse back, binary codec, ordering along the enumeration, add_days / days_until by small steps.
/// hours: 0 = Date + UniformDate only; 1 = DateHour with every hour 0..=25 as well
fn sweep_dates(lo: i32, hi: i32, hours: bool) -> String {
    let mut t = Tally::new();
    let mut wide_lt10_fail = 0u64; // KNOWN: zero padded hour < 10 is not read back
    let mut wide_lt10 = 0u64;
    let mut prev: Option<Date> = None;
    let mut prev_h: Option<DateHour> = None;
    for y in lo..=hi {
        let yy = y as i16;
        for m in 1..=12i32 {
            for d in 1..=31i32 {
                let valid = d <= DPM[m as usize];
                let (mu, du) = (m as u8, d as u8);
                let x = Date::from_ymd_opt(yy, mu, du);
                t.check(x.is_some() == valid, || format!("Date::from_ymd_opt({},{},{})", y, m, d));
                // UniformDate: 30 days in every month
                let u = UniformDate::from_ymd_opt(yy, mu, du);
                t.check(u.is_some() == (d <= 30), || format!("UniformDate::from_ymd_opt({},{},{})", y, m, d));
                if let Some(u) = u {
                    let wide = ref_game(y, m, d, 0, true);
                    let short = ref_game(y, m, d, 0, false);
                    t.check(u.year() == yy && u.month() == mu && u.day() == du, || format!("UniformDate fields {}", wide));
                    t.check(u.game_fmt().to_string() == wide, || format!("UniformDate game_fmt {}", wide));
                    t.check(u.iso_8601().to_string() == ref_iso(y, m, d, 0), || format!("UniformDate iso {}", wide));
                    t.check(UniformDate::parse(&wide) == Ok(u), || format!("UniformDate::parse({})", wide));
                    t.check(UniformDate::parse(&short) == Ok(u), || format!("UniformDate::parse({})", short));
                }
                let x = match x {
                    Some(x) => x,
                    None => continue,
                };
                t.acc += 1;
                let ord = ref_ordinal(m, d);
                let short = ref_game(y, m, d, 0, false);
                let wide = ref_game(y, m, d, 0, true);
                let raw = RawDate::from_ymdh(yy, mu, du, 0);
                t.check(x.year() == yy && x.month() == mu && x.day() == du, || format!("Date fields {}", short));
                t.check(x.game_fmt().to_string() == short, || format!("Date game_fmt {}", short));
                t.check(PdsDateFormatter::new(raw, DateFormat::DotWide).to_string() == wide, || format!("DotWide {}", wide));
                t.check(PdsDateFormatter::new(raw, DateFormat::DotShort).to_string() == short, || format!("DotShort {}", short));
                t.check(x.iso_8601().to_string() == ref_iso(y, m, d, 0), || format!("Date iso {}", short));
                t.check(Date::parse(&short) == Ok(x), || format!("Date::parse({})", short));
                t.check(Date::parse(&wide) == Ok(x), || format!("Date::parse({})", wide));
                t.check(RawDate::parse(&short) == Ok(raw), || format!("RawDate::parse({})", short));
                // binary
                let b = ((y as i64 + 5000) * 365 + ord as i64) * 24;
                t.check(x.to_binary() as i64 == b, || format!("Date::to_binary {}", short));
                if y >= -5000 {
                    t.check(Date::from_binary(b as i32) == Some(x), || format!("Date::from_binary({})", b));
                    t.check(Date::from_binary(b as i32 + 23) == Some(x), || format!("Date::from_binary({})", b + 23));
                    t.check(RawDate::from_binary(b as i32) == Some(raw), || format!("RawDate::from_binary({})", b));
                }
                // order along the enumeration
                if let Some(pv) = prev {
                    t.check(pv < x && x > pv && pv != x && pv.cmp(&x) == Ordering::Less, || format!("Ord before {}", short));
                    if y >= 1 && pv.year() >= 1 {
                        t.check(pv.days_until(&x) == 1 && x.days_until(&pv) == -1, || format!("days_until previous day {}", short));
                    }
                }
                t.check(x == x && x.cmp(&x) == Ordering::Equal, || format!("Eq {}", short));
                prev = Some(x);
                // arithmetic by small steps
                let dd = ref_days(y, ord);
                for k in [1i32, -1, 365, -365, 59, -306] {
                    let nd = dd + k as i64;
                    let same_side = if dd >= 0 { nd >= 0 && nd < 32768 * 365 } else { nd <= -365 && nd > -32768 * 365 - 365 };
                    if !same_side {
                        continue;
                    }
                    let r = x.add_days(k);
                    let (ry, ro) = ((nd / 365) as i32, (nd % 365).abs() as i32);
                    let (rm, rd) = ref_md(ro);
                    t.check(
                        r.year() as i32 == ry && r.month() as i32 == rm && r.day() as i32 == rd,
                        || format!("add_days({},{}) = {:?}", short, k, r),
                    );
                    t.check(x.days_until(&r) == k, || format!("days_until({},add_days {})", short, k));
                    t.check(r.add_days(-k) == x, || format!("add_days back ({},{})", short, k));
                }
                if hours {
                    for h in 0..=25i32 {
                        let hv = (1..=24).contains(&h);
                        let xh = DateHour::from_ymdh_opt(yy, mu, du, h as u8);
                        t.check(xh.is_some() == hv, || format!("DateHour::from_ymdh_opt({},{},{},{})", y, m, d, h));
                        let xh = match xh {
                            Some(v) => v,
                            None => continue,
                        };
                        let hs = ref_game(y, m, d, h, false);
                        let hw = ref_game(y, m, d, h, true);
                        let rawh = RawDate::from_ymdh(yy, mu, du, h as u8);
                        t.check(xh.hour() as i32 == h && xh.day() == du && xh.month() == mu && xh.year() == yy, || format!("DateHour fields {}", hs));
                        t.check(xh.game_fmt().to_string() == hs, || format!("DateHour game_fmt {}", hs));
                        t.check(PdsDateFormatter::new(rawh, DateFormat::DotWide).to_string() == hw, || format!("DotWide {}", hw));
                        t.check(xh.iso_8601().to_string() == ref_iso(y, m, d, h), || format!("DateHour iso {}", hs));
                        t.check(DateHour::parse(&hs) == Ok(xh), || format!("DateHour::parse({})", hs));
                        t.check(RawDate::parse(&hs) == Ok(rawh), || format!("RawDate::parse({})", hs));
                        if h >= 10 {
                            t.check(DateHour::parse(&hw) == Ok(xh), || format!("DateHour::parse({})", hw));
                        } else {
                            wide_lt10 += 1;
                            if DateHour::parse(&hw) != Ok(xh) {
                                wide_lt10_fail += 1;
                            }
                        }
                        let bh = b + (h as i64 - 1);
                        t.check(xh.to_binary() as i64 == bh, || format!("DateHour::to_binary {}", hs));
                        if y >= -5000 {
                            t.check(DateHour::from_binary(bh as i32) == Some(xh), || format!("DateHour::from_binary({})", bh));
                        }
                        if let Some(pv) = prev_h {
                            t.check(pv < xh && pv.cmp(&xh) == Ordering::Less, || format!("Ord DateHour before {}", hs));
                        }
                        prev_h = Some(xh);
                    }
                }
            }
        }
    }
    t.line(&format!(" wide_lt10={}/{}", wide_lt10_fail, wide_lt10))
}

/// naive decoder of the binary date: what the documentation says, written with i64 arithmetic
fn ref_from_binary(s: i32) -> Option<(i32, i32, i32, i32)> {
    let s = s as i64;
    let hour = s % 24;
    let days = s / 24;
    let doy = days % 365;
    if hour < 0 || doy < 0 {
        return None;
    }
    let year = days / 365 - 5000;
    if year < -32768 || year > 32767 {
        return None;
    }
    let (m, d) = ref_md(doy as i32);
    Some((year as i32, m, d, hour as i32))
}

/// every value of [lo, lo+n): the five from_binary entry points against the reference, and re-encoding
fn sweep_bin(lo: i64, n: i64) -> String {
    let mut t = Tally::new();
    let mut acc_h = 0u64;
    let mut acc_dh = 0u64;
    let mut s64 = lo;
    while s64 < lo + n {
        let s = s64 as i32;
        s64 += 1;
        let (d0, h0, r0, dh0, hh0) = match guarded(|| {
            (Date::from_binary(s), DateHour::from_binary(s), RawDate::from_binary(s), Date::from_binary_heuristic(s), DateHour::from_binary_heuristic(s))
        }) {
            Ok(v) => v,
            Err(()) => {
                t.check(false, || format!("from_binary({}) PANICS", s));
                continue;
            }
        };
        let r = ref_from_binary(s);
        let f = |x: (i16, u8, u8, u8)| (x.0 as i32, x.1 as i32, x.2 as i32, x.3 as i32);
        let got_d = d0.map(|x| f((x.year(), x.month(), x.day(), 0)));
        let got_h = h0.map(|x| f((x.year(), x.month(), x.day(), x.hour())));
        let got_r = r0.map(|x| f((x.year(), x.month(), x.day(), x.hour())));
        let got_dh = dh0.map(|x| f((x.year(), x.month(), x.day(), 0)));
        let got_hh = hh0.map(|x| f((x.year(), x.month(), x.day(), x.hour())));
        let exp_d = r.map(|(y, m, d, _)| (y, m, d, 0));
        let exp_h = r.map(|(y, m, d, h)| (y, m, d, h + 1));
        let exp_dh = r.and_then(|(y, m, d, h)| if y > -100 && h == 0 { Some((y, m, d, 0)) } else { None });
        let exp_hh = exp_h.and_then(|(y, m, d, h)| {
            let sentinel = (y == 1 || y == -1) && m == 1 && d == 1 && h == 1;
            if y >= 1800 || sentinel {
                Some((y, m, d, h))
            } else {
                None
            }
        });
        t.check(got_d == exp_d, || format!("Date::from_binary({}) = {:?}", s, got_d));
        t.check(got_h == exp_h, || format!("DateHour::from_binary({}) = {:?}", s, got_h));
        t.check(got_r == r, || format!("RawDate::from_binary({}) = {:?}", s, got_r));
        t.check(got_dh == exp_dh, || format!("Date::from_binary_heuristic({}) = {:?}", s, got_dh));
        t.check(got_hh == exp_hh, || format!("DateHour::from_binary_heuristic({}) = {:?}", s, got_hh));
        if let Some(x) = d0 {
            t.acc += 1;
            t.check(x.to_binary() == s - s % 24, || format!("Date re-encode {}", s));
        }
        if let Some(x) = h0 {
            t.check(x.to_binary() == s, || format!("DateHour re-encode {}", s));
        }
        acc_h += got_dh.is_some() as u64;
        acc_dh += got_hh.is_some() as u64;
    }
    t.line(&format!(" acch={} accdh={}", acc_h, acc_dh))
}

/// what component-wise parsing of a Date means, from the crate's own component parser
fn component_date(s: &[u8]) -> Option<(i32, i32, i32)> {
    let r = RawDate::parse(s).ok()?;
    if r.has_hour() {
        return None;
    }
    let (m, d) = (r.month() as i32, r.day() as i32);
    if m < 1 || m > 12 || d < 1 || d > DPM[m as usize] {
        return None;
    }
    Some((r.year() as i32, m, d))
}
fn date_fields(s: &[u8]) -> Option<(i32, i32, i32)> {
    Date::parse(s).ok().map(|x| (x.year() as i32, x.month() as i32, x.day() as i32))
}
/// run a crate call; a panic is reported as Err so that the sweep can name the input
fn guarded<T>(f: impl FnOnce() -> T) -> Result<T, ()> {
    std::panic::catch_unwind(std::panic::AssertUnwindSafe(f)).map_err(|_| ())
}

/// mode "digits": every digit string of the four fast-path shapes for the years lo..=hi (0..=9999)
/// mode "corrupt": every byte value at every position of every MM/M x DD/D string (m 0..=13, d 0..=32)
fn sweep_fast(mode: &str, lo: i32, hi: i32) -> String {
    let mut t = Tally::new();
    let mut buf: Vec<u8> = Vec::with_capacity(12);
    for y in lo..=hi {
        let ys = format!("{:04}", y);
        if mode == "digits" {
            for mw in [2usize, 1] {
                for dw in [2usize, 1] {
                    let mmax = if mw == 2 { 100 } else { 10 };
                    let dmax = if dw == 2 { 100 } else { 10 };
                    for m in 0..mmax {
                        for d in 0..dmax {
                            buf.clear();
                            buf.extend_from_slice(ys.as_bytes());
                            buf.push(b'.');
                            if mw == 2 {
                                buf.push(b'0' + (m / 10) as u8);
                            }
                            buf.push(b'0' + (m % 10) as u8);
                            buf.push(b'.');
                            if dw == 2 {
                                buf.push(b'0' + (d / 10) as u8);
                            }
                            buf.push(b'0' + (d % 10) as u8);
                            let exp = if (1..=12).contains(&m) && d >= 1 && d <= DPM[m as usize] { Some((y, m, d)) } else { None };
                            let got = date_fields(&buf);
                            if got.is_some() {
                                t.acc += 1;
                            }
                            t.check(got == exp, || format!("Date::parse({}) = {:?}", String::from_utf8_lossy(&buf), got));
                            t.check(component_date(&buf) == exp, || format!("component parse({})", String::from_utf8_lossy(&buf)));
                        }
                    }
                }
            }
        } else {
            for wide_m in [true, false] {
                for wide_d in [true, false] {
                    for m in 0..=13 {
                        for d in 0..=32 {
                            if (!wide_m && m > 9) || (!wide_d && d > 9) {
                                continue;
                            }
                            let base = format!(
                                "{}.{}.{}",
                                ys,
                                if wide_m { format!("{:02}", m) } else { m.to_string() },
                                if wide_d { format!("{:02}", d) } else { d.to_string() }
                            )
                            .into_bytes();
                            for pos in 0..base.len() {
                                for b in 0..=255u8 {
                                    buf.clear();
                                    buf.extend_from_slice(&base);
                                    buf[pos] = b;
                                    let (got, comp) = match guarded(|| (date_fields(&buf), component_date(&buf))) {
                                        Ok(v) => v,
                                        Err(()) => {
                                            t.check(false, || format!("parse({}) PANICS", hex(&buf)));
                                            continue;
                                        }
                                    };
                                    if got.is_some() {
                                        t.acc += 1;
                                    }
                                    // sound: whatever the fast paths accept, component-wise parsing accepts with the same fields
                                    t.check(got.is_none() || got == comp, || format!("Date::parse({}) = {:?}, component-wise {:?}", hex(&buf), got, comp));
                                    // complete: component-wise result is found unless the up-front guard applies
                                    let guard_ok = buf[0] == b'-' || buf[0].is_ascii_digit();
                                    if guard_ok {
                                        t.check(got == comp, || format!("Date::parse({}) = {:?}, component-wise {:?}", hex(&buf), got, comp));
                                    }
                                    // an accepted string is a digit string Y.M.D with these very fields (only byte 0 may be a sign)
                                    if let Some((gy, gm, gd)) = got {
                                        let txt = String::from_utf8_lossy(&buf).to_string();
                                        let parts: Vec<&str> = txt.split('.').collect();
                                        let num = |p: &str| -> Option<i32> {
                                            if p.is_empty() || !p.bytes().all(|c| c.is_ascii_digit()) {
                                                None
                                            } else {
                                                p.parse::<i32>().ok()
                                            }
                                        };
                                        let okparts = if parts.len() == 3 {
                                            let yp = parts[0];
                                            let (sign, digits) = match yp.as_bytes().first() {
                                                Some(b'-') => (-1, &yp[1..]),
                                                Some(b'+') => (1, &yp[1..]),
                                                _ => (1, yp),
                                            };
                                            num(digits).map(|v| sign * v) == Some(gy) && num(parts[1]) == Some(gm) && num(parts[2]) == Some(gd)
                                        } else {
                                            // a string without dots can only be the documented plain-integer form
                                            parts.len() == 1 && txt.parse::<i32>().ok().and_then(ref_from_binary).map(|(y, m, d, _)| (y, m, d)) == Some((gy, gm, gd))
                                        };
                                        t.check(okparts, || format!("Date::parse({}) accepted as {:?}", hex(&buf), got));
                                    }
                                }
                            }
                        }
                    }
                }
            }
        }
    }
    t.line("")
}

fn de_value<'a, T: serde::Deserialize<'a>>(mode: &str, arg: &'a str) -> Option<Result<T, serde::de::value::Error>> {
    use serde::de::value::*;
    use serde::de::IntoDeserializer;
    type E = Error;
    Some(match mode {
        "i32" => T::deserialize(IntoDeserializer::<E>::into_deserializer(p::<i32>(arg)?)),
        "i64" => T::deserialize(IntoDeserializer::<E>::into_deserializer(p::<i64>(arg)?)),
        "u64" => T::deserialize(IntoDeserializer::<E>::into_deserializer(p::<u64>(arg)?)),
        "u32" => T::deserialize(IntoDeserializer::<E>::into_deserializer(p::<u32>(arg)?)),
        "bool" => T::deserialize(IntoDeserializer::<E>::into_deserializer(arg == "1")),
        "unit" => T::deserialize(IntoDeserializer::<E>::into_deserializer(())),
        _ => return None,
    })
}

fn de_line(which: &str, mode: &str, arg: &str) -> Option<String> {
    use serde::de::value::{BorrowedStrDeserializer, Error, StrDeserializer, StringDeserializer};
    use serde::Deserialize;
    macro_rules! go {
        ($t:ty, $f:expr) => {{
            let r: Result<$t, Error> = match mode {
                "str" | "bstr" | "string" => {
                    let bytes = unhex(arg);
                    let s = match String::from_utf8(bytes) {
                        Ok(s) => s,
                        Err(_) => return Some("nonutf8".into()),
                    };
                    match mode {
                        "str" => <$t>::deserialize(StrDeserializer::<Error>::new(&s)),
                        "bstr" => <$t>::deserialize(BorrowedStrDeserializer::<Error>::new(&s)),
                        _ => <$t>::deserialize(StringDeserializer::<Error>::new(s.clone())),
                    }
                }
                _ => de_value::<$t>(mode, arg)?,
            };
            match r {
                Ok(x) => $f(x),
                Err(_) => "err".to_string(),
            }
        }};
    }
    Some(match which {
        "date" => go!(Date, |x: Date| show(x.year(), x.month(), x.day(), 0)),
        "dh" => go!(DateHour, |x: DateHour| show(x.year(), x.month(), x.day(), x.hour())),
        "ud" => go!(UniformDate, |x: UniformDate| show(x.year(), x.month(), x.day(), 0)),
        _ => return None,
    })
}

pub fn dispatch(kind: &str, a: &[&str]) -> Option<String> {
    let r = match (kind, a) {
        ("raw.frombin", [s]) => match RawDate::from_binary(p::<i32>(s)?) {
            Some(d) => show(d.year(), d.month(), d.day(), d.hour()),
            None => "none".into(),
        },
        // fields + has_hour of a RawDate
        ("dt.rawf", [y, m, d, h]) => match RawDate::from_ymdh_opt(p(y)?, p(m)?, p(d)?, p(h)?) {
            Some(x) => format!("{} {}", show(x.year(), x.month(), x.day(), x.hour()), x.has_hour() as u8),
            None => "none".into(),
        },
        // panicking constructors: a date comes out or the documented panic
        ("dt.ctorp", [which, y, m, d, h]) => {
            let (y, m, d, h): (i16, u8, u8, u8) = (p(y)?, p(m)?, p(d)?, p(h)?);
            match *which {
                "date" => Any::D(Date::from_ymd(y, m, d)).show(),
                "dh" => Any::H(DateHour::from_ymdh(y, m, d, h)).show(),
                "ud" => Any::U(UniformDate::from_ymd(y, m, d)).show(),
                "raw" => Any::R(RawDate::from_ymdh(y, m, d, h)).show(),
                _ => return None,
            }
        }
        // cmp / partial_cmp / == / operators / hash equality of two dates of one type
        ("dt.cmp", [which, y, m, d, h, y2, m2, d2, h2]) => {
            let a1 = Any::make(which, p(y)?, p(m)?, p(d)?, p(h)?);
            let b1 = Any::make(which, p(y2)?, p(m2)?, p(d2)?, p(h2)?);
            match (a1, b1) {
                (Some(Any::D(a)), Some(Any::D(b))) => cmp_line(&a, &b),
                (Some(Any::H(a)), Some(Any::H(b))) => cmp_line(&a, &b),
                (Some(Any::U(a)), Some(Any::U(b))) => cmp_line(&a, &b),
                (Some(Any::R(a)), Some(Any::R(b))) => cmp_line(&a, &b),
                _ => "invalid".into(),
            }
        }
        // PdsDateFormatter::new in the three formats + the trait's game_fmt / iso_8601
        ("dt.fmtx", [which, y, m, d, h]) => {
            let (y, m, d, h): (i16, u8, u8, u8) = (p(y)?, p(m)?, p(d)?, p(h)?);
            match Any::make(which, y, m, d, h) {
                None => "invalid".into(),
                Some(x) => {
                    let (fy, fm, fd, fh) = x.fields();
                    let raw = RawDate::from_ymdh(fy, fm, fd, fh);
                    let f = |fmt| hex(PdsDateFormatter::new(raw, fmt).to_string().as_bytes());
                    format!(
                        "{} {} {} {} {}",
                        f(DateFormat::DotShort),
                        f(DateFormat::DotWide),
                        f(DateFormat::Iso8601),
                        hex(x.game().as_bytes()),
                        hex(x.iso().as_bytes())
                    )
                }
            }
        }
        ("dt.fromstr", [which, hx]) => {
            let s = match String::from_utf8(unhex(hx)) {
                Ok(s) => s,
                Err(_) => return Some("nonutf8".into()),
            };
            match *which {
                "date" => s.parse::<Date>().ok().map(Any::D),
                "dh" => s.parse::<DateHour>().ok().map(Any::H),
                "ud" => s.parse::<UniformDate>().ok().map(Any::U),
                "raw" => s.parse::<RawDate>().ok().map(Any::R),
                _ => return None,
            }
            .map(|x| x.show())
            .unwrap_or_else(|| "none".into())
        }
        ("dt.de", [which, mode, arg]) => de_line(which, mode, arg)?,
        ("dt.ser", [which, y, m, d, h]) => {
            let (y, m, d, h): (i16, u8, u8, u8) = (p(y)?, p(m)?, p(d)?, p(h)?);
            let s = match *which {
                "date" => Date::from_ymd_opt(y, m, d).map(|x| serde_json::to_string(&x)),
                "dh" => DateHour::from_ymdh_opt(y, m, d, h).map(|x| serde_json::to_string(&x)),
                _ => return None,
            };
            match s {
                None => "invalid".into(),
                Some(Ok(s)) => hex(s.as_bytes()),
                Some(Err(_)) => "err".into(),
            }
        }
        // add_days followed by the two inverse laws, in one case (so that state is shared): result, days_until, add back
        ("dt.arith", [y, m, d, y2, m2, d2]) => {
            match (Date::from_ymd_opt(p(y)?, p(m)?, p(d)?), Date::from_ymd_opt(p(y2)?, p(m2)?, p(d2)?)) {
                (Some(a), Some(b)) => {
                    let n = a.days_until(&b);
                    let back = b.days_until(&a);
                    let c = a.add_days(n);
                    format!("{} {} {} {}", n, back, show(c.year(), c.month(), c.day(), 0), ord_name(a.cmp(&b)))
                }
                _ => "invalid".into(),
            }
        }
        // wave 6 (s_c13): the text sits at offset `pre` inside a larger buffer whose neighbours are digits (a parser that
        // looks past either end of its slice would read them); parsed as &[u8] sub-slice, as &str sub-slice and as an
        // owned copy: "<slice> | <str> | <owned>" (implementation-only kind)
        ("dt.parse_at", [which, pre, hx, suf]) => {
            let (pre, suf): (usize, usize) = (p(pre)?, p(suf)?);
            let s = unhex(hx);
            let mut buf: Vec<u8> = vec![b'1'; pre];
            buf.extend_from_slice(&s);
            buf.extend(std::iter::repeat(b'7').take(suf));
            let sl = &buf[pre..pre + s.len()];
            let one = |r: Option<Any>| r.map(|x| x.show()).unwrap_or_else(|| "none".into());
            let bytes = |b: &[u8]| -> Option<String> {
                Some(one(match *which {
                    "date" => Date::parse(b).ok().map(Any::D),
                    "dh" => DateHour::parse(b).ok().map(Any::H),
                    "ud" => UniformDate::parse(b).ok().map(Any::U),
                    "raw" => RawDate::parse(b).ok().map(Any::R),
                    _ => return None,
                }))
            };
            let a = bytes(sl)?;
            let b = match std::str::from_utf8(sl) {
                Err(_) => "nonutf8".to_string(),
                Ok(t) => one(match *which {
                    "date" => Date::parse(t).ok().map(Any::D),
                    "dh" => DateHour::parse(t).ok().map(Any::H),
                    "ud" => UniformDate::parse(t).ok().map(Any::U),
                    _ => RawDate::parse(t).ok().map(Any::R),
                }),
            };
            let c = bytes(&s.clone())?;
            format!("{} | {} | {}", a, b, c)
        }
        ("dt.sweep_dates", [lo, hi, hours]) => sweep_dates(p(lo)?, p(hi)?, *hours == "1"),
        ("dt.sweep_bin", [lo, n]) => sweep_bin(p(lo)?, p(n)?),
        ("dt.sweep_fast", [mode, lo, hi]) => sweep_fast(mode, p(lo)?, p(hi)?),
        _ => return None,
    };
    Some(r)
}
