//! C18, second part: every attribute combination the proc-macro accepts, generic structs, Cow fields, the `Vec<[T; N]>` arm of `duplicated`, fields named like another field's alias.
//!
//! THIS FILE IS READ BY THE CHECK (props/C18_table.py): the attribute table of each struct below is
//! extracted from this source text and fed to the model (DeriveMacro.spec_of_attrs) and to the
//! specification.  Conventions the extractor relies on:
//!   * one field per declaration, attributes on the lines before it;
//!   * `fn <name>() -> T { <literal> }` for `default = "<name>"` functions;
//!   * `deserialize_with` functions are the three below (their effect is known to the spec by name);
//!   * the `instances!` table at the end names the concrete types the kinds run.
//!
//! Kinds
//!   dw.text <path> <enc> <instance> <hex>
//!   dw.bin  <path> <strategy> <resolver> <flavor> <instance> <hex>
//! (`.m` / `.s` variants carry two more arguments for the model; the implementation ignores them.)
use crate::fams::fam_de::{err_class, parse_enc, parse_flavor, parse_resolver, parse_strategy, run_bin, run_text};
use crate::fams::fam_derive::Show;
use crate::util::*;
use jomini::JominiDeserialize;
use serde::de::DeserializeOwned;
use serde::{Deserialize, Deserializer};
use std::borrow::Cow;
use std::fmt::Write;

macro_rules! show_struct2 {
    ($name:ident $(<$($g:tt),*>)?, $($f:ident),*) => {
        impl $(<$($g: Show),*>)? Show for $name $(<$($g),*>)? {
            fn show(&self, o: &mut String) {
                o.push_str("(struct");
                $(
                    let _ = write!(o, " ({} ", hex(stringify!($f).as_bytes()));
                    self.$f.show(o);
                    o.push(')');
                )*
                o.push(')');
            }
        }
    };
}

impl<'a> Show for Cow<'a, str> {
    fn show(&self, o: &mut String) {
        let _ = write!(o, "(str {})", hex(self.as_bytes()));
    }
}

// ---------------------------------------------------------------------------- default functions
fn default_nine() -> u32 { 9 }
fn default_some_seven() -> Option<u8> { Some(7) }
fn default_word() -> String { String::from("dflt") }

// ---------------------------------------------------------------------------- deserialize_with functions
/// the value + 1 (wrapping)
fn de_plus1<'de, D: Deserializer<'de>>(d: D) -> Result<u32, D::Error> {
    u32::deserialize(d).map(|x| x.wrapping_add(1))
}
/// "w:" in front of the string
fn de_tag<'de, D: Deserializer<'de>>(d: D) -> Result<String, D::Error> {
    String::deserialize(d).map(|s| format!("w:{}", s))
}
/// Some(value + 1); the sentinel u32::MAX maps to None (an `Option` field whose function can answer None:
/// the "seen" state of the field must not be confused with its value)
fn de_some_plus1<'de, D: Deserializer<'de>>(d: D) -> Result<Option<u32>, D::Error> {
    u32::deserialize(d).map(|x| x.checked_add(1))
}

// ---------------------------------------------------------------------------- a SmallVec-like container
pub trait Arr {
    type Item;
}
impl<T, const N: usize> Arr for [T; N] {
    type Item = T;
}
/// `duplicated` on `X<[T; N]>` pushes values of type T (lib.rs: GenericArgument::Type(Type::Array))
pub struct AV<A: Arr> {
    v: Vec<A::Item>,
}
impl<A: Arr> Default for AV<A> {
    fn default() -> Self {
        AV { v: Vec::new() }
    }
}
impl<A: Arr> AV<A> {
    fn push(&mut self, x: A::Item) {
        self.v.push(x)
    }
}
impl<A: Arr> Show for AV<A>
where
    A::Item: Show,
{
    fn show(&self, o: &mut String) {
        o.push_str("(seq");
        for x in &self.v {
            o.push(' ');
            x.show(o);
        }
        o.push(')');
    }
}

// ---------------------------------------------------------------------------- the structs
/// deserialize_with: plain, + default, + take_last + alias, + default fn, on an Option, next to a duplicated field
#[derive(JominiDeserialize)]
pub struct DW {
    #[jomini(deserialize_with = "de_plus1")]
    a: u32,
    #[jomini(deserialize_with = "de_plus1", default)]
    b: u32,
    #[jomini(deserialize_with = "de_tag", take_last, alias = "cc")]
    c: String,
    #[jomini(default = "default_nine", deserialize_with = "de_plus1")]
    d: u32,
    #[jomini(deserialize_with = "de_some_plus1")]
    e: Option<u32>,
    #[jomini(duplicated)]
    f: Vec<u32>,
}
show_struct2!(DW, a, b, c, d, e, f);

/// token + every other attribute: deserialize_with, take_last + default, alias + duplicated, default fn, Option, take_last
#[derive(JominiDeserialize)]
pub struct DWT {
    #[jomini(token = 0x2e01, deserialize_with = "de_plus1")]
    a: u32,
    #[jomini(token = 0x2e02, take_last, deserialize_with = "de_tag", default)]
    b: String,
    #[jomini(token = 0x2e03, alias = "sea", duplicated)]
    c: Vec<String>,
    #[jomini(default = "default_nine", token = 0x2e04)]
    d: u32,
    #[jomini(token = 0x2e05)]
    e: Option<bool>,
    #[jomini(take_last)]
    #[jomini(token = 0x2e06)]
    g: i32,
}
show_struct2!(DWT, a, b, c, d, e, g);

/// fields named like another field's alias (the generated `match` takes the first arm), a second
/// alias (only the first is read), take_last + default fn on a String
#[derive(JominiDeserialize)]
pub struct DK {
    #[jomini(alias = "b")]
    a: u32,
    #[jomini(default)]
    b: u32,
    #[jomini(alias = "a", duplicated)]
    c: Vec<u32>,
    #[jomini(alias = "p", alias = "q")]
    d: Option<String>,
    #[jomini(take_last, default = "default_word")]
    w: String,
}
show_struct2!(DK, a, b, c, d, w);

/// bare default on Option, take_last + bare default on Option, duplicated + take_last (duplicated wins),
/// duplicated + default (default is not consulted)
#[derive(JominiDeserialize)]
pub struct DO {
    #[jomini(default)]
    p: Option<String>,
    #[jomini(take_last, default)]
    q: Option<u8>,
    #[jomini(duplicated, take_last)]
    r: Vec<i32>,
    #[jomini(default, duplicated)]
    s: Vec<bool>,
    t: bool,
}
show_struct2!(DO, p, q, r, s, t);

/// `default = "fn"` on an Option field: a missing field is fn(), not None (regression: fixed finding option-default-fn)
#[derive(JominiDeserialize)]
pub struct DOF {
    #[jomini(default = "default_some_seven")]
    o: Option<u8>,
    n: u8,
}
show_struct2!(DOF, o, n);

/// `duplicated` on a container of arrays
#[derive(JominiDeserialize)]
pub struct DAr {
    #[jomini(duplicated)]
    lst: AV<[u8; 4]>,
    #[jomini(duplicated, alias = "w")]
    ws: AV<[String; 2]>,
    x: u8,
}
show_struct2!(DAr, lst, ws, x);

/// a type parameter without where clause (the macro adds the Deserialize<'de> bound itself)
#[derive(JominiDeserialize)]
pub struct DGen<T> {
    #[jomini(alias = "v")]
    value: T,
    #[jomini(duplicated)]
    more: Vec<T>,
    #[jomini(default)]
    cnt: u8,
    #[jomini(take_last)]
    last: Option<T>,
}
show_struct2!(DGen<T>, value, more, cnt, last);

/// a type parameter with a where clause (the macro then leaves the bounds alone)
#[derive(JominiDeserialize)]
pub struct DGW<T>
where
    T: DeserializeOwned,
{
    inner: T,
    #[jomini(duplicated, alias = "x")]
    xs: Vec<T>,
    #[jomini(default)]
    k: Option<T>,
}
impl<T: DeserializeOwned + Show> Show for DGW<T> {
    fn show(&self, o: &mut String) {
        o.push_str("(struct");
        let _ = write!(o, " ({} ", hex(b"inner"));
        self.inner.show(o);
        let _ = write!(o, ") ({} ", hex(b"xs"));
        self.xs.show(o);
        let _ = write!(o, ") ({} ", hex(b"k"));
        self.k.show(o);
        o.push_str("))");
    }
}

/// one type parameter with an inline bound, token keys.  (Two type parameters or a lifetime parameter
/// are rejected at compile time: the generated `PhantomData<A, B>` / `PhantomData<'a>` is ill-formed.)
#[derive(JominiDeserialize)]
pub struct DGT<B: Default> {
    #[jomini(token = 0x2e11)]
    left: String,
    #[jomini(token = 0x2e12, duplicated)]
    right: Vec<B>,
    #[jomini(token = 0x2e13, default)]
    extra: B,
}
impl<B: Default + Show> Show for DGT<B> {
    fn show(&self, o: &mut String) {
        o.push_str("(struct");
        let _ = write!(o, " ({} ", hex(b"left"));
        self.left.show(o);
        let _ = write!(o, ") ({} ", hex(b"right"));
        self.right.show(o);
        let _ = write!(o, ") ({} ", hex(b"extra"));
        self.extra.show(o);
        o.push_str("))");
    }
}

/// Cow fields without a lifetime parameter
#[derive(JominiDeserialize)]
pub struct DL {
    #[jomini(alias = "nm")]
    name: Cow<'static, str>,
    #[jomini(duplicated)]
    tags: Vec<Cow<'static, str>>,
    n: Option<u8>,
}
show_struct2!(DL, name, tags, n);

/// nested: a generic derived struct of derived structs, inside a derived struct
#[derive(JominiDeserialize)]
pub struct DN {
    #[jomini(duplicated, alias = "g")]
    gens: Vec<DGen<DOF>>,
    #[jomini(take_last)]
    w: Option<DGW<u32>>,
    id: u16,
}
show_struct2!(DN, gens, w, id);

/// (w_derive) exactly one field, and it carries a token: `token_count > 0` means `token_count == 1` here
#[derive(JominiDeserialize)]
pub struct D1T {
    #[jomini(token = 0x2e10)]
    only: u32,
}
show_struct2!(D1T, only);

fn fin<T: Show>(r: Result<T, jomini::Error>) -> String {
    match r {
        Ok(v) => {
            let mut s = String::new();
            v.show(&mut s);
            s
        }
        Err(e) => err_class(&e),
    }
}

macro_rules! instances {
    ($($name:literal => $ty:ty),* $(,)?) => {
        fn text_instance(st: &str, path: &str, e: crate::fams::fam_de::Enc, data: &[u8]) -> Option<String> {
            let mut s = None;
            Some(match st {
                $($name => fin(run_text::<$ty>(path, e, data, &mut s)),)*
                _ => return None,
            })
        }
        fn bin_instance(st: &str, path: &str, sg: jomini::binary::FailedResolveStrategy, res: &crate::fams::fam_de::Res, f: crate::fams::fam_de::Fl, data: &[u8]) -> Option<String> {
            let mut s = None;
            Some(match st {
                $($name => fin(run_bin::<$ty>(path, sg, res, f, data, &mut s)),)*
                _ => return None,
            })
        }
    };
}

instances! {
    "DW" => DW,
    "DWT" => DWT,
    "DK" => DK,
    "DO" => DO,
    "DOF" => DOF,
    "DAr" => DAr,
    "DGen_u32" => DGen<u32>,
    "DGen_String" => DGen<String>,
    "DGen_DOF" => DGen<DOF>,
    "DGW_u32" => DGW<u32>,
    "DGW_String" => DGW<String>,
    "DGT_i32" => DGT<i32>,
    "DL" => DL,
    "DN" => DN,
    "D1T" => D1T,
}

pub fn dispatch(kind: &str, a: &[&str]) -> Option<String> {
    match (kind, a) {
        ("dw.text", [path, enc, st, h]) | ("dw.text.m", [path, enc, st, h, _, _]) | ("dw.text.s", [path, enc, st, h, _, _])
        | ("dc.text.m", [path, enc, st, h, _, _]) /* w_derive: DeriveCode.visit_raw from the raw attribute syntax */ => {
            let data = unhex(h);
            // the structs of fam_derive.rs are served under the dw.* kinds as well (model instantiated from the source)
            text_instance(st, path, parse_enc(enc), &data).or_else(|| crate::fams::fam_derive::dispatch("dv.text", &[*path, *enc, *st, *h]))
        }
        ("dw.bin", [path, strat, res, fl, st, h]) | ("dw.bin.m", [path, strat, res, fl, st, h, _, _]) | ("dw.bin.s", [path, strat, res, fl, st, h, _, _])
        | ("dc.bin.m", [path, strat, res, fl, st, h, _, _]) /* w_derive */ => {
            let data = unhex(h);
            let rs = match parse_resolver(res) {
                Ok(r) => r,
                Err(e) => return Some(format!("RESOLVER-{}", err_class(&e))),
            };
            bin_instance(st, path, parse_strategy(strat), &rs, parse_flavor(fl), &data)
                .or_else(|| crate::fams::fam_derive::dispatch("dv.bin", &[*path, *strat, *res, *fl, *st, *h]))
        }
        _ => None,
    }
}
