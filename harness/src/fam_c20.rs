//! C20 (wave 4, a_c20): I/O faults through EVERY operation of the two streaming TokenReaders, the
//! error accessors, and typed targets where a swallowed fault would still give a plausible value.
//!
//! Kinds
//!   c20.tops <cap> <sched> <hex> <ops>     text TokenReader, op mix; canonical (model-comparable) rendering
//!   c20.tapi <cap> <sched> <hex> <ops>     same run, detailed rendering (implementation only)
//!   c20.bapi <cap> <sched> <hex> <ops>     binary TokenReader, op mix with retries, detailed rendering
//!       sched = util::parse_sched ("-" | n,n,F,n; exhausted = fill); cap = buffer length
//!       ops   = comma separated: n (next) r (read) k (skip_container) u (skip_unquoted_value, text only) by<N> (read_bytes)
//!       c20.tops: `<res>@<pos>` per op, the run stops at the first failing op, which prints `ERR:<class>` only
//!       c20.tapi / c20.bapi: `<res>@<pos>/<reads>/<delivered>` per op (position, read calls and bytes delivered
//!       after the op), a failing op prints `ERR:<class>@<pos>/<reads>/<delivered>/A<mask>` where mask = the failed
//!       checks of the error accessors (0 = all fine, see `text_err_api`); text stops at the first error except
//!       that read_bytes is retried; binary retries next/read/read_bytes (up to 3 times) and stops after a failed skip.
//!   c20.plaus <text|bin> <target> <path> <enc|flavor> <hex>
//!       typed targets whose every field has a default / is optional, through the reader deserializers
//!       (path as in fam_de.rs: reader:<buflen>:<sched>[@kF|@kP] | freader:<sched>).  Output:
//!       `<Debug of the value | ERR:class> calls=<n> delivered=<n> A<mask>`
//!   c20.bde   = de.bin (model side: extracted BinDeReader.deser_reader over a schedule WITH Fail events)
//!   c20.tde   = de.text (model side: extracted TextDeReader.deser_text_reader over a schedule WITH Fail events)
//!   c20.tde.calls = de.calls.text when the run succeeds (`calls=<n> delivered=<n> ok`), else `err`
//!   c20.errconv : the From conversions into jomini::Error that need no reader (io::Error, ScalarError)
use crate::fams::fam_de::{err_class, parse_enc, parse_flavor, parse_resolver, run_bin, run_text};
use crate::util::*;
use jomini::JominiDeserialize;
use serde::Deserialize;
use std::cell::{Cell, RefCell};
use std::collections::BTreeMap;
use std::error::Error as StdError;
use std::io::Read;
use std::rc::Rc;

// ---------------------------------------------------------------------------------- the faulty Read
pub struct Log {
    pub calls: Cell<usize>,
    pub delivered: Cell<usize>,
    pub faults: RefCell<Vec<std::io::ErrorKind>>,
}

/// util::SchedRead with a log shared with the caller (the reader owns the Read)
pub struct FaultRead {
    data: Vec<u8>,
    pos: usize,
    sched: Vec<Option<usize>>,
    // s_c20 (wave 6): explicit io::ErrorKind of a fault event (`F<k>`), None = rotating with the reader state
    kinds: Vec<Option<usize>>,
    idx: usize,
    log: Rc<Log>,
}

/// s_c20 (wave 6): `<event>x<count>` = the event repeated count times (long schedules stay short on the wire)
pub fn expand_sched(s: &str) -> String {
    if !s.contains('x') {
        return s.to_string();
    }
    let mut out: Vec<&str> = Vec::new();
    for t in s.split(',') {
        match t.split_once('x') {
            Some((e, n)) => {
                for _ in 0..n.parse::<usize>().unwrap() {
                    out.push(e);
                }
            }
            None => out.push(t),
        }
    }
    if out.is_empty() { "-".to_string() } else { out.join(",") }
}

impl FaultRead {
    pub fn new(data: Vec<u8>, sched: &str) -> (FaultRead, Rc<Log>) {
        let log = Rc::new(Log { calls: Cell::new(0), delivered: Cell::new(0), faults: RefCell::new(Vec::new()) });
        let sched = expand_sched(sched);
        (FaultRead { data, pos: 0, sched: parse_sched(&sched), kinds: parse_sched_kinds(&sched), idx: 0, log: log.clone() }, log)
    }
}

impl Read for FaultRead {
    fn read(&mut self, buf: &mut [u8]) -> std::io::Result<usize> {
        let ev = if self.idx < self.sched.len() { self.sched[self.idx] } else { Some(1_000_000_000) };
        let kind = if self.idx < self.kinds.len() { self.kinds[self.idx] } else { None };
        self.idx += 1;
        self.log.calls.set(self.log.calls.get() + 1);
        match ev {
            None => {
                let e = injected_fault(kind.unwrap_or(self.pos + self.idx));
                self.log.faults.borrow_mut().push(e.kind());
                Err(e)
            }
            Some(n) => {
                let k = n.max(1).min(buf.len()).min(self.data.len() - self.pos);
                buf[..k].copy_from_slice(&self.data[self.pos..self.pos + k]);
                self.pos += k;
                self.log.delivered.set(self.log.delivered.get() + k);
                Ok(k)
            }
        }
    }
}

fn p(s: &str) -> usize {
    s.parse::<usize>().unwrap()
}

/// s_c20 (wave 6): leading pseudo-ops of an op list: `R<n>` = a retryable op is tried up to n times (default 3),
/// `RA<n>` = the same and (text) next / read are retried as well (the caller promises a document without quotes and
/// comments, where the reader is resumable), `H` = payloads longer than 32 bytes are printed as
/// `<first 8 bytes>~<len>~<fnv1a-32>`.  Returns (max tries, retry-all, shorten, remaining ops).
fn op_prefixes<'a>(ops: &'a str) -> (usize, bool, bool, Vec<&'a str>) {
    let mut tries = 3;
    let mut all = false;
    let mut short = false;
    let mut rest: Vec<&str> = Vec::new();
    if ops != "-" && !ops.is_empty() {
        for o in ops.split(',') {
            if rest.is_empty() && o == "H" {
                short = true;
            } else if rest.is_empty() && o.starts_with("RA") {
                all = true;
                tries = p(&o[2..]);
            } else if rest.is_empty() && o.starts_with('R') {
                tries = p(&o[1..]);
            } else {
                rest.push(o);
            }
        }
    }
    (tries, all, short, rest)
}

fn show_payload(b: &[u8], short: bool) -> String {
    if !short || b.len() <= 32 {
        return hex(b);
    }
    let mut h: u32 = 0x811c9dc5;
    for x in b {
        h = (h ^ (*x as u32)).wrapping_mul(0x01000193);
    }
    format!("{}~{}~{:08x}", hex(&b[..8]), b.len(), h)
}

/// some error of the source chain (the error itself included) is the injected one
fn chain_has_injected(e: &(dyn StdError + 'static)) -> bool {
    let mut cur: Option<&(dyn StdError + 'static)> = Some(e);
    let mut n = 0;
    while let Some(x) = cur {
        if let Some(io) = x.downcast_ref::<std::io::Error>() {
            if io.to_string() == "injected fault" {
                return true;
            }
        }
        cur = x.source();
        n += 1;
        if n > 8 {
            break;
        }
    }
    false
}

/// accessor checks on a jomini::Error that came from a reader error of class `class`
/// (100 io, 101 buffer full, anything else = eof / syntax); bits of the returned mask = failed checks
fn jomini_err_api(e: jomini::Error, class: u32, last_fault: Option<std::io::ErrorKind>, shift: u32) -> u32 {
    use jomini::ErrorKind as K;
    let mut m = 0u32;
    let mut bad = |bit: u32, cond: bool| {
        if !cond {
            m |= 1 << (bit + shift);
        }
    };
    bad(0, !e.to_string().is_empty());
    match class {
        100 => {
            bad(1, matches!(e.kind(), K::Io(x) if Some(x.kind()) == last_fault && x.to_string() == "injected fault"));
            bad(2, e.source().map_or(false, |s| chain_has_injected(s)));
            bad(3, e.offset().is_none());
            bad(4, matches!(e.into_kind(), K::Io(_)));
        }
        101 => {
            bad(1, matches!(e.kind(), K::BufferFull));
            bad(2, e.source().is_none());
            bad(3, e.offset().is_none());
            bad(4, matches!(e.into_kind(), K::BufferFull));
        }
        _ => {
            bad(1, matches!(e.kind(), K::Eof | K::InvalidSyntax { .. }));
            bad(2, e.source().is_none());
            bad(4, !matches!(e.into_kind(), K::Io(_) | K::BufferFull));
        }
    }
    m
}

// ---------------------------------------------------------------------------------- text reader
mod text {
    use super::*;
    use crate::fam_texttape::op_code;
    use jomini::text::{ReaderError, ReaderErrorKind, Token, TokenReader};

    fn show_tok(t: &Token, short: bool) -> String {
        match t {
            Token::Open => "O".into(),
            Token::Close => "C".into(),
            Token::Operator(o) => format!("OP:{}", op_code(o)),
            Token::Unquoted(s) => format!("U:{}", show_payload(s.as_bytes(), short)),
            Token::Quoted(s) => format!("Q:{}", show_payload(s.as_bytes(), short)),
        }
    }

    fn class(e: &ReaderError) -> u32 {
        match e.kind() {
            ReaderErrorKind::Read(_) => 100,
            ReaderErrorKind::BufferFull => 101,
            ReaderErrorKind::Eof => 102,
        }
    }

    /// mask of failed accessor checks: bit0 position() <= delivered, bit1 Display, bit2 kind payload is the last
    /// injected io::Error, bit3 source(), bit4 into_kind keeps the class; bits 8.. the same error converted into jomini::Error
    fn text_err_api(e: ReaderError, log: &Log) -> u32 {
        let mut m = 0u32;
        let c = class(&e);
        let last = log.faults.borrow().last().copied();
        if e.position() > log.delivered.get() {
            m |= 1;
        }
        if e.to_string().is_empty() {
            m |= 2;
        }
        match e.kind() {
            ReaderErrorKind::Read(x) => {
                if Some(x.kind()) != last || x.to_string() != "injected fault" {
                    m |= 4;
                }
                if !e.source().map_or(false, |s| chain_has_injected(s)) {
                    m |= 8;
                }
            }
            _ => {
                if e.source().is_some() {
                    m |= 8;
                }
            }
        }
        // into_kind on a copy is not possible (no Clone): convert first through a rebuilt error of the same class
        let je = jomini::Error::from(e);
        m | jomini_err_api(je, c, last, 8)
    }

    fn text_into_kind_class(e: ReaderError) -> u32 {
        match e.into_kind() {
            ReaderErrorKind::Read(_) => 100,
            ReaderErrorKind::BufferFull => 101,
            ReaderErrorKind::Eof => 102,
        }
    }

    pub fn run(cap: &str, sched: &str, h: &str, ops: &str, detailed: bool) -> Option<String> {
        let (src, log) = FaultRead::new(unhex(h), sched);
        let mut rd = TokenReader::builder().buffer_len(p(cap)).build(src);
        let mut out: Vec<String> = Vec::new();
        let (max_tries, retry_all, short, oplist) = op_prefixes(ops);
        let mut flip = false;
        'ops: for op in oplist {
            let mut tries = 0;
            loop {
                let pos_before = rd.position();
                let r: Result<String, ReaderError> = match op {
                    "n" => rd.next().map(|t| t.map_or("NONE".to_string(), |t| show_tok(&t, short))),
                    "r" => rd.read().map(|t| show_tok(&t, short)),
                    "k" => rd.skip_container().map(|_| "OK".to_string()),
                    "u" => rd.skip_unquoted_value().map(|_| "OK".to_string()),
                    _ if op.starts_with("by") => rd.read_bytes(p(&op[2..])).map(|b| format!("B:{}", show_payload(b, short))),
                    _ => return None,
                };
                let pos = rd.position();
                let tail = format!("@{}/{}/{}", pos, log.calls.get(), log.delivered.get());
                match r {
                    Ok(s) => {
                        out.push(if detailed { format!("{}{}", s, tail) } else { format!("{}@{}", s, pos) });
                        break;
                    }
                    Err(e) => {
                        let c = class(&e);
                        if !detailed {
                            out.push(format!("ERR:{}", c));
                            break 'ops;
                        }
                        // alternate the two consuming accessors so that both are exercised
                        flip = !flip;
                        // s_c20 (wave 6), bit 5: positions never go backwards: the error is not located before the
                        // position the reader had reached when the op was called, nor is the reader afterwards
                        let back = if e.position() < pos_before || pos < pos_before { 32 } else { 0 };
                        let mask = back
                            | if flip {
                                text_err_api(e, &log)
                            } else {
                                let okpos = e.position() <= log.delivered.get();
                                (if okpos { 0 } else { 1 }) | (if text_into_kind_class(e) == c { 0 } else { 16 })
                            };
                        out.push(format!("ERR:{}{}/A{:x}", c, tail, mask));
                        tries += 1;
                        if c == 100 && (op.starts_with("by") || (retry_all && (op == "n" || op == "r"))) && tries < max_tries {
                            continue;
                        }
                        break 'ops;
                    }
                }
            }
        }
        Some(if out.is_empty() { "-".into() } else { out.join(" ") })
    }
}

// ---------------------------------------------------------------------------------- binary reader
mod bin {
    use super::*;
    use jomini::binary::{LexError, ReaderError, ReaderErrorKind, Token, TokenReader};

    fn show_tok(t: &Token, short: bool) -> String {
        match t {
            Token::Open => "O".into(),
            Token::Close => "C".into(),
            Token::Equal => "EQ".into(),
            Token::U32(x) => format!("U32:{}", x),
            Token::U64(x) => format!("U64:{}", x),
            Token::I32(x) => format!("I32:{}", x),
            Token::Bool(x) => format!("BOOL:{}", if *x { 1 } else { 0 }),
            Token::Quoted(s) => format!("Q:{}", show_payload(s.as_bytes(), short)),
            Token::Unquoted(s) => format!("U:{}", show_payload(s.as_bytes(), short)),
            Token::F32(x) => format!("F32:{}", hex(&x[..])),
            Token::F64(x) => format!("F64:{}", hex(&x[..])),
            Token::Rgb(c) => match c.a {
                None => format!("RGB:{},{},{}", c.r, c.g, c.b),
                Some(a) => format!("RGB:{},{},{},{}", c.r, c.g, c.b, a),
            },
            Token::I64(x) => format!("I64:{}", x),
            Token::Id(x) => format!("T:{}", x),
        }
    }

    fn class(k: &ReaderErrorKind) -> u32 {
        match k {
            ReaderErrorKind::Read(_) => 100,
            ReaderErrorKind::BufferFull => 101,
            ReaderErrorKind::Lexer(LexError::Eof) => 110,
            ReaderErrorKind::Lexer(LexError::InvalidRgb) => 111,
        }
    }

    fn bin_err_api(e: ReaderError, log: &Log, consume_into_kind: bool) -> u32 {
        let mut m = 0u32;
        let c = class(e.kind());
        let last = log.faults.borrow().last().copied();
        if e.position() > log.delivered.get() {
            m |= 1;
        }
        if e.to_string().is_empty() {
            m |= 2;
        }
        match e.kind() {
            ReaderErrorKind::Read(x) => {
                if Some(x.kind()) != last || x.to_string() != "injected fault" {
                    m |= 4;
                }
                if !e.source().map_or(false, |s| chain_has_injected(s)) {
                    m |= 8;
                }
            }
            _ => {
                if e.source().is_some() {
                    m |= 8;
                }
            }
        }
        if consume_into_kind {
            if class(&e.into_kind()) != c {
                m |= 16;
            }
            m
        } else {
            let je = jomini::Error::from(e);
            m | jomini_err_api(je, if c >= 110 { 102 } else { c }, last, 8)
        }
    }

    pub fn run(cap: &str, sched: &str, h: &str, ops: &str) -> Option<String> {
        let (src, log) = FaultRead::new(unhex(h), sched);
        // a recycled, dirty buffer: stale contents must be unobservable
        let mut rd = TokenReader::builder().buffer(vec![0xA5u8; p(cap)].into_boxed_slice()).build(src);
        let mut out: Vec<String> = Vec::new();
        let (max_tries, _retry_all, short, oplist) = op_prefixes(ops);
        let mut flip = false;
        'ops: for op in oplist {
            let mut tries = 0;
            loop {
                let pos_before = rd.position();
                let r: Result<String, ReaderError> = match op {
                    "n" => rd.next().map(|t| t.map_or("NONE".to_string(), |t| show_tok(&t, short))),
                    "r" => rd.read().map(|t| show_tok(&t, short)),
                    "k" => rd.skip_container().map(|_| "OK".to_string()),
                    _ if op.starts_with("by") => rd.read_bytes(p(&op[2..])).map(|b| format!("B:{}", show_payload(b, short))),
                    _ => return None,
                };
                let tail = format!("@{}/{}/{}", rd.position(), log.calls.get(), log.delivered.get());
                match r {
                    Ok(s) => {
                        out.push(format!("{}{}", s, tail));
                        break;
                    }
                    Err(e) => {
                        let c = class(e.kind());
                        flip = !flip;
                        // s_c20 (wave 6), bit 5: positions never go backwards (see the text reader)
                        let back = if e.position() < pos_before || rd.position() < pos_before { 32 } else { 0 };
                        let mask = back | bin_err_api(e, &log, flip);
                        out.push(format!("ERR:{}{}/A{:x}", c, tail, mask));
                        tries += 1;
                        if c == 100 && op != "k" && tries < max_tries {
                            continue;
                        }
                        break 'ops;
                    }
                }
            }
        }
        Some(if out.is_empty() { "-".into() } else { out.join(" ") })
    }
}

// ---------------------------------------------------------------------------------- typed targets
// every field is optional / defaulted: a deserializer that took an I/O failure for the end of the data (or of a
// container) would still return a well-formed value
#[derive(Deserialize, Debug, Default, PartialEq)]
#[serde(default)]
struct Inner {
    x: Option<i32>,
    y: Vec<String>,
    z: BTreeMap<String, String>,
    w: bool,
}

#[derive(Deserialize, Debug, Default, PartialEq)]
#[serde(default)]
struct Plaus {
    a: Option<i32>,
    b: Vec<i32>,
    c: BTreeMap<String, i32>,
    d: Option<Inner>,
    e: String,
    f: bool,
    g: Vec<Inner>,
    t: Option<(i32, i32)>,
    last: Option<String>,
}

/// only one field is wanted: everything else goes through deserialize_ignored_any (skip_container)
#[derive(Deserialize, Debug, Default, PartialEq)]
#[serde(default)]
struct OnlyLast {
    last: Option<String>,
}

/// the derive path: duplicated fields are collected, defaults are filled in afterwards
#[derive(JominiDeserialize, Debug, Default, PartialEq)]
struct DInner {
    #[jomini(default)]
    x: Option<i32>,
    #[jomini(default, duplicated)]
    y: Vec<String>,
    #[jomini(default)]
    w: bool,
}

#[derive(JominiDeserialize, Debug, Default, PartialEq)]
struct DPlaus {
    #[jomini(default)]
    a: Option<i32>,
    #[jomini(default)]
    b: Vec<i32>,
    #[jomini(default)]
    d: Option<DInner>,
    #[jomini(default)]
    e: String,
    #[jomini(default, duplicated)]
    g: Vec<DInner>,
    #[jomini(default, alias = "final")]
    last: Option<String>,
}

fn plaus<T: serde::de::DeserializeOwned + std::fmt::Debug>(fmt: &str, path: &str, aux: &str, data: &[u8]) -> String {
    let mut st = None;
    let r: Result<T, jomini::Error> = if fmt == "text" {
        run_text::<T>(path, parse_enc(aux), data, &mut st)
    } else {
        let res = parse_resolver("map:-").ok().unwrap();
        run_bin::<T>(path, jomini::binary::FailedResolveStrategy::Error, &res, parse_flavor(aux), data, &mut st)
    };
    let (calls, delivered) = st.map_or((0, 0), |s| (s.calls.get(), s.delivered.get()));
    let (shown, mask) = match r {
        Ok(v) => (format!("{:?}", v).replace(' ', ""), 0),
        Err(e) => {
            let c = err_class(&e);
            let mut m = 0u32;
            if e.to_string().is_empty() {
                m |= 1;
            }
            if c == "ERR:io" {
                if !matches!(e.kind(), jomini::ErrorKind::Io(x) if x.to_string() == "injected fault") {
                    m |= 2;
                }
                if !e.source().map_or(false, |s| chain_has_injected(s)) {
                    m |= 4;
                }
                if e.offset().is_some() {
                    m |= 8;
                }
                if !matches!(e.into_kind(), jomini::ErrorKind::Io(_)) {
                    m |= 16;
                }
            } else if let Some(off) = e.offset() {
                // a reported offset never exceeds the bytes delivered
                if off > delivered {
                    m |= 32;
                }
            }
            (c, m)
        }
    };
    format!("{} calls={} delivered={} A{:x}", shown, calls, delivered, mask)
}

pub fn dispatch(kind: &str, a: &[&str]) -> Option<String> {
    let r = match (kind, a) {
        ("c20.tops", [cap, sched, h, ops]) => text::run(cap, sched, h, ops, false)?,
        ("c20.tapi", [cap, sched, h, ops]) => text::run(cap, sched, h, ops, true)?,
        ("c20.bapi", [cap, sched, h, ops]) => bin::run(cap, sched, h, ops)?,
        ("c20.plaus", [fmt, target, path, aux, h]) => {
            let d = unhex(h);
            match *target {
                "plaus" => plaus::<Plaus>(fmt, path, aux, &d),
                "onlylast" => plaus::<OnlyLast>(fmt, path, aux, &d),
                "dplaus" => plaus::<DPlaus>(fmt, path, aux, &d),
                _ => return None,
            }
        }
        ("c20.bde", _) => return crate::fams::fam_de::dispatch("de.bin", a),
        // >>> w_tdef (wave 5): model side = extracted TextDeReader.deser_text_reader(_st) over a schedule WITH Fail events
        ("c20.tde", _) => return crate::fams::fam_de::dispatch("de.text", a),
        ("c20.tde.calls", _) => {
            // read calls issued / bytes delivered by the scripted Read when the deserializer succeeds
            let o = crate::fams::fam_de::dispatch("de.calls.text", a)?;
            if o.ends_with(" ok") { o } else { "err".to_string() }
        }
        // <<< w_tdef
        ("c20.errconv", []) => {
            // From<io::Error> and From<ScalarError> for jomini::Error: class, source, Display
            let e = jomini::Error::from(injected_fault(1));
            let a = jomini_err_api(e, 100, Some(std::io::ErrorKind::UnexpectedEof), 0);
            let se = jomini::Scalar::new(b"x1").to_u64().unwrap_err();
            let e2 = jomini::Error::from(se);
            let ok2 = matches!(e2.kind(), jomini::ErrorKind::Deserialize(d) if matches!(d.kind(), jomini::DeserializeErrorKind::Scalar(_)))
                && e2.source().is_some()
                && e2.source().and_then(|s| s.source()).is_some()
                && !e2.to_string().is_empty()
                && e2.offset().is_none();
            format!("A{:x} {}", a, if ok2 { 1 } else { 0 })
        }
        _ => return None,
    };
    Some(r)
}
