//! Correspondence harness: reads case lines "kind<TAB>arg<TAB>..." on stdin and prints one
//! canonical line per case, produced by the real jomini code (path dependency on the repo's
//! working tree, hooks enabled with --cfg jomini_verif).
use std::io::{BufRead, Write};
use std::panic;

mod fams;
#[allow(unused_imports)]
pub(crate) use fams::*;
mod util;

fn dispatch(kind: &str, args: &[&str]) -> String {
    match fams::dispatch(kind, args) {
        Some(r) => r,
        None => "NOKIND".to_string(),
    }
}

fn main() {
    panic::set_hook(Box::new(|_| {}));
    let stdin = std::io::stdin();
    let stdout = std::io::stdout();
    let mut out = std::io::BufWriter::new(stdout.lock());
    for line in stdin.lock().lines() {
        let line = match line {
            Ok(l) => l,
            Err(_) => break,
        };
        let mut parts = line.split('\t');
        let kind = parts.next().unwrap_or("");
        let args: Vec<&str> = parts.collect();
        let res = panic::catch_unwind(panic::AssertUnwindSafe(|| dispatch(kind, &args)));
        let res = match res {
            Ok(s) => s,
            Err(_) => "PANIC".to_string(),
        };
        let _ = out.write_all(res.as_bytes());
        let _ = out.write_all(b"\n");
        // flush per line so that an abort loses only the case that caused it
        let _ = out.flush();
    }
}
