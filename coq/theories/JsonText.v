(* The JSON *text* of json/mod.rs: what `to_writer` / `to_vec` / `to_string` emit for the tree that
   Json.v computes.  The three entry points hand the Serialize implementation to
   serde_json::to_writer (CompactFormatter) or serde_json::to_writer_pretty (PrettyFormatter with
   two spaces); this file models those two formatters for the calls json/mod.rs makes:
     serialize_bool / serialize_i64 / serialize_u64 (itoa) / serialize_f64 (ryu, `null` when not
     finite) / serialize_str and map keys (format_escaped_str with the ESCAPE table) /
     serialize_none (`null`) / serialize_seq / serialize_map / tuples.
   The float printer (ryu::Buffer::format_finite) is a parameter [fmt_f64]; the theorems assume it
   produces a JSON number token, which the harness checks lexically on every real output.
   Also here: the grammar of RFC 8259 as inductive predicates (the specification of "syntactically
   valid JSON") and the token sequence of a tree (for "pretty printing changes whitespace only").
   No proofs here (proofs/JsonTextProofs.v). *)
From JV Require Import Bytes Date Json.
Open Scope N_scope.

(* ---------------------------------------------------------------- strings *)
Definition hex_digit (n : N) : N := if n <? 10 then 48 + n else 87 + n.   (* b"0123456789abcdef" *)

(* serde_json::ser::ESCAPE + Formatter::write_char_escape *)
Definition escape_byte (b : N) : bytes :=
  if b =? 34 then [92; 34]                 (* backslash quote *)
  else if b =? 92 then [92; 92]            (* backslash backslash *)
  else if b =? 8 then [92; 98]             (* \b *)
  else if b =? 9 then [92; 116]            (* \t *)
  else if b =? 10 then [92; 110]           (* \n *)
  else if b =? 12 then [92; 102]           (* \f *)
  else if b =? 13 then [92; 114]           (* \r *)
  else if b <? 32 then [92; 117; 48; 48; hex_digit (b / 16); hex_digit (b mod 16)]   (* \u00XX *)
  else [b].

Definition print_str (s : bytes) : bytes := 34 :: flat_map escape_byte s ++ [34].

(* ---------------------------------------------------------------- numbers *)
(* itoa on i64 / u64 = core::fmt decimal printing (Date.dec_N) *)
Definition print_u64 (n : N) : bytes := dec_N n.
Definition print_i64 (z : Z) : bytes :=
  if (z <? 0)%Z then 45 :: dec_N (Z.abs_N z) else dec_N (Z.abs_N z).

(* f64::classify: Nan / Infinite have all exponent bits set *)
Definition f64_is_finite (bits : N) : bool := negb ((bits / 2 ^ 52) mod 2048 =? 2047).

Definition s_null : bytes := [110; 117; 108; 108].
Definition s_true : bytes := [116; 114; 117; 101].
Definition s_false : bytes := [102; 97; 108; 115; 101].

(* ---------------------------------------------------------------- the two formatters *)
Fixpoint spaces (k : nat) : bytes := match k with O => [] | S k' => 32 :: spaces k' end.
(* PrettyFormatter::new(): indent = b"  ", written current_indent times *)
Definition indent (d : nat) : bytes := spaces (2 * d).

(* begin_array_value / begin_object_key followed by the item, for the items of one container
   printed at indent level [d] *)
Fixpoint join_items (pretty : bool) (d : nat) (first : bool) (items : list bytes) : bytes :=
  match items with
  | [] => []
  | x :: r =>
      (if pretty then (if first then [10] else [44; 10]) ++ indent d
       else (if first then [] else [44]))
      ++ x ++ join_items pretty d false r
  end.

(* begin_array .. end_array / begin_object .. end_object around items that sit one level deeper
   than the container, which itself sits at level [d] *)
Definition print_seq (pretty : bool) (d : nat) (open close : N) (items : list bytes) : bytes :=
  match items with
  | [] => [open; close]
  | _ => open :: join_items pretty (S d) true items ++ (if pretty then 10 :: indent d else []) ++ [close]
  end.

(* begin_object_value: ": " (pretty) or ":" *)
Definition colon (pretty : bool) : bytes := if pretty then [58; 32] else [58].

Section Print.
  Variable fmt_f64 : N -> bytes.     (* ryu::Buffer::format_finite of the bit pattern *)

  Definition print_f64 (bits : N) : bytes :=
    if f64_is_finite bits then fmt_f64 bits else s_null.

  (* the text of a tree whose opening token sits at indent level [d] *)
  Fixpoint print (pretty : bool) (d : nat) (j : json) : bytes :=
    match j with
    | JNull => s_null
    | JBool true => s_true
    | JBool false => s_false
    | JI64 z => print_i64 z
    | JU64 n => print_u64 n
    | JF64 b => print_f64 b
    | JStr s => print_str s
    | JArr l => print_seq pretty d 91 93 (map (print pretty (S d)) l)
    | JObj l =>
        print_seq pretty d 123 125
          (map (fun kv => match kv with (k, v) => print_str k ++ colon pretty ++ print pretty (S d) v end) l)
    end.

  (* serde_json::to_writer / to_writer_pretty of the whole value *)
  Definition json_text (pretty : bool) (j : json) : bytes := print pretty 0 j.

  (* ---------------------------------------------------------------- tokens *)
  (* the token sequence of the text: structural characters, literals, numbers, strings *)
  Fixpoint sep_tokens (first : bool) (items : list (list bytes)) : list bytes :=
    match items with
    | [] => []
    | x :: r => (if first then [] else [[44]]) ++ x ++ sep_tokens false r
    end.

  Fixpoint jtokens (j : json) : list bytes :=
    match j with
    | JArr l => [[91]] ++ sep_tokens true (map jtokens l) ++ [[93]]
    | JObj l =>
        [[123]] ++ sep_tokens true (map (fun kv => match kv with (k, v) => [print_str k; [58]] ++ jtokens v end) l) ++ [[125]]
    | other => [print false 0 other]
    end.
End Print.

(* ================================================================ RFC 8259 *)
Definition is_ws (b : N) : bool := (b =? 32) || (b =? 9) || (b =? 10) || (b =? 13).

Inductive ws : bytes -> Prop :=
| ws_nil : ws []
| ws_cons : forall b r, is_ws b = true -> ws r -> ws (b :: r).

Definition is_hexdig (b : N) : bool :=
  ((48 <=? b) && (b <=? 57)) || ((65 <=? b) && (b <=? 70)) || ((97 <=? b) && (b <=? 102)).

(* char = unescaped / escape (quote, backslash, slash, b f n r t, uXXXX);
   unescaped = %x20-21 / %x23-5B / %x5D-10FFFF  (at byte level: any byte >= 0x20 other than the
   quote and the backslash; that the bytes are UTF-8 is a separate statement) *)
Definition is_simple_escape (c : N) : bool :=
  (c =? 34) || (c =? 92) || (c =? 47) || (c =? 98) || (c =? 102) || (c =? 110) || (c =? 114) || (c =? 116).

Inductive jchars : bytes -> Prop :=
| jc_nil : jchars []
| jc_plain : forall b r, 32 <= b -> b <> 34 -> b <> 92 -> jchars r -> jchars (b :: r)
| jc_esc : forall c r, is_simple_escape c = true -> jchars r -> jchars (92 :: c :: r)
| jc_u : forall h1 h2 h3 h4 r,
    is_hexdig h1 = true -> is_hexdig h2 = true -> is_hexdig h3 = true -> is_hexdig h4 = true ->
    jchars r -> jchars (92 :: 117 :: h1 :: h2 :: h3 :: h4 :: r).

Inductive jstring : bytes -> Prop :=
| js_intro : forall c, jchars c -> jstring (34 :: c ++ [34]).

(* DIGIT = Bytes.is_digit *)
Definition digits1 (l : bytes) : Prop := l <> [] /\ forallb is_digit l = true.

(* int = zero / ( digit1-9 *DIGIT ) *)
Inductive jint : bytes -> Prop :=
| ji_zero : jint [48]
| ji_nz : forall c tl, 49 <= c <= 57 -> forallb is_digit tl = true -> jint (c :: tl).

(* number = [ minus ] int [ frac ] [ exp ] *)
Inductive jfrac : bytes -> Prop :=
| jf_none : jfrac []
| jf_some : forall d, digits1 d -> jfrac (46 :: d).

Inductive jexp : bytes -> Prop :=
| jx_none : jexp []
| jx_some : forall e sign d, e = 101 \/ e = 69 -> sign = [] \/ sign = [43] \/ sign = [45] ->
    digits1 d -> jexp (e :: sign ++ d).

Inductive jnumber : bytes -> Prop :=
| jn_intro : forall (neg : bool) i f x, jint i -> jfrac f -> jexp x ->
    jnumber ((if neg then [45] else []) ++ i ++ f ++ x).

(* value = false / null / true / object / array / number / string
   array = [ ws ] | [ element *( , element ) ]      element = ws value ws
   object = { ws } | { member *( , member ) }       member = ws string ws : element *)
Inductive jvalue : bytes -> Prop :=
| jv_null : jvalue s_null
| jv_true : jvalue s_true
| jv_false : jvalue s_false
| jv_number : forall n, jnumber n -> jvalue n
| jv_string : forall s, jstring s -> jvalue s
| jv_arr_empty : forall w, ws w -> jvalue (91 :: w ++ [93])
| jv_arr : forall els, jelements els -> jvalue (91 :: els ++ [93])
| jv_obj_empty : forall w, ws w -> jvalue (123 :: w ++ [125])
| jv_obj : forall ms, jmembers ms -> jvalue (123 :: ms ++ [125])
with jelement : bytes -> Prop :=
| je_intro : forall w1 v w2, ws w1 -> jvalue v -> ws w2 -> jelement (w1 ++ v ++ w2)
with jelements : bytes -> Prop :=
| jes_one : forall e, jelement e -> jelements e
| jes_cons : forall e r, jelement e -> jelements r -> jelements (e ++ 44 :: r)
with jmember : bytes -> Prop :=
| jm_intro : forall w1 k w2 e, ws w1 -> jstring k -> ws w2 -> jelement e -> jmember (w1 ++ k ++ w2 ++ 58 :: e)
with jmembers : bytes -> Prop :=
| jms_one : forall m, jmember m -> jmembers m
| jms_cons : forall m r, jmember m -> jmembers r -> jmembers (m ++ 44 :: r).

(* JSON-text = ws value ws *)
Definition json_grammar (s : bytes) : Prop := jelement s.

(* ---------------------------------------------------------------- whitespace between tokens *)
(* [ws_weave ts s]: [s] is the tokens [ts] in order with only whitespace before, between and after *)
Inductive ws_weave : list bytes -> bytes -> Prop :=
| ww_nil : forall w, ws w -> ws_weave [] w
| ww_cons : forall w t ts r, ws w -> ws_weave ts r -> ws_weave (t :: ts) (w ++ t ++ r).

(* ---------------------------------------------------------------- the strings of a tree *)
Fixpoint jstrings (j : json) : list bytes :=
  match j with
  | JStr s => [s]
  | JArr l => flat_map jstrings l
  | JObj l => flat_map (fun kv => match kv with (k, v) => k :: jstrings v end) l
  | _ => []
  end.
