(* text/dom.rs, the iterators as *stateful* objects: what a caller observes between two calls of
   `next()`.  Dom.v models a whole drain of FieldsIter / ValuesIter and FieldGroupsIter as two drains
   plus a list function; here every iteration point is recorded:
     FieldsIter       cursor, size_hint().0 (re-runs fields_len from the cursor), remainder() and its len()
     ValuesIter       cursor, size_hint() = (values_len from the cursor, Some(same))
     FieldGroupsIter  the loop of `next` over the inner FieldsIter and the shrinking key map: the group,
                      the inner cursor after the call, size_hint().0 = key_indices.len(), remainder()
   plus the Reader enum wrappers and `impl Encoding for ValueReader`.
   Same conventions as Dom.v (explicit Panic sites, fuel).  No proofs here (proofs/DomIterProofs.v). *)
From JV Require Import Bytes TextTok TapeWf Dom.
Open Scope nat_scope.

(* ---------------------------------------------------------------- FieldsIter *)
Record fpoint := mk_fpoint {
  fp_ind : nat;          (* token_ind *)
  fp_hint : nat;         (* size_hint().0 *)
  fp_rem : areader;      (* remainder() *)
  fp_rem_len : nat;      (* remainder().len() *)
  fp_rem_tokens : nat }. (* remainder().tokens_len() *)

Definition fields_point (t : ttape) (token_ind end_ind : nat) : outcome fpoint :=
  do h <- fields_size_hint t token_ind end_ind;
  let rem := remainder t token_ind end_ind in
  do rl <- array_len t rem;
  do rt <- array_tokens_len rem;
  Ok (mk_fpoint token_ind h rem rl rt).

(* the observation before the first next() and after every next() (the last one returned None) *)
Fixpoint fields_trace (fuel : nat) (dbg : bool) (t : ttape) (token_ind end_ind : nat) : outcome (list fpoint) :=
  match fuel with
  | O => OutOfFuel
  | S f =>
      do p <- fields_point t token_ind end_ind;
      do r <- fields_next dbg t token_ind end_ind;
      match r with
      | None => Ok [p]
      | Some (_, n) => do ps <- fields_trace f dbg t n end_ind; Ok (p :: ps)
      end
  end.

Definition fields_trace_all (dbg : bool) (t : ttape) (r : oreader) : outcome (list fpoint) :=
  fields_trace (loop_fuel t) dbg t (o_start r) (o_end r).

(* ---------------------------------------------------------------- ValuesIter *)
(* ValuesIter::next *)
Definition values_next (t : ttape) (token_ind end_ind : nat) : outcome (option (nat * nat)) :=
  if Nat.ltb token_ind end_ind then
    do n <- next_idx_values t token_ind; Ok (Some (token_ind, n))
  else Ok None.

(* ValuesIter::size_hint: (len, Some(len)) with len = values_len from the cursor *)
Definition values_size_hint (t : ttape) (token_ind end_ind : nat) : outcome (nat * option nat) :=
  do n <- values_len t token_ind end_ind; Ok (n, Some n).

Record vpoint := mk_vpoint { vp_ind : nat; vp_lo : nat; vp_hi : option nat }.

Fixpoint values_trace (fuel : nat) (t : ttape) (token_ind end_ind : nat) : outcome (list vpoint) :=
  match fuel with
  | O => OutOfFuel
  | S f =>
      do (lo, hi) <- values_size_hint t token_ind end_ind;
      let p := mk_vpoint token_ind lo hi in
      do r <- values_next t token_ind end_ind;
      match r with
      | None => Ok [p]
      | Some (_, n) => do ps <- values_trace f t n end_ind; Ok (p :: ps)
      end
  end.

Definition values_trace_all (t : ttape) (r : areader) : outcome (list vpoint) :=
  values_trace (loop_fuel t) t (a_start r) (a_end r).

(* ---------------------------------------------------------------- FieldGroupsIter *)
(* one call of FieldGroupsIter::next: `loop { let (key, op, value) = self.fields.next()?; if let
   Some(..) = self.key_indices.remove_entry(key) { return Some(..) } }`.  The inner cursor moves
   also when the call ends with None (fields skipped on the way are consumed). *)
Fixpoint groups_next (fuel : nat) (dbg : bool) (t : ttape) (token_ind end_ind : nat) (m : gmap)
  : outcome (option group * nat * gmap) :=
  match fuel with
  | O => OutOfFuel
  | S f =>
      do r <- fields_next dbg t token_ind end_ind;
      match r with
      | None => Ok (None, token_ind, m)
      | Some (fd, n) =>
          match gmap_remove m (tok_bytes (f_key fd)) with
          | Some (entries, m') => Ok (Some (mk_group (f_key fd) ((f_op fd, f_val fd) :: entries)), n, m')
          | None => groups_next f dbg t n end_ind m
          end
      end
  end.

Record gpoint := mk_gpoint {
  gp_group : option group;   (* what the call of next() returned (None for the point before the first call) *)
  gp_ind : nat;              (* the inner FieldsIter cursor after the call *)
  gp_hint : nat;             (* size_hint().0 = key_indices.len() *)
  gp_rem : areader;          (* remainder() *)
  gp_rem_len : nat;
  gp_rem_tokens : nat }.

Definition groups_point (t : ttape) (g : option group) (token_ind end_ind : nat) (m : gmap) : outcome gpoint :=
  let rem := remainder t token_ind end_ind in
  do rl <- array_len t rem;
  do rt <- array_tokens_len rem;
  Ok (mk_gpoint g token_ind (length m) rem rl rt).

(* the points after each call of next(), until (and including) the call that returned None *)
Fixpoint groups_calls (fuel : nat) (dbg : bool) (t : ttape) (token_ind end_ind : nat) (m : gmap) : outcome (list gpoint) :=
  match fuel with
  | O => OutOfFuel
  | S f =>
      do (g, n, m') <- groups_next (loop_fuel t) dbg t token_ind end_ind m;
      do p <- groups_point t g n end_ind m';
      match g with
      | None => Ok [p]
      | Some _ => do ps <- groups_calls f dbg t n end_ind m'; Ok (p :: ps)
      end
  end.

(* FieldGroupsIter::new (first pass over fields() fills the map; the capacity is fields_len())
   followed by the observation before the first call and after every call *)
Definition groups_trace_all (dbg : bool) (t : ttape) (r : oreader) : outcome (list gpoint) :=
  do _ <- fields_len t (o_start r) (o_end r);
  do (fs, _) <- fields_all dbg t r;
  let m := gmap_build fs in
  do p0 <- groups_point t None (o_start r) (o_end r) m;
  do ps <- groups_calls (loop_fuel t) dbg t (o_start r) (o_end r) m;
  Ok (p0 :: ps).

(* the groups a trace yielded *)
Definition trace_groups (ps : list gpoint) : list group :=
  flat_map (fun p => match gp_group p with Some g => [g] | None => [] end) ps.

(* ---------------------------------------------------------------- the Reader enum *)
Inductive reader := RObject (r : oreader) | RArray (r : areader) | RScalar (k : ttok) | RValue (v : nat).

Definition scalar_of_key (k : ttok) : bytes :=
  match k with
  | TQuoted x | TUnquoted x | TParameter x | TUndefinedParameter x => x
  | _ => []
  end.

Definition reader_read_str (dec : bytes -> bytes) (t : ttape) (r : reader) : outcome bytes :=
  match r with
  | RScalar k => Ok (dec (scalar_of_key k))
  | RValue v => read_str dec t v
  | _ => Err E_not_scalar
  end.

Definition reader_read_scalar (t : ttape) (r : reader) : outcome bytes :=
  match r with
  | RScalar k => Ok (scalar_of_key k)
  | RValue v => read_scalar t v
  | _ => Err E_not_scalar
  end.

(* everything a ValueReader offers, for one index: used by the stream `dom.leaf` on the values
   that values() / fields() yield, whatever their token kind *)
Record leaf_view := mk_leaf_view {
  lv_tok : ttok; lv_tokens : nat; lv_scalar : outcome bytes; lv_str : outcome bytes;
  lv_object : outcome oreader; lv_array : outcome areader }.

Definition leaf_view_of (dec : bytes -> bytes) (t : ttape) (v : nat) : outcome leaf_view :=
  do k <- value_token t v;
  do tl <- value_tokens_len t v;
  Ok (mk_leaf_view k tl (read_scalar t v) (read_str dec t v) (read_object t v) (read_array t v)).
