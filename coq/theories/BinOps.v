(* C08 (wave 4): arbitrary mixes of TokenReader::next / read / read_bytes against the same mix of
   Lexer::next_token / read_token / read_bytes.  Each call is recorded with the position() that
   follows it; a failing call does not stop the run (both sides simply go on from where they are).
   No proofs in this file. *)
From JV Require Import Bytes Tables BinPrim BufWin BinLexer BinReader.
Open Scope nat_scope.

Inductive bop := OpNext | OpRead | OpBytes (n : nat).
Inductive bres :=
| RNext (o : outcome (option btoken))
| RRead (o : outcome btoken)
| RBytes (o : outcome bytes).

Definition rdr_op (op : bop) (s : rstate) : bres * rstate :=
  match op with
  | OpNext => (RNext (fst (rdr_next s)), snd (rdr_next s))
  | OpRead => (RRead (fst (rdr_read s)), snd (rdr_read s))
  | OpBytes n => (RBytes (fst (rdr_read_bytes n s)), snd (rdr_read_bytes n s))
  end.

Definition lx_op (op : bop) (l : lexer) : bres * lexer :=
  match op with
  | OpNext => (RNext (fst (lx_next_token l)), snd (lx_next_token l))
  | OpRead => (RRead (fst (lx_read_token l)), snd (lx_read_token l))
  | OpBytes n => (RBytes (fst (lx_read_bytes n l)), snd (lx_read_bytes n l))
  end.

Fixpoint run_rops (ops : list bop) (s : rstate) : list (bres * nat) :=
  match ops with
  | [] => []
  | op :: r => (fst (rdr_op op s), rdr_position (snd (rdr_op op s))) :: run_rops r (snd (rdr_op op s))
  end.

Fixpoint run_lops (ops : list bop) (l : lexer) : list (bres * nat) :=
  match ops with
  | [] => []
  | op :: r => (fst (lx_op op l), lx_position (snd (lx_op op l))) :: run_lops r (snd (lx_op op l))
  end.

Definition reader_ops (cap : nat) (sched : list event) (d : bytes) (ops : list bop) : list (bres * nat) :=
  run_rops ops (rdr_new cap sched d).
Definition lexer_ops (d : bytes) (ops : list bop) : list (bres * nat) := run_lops ops (lx_new d).

(* "the buffer holds what each call needs": a token call at data d needs [tok_fits]; read_bytes n
   needs n bytes of room, or -- when fewer than n bytes remain -- room to see the end of the stream *)
Definition op_fits (cap : nat) (op : bop) (d : bytes) : bool :=
  match op with
  | OpBytes n => if Nat.leb n (length d) then Nat.leb n cap else Nat.ltb (length d) cap
  | _ => tok_fits cap d
  end.
Fixpoint ops_fit (cap : nat) (ops : list bop) (l : lexer) : bool :=
  match ops with
  | [] => true
  | op :: r => op_fits cap op (lx_data l) && ops_fit cap r (snd (lx_op op l))
  end.
