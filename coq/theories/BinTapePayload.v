(* C06 (binary half), the byte-level clause: "binary scalars and numeric payloads equal the input
   bytes at their position".  Specification only (the proofs are in proofs/BinTapePayloadProofs.v).

   [lexes d t r]: walking the input from the suffix d, the tokens of t are met IN ORDER, each one
   decoded by the wire format's own reader (BinPrim.read_id + BinTape.read_scalar, i.e.
   binary/lexer.rs read_id / read_u32 / read_string / read_rgb ...) from the bytes at its position:
     - a payload token (U32 U64 I32 I64 Bool Quoted Unquoted F32 F64 Rgb) sits on its type id
       followed by exactly the payload bytes that decode to it (strings: the two length bytes and
       then the string itself, as a slice of the input);
     - Token(id) sits on the two bytes of id;
     - Array / Object sit on an OPEN lexeme, End on a CLOSE lexeme, Equal on an EQUAL lexeme;
     - MixedContainer occupies no bytes;
     - between two tape tokens whole lexemes of the input may be skipped (the `=` of `key = value`,
       ghost objects `{}`, and -- a defect of the code, see C06_bin_payloads_all_kept_refuted -- a
       scalar in front of the key of `{ {} x k = v }`),
   and r is what is left of the input after the last token. *)
From JV Require Import Bytes Tables BinPrim BinTape.
Open Scope N_scope.

Definition id_of_kind (k : skind) : N :=
  match k with
  | KU32 => L_U32 | KU64 => L_U64 | KI32 => L_I32 | KBool => L_BOOL | KQuoted => L_QUOTED
  | KUnquoted => L_UNQUOTED | KF32 => L_F32 | KF64 => L_F64 | KRgb => L_RGB | KI64 => L_I64
  end.

(* one whole lexeme of the input: an id alone, or a type id with its payload *)
Definition lexeme (d d' : bytes) : Prop :=
  exists id d1, read_id d = Ok (id, d1) /\
    (d' = d1 \/ exists k x, id = id_of_kind k /\ read_scalar k d1 = Ok (x, d')).

Inductive lexes : bytes -> tape -> bytes -> Prop :=
| lx_nil : forall d, lexes d [] d
| lx_skip : forall d d' t r, lexeme d d' -> lexes d' t r -> lexes d t r
| lx_scalar : forall d d1 d2 k x t r,
    read_id d = Ok (id_of_kind k, d1) -> read_scalar k d1 = Ok (x, d2) ->
    lexes d2 t r -> lexes d (x :: t) r
| lx_token : forall d d1 id t r,
    read_id d = Ok (id, d1) -> lexes d1 t r -> lexes d (TToken id :: t) r
| lx_array : forall d d1 e t r,
    read_id d = Ok (L_OPEN, d1) -> lexes d1 t r -> lexes d (TArray e :: t) r
| lx_object : forall d d1 e t r,
    read_id d = Ok (L_OPEN, d1) -> lexes d1 t r -> lexes d (TObject e :: t) r
| lx_end : forall d d1 i t r,
    read_id d = Ok (L_CLOSE, d1) -> lexes d1 t r -> lexes d (TEnd i :: t) r
| lx_equal : forall d d1 t r,
    read_id d = Ok (L_EQUAL, d1) -> lexes d1 t r -> lexes d (TEqual :: t) r
| lx_mixed : forall d t r, lexes d t r -> lexes d (TMixed :: t) r.

(* the whole input is accounted for: fewer than two bytes are left (the parser's loop condition) *)
Definition payloads_in_input (input : bytes) (t : tape) : Prop :=
  exists r, lexes input t r /\ (length r < 2)%nat.
