(* text/writer.rs, wave 5 (w_wr): the single `mixed_mode` flag of TextWriter, as a CLASSIFIER of documents.
   Executable definitions only (extracted; run by ocaml/fam_writer.ml kinds writer.kclass / writer.wfword).

   The writer has ONE MixedMode flag, not one per depth (writer.rs: `mixed_mode: MixedMode`):
     start_mixed_mode            sets it to Started            (TextToken::MixedContainer in write_value)
     write_operator / Operator   if it is Disabled: the object protocol (` op `, state := ObjectValue)
                                 otherwise: the bare symbol, flag := Keyed, STATE UNCHANGED
     write_preamble              only looks for Keyed (-> Started, no separator)
     write_start                 keeps it
     write_end                   resets it to Disabled -- whatever container is being closed.
   So after the `key op value` list of an array has started, the flag stays on ("dirty") INSIDE the
   first container value of the list, down to the first closing brace met; from that brace on it is
   off for the rest of the list ("lost").  Consequences (read off write_operator / write_value):
     dirty + an operator written inside a nested OBJECT  =>  `k<v` comes out `k<=v` (write_tape) /
                                                              `k=v` comes out `k==v` (calls)      WRONG
     dirty + anything else (scalars, `=`-fields of write_tape, arrays, nested lists, `key {`)      right
     lost                                                  =>  triples are written `k = v` with spaces
                                                              (write_tape: right, other layout)
   [okd_* dirty x] = no operator is written while the flag is dirty, [da_* dirty x] = is the flag still
   dirty after x.  The parameter [eqw] says whether a field's `=` is written through write_operator
   (write_tape: never, `=` leaves no token in an object; call lists: when the caller does). *)
From JV Require Import Bytes Tables TextTok TextTape TextDoc.
Open Scope nat_scope.

Definition op_written (eqw : bool) (op : option operator) : bool :=
  match op with None => false | Some Equal => eqw | Some _ => true end.

(* dirty after a value: only a scalar leaves the flag alone (every container ends with write_end) *)
Definition da_value (dirty : bool) (v : value) : bool := dirty && is_scalar v.

Fixpoint da_field (dirty : bool) (f : field) : bool :=
  match f with
  | Field _ _ _ v => da_value dirty v
  | ParamV _ _ _ => dirty
  | ParamO _ _ fs => da_fields dirty fs          (* `[[p] .. ]` is closed with `]`, not by write_end *)
  end
with da_fields (dirty : bool) (fs : fields) : bool :=
  match fs with FNil => dirty | FCons f r => da_fields (da_field dirty f) r end.

Section Okd.
Variable eqw : bool.

Fixpoint okd_value (dirty : bool) (v : value) : bool :=
  match v with
  | VScalar _ _ => true
  | VObject fs _ => okd_fields dirty fs
  | VArray items => okd_items dirty items
  | VArrayKv items kvs => okd_items dirty items && okd_kvs false kvs
  | VHeader _ v => okd_value dirty v
  end
with okd_field (dirty : bool) (f : field) : bool :=
  match f with
  | Field _ _ op v => negb (dirty && op_written eqw op) && okd_value dirty v
  | ParamV _ _ _ => true
  | ParamO _ _ fs => okd_fields dirty fs
  end
with okd_fields (dirty : bool) (fs : fields) : bool :=
  match fs with FNil => true | FCons f r => okd_field dirty f && okd_fields (da_field dirty f) r end
with okd_items (dirty : bool) (vs : values) : bool :=
  match vs with VNil => true | VCons v r => okd_value dirty v && okd_items (da_value dirty v) r end
(* the `key op value` part of a list; [lost] = a container value has been closed already *)
with okd_kvs (lost : bool) (kvs : fields) : bool :=
  match kvs with
  | FNil => true
  | FCons f r =>
      match f with
      | Field _ _ _ v => okd_value (negb lost) v && okd_kvs (lost || negb (is_scalar v)) r
      | _ => okd_kvs lost r
      end
  end.
End Okd.

(* the class of documents of the write_tape theorem (writer-side shape only): no object tails, no parameter
   values, headers hold a container, list entries are `key op value` with op <> ?= and a scalar or container value *)
Fixpoint wx_value (v : value) : bool :=
  match v with
  | VScalar _ _ => true
  | VObject fs tl => wx_fields fs && match tl with VNil => true | VCons _ _ => false end
  | VArray items => wx_items items
  | VArrayKv items kvs => first_item_scalar items && wx_items items && kvs_nonempty kvs && wx_kvs kvs
  | VHeader _ v => is_container v && wx_value v
  end
with wx_field (f : field) : bool :=
  match f with
  | Field _ _ _ v => wx_value v
  | ParamV _ _ _ => false
  | ParamO _ _ fs => kvs_nonempty fs && wx_fields fs
  end
with wx_fields (fs : fields) : bool :=
  match fs with FNil => true | FCons f r => wx_field f && wx_fields r end
with wx_items (vs : values) : bool :=
  match vs with VNil => true | VCons v r => negb (is_header v) && wx_value v && wx_items r end
with wx_kvs (kvs : fields) : bool :=
  match kvs with
  | FNil => true
  | FCons f r =>
      match f with
      | Field _ _ op v => kv_op op && negb (is_header v) && wx_value v && wx_kvs r
      | _ => false
      end
  end.


(* parameter VALUES `[[p] v ]` (known findings rt-param-value / write-tape-state-param-value) *)
Fixpoint pv_value (v : value) : bool :=
  match v with
  | VScalar _ _ => false
  | VObject fs tl => pv_fields fs
  | VArray items => pv_values items
  | VArrayKv items kvs => pv_values items || pv_fields kvs
  | VHeader _ v => pv_value v
  end
with pv_field (f : field) : bool :=
  match f with Field _ _ _ v => pv_value v | ParamV _ _ _ => true | ParamO _ _ fs => pv_fields fs end
with pv_fields (fs : fields) : bool :=
  match fs with FNil => false | FCons f r => pv_field f || pv_fields r end
with pv_values (vs : values) : bool :=
  match vs with VNil => false | VCons v r => pv_value v || pv_values r end.

(* some list has a container value followed by further entries (the flag is lost for them) *)
Fixpoint lost_kvs (seen : bool) (kvs : fields) : bool :=
  match kvs with
  | FNil => false
  | FCons (Field _ _ _ v) r => seen || lost_kvs (seen || negb (is_scalar v)) r
  | FCons _ r => lost_kvs seen r
  end.
Fixpoint ml_value (v : value) : bool :=
  match v with
  | VScalar _ _ => false
  | VObject fs tl => ml_fields fs
  | VArray items => ml_values items
  | VArrayKv items kvs => ml_values items || lost_kvs false kvs || ml_fields kvs
  | VHeader _ v => ml_value v
  end
with ml_field (f : field) : bool :=
  match f with Field _ _ _ v => ml_value v | ParamV _ _ _ => false | ParamO _ _ fs => ml_fields fs end
with ml_fields (fs : fields) : bool :=
  match fs with FNil => false | FCons f r => ml_field f || ml_fields r end
with ml_values (vs : values) : bool :=
  match vs with VNil => false | VCons v r => ml_value v || ml_values r end.

(* THE CLASS K of C14 (write_tape): 1 = parameter value, 2 = operator written while the flag is dirty,
   0 = outside K: the round trip must hold (theorem Props/C14_mixed.v) *)
Definition K14 (d : doc) : bool := pv_fields d || negb (okd_fields false false d).
Definition k14_class (d : doc) : N :=
  if pv_fields d then 1%N else if negb (okd_fields false false d) then 2%N else 0%N.

(* ---- tapes as the PARSER produces them.  TextDoc.flatten puts ONE MixedContainer marker into a list.  The real
   parser (tape.rs) restores its own list mode, when a nested container closes, from the enclosing Array token's
   `mixed` bit, and that bit is only set once a nested container has been entered whose text starts with a scalar:
   after an EMPTY container value or one that starts with `{`, the next `key op` makes it insert a SECOND marker
   (props/docgen.flatten mirrors this).  write_value(MixedContainer) then calls start_mixed_mode again: the flag is
   back on.  [okp_*] is [okd_* false] with this marker rule in the key-value part: [pf] = the parser's bit. *)
Definition sws (v : value) : bool :=
  match v with
  | VObject (FCons (Field _ _ _ _) _) _ => true
  | VArray (VCons (VScalar _ _) _) => true
  | VArrayKv (VCons (VScalar _ _) _) _ => true
  | VArrayKv VNil (FCons _ _) => true
  | _ => false
  end.

Fixpoint okp_value (dirty : bool) (v : value) : bool :=
  match v with
  | VScalar _ _ => true
  | VObject fs _ => okp_fields dirty fs
  | VArray items => okp_items dirty items
  | VArrayKv items kvs => okp_items dirty items && okp_kvs false false kvs
  | VHeader _ v => okp_value dirty v
  end
with okp_field (dirty : bool) (f : field) : bool :=
  match f with
  | Field _ _ op v => negb (dirty && op_written false op) && okp_value dirty v
  | ParamV _ _ _ => true
  | ParamO _ _ fs => okp_fields dirty fs
  end
with okp_fields (dirty : bool) (fs : fields) : bool :=
  match fs with FNil => true | FCons f r => okp_field dirty f && okp_fields (da_field dirty f) r end
with okp_items (dirty : bool) (vs : values) : bool :=
  match vs with VNil => true | VCons v r => okp_value dirty v && okp_items (da_value dirty v) r end
with okp_kvs (lost pf : bool) (kvs : fields) : bool :=
  match kvs with
  | FNil => true
  | FCons f r =>
      match f with
      | Field _ _ _ v =>
          okp_value (negb lost) v &&
          (if is_scalar v then okp_kvs lost pf r
           else let pf' := pf || sws v in okp_kvs pf' pf' r)   (* bit clear => marker re-inserted => flag on again *)
      | _ => okp_kvs lost pf r
      end
  end.

(* the class the C14 oracles use on tapes that come out of the real parser; equal to k14_class whenever the
   parser inserts no second marker (every first container value of a list starts with a scalar) *)
Definition k14p_class (d : doc) : N :=
  if pv_fields d then 1%N else if negb (okp_fields false d) then 2%N else 0%N.

(* C15 (call lists built by props/docgen.to_calls with explicit `=` calls possible): 2 = some operator CALL
   is made while dirty (calls-mixed-nested-op), 3 = the flag is lost for later entries of a list
   (calls-mixed-mode-lost: expecting_key() and the write_start resolution see an object), 0 = outside *)
Definition k15_class (d : doc) : N :=
  if negb (okd_fields true false d) then 2%N else if ml_fields d then 3%N else 0%N.

(* ---------------------------------------------------------------- scalar text of typed values *)
(* the side condition of the parse-back theorems for text produced by the writer itself: a bare word
   (TextDoc.wf_word); the float contract is this predicate on the Display output *)
Definition wf_word_text (s : bytes) : bool := wf_word s.
