(* C02, composition with the byte level.  Definitions only.

   deser_slice   TextDeserializer::from_*_slice: TextTape::from_slice (TextTape.parse), then the tape
                 walk (TextDeTape.deser_tape) over the tokens;
   ltoks_of      the token source the stream walk (TextDeStream.deser_stream) is run on, read off the
                 outputs of the streaming reader (TextReader.run_stream / run_slice): the tokens up to
                 the terminal event, a clean end = None, a reader error = its class.  This is the
                 conversion the correspondence glue performs on the harness's reader output
                 (ocaml/fam_tde.ml rtoks_of_string: io -> 3, buffer full -> 6, eof -> 4);
   deser_reader  TextDeserializer::from_*_reader with a buffer of [cap] bytes over a Read that hands
                 out the input along the schedule [sch]: the stream walk over ltoks_of (run_stream ..).
                 (The stream walk skips containers at TOKEN level; that the byte-level
                 skip_container lands on the same token is C09's theorem doc_stream_skip.)
   plain_*       documents the token reader lexes token for token like the tape parser: no parameter
                 blocks (the reader has no parameter syntax) and no bare word that starts with '?'
                 (the reader splits "?x" into the operator `?=`/Exists and the word "x"; the tape
                 parser reads one scalar "?x"). *)
From JV Require Import Bytes Utf8 Scalar BufWin TextTok TextTape TextReader TextDoc SerdeShape TextDeCommon TextDeTape TextDeStream.
Open Scope nat_scope.

Definition deser_slice (decode : bytes -> cow) (parse_f64 : bytes -> outcome N) (fo : fops) (sh : shape)
    (input : bytes) : outcome dval :=
  do r <- TextTape.parse input; deser_tape decode parse_f64 fo sh (fst r).

Definition rerr_class (e : N) : N :=
  if N.eqb e E_Io then EC_IO else if N.eqb e E_BufferFull then EC_FULL else EC_EOF.

Fixpoint ltoks_of (outs : list rout) : outcome ltoks :=
  match outs with
  | [] => Panic 9200%N                      (* no terminal event: never produced by run_next *)
  | OTok t :: l => do r <- ltoks_of l; Ok (t :: fst r, snd r)
  | OEnd :: _ => Ok ([], None)
  | OErr e :: _ => Ok ([], Some (rerr_class e))
  | OCrash s :: _ => Panic s
  end.

Definition deser_reader (decode : bytes -> cow) (parse_f64 : bytes -> outcome N) (fo : fops) (sh : shape)
    (cap : nat) (sch : list event) (input : bytes) : outcome dval :=
  do r <- ltoks_of (fst (run_stream cap sch input)); deser_stream decode parse_f64 fo sh r.

(* ------------------------------------------------------------------ reader-plain documents *)
Definition no_qmark (s : bytes) : bool := match s with 63%N :: _ => false | _ => true end.
Definition plain_scalar (k : skind) (s : bytes) : bool := match k with Unq => no_qmark s | Quo => true end.

Fixpoint plain_value (v : value) : bool :=
  match v with
  | VScalar k s => plain_scalar k s
  | VObject fs tl => plain_fields fs && plain_values tl
  | VArray items => plain_values items
  | VArrayKv items kvs => plain_values items && plain_fields kvs
  | VHeader name v => no_qmark name && plain_value v
  end
with plain_field (f : TextDoc.field) : bool :=
  match f with
  | Field k key _ v => plain_scalar k key && plain_value v
  | _ => false
  end
with plain_fields (fs : fields) : bool :=
  match fs with FNil => true | FCons f fs' => plain_field f && plain_fields fs' end
with plain_values (vs : values) : bool :=
  match vs with VNil => true | VCons v vs' => plain_value v && plain_values vs' end.
