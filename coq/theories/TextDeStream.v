(* src/text/de.rs, STREAM path: TextReaderDeserializer (root) -> TextReaderMap (key loop with ghost
   `{}` skipping through skip_container, read_expect_equals, operator capture) ->
   TextReaderTokenDeserializer (typed hints) / TextReaderSeq (hit_end) / TextReaderEnum /
   PropertyReaderMap.

   The deserializer is written once, over an abstract token source
       rnext  : R -> outcome (option rtok * R)      TokenReader::next   (None = clean end of input)
       rskip  : R -> outcome R                      TokenReader::skip_container
       rexpect: R -> outcome (rtok * R)             TokenReader::read_expect_equals
   and instantiated with
     * [ltoks]: the TOKEN LIST of the reader (what TextReader.run_slice / C07 `tokens_of` produce),
       skip_container = drop tokens up to the matching Close, read_expect_equals = read.  Theorem
       C07_stream_eq_slice says the tokens do not depend on buffer size or read schedule, so this is
       the instance the theorems of Props/C02_walk.v talk about.  That the byte-level
       skip_container lands where the token-level one does is C09's subject (not proved for the text
       reader): it is exercised by the correspondence stream against the real reader.
   deserializer side = [stream_visit] (pure in the token, except that the unit / ignored_any hints
   skip a container); visitor side = [sde].  No proofs here. *)
From JV Require Import Bytes Utf8 Scalar TextTok TextReader SerdeShape TextDeCommon.
Open Scope nat_scope.

Inductive svisit :=
| SVPrim (p : tprim)
| SVSome | SVNewtype            (* visit_some(self) / visit_newtype_struct(self): same token and op *)
| SVSeq (check_end : bool)      (* visit_seq(TextReaderSeq); deserialize_seq checks hit_end afterwards *)
| SVMap                         (* visit_map(TextReaderMap { root: false }) *)
| SVPropMap                     (* visit_map(PropertyReaderMap) *)
| SVEnum                        (* visit_enum(TextReaderEnum) *)
| SVSkipUnit.                   (* skip_container, then visit_unit *)

Section StreamDe.
  Variable decode : bytes -> cow.
  Variable parse_f64 : bytes -> outcome N.
  Variable fo : fops.
  Variable R : Type.
  Variable rnext : R -> outcome (option rtok * R).
  Variable rskip : R -> outcome R.
  Variable rexpect : R -> outcome (rtok * R).

  (* TokenReader::read *)
  Definition rread (r : R) : outcome (rtok * R) :=
    do x <- rnext r;
    match x with (Some tk, r') => Ok (tk, r') | (None, _) => Err EC_EOF end.

  Definition tok_scalar (tk : rtok) : option bytes :=      (* Token::as_scalar *)
    match tk with RUnq s | RQuo s => Some s | _ => None end.

  (* TextReaderTokenDeserializer::deserialize_any *)
  Definition s_any (tk : rtok) : outcome svisit :=
    match tk with
    | ROpen => Ok (SVSeq false)
    | RClose => Err EC_SYNTAX
    | ROp o => Ok (SVPrim (TPStr false (op_symbol o)))
    | RUnq s | RQuo s => Ok (SVPrim (TPStr false (cow_bytes (decode s))))
    end.

  Definition stream_visit (h : thint) (tk : rtok) : outcome svisit :=
    match h with
    | THAny => s_any tk
    | THBool | THI64 | THU64 | THF64 =>
        match tok_scalar tk with
        | Some raw =>
            match scalar_prim decode parse_f64 false h raw with
            | TPStr _ _ => s_any tk
            | p => Ok (SVPrim p)
            end
        | None => s_any tk
        end
    | THStr | THString =>
        match tok_scalar tk with
        | Some raw => Ok (SVPrim (TPStr false (cow_bytes (decode raw))))
        | None => s_any tk
        end
    | THBytes =>
        match tok_scalar tk with Some raw => Ok (SVPrim (TPBytes raw)) | None => s_any tk end
    | THOption => Ok SVSome
    | THNewtype => Ok SVNewtype
    | THUnit | THIgnored => match tk with ROpen => Ok SVSkipUnit | _ => Ok (SVPrim TPUnit) end
    | THSeq => Ok (SVSeq true)                  (* whatever the token is *)
    | THMap | THStruct false => match tk with ROpen => Ok SVMap | _ => s_any tk end
    | THStruct true => Ok SVPropMap
    | THEnum => Ok SVEnum
    end.

  (* what a key token shows a key visitor: the decoded string; whether a u16 thint sees visit_u64 *)
  Definition key_info (tk : rtok) : bytes * bool :=
    match tk with
    | RUnq s | RQuo s => (cow_bytes (decode s), is_ok (to_u64 s))
    | ROp o => (op_symbol o, false)
    | _ => ([], false)
    end.

  Fixpoint sde (fuel : nat) (sh : shape) (tk : rtok) (op : operator) (r : R) : outcome (dval * R) :=
    match fuel with
    | O => OutOfFuel
    | S f =>
      do v <- stream_visit (thint_of sh) tk;
      match v with
      | SVPrim p => do x <- tvisit_prim fo sh p; Ok (x, r)
      | SVSkipUnit => do r' <- rskip r; do x <- tvisit_prim fo sh TPUnit; Ok (x, r')
      | SVSome =>
          match sh with
          | ShOpt s => do (x, r') <- sde f s tk op r; Ok (DSome x, r')
          | _ => Err EC_DE
          end
      | SVNewtype => Err EC_DE
      | SVSeq chk =>
          match sh with
          | ShSeq s => do (l, r') <- sseq_all f s r; Ok (DSeq l, r')          (* ends on Close: hit_end *)
          | ShAny => do (l, r') <- sseq_all f ShAny r; Ok (DSeq l, r')
          | ShTup ss =>
              do (l, r') <- sseq_tup f ss r;
              if chk then
                do (tk', r'') <- rread r';
                match tk' with RClose => Ok (DSeq l, r'') | _ => Err EC_SYNTAX end
              else Ok (DSeq l, r')
          | ShProp _ =>
              (* serde-derive visit_seq: next_element::<Operator>() reads a token; neither Close
                 (invalid_length) nor a token (visit_str, not visit_borrowed_str) is accepted *)
              do _ <- rread r; Err EC_DE
          | _ => Err EC_DE
          end
      | SVMap =>
          match wmode_of sh with
          | Some m => do (a, r') <- swalk f false m (acc0 m) r; do x <- finish m a; Ok (x, r')
          | None => Err EC_DE
          end
      | SVPropMap =>
          match sh with
          | ShProp s => do (x, r') <- sde f s tk Equal r; Ok (DProp (op_code op) x, r')
          | _ => Err EC_DE
          end
      | SVEnum =>
          match sh with
          | ShEnum names =>
              do vv <- stream_visit THStr tk;
              match vv with
              | SVPrim p => do x <- tvisit_variant names p; Ok (x, r)
              | _ => Err EC_DE
              end
          | _ => Err EC_DE
          end
      end
    end
  with sseq_all (fuel : nat) (s : shape) (r : R) : outcome (list dval * R) :=
    match fuel with
    | O => OutOfFuel
    | S f =>
        do (tk, r1) <- rread r;
        match tk with
        | RClose => Ok ([], r1)
        | _ =>
            do (x, r2) <- sde f s tk Equal r1;
            do (l, r3) <- sseq_all f s r2;
            Ok (x :: l, r3)
        end
    end
  with sseq_tup (fuel : nat) (ss : list shape) (r : R) : outcome (list dval * R) :=
    match fuel with
    | O => OutOfFuel
    | S f =>
        match ss with
        | [] => Ok ([], r)
        | s :: ss' =>
            do (tk, r1) <- rread r;
            match tk with
            | RClose => Err EC_DE            (* invalid_length *)
            | _ =>
                do (x, r2) <- sde f s tk Equal r1;
                do (l, r3) <- sseq_tup f ss' r2;
                Ok (x :: l, r3)
            end
        end
    end
  (* a visit_map loop over TextReaderMap { root } *)
  with swalk (fuel : nat) (root : bool) (m : wmode) (a : acc) (r : R) : outcome (acc * R) :=
    match fuel with
    | O => OutOfFuel
    | S f =>
        (* next_value_seed: read_expect_equals, an operator is captured and the value token read *)
        let value := fun (A : Type) (k : rtok -> operator -> R -> outcome (A * R)) (r0 : R) =>
          do (tk, r1) <- rexpect r0;
          match tk with
          | ROp o => do (tk2, r2) <- rread r1; k tk2 o r2
          | _ => k tk Equal r1
          end in
        let rec := fun sh (_ : unit) r0 => value dval (sde f sh) r0 in
        (* Operator::deserialize(TextReaderTokenDeserializer): deserialize_str issues visit_str *)
        let rec_op := fun (_ : unit) (r0 : R) =>
          value N (fun tk _ r' =>
                     do vv <- stream_visit THStr tk;
                     match vv with
                     | SVPrim p => do o <- visit_operator p; Ok (o, r')
                     | _ => Err EC_DE
                     end) r0 in
        do x <- rnext r;
        match x with
        | (Some RClose, r1) => Ok (a, r1)
        | (Some ROpen, r1) => do r2 <- rskip r1; swalk f root m a r2
        | (Some tk, r1) =>
            let '(kb, knum) := key_info tk in
            do (a', r2) <- entry rec rec_op m a kb knum tt r1;
            swalk f root m a' r2
        | (None, r1) => if root then Ok (a, r1) else Err EC_EOF
        end
    end.

  (* TextReaderDeserializer::deserialize_map / deserialize_struct; every other root thint is refused *)
  Definition sde_root (fuel : nat) (sh : shape) (r : R) : outcome dval :=
    match thint_of sh with
    | THMap | THStruct _ =>
        match wmode_of sh with
        | Some m => do (a, _) <- swalk fuel true m (acc0 m) r; finish m a
        | None => Err EC_DE
        end
    | _ => Err EC_DE
    end.
End StreamDe.

(* ------------------------------------------------------------------ instance: the token list *)
(* remaining tokens and how the token stream ends (None = clean end, Some e = reader error e) *)
Definition ltoks := (list rtok * option N)%type.

Definition l_next (r : ltoks) : outcome (option rtok * ltoks) :=
  match r with
  | (tk :: l, e) => Ok (Some tk, (l, e))
  | ([], None) => Ok (None, r)
  | ([], Some e) => Err e
  end.

(* skip_container: depth 1, up to and including the matching Close *)
Fixpoint l_skip_depth (l : list rtok) (depth : nat) : option (list rtok) :=
  match l with
  | [] => None
  | ROpen :: l' => l_skip_depth l' (S depth)
  | RClose :: l' => match depth with O => Some l' | S d => l_skip_depth l' d end
  | _ :: l' => l_skip_depth l' depth
  end.
Definition l_skip (r : ltoks) : outcome ltoks :=
  match l_skip_depth (fst r) 0 with
  | Some l' => Ok (l', snd r)
  | None => Err (match snd r with Some e => e | None => EC_EOF end)
  end.

Definition l_read (r : ltoks) : outcome (rtok * ltoks) :=
  do x <- l_next r;
  match x with (Some tk, r') => Ok (tk, r') | (None, _) => Err EC_EOF end.

Definition stream_fuel (sh : shape) (l : list rtok) : nat := 2 * length l + shape_size sh + 8.

Definition deser_stream (decode : bytes -> cow) (parse_f64 : bytes -> outcome N) (fo : fops) (sh : shape) (r : ltoks) : outcome dval :=
  sde_root decode parse_f64 fo ltoks l_next l_skip l_read (stream_fuel sh (fst r)) sh r.
