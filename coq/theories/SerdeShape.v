(* Runtime shapes and values of the serde correspondence harness (harness/src/fam_de.rs `Shape`,
   `Value`), shared by the text (TextDeTape / TextDeStream) and binary walk models.

   NOTE (b_tde): this file is owned by b_bde (branch agent-b_bde); this copy is the stand-in with
   the constructor names agreed by message, plus ShProp / DProp / DBytes that the text side needs.
   Definitions only. *)
From JV Require Import Bytes.
Open Scope N_scope.

Inductive fmode := Once | Collect | Last.

Inductive shape :=
| ShStr | ShBool
| ShU (bits : N) | ShI (bits : N)
| ShF32 | ShF64
| ShDate | ShDateHour
| ShOpt (s : shape)
| ShSeq (s : shape)
| ShTup (ss : list shape)
| ShMap (s : shape)
| ShStruct (token : bool) (fs : list (bytes * option N * fmode * shape))
| ShProp (s : shape)
| ShEnum (names : list bytes)
| ShAny | ShIgn.

Definition field := (bytes * option N * fmode * shape)%type.
Definition f_name (f : field) : bytes := fst (fst (fst f)).
Definition f_tok (f : field) : option N := snd (fst (fst f)).
Definition f_mode (f : field) : fmode := snd (fst f).
Definition f_shape (f : field) : shape := snd f.

Inductive dval :=
| DStr (s : bytes) | DBytes (s : bytes) | DBool (b : bool)
| DU (n : N) | DI (z : Z)
| DF32 (bits : N) | DF64 (bits : N)
| DDate (y : Z) (m d h : N)
| DNone | DSome (v : dval) | DUnit | DIgn
| DSeq (vs : list dval)
| DMap (kvs : list (bytes * dval))
| DAMap (kvs : list (dval * dval))
| DStruct (fs : list (bytes * dval))
| DProp (op : N) (v : dval)
| DEnum (name : bytes).
