(* Runtime shapes, dynamic values and the VISITOR side of serde, shared by the text and binary
   deserializer walks (C02, C04, C10).

   The Rust harness (harness/src/fam_de.rs) drives every public jomini entry point with ONE
   `Deserialize` implementation that interprets a runtime [shape]; the value it builds is [dval]
   (printed by show_value).  This file models that interpreter and serde's own primitive visitors --
   the part that is NOT jomini's code (trusted library behaviour, exercised by correspondence):

     prim           what a jomini deserializer hands to a visitor (visit_bool / visit_i32 / ...)
     hint / hint_of which Deserializer method `Seed(shape).deserialize(d)` calls
     visit_prim     the visitor of a shape receiving a primitive visit (serde's integer range checks,
                    int->float / float->float casts ([fops]: parameters), String, bool, the Date
                    visitors of src/common/date.rs, IgnoredAny, the harness' AnyV / OptV)
     visit_variant  the variant identifier visitor of an enum shape
     field_by_name / field_by_token   the field identifier visitor of a struct shape
     slots          StructV's accumulation (Once: duplicate_field raised BEFORE the value is read;
                    Last; Collect; missing non-Option field; Option default None)
     visit_seq      SeqV / TupV / AnyV / IgnoredAny driven by an abstract SeqAccess [elem]
     visit_map      MapV / StructV / AnyV / IgnoredAny driven by an abstract MapAccess [key]/[value]

   No proofs in this file. *)
From JV Require Import Bytes Utf8 Date.
Open Scope N_scope.

(* ------------------------------------------------------------------ types *)
Inductive fmode := MOnce | MCollect | MLast.

Inductive shape :=
| ShStr | ShBool
| ShU (bits : N)          (* u8 u16 u32; any other width is u64 (fam_de.rs) *)
| ShI (bits : N)
| ShF32 | ShF64 | ShDate | ShDateHour
| ShOpt (s : shape) | ShSeq (s : shape) | ShTup (ss : list shape) | ShMap (s : shape)
| ShStruct (token : bool) (fields : list (bytes * option N * fmode * shape))
| ShProp (s : shape)
| ShEnum (variants : list bytes)
| ShAny | ShIgn.

Definition field := (bytes * option N * fmode * shape)%type.
Definition f_name (f : field) : bytes := fst (fst (fst f)).
Definition f_tok (f : field) : option N := snd (fst (fst f)).
Definition f_mode (f : field) : fmode := snd (fst f).
Definition f_shape (f : field) : shape := snd f.

Inductive dval :=
| DStr (s : bytes) | DBytes (s : bytes) | DBool (b : bool) | DU (n : N) | DI (z : Z)
| DF32 (bits : N) | DF64 (bits : N) | DDate (y m d h : Z)
| DNone | DSome (v : dval) | DUnit | DIgn
| DSeq (vs : list dval) | DMap (kvs : list (bytes * dval)) | DAMap (kvs : list (dval * dval))
| DStruct (fs : list (bytes * dval)) | DProp (op : N) (v : dval) | DEnum (s : bytes).

(* error classes = harness err_class *)
Definition EC_DE : N := 1.         (* serde::de::Error::custom / invalid_type / invalid_value / unknown_variant / Unsupported *)
Definition EC_UNKTOKEN : N := 2.   (* DeserializeErrorKind::UnknownToken *)
Definition EC_IO : N := 3.
Definition EC_EOF : N := 4.
Definition EC_SYNTAX : N := 5.     (* InvalidSyntax / StackEmpty / InvalidEmptyObject *)
Definition EC_FULL : N := 6.       (* BufferFull *)
Definition EC_DUP : N := 101.      (* duplicate_field *)
Definition EC_MISSING : N := 102.  (* missing_field *)
(* specification side only: "the shape does not fit the document" (never produced by a model of code) *)
Definition EC_UNFIT : N := 900.

(* ------------------------------------------------------------------ primitives and hints *)
Inductive prim :=
| PBool (b : bool)
| PI32 (z : Z) | PI64 (z : Z)
| PU16 (n : N)                (* visit_u16: only the field identifier visitor tells it from visit_u64 *)
| PU (n : N)                  (* visit_u32 / visit_u64 *)
| PF32 (bits : N) | PF64 (bits : N)
| PStr (s : bytes)            (* visit_str / visit_borrowed_str / visit_string: UTF-8 bytes *)
| PBytes (s : bytes)
| PUnit.

(* the Deserializer method a Seed calls *)
Inductive hint :=
| HAny | HBool | HU16 | HI32 | HU32 | HU64 | HI64 | HF32 | HF64 | HString
| HSmall        (* i8 i16 u8 char bytes byte_buf *)
| HIdent        (* deserialize_identifier *)
| HSeq          (* seq / tuple / tuple_struct *)
| HMap          (* map / struct *)
| HIgnored.     (* ignored_any / unit / unit_struct *)

(* Seed::deserialize for the shapes that go through one Deserializer call with their own visitor;
   ShOpt (deserialize_option), ShEnum (deserialize_enum) and ShProp are handled by the walks *)
Definition hint_of (sh : shape) : hint :=
  match sh with
  | ShStr => HString | ShBool => HBool
  | ShU bits => if bits =? 8 then HSmall else if bits =? 16 then HU16 else if bits =? 32 then HU32 else HU64
  | ShI bits => if bits =? 8 then HSmall else if bits =? 16 then HSmall else if bits =? 32 then HI32 else HI64
  | ShF32 => HF32 | ShF64 => HF64
  | ShDate | ShDateHour => HAny
  | ShSeq _ | ShTup _ => HSeq
  | ShMap _ | ShStruct _ _ => HMap
  | ShAny => HAny
  | ShIgn => HIgnored
  | ShOpt _ | ShProp _ | ShEnum _ => HAny
  end.

(* `as` casts of serde's float visitors; parameters (implemented natively in the OCaml glue) *)
Record fops := mkfops {
  f32_of_f64 : N -> N;      (* bits of (v as f32) *)
  f64_of_f32 : N -> N;      (* bits of (v as f64) *)
  f32_of_int : Z -> N;      (* bits of (v as f32) for an i64 / u64 value *)
  f64_of_int : Z -> N }.

Definition u_width (bits : N) : N := if (bits =? 8) || (bits =? 16) || (bits =? 32) then bits else 64.

Definition in_u (bits : N) (z : Z) : bool := ((0 <=? z) && (z <? Z.of_N (2 ^ u_width bits)))%Z.
Definition in_i (bits : N) (z : Z) : bool :=
  ((- Z.of_N (2 ^ (u_width bits - 1)) <=? z) && (z <? Z.of_N (2 ^ (u_width bits - 1))))%Z.

Definition prim_int (p : prim) : option Z :=
  match p with
  | PI32 z | PI64 z => Some z
  | PU16 n | PU n => Some (Z.of_N n)
  | _ => None
  end.

Definition date_val (with_hour : bool) (o : outcome (option rawdate)) : outcome dval :=
  do r <- o;
  match r with
  | Some d => Ok (DDate (ry d) (raw_month d) (raw_day d) (if with_hour then raw_hour d else 0%Z))
  | None => Err EC_DE
  end.

Section Visit.
  Variable F : fops.

  (* the visitor that Seed(sh) passes to the deserializer receives a primitive visit *)
  Definition visit_prim (sh : shape) (p : prim) : outcome dval :=
    match sh with
    | ShStr => match p with
               | PStr s => Ok (DStr s)
               | PBytes s => if valid_utf8 s then Ok (DStr s) else Err EC_DE
               | _ => Err EC_DE end
    | ShBool => match p with PBool b => Ok (DBool b) | _ => Err EC_DE end
    | ShU bits => match prim_int p with
                  | Some z => if in_u bits z then Ok (DU (Z.to_N z)) else Err EC_DE
                  | None => Err EC_DE end
    | ShI bits => match prim_int p with
                  | Some z => if in_i bits z then Ok (DI z) else Err EC_DE
                  | None => Err EC_DE end
    | ShF32 => match p with
               | PF32 b => Ok (DF32 b)
               | PF64 b => Ok (DF32 (f32_of_f64 F b))
               | _ => match prim_int p with Some z => Ok (DF32 (f32_of_int F z)) | None => Err EC_DE end
               end
    | ShF64 => match p with
               | PF64 b => Ok (DF64 b)
               | PF32 b => Ok (DF64 (f64_of_f32 F b))
               | _ => match prim_int p with Some z => Ok (DF64 (f64_of_int F z)) | None => Err EC_DE end
               end
    | ShDate => match p with
                | PI32 z => date_val false (date_from_binary z)
                | PStr s => date_val false (date_parse s)
                | _ => Err EC_DE end
    | ShDateHour => match p with
                    | PI32 z => date_val true (datehour_from_binary z)
                    | PStr s => date_val true (datehour_parse s)
                    | _ => Err EC_DE end
    | ShOpt _ => match p with PUnit => Ok DNone | _ => Err EC_DE end      (* OptV::visit_unit *)
    | ShAny => match p with
               | PBool b => Ok (DBool b)
               | PI32 z | PI64 z => Ok (DI z)
               | PU16 n | PU n => Ok (DU n)
               | PF32 b => Ok (DF32 b) | PF64 b => Ok (DF64 b)
               | PStr s => Ok (DStr s) | PBytes s => Ok (DBytes s)
               | PUnit => Ok DUnit
               end
    | ShIgn => Ok DIgn
    | ShSeq _ | ShTup _ | ShMap _ | ShStruct _ _ | ShProp _ | ShEnum _ => Err EC_DE
    end.

  (* VariantSeed: visit_str only *)
  Definition visit_variant (variants : list bytes) (p : prim) : outcome dval :=
    match p with
    | PStr s => if existsb (beqb s) variants then Ok (DEnum s) else Err EC_DE
    | _ => Err EC_DE
    end.
End Visit.

(* ------------------------------------------------------------------ struct fields *)
Fixpoint field_by_name (fs : list field) (s : bytes) (i : nat) : option nat :=
  match fs with
  | [] => None
  | f :: r => if beqb (f_name f) s then Some i else field_by_name r s (S i)
  end.
Fixpoint field_by_token (fs : list field) (t : N) (i : nat) : option nat :=
  match fs with
  | [] => None
  | f :: r => match f_tok f with
              | Some t' => if t' =? t then Some i else field_by_token r t (S i)
              | None => field_by_token r t (S i)
              end
  end.

(* FieldSeed's visitor: visit_str and visit_u16, everything else is invalid_type *)
Definition visit_field (fs : list field) (p : prim) : outcome (option nat) :=
  match p with
  | PStr s => Ok (field_by_name fs s 0)
  | PU16 t => Ok (field_by_token fs t 0)
  | _ => Err EC_DE
  end.

(* slots[i] / coll[i] *)
Definition slots := list (option dval * list dval).
Definition slots_init (fs : list field) : slots := map (fun _ => (None, [])) fs.

Fixpoint slot_upd (sl : slots) (i : nat) (f : option dval * list dval -> option dval * list dval) : slots :=
  match sl, i with
  | [], _ => []
  | x :: r, O => f x :: r
  | x :: r, S i' => x :: slot_upd r i' f
  end.

(* the check made before next_value_seed *)
Definition slot_pre (sl : slots) (m : fmode) (i : nat) : outcome unit :=
  match m with
  | MOnce => match nth_error sl i with
             | Some (Some _, _) => Err EC_DUP
             | _ => Ok tt end
  | _ => Ok tt
  end.
Definition slot_put (sl : slots) (m : fmode) (i : nat) (v : dval) : slots :=
  match m with
  | MCollect => slot_upd sl i (fun x => (fst x, snd x ++ [v]))
  | _ => slot_upd sl i (fun x => (Some v, snd x))
  end.

Fixpoint slots_finish (fs : list field) (sl : slots) : outcome (list (bytes * dval)) :=
  match fs, sl with
  | [], _ => Ok []
  | f :: fr, x :: sr =>
    do v <- (match f_mode f with
             | MCollect => Ok (DSeq (snd x))
             | _ => match fst x with
                    | Some v => Ok v
                    | None => match f_shape f with ShOpt _ => Ok DNone | _ => Err EC_MISSING end
                    end
             end);
    do rest <- slots_finish fr sr;
    Ok ((f_name f, v) :: rest)
  | _ :: _, [] => Panic 9002
  end.

(* ------------------------------------------------------------------ visit_seq *)
Section SeqVisit.
  Context {A : Type}.
  (* SeqAccess::next_element_seed(Seed sh) *)
  Variable elem : shape -> A -> outcome (option dval * A).

  (* `while let Some(x) = a.next_element_seed(..)?` *)
  Fixpoint seq_loop (n : nat) (s : shape) (a : A) (acc : list dval) : outcome (list dval * A) :=
    match n with
    | O => OutOfFuel
    | S n' => do (o, a') <- elem s a;
              match o with
              | None => Ok (rev acc, a')
              | Some v => seq_loop n' s a' (v :: acc)
              end
    end.

  (* TupV: exactly n elements are requested, the end is not probed *)
  Fixpoint tup_loop (ss : list shape) (a : A) (acc : list dval) : outcome (list dval * A) :=
    match ss with
    | [] => Ok (rev acc, a)
    | s :: r => do (o, a') <- elem s a;
                match o with
                | None => Err EC_DE          (* invalid_length *)
                | Some v => tup_loop r a' (v :: acc)
                end
    end.

  (* the visitor of Seed(sh) receives visit_seq(access); the flag says whether the access was
     drained (its next_element returned None) *)
  Definition visit_seq (n : nat) (sh : shape) (a : A) : outcome (dval * A * bool) :=
    match sh with
    | ShSeq s => do (vs, a') <- seq_loop n s a []; Ok (DSeq vs, a', true)
    | ShTup ss => do (vs, a') <- tup_loop ss a []; Ok (DSeq vs, a', false)
    | ShAny => do (vs, a') <- seq_loop n ShAny a []; Ok (DSeq vs, a', true)
    | ShIgn => do (vs, a') <- seq_loop n ShIgn a []; Ok (DIgn, a', true)
    | _ => Err EC_DE
    end.
End SeqVisit.

(* ------------------------------------------------------------------ visit_map *)
Inductive kseed := KString | KField (token : bool) (fs : list field) | KAny | KIgn.
Inductive kres := KRStr (s : bytes) | KRField (i : option nat) | KRAny (v : dval) | KRIgn.

Section MapVisit.
  Context {A : Type}.
  Variable key : kseed -> A -> outcome (option kres * A).     (* MapAccess::next_key_seed *)
  Variable value : shape -> A -> outcome (dval * A).          (* MapAccess::next_value_seed(Seed sh) *)

  Fixpoint map_loop (n : nat) (s : shape) (a : A) (acc : list (bytes * dval)) : outcome (list (bytes * dval) * A) :=
    match n with
    | O => OutOfFuel
    | S n' => do (k, a1) <- key KString a;
              match k with
              | None => Ok (rev acc, a1)
              | Some (KRStr ks) => do (v, a2) <- value s a1; map_loop n' s a2 ((ks, v) :: acc)
              | Some _ => Panic 9003
              end
    end.

  Fixpoint amap_loop (n : nat) (a : A) (acc : list (dval * dval)) : outcome (list (dval * dval) * A) :=
    match n with
    | O => OutOfFuel
    | S n' => do (k, a1) <- key KAny a;
              match k with
              | None => Ok (rev acc, a1)
              | Some (KRAny kv) => do (v, a2) <- value ShAny a1; amap_loop n' a2 ((kv, v) :: acc)
              | Some _ => Panic 9003
              end
    end.

  Fixpoint ign_loop (n : nat) (a : A) : outcome A :=
    match n with
    | O => OutOfFuel
    | S n' => do (k, a1) <- key KIgn a;
              match k with
              | None => Ok a1
              | Some _ => do (_, a2) <- value ShIgn a1; ign_loop n' a2
              end
    end.

  Fixpoint struct_loop (n : nat) (tk : bool) (fs : list field) (a : A) (sl : slots) : outcome (slots * A) :=
    match n with
    | O => OutOfFuel
    | S n' => do (k, a1) <- key (KField tk fs) a;
              match k with
              | None => Ok (sl, a1)
              | Some (KRField None) => do (_, a2) <- value ShIgn a1; struct_loop n' tk fs a2 sl
              | Some (KRField (Some i)) =>
                match nth_error fs i with
                | None => Panic 9004
                | Some f =>
                  do _ <- slot_pre sl (f_mode f) i;
                  do (v, a2) <- value (f_shape f) a1;
                  struct_loop n' tk fs a2 (slot_put sl (f_mode f) i v)
                end
              | Some _ => Panic 9003
              end
    end.

  Definition visit_map (n : nat) (sh : shape) (a : A) : outcome (dval * A) :=
    match sh with
    | ShMap s => do (kvs, a') <- map_loop n s a []; Ok (DMap kvs, a')
    | ShStruct tk fs => do (sl, a') <- struct_loop n tk fs a (slots_init fs);
                        do out <- slots_finish fs sl; Ok (DStruct out, a')
    | ShAny => do (kvs, a') <- amap_loop n a []; Ok (DAMap kvs, a')
    | ShIgn => do a' <- ign_loop n a; Ok (DIgn, a')
    | _ => Err EC_DE
    end.
End MapVisit.

(* ------------------------------------------------------------------ the generic walk
   A jomini deserializer, as far as a visitor can tell, is:
     dispatch iskey h tok st  which visit the Deserializer method [h] issues for the value that
                              starts with token [tok] (reading what it needs from the state)
     next_elem / seq_exit     its SeqAccess (and what deserialize_seq does when the visitor returns)
     next_key / next_value    its MapAccess ([root]: the top-level map ends at end of input)
   [walk] is Seed(sh)::deserialize over such a deserializer. *)
Inductive action (S C : Type) :=
| APrim (p : prim)
| ASeq (sub : S)            (* visitor.visit_seq(own SeqAccess) *)
| AColor (c : C)            (* visitor.visit_seq(ColorSequence) *)
| AMap (sub : S).           (* visitor.visit_map(own MapAccess, root = false) *)
Arguments APrim {S C} p.
Arguments ASeq {S C} sub.
Arguments AColor {S C} c.
Arguments AMap {S C} sub.

Record path_ops (S T C : Type) := mkops {
  p_dispatch : bool -> hint -> T -> S -> outcome (action S C * S);
  p_next_elem : S -> outcome (option T * S);
  p_seq_exit : hint -> S -> S -> bool -> outcome S;      (* hint, state after dispatch, final sub state, drained *)
  p_map_exit : S -> S -> outcome S;
  p_next_key : bool -> S -> outcome (option T * S);
  p_next_value : S -> outcome (T * S);
  p_color : nat -> shape -> C -> outcome dval }.         (* visitor of the shape receives visit_seq(ColorSequence) *)
Arguments mkops {S T C}.
Arguments p_dispatch {S T C}.
Arguments p_next_elem {S T C}.
Arguments p_seq_exit {S T C}.
Arguments p_map_exit {S T C}.
Arguments p_next_key {S T C}.
Arguments p_next_value {S T C}.
Arguments p_color {S T C}.

Section Walk.
  Context {S T C : Type}.
  Variable F : fops.
  Variable ops : path_ops S T C.

  Notation recT := (bool -> shape -> T -> S -> outcome (dval * S)).

  (* SeqAccess::next_element_seed(Seed s) *)
  Definition elem_of (rec : recT) (s : shape) (a : S) : outcome (option dval * S) :=
    do (ot, a1) <- p_next_elem ops a;
    match ot with
    | None => Ok (None, a1)
    | Some t => do (v, a2) <- rec false s t a1; Ok (Some v, a2)
    end.

  (* MapAccess::next_value_seed(Seed s) *)
  Definition value_of (rec : recT) (s : shape) (a : S) : outcome (dval * S) :=
    do (t, a1) <- p_next_value ops a; rec false s t a1.

  (* MapAccess::next_key_seed: String::deserialize / FieldSeed / AnyV / IgnoredAny on the key token *)
  Definition key_of (rec : recT) (root : bool) (ks : kseed) (st : S) : outcome (option kres * S) :=
    do (ot, st1) <- p_next_key ops root st;
    match ot with
    | None => Ok (None, st1)
    | Some t =>
      match ks with
      | KString => do (v, st2) <- rec true ShStr t st1;
                   match v with DStr s => Ok (Some (KRStr s), st2) | _ => Panic 9005 end
      | KAny => do (v, st2) <- rec true ShAny t st1; Ok (Some (KRAny v), st2)
      | KIgn => do (_, st2) <- rec true ShIgn t st1; Ok (Some KRIgn, st2)
      | KField tk fs =>
        do (a, st2) <- p_dispatch ops true (if tk then HU16 else HIdent) t st1;
        match a with
        | APrim p => do i <- visit_field fs p; Ok (Some (KRField i), st2)
        | _ => Err EC_DE
        end
      end
    end.

  (* Seed(sh).deserialize(d) for a shape with its own visitor: one Deserializer call, then the visitor *)
  Definition walk_plain (rec : recT) (f : nat) (iskey : bool) (sh : shape) (tok : T) (st : S) : outcome (dval * S) :=
    let h := hint_of sh in
    do (a, st1) <- p_dispatch ops iskey h tok st;
    match a with
    | APrim p => do v <- visit_prim F sh p; Ok (v, st1)
    | AColor c => do v <- p_color ops f sh c; Ok (v, st1)
    | ASeq sub =>
      do (r, drained) <- visit_seq (elem_of rec) f sh sub;
      do st2 <- p_seq_exit ops h st1 (snd r) drained;
      Ok (fst r, st2)
    | AMap sub =>
      do (v, sub') <- visit_map (key_of rec false) (value_of rec) f sh sub;
      do st2 <- p_map_exit ops st1 sub';
      Ok (v, st2)
    end.

  (* EnumV: visit_enum -> variant_seed -> deserialize_identifier(VariantSeed) on the same token; unit_variant *)
  Definition walk_enum (vs : list bytes) (iskey : bool) (tok : T) (st : S) : outcome (dval * S) :=
    do (a, st') <- p_dispatch ops iskey HIdent tok st;
    match a with
    | APrim p => do v <- visit_variant vs p; Ok (v, st')
    | _ => Err EC_DE
    end.

  Fixpoint walk (fuel : nat) (iskey : bool) (sh : shape) (tok : T) (st : S) {struct fuel} : outcome (dval * S) :=
    match fuel with
    | O => OutOfFuel
    | Datatypes.S f =>
      match sh with
      | ShOpt s => do (v, st') <- walk f iskey s tok st; Ok (DSome v, st')        (* visit_some(self) *)
      | ShEnum vs => walk_enum vs iskey tok st
      | ShProp _ => Panic 9001       (* jomini::text::Property: text only, not modelled on this side *)
      | _ => walk_plain (walk f) f iskey sh tok st
      end
    end.

  (* T::deserialize(root deserializer): only deserialize_map / deserialize_struct are implemented *)
  Definition walk_root (fuel : nat) (sh : shape) (st : S) : outcome dval :=
    match sh with
    | ShMap _ | ShStruct _ _ =>
      do (v, _) <- visit_map (key_of (walk fuel) true) (value_of (walk fuel)) fuel sh st;
      Ok v
    | ShProp _ => Panic 9001
    | _ => Err EC_DE
    end.
End Walk.
