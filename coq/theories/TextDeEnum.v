(* src/text/de.rs: enums with DATA-CARRYING variants on both text paths (wave 5, engineer w_c02).

   SerdeShape.ShEnum is the unit-variant enum (`kind = infantry`).  This file adds, WITHOUT touching
   SerdeShape.shape (every walk theorem inducts over it), the enum entry points for the payload
   variants serde-derive generates for `enum E { A, B(T), C(T, U), D { x: T } }`:

     tape path    ValueDeserializer::deserialize_enum -> EnumAccess::variant_seed ->
                  VariantDeserializer::{unit_variant, newtype_variant_seed, tuple_variant, struct_variant}
                  (de.rs:1415-1655): the value is seen through ValueReader::read_array -- a header
                  `rgb { 1 2 3 }` as the two-element array [rgb, {1 2 3}], an object `{ num = 5 }` as
                  [num, 5], an array `{ num 5 }` as [num, 5]; a scalar has no values iterator at all;
                  the first element names the variant, `next_deserializer` takes the NEXT one as payload.
                  [de_enum] = that code, layered on TextDeTape.tape_visit (whose THEnum case already
                  computes the EnumAccess) and TextDeTape.de (payload deserializers).
     stream path  TextReaderTokenDeserializer::deserialize_enum -> TextReaderEnum (de.rs:549-680): the
                  variant identifier is read from the value TOKEN, unit_variant is Ok, the three payload
                  methods answer "unsupported enum deserialization" [sde_enum].
     target       the root type `struct Root { <name>: Vec<E> }` of the harness shape
                  struct(<name>*:denum(..)): every occurrence of the field is collected, every other
                  field is IgnoredAny [enum_root_tape / enum_root_stream = the visit_map loop of StructV
                  over MapAccess resp. TextReaderMap, same steps as TextDeTape.twalk / TextDeStream.swalk
                  for WStruct false [(name, MCollect)]].
     spec         [spec_enum]: the variant a VALUE of the abstract document (TextDoc) denotes: a scalar
                  names a variant without payload; `name { .. }` (header), `{ name = payload }` and
                  `{ name payload }` name a variant with a payload, which is read with the payload's shape
                  by TextDeSpec2.spec_v2 (the specification of the tape walk theorems).
   No proofs here. *)
From JV Require Import Bytes Utf8 Scalar TextTok TextReader TextDoc SerdeShape TextDeCommon TextDeTape TextDeStream TextDeSpec TextDeSpec2.
Open Scope nat_scope.

Inductive vshape :=
| VSUnit
| VSNewtype (s : shape)
| VSTuple (ss : list shape)
| VSStruct (fs : list SerdeShape.field).

Definition variants := list (bytes * vshape).

Definition vnames (vs : variants) : list bytes := map fst vs.

Fixpoint find_variant (vs : variants) (nm : bytes) : option vshape :=
  match vs with
  | [] => None
  | (n, v) :: r => if beqb nm n then Some v else find_variant r nm
  end.

(* the shape the payload deserializer is asked for *)
Definition payload_shape (v : vshape) : option shape :=
  match v with
  | VSUnit => None
  | VSNewtype s => Some s
  | VSTuple ss => Some (ShTup ss)                (* deserialize_seq(.., tuple visitor) *)
  | VSStruct fs => Some (ShStruct false fs)      (* deserialize_struct(.., "", fields, struct visitor) *)
  end.

Definition vshape_size (v : vshape) : nat :=
  match payload_shape v with Some s => shape_size s | None => 1 end.
Definition variants_size (vs : variants) : nat := fold_right (fun x n => vshape_size (snd x) + n) 1 vs.

Definition SITE_VARIANT : N := 9200%N.   (* the variant identifier visitor returned a name that is not declared: impossible *)

(* the variant identifier visitor (visit_str only), then the declared payload kind *)
Definition resolve_variant (vs : variants) (p : tprim) : outcome (bytes * vshape) :=
  do d <- tvisit_variant (vnames vs) p;
  match d with
  | DEnum nm => match find_variant vs nm with Some v => Ok (nm, v) | None => Panic SITE_VARIANT end
  | _ => Panic SITE_VARIANT
  end.

(* ------------------------------------------------------------------ tape path *)
Section EnumTape.
  Variable decode : bytes -> cow.
  Variable parse_f64 : bytes -> outcome N.
  Variable fo : fops.
  Variable t : ttape.

  (* VariantDeserializer::next_deserializer: `self.values.as_mut().and_then(|x| x.next())` or
     "unexpected none for enum variant seed"; ValuesIter::next advances with next_idx_values *)
  Definition next_des (rest : option (nat * nat)) : outcome nat :=
    match rest with
    | Some (st, en) => if st <? en then do _ <- next_idx_values t st; Ok st else Err EC_DE
    | None => Err EC_DE
    end.

  Definition de_payload (fuel : nat) (v : vshape) (rest : option (nat * nat)) : outcome dval :=
    match payload_shape v with
    | None =>
        (* unit_variant: Ok without a values iterator, otherwise `()` is deserialized from the next value
           (deserialize_unit = visit_unit whatever the value is) *)
        match rest with
        | None => Ok DUnit
        | Some _ => do _ <- next_des rest; Ok DUnit
        end
    | Some s => do vi <- next_des rest; TextDeTape.de decode parse_f64 fo t fuel s (KVal vi)
    end.

  (* Seed(denum).deserialize(ValueDeserializer { kind: k }) *)
  Definition de_enum (fuel : nat) (vs : variants) (k : vkind) : outcome (bytes * dval) :=
    do v <- tape_visit decode parse_f64 t THEnum k;
    match v with
    | TVEnum vi rest =>
        (* EnumAccess::variant_seed: deserialize_identifier on ValueKind::Value(variant) *)
        do vv <- tape_visit decode parse_f64 t THStr (KVal vi);
        do nv <- match vv with TVPrim p => resolve_variant vs p | _ => Err EC_DE end;
        do x <- de_payload fuel (snd nv) rest;
        Ok (fst nv, x)
    | _ => Err EC_DE          (* StaticDeserializer("remainder"): visit_borrowed_str on an enum visitor *)
    end.

  (* StructV { fields: [name (Collect): denum] }.visit_map(MapAccess { fields: ti..en }) *)
  Fixpoint eloop (fuel : nat) (name : bytes) (vs : variants) (ti en : nat) (acc : list (bytes * dval))
      : outcome (list (bytes * dval)) :=
    match fuel with
    | O => OutOfFuel
    | S f =>
        do fn <- fields_next t ti en;
        match fn with
        | Some (key, op, vi, ti') =>
            if beqb (cow_bytes (decode key)) name then
              do x <- de_enum f vs (KOpVal (match op with Some o => o | None => Equal end) vi);
              eloop f name vs ti' en (x :: acc)
            else eloop f name vs ti' en acc          (* next_value::<IgnoredAny>() *)
        | None =>
            let '(rs, re) := remainder t ti en in
            do n <- values_len t (S (length t)) rs re;
            match n with
            | O => Ok (rev acc)
            | S _ =>
                if beqb STR_REMAINDER name then do x <- de_enum f vs (KArr rs re); Ok (rev (x :: acc))
                else Ok (rev acc)
            end
        end
    end.
End EnumTape.

Definition enum_fuel (vs : variants) (t : ttape) : nat := 2 * length t + 2 * variants_size vs + 8.

Definition enum_root_tape (decode : bytes -> cow) (parse_f64 : bytes -> outcome N) (fo : fops)
    (name : bytes) (vs : variants) (t : ttape) : outcome (list (bytes * dval)) :=
  eloop decode parse_f64 fo t (enum_fuel vs t) name vs 0 (length t) [].

(* ------------------------------------------------------------------ stream path *)
Section EnumStream.
  Variable decode : bytes -> cow.
  Variable parse_f64 : bytes -> outcome N.
  Variable fo : fops.
  Variable R : Type.
  Variable rnext : R -> outcome (option TextReader.rtok * R).
  Variable rskip : R -> outcome R.
  Variable rexpect : R -> outcome (TextReader.rtok * R).

  (* Seed(denum).deserialize(TextReaderTokenDeserializer { token: tk }): visit_enum(TextReaderEnum) whatever
     the token is; variant_seed = deserialize_identifier on the same token; the reader is not touched *)
  Definition sde_enum (vs : variants) (tk : TextReader.rtok) : outcome (bytes * dval) :=
    do vv <- stream_visit decode parse_f64 THStr tk;
    match vv with
    | SVPrim p =>
        do nv <- resolve_variant vs p;
        match snd nv with
        | VSUnit => Ok (fst nv, DUnit)
        | _ => Err EC_DE                       (* "unsupported enum deserialization. Please file issue" *)
        end
    | _ => Err EC_DE                           (* Open: visit_seq on the variant identifier visitor *)
    end.

  (* StructV { fields: [name (Collect): denum] }.visit_map(TextReaderMap { root: true }) *)
  Fixpoint sloop (fuel : nat) (name : bytes) (vs : variants) (r : R) (acc : list (bytes * dval))
      : outcome (list (bytes * dval)) :=
    match fuel with
    | O => OutOfFuel
    | S f =>
        do x <- rnext r;
        match x with
        | (Some RClose, _) => Ok (rev acc)
        | (Some ROpen, r1) => do r2 <- rskip r1; sloop f name vs r2 acc
        | (Some tk, r1) =>
            let '(kb, _) := TextDeStream.key_info decode tk in
            do (tk1, r2) <- rexpect r1;
            do (vt, r3) <- match tk1 with
                           | ROp _ => rread R rnext r2
                           | _ => Ok (tk1, r2)
                           end;
            if beqb kb name then
              do v <- sde_enum vs vt; sloop f name vs r3 (v :: acc)
            else
              do (_, r4) <- sde decode parse_f64 fo R rnext rskip rexpect f ShIgn vt Equal r3;
              sloop f name vs r4 acc
        | (None, _) => Ok (rev acc)
        end
    end.
End EnumStream.

Definition enum_root_stream (decode : bytes -> cow) (parse_f64 : bytes -> outcome N) (fo : fops)
    (name : bytes) (vs : variants) (r : ltoks) : outcome (list (bytes * dval)) :=
  sloop decode parse_f64 fo ltoks l_next l_skip l_read (2 * length (fst r) + 8) name vs r [].

(* ------------------------------------------------------------------ specification *)
(* the variant a value of the document names, and its payload *)
Definition variant_view (v : value) : option (bytes * option value) :=
  match v with
  | VScalar _ raw => Some (raw, None)
  | VHeader name v' => Some (name, Some v')
  | VObject (FCons (Field _ key op v') FNil) VNil =>
      match op with
      | None | Some Equal => Some (key, Some v')
      | Some _ => None
      end
  | VArray (VCons (VScalar _ raw) (VCons v' VNil)) => Some (raw, Some v')
  | _ => None
  end.

Section EnumSpec.
  Variable decode : bytes -> cow.
  Variable parse_f64 : bytes -> outcome N.
  Variable F : fops.

  Definition spec_payload (vsh : vshape) (p : option value) : outcome dval :=
    match payload_shape vsh, p with
    | None, _ => Ok DUnit                                 (* a unit variant: whatever follows the name is dropped *)
    | Some s, Some v' => spec_v2 true decode parse_f64 F v' s None
    | Some _, None => Err EC_DE                           (* a payload variant named by a bare scalar *)
    end.

  Definition spec_enum (vs : variants) (v : value) : outcome (bytes * dval) :=
    match variant_view v with
    | None => Err EC_UNFIT
    | Some (raw, p) =>
        do nv <- resolve_variant vs (pstr (decode raw));
        do x <- spec_payload (snd nv) p;
        Ok (fst nv, x)
    end.

  (* Root { name: Vec<E> } on a document: the values of the fields called [name], in order *)
  Fixpoint spec_enum_fields (name : bytes) (vs : variants) (fs : fields) : outcome (list (bytes * dval)) :=
    match fs with
    | FNil => Ok []
    | FCons f fs' =>
        match f with
        | Field _ key _ v =>
            if beqb (cow_bytes (decode key)) name then
              do x <- spec_enum vs v; do r <- spec_enum_fields name vs fs'; Ok (x :: r)
            else spec_enum_fields name vs fs'
        | ParamV pn _ _ | ParamO pn _ _ =>
            if beqb (cow_bytes (decode pn)) name then Err EC_UNFIT else spec_enum_fields name vs fs'
        end
    end.
End EnumSpec.

(* the class on which the STREAM path can agree: no occurrence of the field names a payload variant *)
Definition unit_only (vs : variants) : bool :=
  forallb (fun x => match snd x with VSUnit => true | _ => false end) vs.
