(* C03, clause "the binary tape mirrors the token stream" stated against the LEXER's token sequence
   for every input the tape parser accepts (not only for encodings of abstract documents, BinDoc.v).

   raw_token   BinPrim.read_token (the primitive of binary/lexer.rs that BinLexer.v wraps) except that the
               RGB id is an ordinary id: the tape parser decides by context (state ObjectValue) whether an
               rgb block follows; elsewhere `rgb { 1 2 3 }` is a token followed by an array
   raw_lex     the token sequence of a byte string, read until fewer than two bytes remain (this is where
               the `while let Some(..) = parse_next_id_opt(data)` loop of tape.rs stops: one trailing odd
               byte is ignored by the tape parser)
   untape      the token sequence a tape denotes: container start -> Open, End -> Close, MixedContainer ->
               nothing, Equal -> Equal, Rgb -> the seven / eight tokens of its block, scalars -> themselves
   Both sides are compared without Equal tokens (an object's `=` leaves no trace on the tape, a mixed
   container's `=` does):
   ghost_erase s t   s is t plus some deleted adjacent [Open; Close] pairs (ghost objects)
   geb / subb        executable deciders (ghost_erase / subsequence), run on the real tapes by the kind
                     bt.mir (harness side: the real Lexer and the real tape)
   No proofs in this file. *)
From JV Require Import Bytes Tables BinPrim BinTape.
Open Scope N_scope.

Definition raw_token (d : bytes) : outcome (btoken * bytes) :=
  do (id, r) <- read_id d;
  if id =? L_RGB then Ok (BId id, r) else read_token d.

Fixpoint raw_lex_fuel (fuel : nat) (d : bytes) : option (list btoken) :=
  match fuel with
  | O => None
  | S f =>
    if Nat.ltb (length d) 2 then Some []
    else match raw_token d with
         | Ok (t, r) => match raw_lex_fuel f r with Some ts => Some (t :: ts) | None => None end
         | _ => None
         end
  end.
(* every token consumes at least two bytes *)
Definition raw_lex (d : bytes) : option (list btoken) := raw_lex_fuel (S (length d)) d.

Definition rgb_toks (c : rgb) : list btoken :=
  BId L_RGB :: BOpen :: BU32 (rgb_r c) :: BU32 (rgb_g c) :: BU32 (rgb_b c)
  :: (match rgb_a c with Some a => [BU32 a] | None => [] end) ++ [BClose].

Definition untape1 (x : tok) : list btoken :=
  match x with
  | TArray _ | TObject _ => [BOpen]
  | TEnd _ => [BClose]
  | TMixed => []
  | TEqual => [BEqual]
  | TBool b => [BBool b] | TU32 n => [BU32 n] | TU64 n => [BU64 n] | TI64 z => [BI64 z] | TI32 z => [BI32 z]
  | TQuoted s => [BQuoted s] | TUnquoted s => [BUnquoted s] | TF32 b => [BF32 b] | TF64 b => [BF64 b]
  | TToken id => [BId id]
  | TRgb c => rgb_toks c
  end.
Definition untape (t : tape) : list btoken := flat_map untape1 t.

Definition is_eq (b : btoken) : bool := match b with BEqual => true | _ => false end.
Definition noeq (l : list btoken) : list btoken := filter (fun b => negb (is_eq b)) l.

Inductive ghost_erase : list btoken -> list btoken -> Prop :=
| GE_nil : ghost_erase [] []
| GE_keep : forall x s t, ghost_erase s t -> ghost_erase (x :: s) (x :: t)
| GE_ghost : forall s t, ghost_erase s t -> ghost_erase (BOpen :: BClose :: s) t.

(* the relation the universal theorem is stated with: s is t plus inserted [Open; Close] pairs, at any
   place, one after the other (so also `{ { } }`); ghost_erase implies it (proofs/BinTapeMirrorProofs.v) *)
Inductive ghost_groups : list btoken -> list btoken -> Prop :=
| GG_refl : forall t, ghost_groups t t
| GG_ins : forall a b t, ghost_groups (a ++ b) t -> ghost_groups (a ++ BOpen :: BClose :: b) t.

Inductive subseq : list btoken -> list btoken -> Prop :=
| SS_nil : subseq [] []
| SS_keep : forall x s t, subseq s t -> subseq (x :: s) (x :: t)
| SS_drop : forall x s t, subseq s t -> subseq (x :: s) t.

Definition opt_eqb (a b : option N) : bool :=
  match a, b with Some x, Some y => x =? y | None, None => true | _, _ => false end.
Definition rgb_eqb (a b : rgb) : bool :=
  (rgb_r a =? rgb_r b) && (rgb_g a =? rgb_g b) && (rgb_b a =? rgb_b b) && opt_eqb (rgb_a a) (rgb_a b).
Definition btoken_eqb (a b : btoken) : bool :=
  match a, b with
  | BOpen, BOpen | BClose, BClose | BEqual, BEqual => true
  | BU32 x, BU32 y | BU64 x, BU64 y | BId x, BId y => x =? y
  | BI32 x, BI32 y | BI64 x, BI64 y => Z.eqb x y
  | BBool x, BBool y => Bool.eqb x y
  | BQuoted x, BQuoted y | BUnquoted x, BUnquoted y | BF32 x, BF32 y | BF64 x, BF64 y => beqb x y
  | BRgb x, BRgb y => rgb_eqb x y
  | _, _ => false
  end.

Fixpoint geb (s t : list btoken) {struct s} : bool :=
  match s with
  | [] => match t with [] => true | _ => false end
  | x :: s' =>
    if (match t with y :: t' => if btoken_eqb x y then geb s' t' else false | [] => false end) then true
    else match x, s' with
         | BOpen, BClose :: s'' => geb s'' t
         | _, _ => false
         end
  end.

Fixpoint subb (s t : list btoken) {struct s} : bool :=
  match t with
  | [] => true
  | y :: t' =>
    match s with
    | [] => false
    | x :: s' => if btoken_eqb x y then subb s' t' else subb s' t
    end
  end.

Definition mirrorb (toks : list btoken) (t : tape) : bool := geb (noeq toks) (noeq (untape t)).
Definition submirrorb (toks : list btoken) (t : tape) : bool := subb (noeq toks) (noeq (untape t)).
