(* buffer.rs: BufferWindow and the Read behind it.
   The window is modelled by its contents: [win] = storage[start..end); any access outside the
   window is an explicit OOB in the reader models, so stale bytes of a recycled buffer are
   unobservable by construction of the *checks*, not by assumption.
   cap = buf.len() (0 for the from_slice window, whose fill_buf always answers Ok 0). *)
From JV Require Import Bytes.
Open Scope nat_scope.

Inductive event := Data (n : N) | Fail.

(* The underlying Read: remaining data + schedule.  Call i with free space f and r bytes left
   delivers min (max n 1) f r bytes (0 only when the data is exhausted or f = 0) or fails.
   When the schedule list runs out every further call fills as much as possible. *)
Record rd := mkrd { rest : bytes; sched : list event; calls : nat; delivered : nat }.

Definition E_Io : N := 100%N.
Definition E_BufferFull : N := 101%N.
Definition E_Eof : N := 102%N.

Definition rd_read (r : rd) (free : nat) : outcome (bytes * rd) :=
  let ev := match sched r with [] => Data 1000000000%N | e :: _ => e end in
  let sch := tl (sched r) in
  match ev with
  | Fail => Err E_Io
  | Data n =>
      (* = min (max n 1) (min free |rest|), computed in N so that extraction never builds a huge nat *)
      let k := N.to_nat (N.min (N.max n 1) (N.of_nat (Nat.min free (length (rest r))))) in
      Ok (firstn k (rest r), mkrd (skipn k (rest r)) sch (S (calls r)) (delivered r + k))
  end.
(* the schedule advances on a failed call as well *)
Definition rd_after_fail (r : rd) : rd := mkrd (rest r) (tl (sched r)) (S (calls r)) (delivered r).

Record bufwin := mkbw { cap : nat; win : bytes; consumed : nat; prior : nat }.

Definition bw_from_slice (d : bytes) : bufwin := mkbw 0 d 0 0.
Definition bw_new (cap : nat) : bufwin := mkbw cap [] 0 0.
Definition bw_position (b : bufwin) : nat := prior b + consumed b.
Definition bw_window_len (b : bufwin) : nat := length (win b).

(* advance(amt): debug_assert!(ptr in start..=end) *)
Definition bw_advance (b : bufwin) (amt : nat) : outcome bufwin :=
  if Nat.ltb (length (win b)) amt then OOB 8601%N
  else Ok (mkbw (cap b) (skipn amt (win b)) (consumed b + amt) (prior b)).

(* fill_buf: returns (bytes read, window, reader); an Io failure still repositions the window *)
Inductive fill_res :=
| FillOk (n : nat) (b : bufwin) (r : rd)
| FillIo (b : bufwin) (r : rd)
| FillFull (b : bufwin) (r : rd).

Definition bw_fill_buf (b : bufwin) (r : rd) : fill_res :=
  let carry := length (win b) in
  if Nat.leb (cap b) carry then (if Nat.eqb (cap b) 0 then FillOk 0 b r else FillFull b r)
  else
    let b1 := mkbw (cap b) (win b) 0 (prior b + consumed b) in
    match rd_read r (cap b - carry) with
    | Ok (bs, r') => FillOk (length bs) (mkbw (cap b) (win b ++ bs) 0 (prior b1)) r'
    | _ => FillIo b1 (rd_after_fail r)
    end.
