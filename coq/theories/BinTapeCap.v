(* binary/tape.rs + copyless.rs: the token tape as a Vec WITH A CAPACITY (w_btcap, wave 5).

   BinTape.v keeps the tape as a list: a push can never be out of bounds there.  The code, however,
   writes through raw pointers after `reserve`: `alloc().init(x)` (copyless.rs: ptr::write at
   index len, set_len(len+1), growing only when capacity() == len), the first write at index 0 of
   parse_slice_into_tape_core, and the `=` met in ArrayValue state (reserve(2); pop().unwrap_unchecked();
   ptr.add(len+k).write(..) for k = 0,1,2; set_len(len+3) -- or ptr.add(parent_ind+1).write(last);
   set_len(parent_ind+2) after a run of empty objects).  Whether such a write stays inside the
   allocation depends on the tape length against the capacity.

   The vector is [cvec] = (live elements, spare slots); |spare| = capacity - len; a spare slot is
   [None] while uninitialised.  [v_reserve] follows Vec::reserve: nothing when the spare room
   suffices, otherwise the new capacity is max(len + n, pol cap (len + n)) for a growth POLICY
   [pol] (RawVec::grow_amortized is [rust_policy]; the theorems hold for EVERY policy, i.e. only
   "capacity >= len + n afterwards" is used) and the spare slots are uninitialised again.  A raw
   write beyond the capacity is [OOB 360]; set_len beyond the capacity [OOB 361], over an
   uninitialised slot [OOB 362]; pop().unwrap_unchecked() on an empty vector [OOB 350] (as in
   BinTape).

   The ORDER of the raw operations is not written here: it is read off the source by
   tools/gen_tables.py (Tables.bt_vec_alloc_ops, bt_init_ops, bt_eq_prefix_ops, bt_eq_empties_ops,
   bt_eq_mixed_ops, bt_mixed_insert1_ops, bt_mixed_insert2_ops) and interpreted by [run_ops].
   Everything else mirrors BinTape.v definition by definition, with [push] replaced by
   [v_alloc].  No proofs in this file (proofs/BinTapeCapProofs.v). *)
From JV Require Import Bytes Tables BinPrim BinTape.
Open Scope N_scope.

(* ------------------------------------------------------------------ Vec<BinaryToken> *)
Definition spare := list (option tok).
Definition cvec := (tape * spare)%type.

Definition v_cap (v : cvec) : nat := (length (fst v) + length (snd v))%nat.

(* (old capacity, required capacity) -> what the allocator strategy proposes; the result used is
   max(required, proposal) *)
Definition policy := nat -> nat -> nat.
(* RawVec::grow_amortized: max(2 * cap, required, MIN_NON_ZERO_CAP = 4 for a 24-byte element) *)
Definition rust_policy : policy := fun cap _ => Nat.max (2 * cap) 4.
(* the least any Vec may do *)
Definition exact_policy : policy := fun _ _ => O.

Definition v_reserve (pol : policy) (n : nat) (v : cvec) : cvec :=
  if Nat.leb n (length (snd v)) then v
  else let need := (length (fst v) + n)%nat in
       (fst v, repeat None (Nat.max need (pol (v_cap v) need) - length (fst v))).

Fixpoint set_nth (sp : spare) (i : nat) (x : tok) : option spare :=
  match sp, i with
  | [], _ => None
  | _ :: r, O => Some (Some x :: r)
  | y :: r, S i' => match set_nth r i' x with Some r' => Some (y :: r') | None => None end
  end.

(* ptr.add(i).write(x) *)
Definition v_write (i : nat) (x : tok) (v : cvec) : outcome cvec :=
  if Nat.ltb i (length (fst v)) then Ok (upd (fst v) i x, snd v)
  else match set_nth (snd v) (i - length (fst v)) x with
       | Some sp' => Ok (fst v, sp')
       | None => OOB 360
       end.

(* the first k spare slots, if all of them are initialised *)
Fixpoint take_init (k : nat) (sp : spare) : option (tape * spare) :=
  match k with
  | O => Some ([], sp)
  | S k' => match sp with
            | Some x :: r => match take_init k' r with Some (l, r') => Some (x :: l, r') | None => None end
            | _ => None
            end
  end.

(* set_len(n): shrinking leaves the cut elements behind as initialised spare slots *)
Definition v_set_len (n : nat) (v : cvec) : outcome cvec :=
  if Nat.leb n (length (fst v)) then Ok (firstn n (fst v), map Some (skipn n (fst v)) ++ snd v)
  else if Nat.ltb (v_cap v) n then OOB 361
  else match take_init (n - length (fst v)) (snd v) with
       | Some (l, r) => Ok (fst v ++ l, r)
       | None => OOB 362
       end.

Definition v_pop (v : cvec) : option (cvec * tok) :=
  match pop (fst v) with
  | Some (t1, x) => Some ((t1, Some x :: snd v), x)
  | None => None
  end.

Definition v_clear (v : cvec) : cvec := ([], map Some (fst v) ++ snd v).

(* ------------------------------------------------------------------ the generated operation lists *)
Inductive vbase := BZero | BLen | BPar.
Inductive vval := VMixedC | VEqualC | VArg | VStash (k : nat).
Inductive vop :=
| OReserve (k : nat) | OReserveIfFull (k : nat) | OPop (checked : bool) | OCheckLast | OSnapLen
| OWrite (b : vbase) (off : nat) (x : vval) | OSetLen (b : vbase) (off : nat) | OSetParent
| OAlloc (x : vval) | OClear | OReserveInit (d m : nat) | OBad.

Definition decode_base (n : N) : option vbase :=
  match n with 0 => Some BZero | 1 => Some BLen | 2 => Some BPar | _ => None end.
Definition decode_val (n : N) : option vval :=
  match n with 1 => Some VMixedC | 2 => Some VEqualC | 3 => Some VArg | 4 => Some (VStash 0) | 5 => Some (VStash 1) | _ => None end.

Definition decode_op (c : N * N * N * N) : vop :=
  match c with
  | (code, a, b, x) =>
    match code with
    | 1 => OReserve (N.to_nat a)
    | 2 => OReserveIfFull (N.to_nat a)
    | 3 => OPop (negb (a =? 0))
    | 4 => OCheckLast
    | 5 => OSnapLen
    | 6 => match decode_base a, decode_val x with Some ba, Some v => OWrite ba (N.to_nat b) v | _, _ => OBad end
    | 7 => match decode_base a with Some ba => OSetLen ba (N.to_nat b) | None => OBad end
    | 8 => OSetParent
    | 9 => match decode_val a with Some v => OAlloc v | None => OBad end
    | 10 => OClear
    | 11 => OReserveInit (N.to_nat a) (N.to_nat b)
    | _ => OBad
    end
  end.
Definition prog (l : list (N * N * N * N)) : list vop := map decode_op l.

(* locals of the Rust code: the `len` / `index` snapshot, the popped tokens in pop order *)
Record regs := mkregs { r_len : nat; r_stash : list tok }.
(* parent_ind, the value handed to init(), data.len() *)
Record env := mkenv { e_par : nat; e_arg : tok; e_dlen : nat }.

Definition val_of (e : env) (r : regs) (x : vval) : outcome tok :=
  match x with
  | VMixedC => Ok TMixed
  | VEqualC => Ok TEqual
  | VArg => Ok (e_arg e)
  | VStash k => match nth_error (r_stash r) k with Some y => Ok y | None => Panic 392 end
  end.

Definition idx_of (e : env) (r : regs) (b : vbase) (off : nat) : nat :=
  (match b with BZero => O | BLen => r_len r | BPar => e_par e end + off)%nat.

Definition run_op (pol : policy) (allocf : tok -> cvec -> outcome cvec) (e : env) (o : vop)
                  (s : cvec * regs) : outcome (cvec * regs) :=
  let v := fst s in
  let r := snd s in
  match o with
  | OReserve k => Ok (v_reserve pol k v, r)
  | OReserveIfFull k => Ok (if Nat.eqb (v_cap v) (r_len r) then v_reserve pol k v else v, r)
  | OPop checked =>
    match v_pop v with
    | Some (v', x) => Ok (v', mkregs (r_len r) (r_stash r ++ [x]))
    | None => if checked then Panic (340 + N.of_nat (length (r_stash r)))   (* debug_assert!(false, "empty token tape") *)
              else OOB 350                                                    (* pop().unwrap_unchecked() *)
    end
  | OCheckLast =>
    match r_stash r with
    | x :: _ => if is_array_or_end x then Err E_Syntax else Ok s
    | [] => Panic 392
    end
  | OSnapLen => Ok (v, mkregs (length (fst v)) (r_stash r))
  | OWrite b off x => do y <- val_of e r x; do v' <- v_write (idx_of e r b off) y v; Ok (v', r)
  | OSetLen b off => do v' <- v_set_len (idx_of e r b off) v; Ok (v', r)
  | OSetParent => do t' <- set_parent_to_object (e_par e) (fst v); Ok ((t', snd v), r)
  | OAlloc x => do y <- val_of e r x; do v' <- allocf y v; Ok (v', r)
  | OClear => Ok (v_clear v, r)
  | OReserveInit d m => Ok (v_reserve pol (Nat.max (Nat.div (e_dlen e) d) m) v, r)
  | OBad => Panic 393                       (* the translator emitted something this file does not know *)
  end.

Fixpoint run_ops (pol : policy) (allocf : tok -> cvec -> outcome cvec) (e : env) (l : list vop)
                 (s : cvec * regs) : outcome (cvec * regs) :=
  match l with
  | [] => Ok s
  | o :: l' => do s' <- run_op pol allocf e o s; run_ops pol allocf e l' s'
  end.

Definition regs0 : regs := mkregs O [].

(* token_tape.alloc().init(x) : copyless.rs *)
Definition v_alloc (pol : policy) (x : tok) (v : cvec) : outcome cvec :=
  omap fst (run_ops pol (fun _ _ => Panic 393) (mkenv O x O) (prog bt_vec_alloc_ops) (v, regs0)).

(* ------------------------------------------------------------------ BinTape.v with v_alloc for push *)
Definition push_end_fin_c (pol : policy) (c : tok) (g par : nat) (t : tape) (sp : spare)
  : outcome ((pstate * nat * tape) * spare) :=
  do (t', sp') <- v_alloc pol (TEnd par) (upd t par c, sp);
  match nth_error t' g with
  | Some (TArray _) => Ok ((ArrayValue, g, t'), sp')
  | Some _ => Ok ((Key, g, t'), sp')
  | None => OOB 310
  end.

Definition push_end_c (pol : policy) (par : nat) (t : tape) (sp : spare) : outcome ((pstate * nat * tape) * spare) :=
  match nth_error t par with
  | Some (TArray g) => push_end_fin_c pol (TArray (length t)) g par t sp
  | Some (TObject g) => push_end_fin_c pol (TObject (length t)) g par t sp
  | _ => Err E_Syntax
  end.

Definition close_array_unchecked_c (pol : policy) (par : nat) (t : tape) (sp : spare) : outcome ((nat * tape) * spare) :=
  match nth_error t par with
  | Some (TArray g) => do (t', sp') <- v_alloc pol (TEnd par) (upd t par (TArray (length t)), sp); Ok ((g, t'), sp')
  | Some _ => Panic 330
  | None => OOB 331
  end.

Definition mixed_insert1_c (pol : policy) (t : tape) (sp : spare) : outcome cvec :=
  omap fst (run_ops pol (v_alloc pol) (mkenv O TEqual O) (prog bt_mixed_insert1_ops) ((t, sp), regs0)).

Definition mixed_insert2_c (pol : policy) (t : tape) (sp : spare) : outcome cvec :=
  omap fst (run_ops pol (v_alloc pol) (mkenv O TEqual O) (prog bt_mixed_insert2_ops) ((t, sp), regs0)).

(* the `=` met in ArrayValue state *)
Definition eq_arm_gen (pol : policy) (pre emp mix : list vop) (d : bytes) (par : nat) (t : tape) (sp : spare)
  : outcome (st * spare) :=
  let e := mkenv par TEqual O in
  do s1 <- run_ops pol (v_alloc pol) e pre ((t, sp), regs0);
  if only_empties par (fst (fst s1)) then
    do s2 <- run_ops pol (v_alloc pol) e emp s1;
    Ok (mkst d ObjectValue par (fst (fst s2)), snd (fst s2))
  else
    do s2 <- run_ops pol (v_alloc pol) e mix s1;
    Ok (mkst d ArrayValueMixed par (fst (fst s2)), snd (fst s2)).

Definition eq_arm_c (pol : policy) (d : bytes) (par : nat) (t : tape) (sp : spare) : outcome (st * spare) :=
  eq_arm_gen pol (prog bt_eq_prefix_ops) (prog bt_eq_empties_ops) (prog bt_eq_mixed_ops) d par t sp.

Fixpoint arr_loop_c (pol : policy) (fuel : nat) (k : skind) (c : N) (nd : bytes) (par : nat) (t : tape) (sp : spare)
  : outcome (fres * spare) :=
  match fuel with
  | O => OutOfFuel
  | S f =>
    do (x, nd2) <- read_id nd;
    if x =? c then
      do (v, nd') <- read_scalar k nd2;
      do (t', sp') <- v_alloc pol v (t, sp);
      arr_loop_c pol f k c nd' par t' sp'
    else if x =? L_CLOSE then
      do (r, sp') <- close_array_unchecked_c pol par t sp;
      Ok (FCont nd2 Key (fst r) (snd r), sp')
    else Ok (FFall nd2 x ArrayValue par t, sp)
  end.

Definition array_field_c (pol : policy) (k : skind) (c : N) (d4 : bytes) (par : nat) (t : tape) (sp : spare)
  : outcome (fres * spare) :=
  do (v1, d4') <- read_scalar k d4;
  do (t, sp) <- v_alloc pol v1 (t, sp);
  do (id5, d5) <- read_id d4';
  if id5 =? c then
    do (v2, nd) <- read_scalar k d5;
    do (t, sp) <- v_alloc pol v2 (t, sp);
    arr_loop_c pol (S (length nd)) k c nd par t sp
  else Ok (FFall d5 id5 OpenSecond par t, sp).

Definition key_fast_c (pol : policy) (fx : bool) (d : bytes) (id : N) (par : nat) (t : tape) (sp : spare)
  : outcome (fres * spare) :=
  if (L_UNQUOTED <? id) || (id =? 11) then
    if negb (id =? L_F64) && negb (id =? L_U64) && negb (fx && (id =? L_I64)) then
      do (t, sp) <- v_alloc pol (TToken id) (t, sp);
      do (id2, d2) <- read_id d;
      if id2 =? L_EQUAL then
        do (id3, d3) <- read_id d2;
        if id3 =? L_I32 then
          do (v, r) <- read_scalar KI32 d3; do (t, sp) <- v_alloc pol v (t, sp); Ok (FCont r Key par t, sp)
        else if id3 =? L_OPEN then
          let ind := length t in
          do (t, sp) <- v_alloc pol (TArray par) (t, sp);
          let par := ind in
          do (id4, d4) <- read_id d3;
          if id4 =? L_I32 then array_field_c pol KI32 L_I32 d4 par t sp
          else if id4 =? L_QUOTED then array_field_c pol KQuoted L_QUOTED d4 par t sp
          else if id4 =? L_F32 then array_field_c pol KF32 L_F32 d4 par t sp
          else if tokenish fx id4 || (id4 =? 11) then
            do (t, sp) <- v_alloc pol (TToken id4) (t, sp);
            do (id5, d5) <- read_id d4;
            if id5 =? L_EQUAL then
              do t <- set_parent_to_object par t;
              do (id6, d6) <- read_id d5;
              Ok (FFall d6 id6 ObjectValue par t, sp)
            else Ok (FFall d5 id5 OpenSecond par t, sp)
          else Ok (FFall d4 id4 OpenFirst par t, sp)
        else if id3 =? L_QUOTED then
          do (v, r) <- read_scalar KQuoted d3; do (t, sp) <- v_alloc pol v (t, sp); Ok (FCont r Key par t, sp)
        else if id3 =? L_F32 then
          do (v, r) <- read_scalar KF32 d3; do (t, sp) <- v_alloc pol v (t, sp); Ok (FCont r Key par t, sp)
        else Ok (FFall d3 id3 ObjectValue par t, sp)
      else Ok (FFall d2 id2 KeyValueSeparator par t, sp)
    else Ok (FFall d id Key par t, sp)
  else if id =? L_CLOSE then
    do (q, sp') <- push_end_c pol par t sp;
    Ok (FCont d (fst (fst q)) (snd (fst q)) (snd q), sp')
  else if id =? L_QUOTED then
    do (v, d2) <- read_scalar KQuoted d;
    do (t, sp) <- v_alloc pol v (t, sp);
    do (id2, d3) <- read_id d2;
    if id2 =? L_EQUAL then
      do (id3, d4) <- read_id d3;
      if id3 =? L_OPEN then
        let ind := length t in
        do (t, sp) <- v_alloc pol (TArray par) (t, sp);
        let par := ind in
        do (id4, d5) <- read_id d4;
        if tokenish fx id4 then
          do (t, sp) <- v_alloc pol (TToken id4) (t, sp);
          do (id5, d6) <- read_id d5;
          if id5 =? L_EQUAL then
            do t <- set_parent_to_object par t;
            do (id6, d7) <- read_id d6;
            if id6 =? L_BOOL then
              do (v, r) <- read_scalar KBool d7; do (t, sp) <- v_alloc pol v (t, sp); Ok (FCont r Key par t, sp)
            else if id6 =? L_QUOTED then
              do (v, r) <- read_scalar KQuoted d7; do (t, sp) <- v_alloc pol v (t, sp); Ok (FCont r Key par t, sp)
            else Ok (FFall d7 id6 ObjectValue par t, sp)
          else Ok (FFall d6 id5 OpenSecond par t, sp)
        else Ok (FFall d5 id4 OpenFirst par t, sp)
      else Ok (FFall d4 id3 ObjectValue par t, sp)
    else Ok (FFall d3 id2 KeyValueSeparator par t, sp)
  else if id =? L_I32 then
    do (v, d2) <- read_scalar KI32 d;
    do (t, sp) <- v_alloc pol v (t, sp);
    do (id2, d3) <- read_id d2;
    if id2 =? L_EQUAL then
      do (id3, d4) <- read_id d3;
      if id3 =? L_I32 then
        do (v, r) <- read_scalar KI32 d4; do (t, sp) <- v_alloc pol v (t, sp); Ok (FCont r Key par t, sp)
      else Ok (FFall d4 id3 ObjectValue par t, sp)
    else Ok (FFall d3 id2 KeyValueSeparator par t, sp)
  else Ok (FFall d id Key par t, sp).

Fixpoint i32_run_c (pol : policy) (fuel : nat) (nd : bytes) (par : nat) (t : tape) (sp : spare) : outcome (st * spare) :=
  match fuel with
  | O => OutOfFuel
  | S f =>
    do (x, nd2) <- read_id nd;
    if x =? L_I32 then
      do (v, nd') <- read_scalar KI32 nd2;
      do (t', sp') <- v_alloc pol v (t, sp);
      i32_run_c pol f nd' par t' sp'
    else if x =? L_CLOSE then
      do (q, sp') <- push_end_c pol par t sp;
      Ok (mkst nd2 (fst (fst q)) (snd (fst q)) (snd q), sp')
    else Ok (mkst nd ArrayValue par t, sp)
  end.

Definition scalar_arm_c (pol : policy) (k : skind) (d : bytes) (ps : pstate) (par : nat) (t : tape) (sp : spare)
  : outcome (st * spare) :=
  do (v, r) <- read_scalar k d;
  do (t', sp') <- v_alloc pol v (t, sp);
  do ps' <- next_state ps;
  Ok (mkst r ps' par t', sp').

(* x => { data = d; alloc().init(Token(x)); state = next_state(state) } *)
Definition token_arm_c (pol : policy) (d : bytes) (id : N) (ps : pstate) (par : nat) (t : tape) (sp : spare)
  : outcome (st * spare) :=
  do (t', sp') <- v_alloc pol (TToken id) (t, sp);
  do ps' <- next_state ps;
  Ok (mkst d ps' par t', sp').

Definition slow_c (pol : policy) (opt : bool) (d : bytes) (id : N) (ps : pstate) (par : nat) (t : tape) (sp : spare)
  : outcome (st * spare) :=
  do (pt, sp) <- (match ps with
                  | ObjectToArray => do (t', sp') <- mixed_insert2_c pol t sp; Ok ((ArrayValueMixed, t'), sp')
                  | _ => Ok ((ps, t), sp) end);
  let ps := fst pt in
  let t := snd pt in
  match classify id with
  | CU32 => scalar_arm_c pol KU32 d ps par t sp
  | CU64 => scalar_arm_c pol KU64 d ps par t sp
  | CI32 =>
    do (s, sp') <- scalar_arm_c pol KI32 d ps par t sp;
    match opt, s_ps s with
    | true, ArrayValue => i32_run_c pol (S (length (s_data s))) (s_data s) par (s_tape s) sp'
    | _, _ => Ok (s, sp')
    end
  | CBool => scalar_arm_c pol KBool d ps par t sp
  | CQuoted => scalar_arm_c pol KQuoted d ps par t sp
  | CUnquoted => scalar_arm_c pol KUnquoted d ps par t sp
  | CF32 => scalar_arm_c pol KF32 d ps par t sp
  | CF64 => scalar_arm_c pol KF64 d ps par t sp
  | COpen =>
    if negb (is_key ps) then
      do (t', sp') <- v_alloc pol (TArray par) (t, sp);
      Ok (mkst d OpenFirst (length t) t', sp')
    else match t with
         | [] => Err E_Syntax
         | _ => do (id2, nd) <- read_id d;
                if id2 =? L_CLOSE then Ok (mkst nd ps par t, sp) else Err E_Syntax
         end
  | CClose =>
    do (t, sp) <- (match ps with
                   | KeyValueSeparator => mixed_insert1_c pol t sp
                   | ObjectValue => Err E_Syntax
                   | _ => Ok (t, sp) end);
    do (q, sp') <- push_end_c pol par t sp;
    Ok (mkst d (fst (fst q)) (snd (fst q)) (snd q), sp')
  | CEqual =>
    match ps with
    | KeyValueSeparator => Ok (mkst d ObjectValue par t, sp)
    | OpenSecond => do t' <- set_parent_to_object par t; Ok (mkst d ObjectValue par t', sp)
    | ArrayValueMixed => do (t', sp') <- v_alloc pol TEqual (t, sp); Ok (mkst d ps par t', sp')
    | ArrayValue => eq_arm_c pol d par t sp
    | _ => Err E_Syntax
    end
  | CRgb =>
    match ps with
    | ObjectValue => do (v, r) <- read_scalar KRgb d; do (t', sp') <- v_alloc pol v (t, sp); Ok (mkst r Key par t', sp')
    | _ => token_arm_c pol d id ps par t sp
    end
  | CI64 => scalar_arm_c pol KI64 d ps par t sp
  | COther => token_arm_c pol d id ps par t sp
  end.

Inductive step_c :=
| ContinueC (s : st) (sp : spare)
| DoneC (r : outcome cvec).

Definition stop_c {A} (o : outcome A) : step_c :=
  match o with
  | Ok _ => DoneC (Panic 399)
  | Err e => DoneC (Err e) | Panic s => DoneC (Panic s) | OOB s => DoneC (OOB s) | OutOfFuel => DoneC OutOfFuel
  end.

Definition finish_c (s : st) (sp : spare) : outcome cvec :=
  match s_par s, s_ps s with
  | O, Key => Ok (s_tape s, sp)
  | _, _ => Err E_Eof
  end.

Definition after_fast_c (pol : policy) (opt : bool) (r : outcome (fres * spare)) : step_c :=
  match r with
  | Ok (FCont d ps par t, sp) => ContinueC (mkst d ps par t) sp
  | Ok (FFall d id ps par t, sp) =>
    match slow_c pol opt d id ps par t sp with
    | Ok (s', sp') => ContinueC s' sp'
    | o => stop_c o
    end
  | o => stop_c o
  end.

Definition iter_c (pol : policy) (fx opt : bool) (s : st) (sp : spare) : step_c :=
  match get_split 2 (s_data s) with
  | None => DoneC (finish_c s sp)
  | Some (h, d) =>
    let id := le_word 2 h in
    after_fast_c pol opt
      (if opt && is_key (s_ps s) then key_fast_c pol fx d id (s_par s) (s_tape s) sp
       else Ok (FFall d id (s_ps s) (s_par s) (s_tape s), sp))
  end.

Fixpoint loop_c (pol : policy) (fx opt : bool) (fuel : nat) (s : st) (sp : spare) : outcome cvec :=
  match fuel with
  | O => OutOfFuel
  | S f => match iter_c pol fx opt s sp with
           | DoneC r => r
           | ContinueC s' sp' => loop_c pol fx opt f s' sp'
           end
  end.

(* parse_slice_into_tape_core on a tape that may have been used before: [v0] is the vector as the
   caller hands it in (BinaryTape::default() is ([], [])) *)
Definition init_c (pol : policy) (v0 : cvec) (d : bytes) : outcome cvec :=
  omap fst (run_ops pol (fun _ _ => Panic 393) (mkenv O TEqual (length d)) (prog bt_init_ops) (v0, regs0)).

Definition parse_cap (pol : policy) (fx opt : bool) (v0 : cvec) (d : bytes) : outcome cvec :=
  do (t, sp) <- init_c pol v0 d;
  loop_c pol fx opt (S (length d)) (mkst d Key O t) sp.

(* what the correspondence check runs: the code as it is, the standard library's growth, a fresh
   Vec::with_capacity(c0) *)
Definition fresh (c0 : nat) : cvec := ([], repeat None c0).
Definition parse_cap_opt (c0 : nat) (d : bytes) : outcome (tape * nat) :=
  omap (fun v => (fst v, v_cap v)) (parse_cap rust_policy fast_path_excludes_i64 true (fresh c0) d).
Definition parse_cap_ref (c0 : nat) (d : bytes) : outcome (tape * nat) :=
  omap (fun v => (fst v, v_cap v)) (parse_cap rust_policy false false (fresh c0) d).
(* the same with the least growth any Vec may have: if some growth strategy lets a write escape,
   this one does *)
Definition parse_cap_exact (opt : bool) (c0 : nat) (d : bytes) : outcome (tape * nat) :=
  omap (fun v => (fst v, v_cap v)) (parse_cap exact_policy fast_path_excludes_i64 opt (fresh c0) d).
