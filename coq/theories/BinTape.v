(* binary/tape.rs: BinaryTapeParser::parse::<ENABLE_OPTIMIZATION>.

   ONE definition [parse fx opt]; [opt] stands where Rust has the const generic
   ENABLE_OPTIMIZATION ([opt = false] is parse_slice_into_tape_unoptimized, the reference
   interpretation).  [fx] is NOT in the Rust code: [fx = false] is the code as it is (the three
   id-class tests of the key fast path forget LexemeId::I64 = 0x0317 > UNQUOTED, DESIGN 7-B);
   [fx = true] adds [&& id != I64] at exactly those three tests.  The correspondence check runs
   [fx = Tables.fast_path_excludes_i64], generated from the three tests in the source (true since the fix: commit for finding B (it was false on the original tree)).

   State: data (rest of the input), ParseState, parent_ind, token tape (a list, push = snoc).
   Indices are nat.  Every unchecked access / unreachable / debug_assert is an explicit outcome.
   Error positions and messages are dropped; error classes are kept (Eof / InvalidRgb / Syntax). *)
From JV Require Import Bytes Tables BinPrim.
Open Scope N_scope.

Definition E_Eof : N := E_LexEof.
Definition E_Syntax : N := 120.

(* BinaryToken *)
Inductive tok :=
| TArray (e : nat) | TObject (e : nat) | TMixed | TEqual | TEnd (i : nat)
| TBool (b : bool) | TU32 (x : N) | TU64 (x : N) | TI64 (x : Z) | TI32 (x : Z)
| TQuoted (s : bytes) | TUnquoted (s : bytes) | TF32 (x : bytes) | TF64 (x : bytes)
| TToken (id : N) | TRgb (c : rgb).

Definition tape := list tok.
Definition push (t : tape) (x : tok) : tape := t ++ [x].

Fixpoint upd (t : tape) (i : nat) (x : tok) : tape :=
  match t, i with
  | [], _ => []
  | _ :: r, O => x :: r
  | y :: r, S i' => y :: upd r i' x
  end.

(* ParseState, #[repr(u8)], discriminants generated from tape.rs *)
Inductive pstate := ArrayValue | ArrayValueMixed | ObjectValue | Key | KeyValueSeparator
                  | ObjectToArray | OpenFirst | OpenSecond.

Definition ps_disc (s : pstate) : N :=
  match s with
  | ArrayValue => PS_ArrayValue | ArrayValueMixed => PS_ArrayValueMixed | ObjectValue => PS_ObjectValue
  | Key => PS_Key | KeyValueSeparator => PS_KeyValueSeparator | ObjectToArray => PS_ObjectToArray
  | OpenFirst => PS_OpenFirst | OpenSecond => PS_OpenSecond
  end.

(* transmute::<u8, ParseState>: a value outside the enum is undefined behaviour *)
Definition ps_of_disc (n : N) : option pstate :=
  if n =? PS_ArrayValue then Some ArrayValue
  else if n =? PS_ArrayValueMixed then Some ArrayValueMixed
  else if n =? PS_ObjectValue then Some ObjectValue
  else if n =? PS_Key then Some Key
  else if n =? PS_KeyValueSeparator then Some KeyValueSeparator
  else if n =? PS_ObjectToArray then Some ObjectToArray
  else if n =? PS_OpenFirst then Some OpenFirst
  else if n =? PS_OpenSecond then Some OpenSecond
  else None.

(* next_state: num.wrapping_mul(2) - (num & 2), then transmute *)
Definition next_state (s : pstate) : outcome pstate :=
  let num := ps_disc s in
  let offset := N.land num ps_offset_mask in
  let dbl := (num * ps_mul) mod 256 in
  if dbl <? offset then Panic 301
  else match ps_of_disc (dbl - offset) with Some s' => Ok s' | None => Panic 302 end.

Definition is_key (s : pstate) : bool := match s with Key => true | _ => false end.

(* the parse_<x> helpers: read the payload, push the token *)
Inductive skind := KU32 | KU64 | KI32 | KBool | KQuoted | KUnquoted | KF32 | KF64 | KRgb | KI64.

Definition read_scalar (k : skind) (d : bytes) : outcome (tok * bytes) :=
  match k with
  | KU32 => omap (fun p => (TU32 (fst p), snd p)) (read_u32 d)
  | KU64 => omap (fun p => (TU64 (fst p), snd p)) (read_u64 d)
  | KI32 => omap (fun p => (TI32 (fst p), snd p)) (read_i32 d)
  | KBool => omap (fun p => (TBool (fst p), snd p)) (read_bool d)
  | KQuoted => omap (fun p => (TQuoted (fst p), snd p)) (read_string d)
  | KUnquoted => omap (fun p => (TUnquoted (fst p), snd p)) (read_string d)
  | KF32 => omap (fun p => (TF32 (fst p), snd p)) (read_f32 d)
  | KF64 => omap (fun p => (TF64 (fst p), snd p)) (read_f64 d)
  | KRgb => omap (fun p => (TRgb (fst p), snd p)) (read_rgb d)
  | KI64 => omap (fun p => (TI64 (fst p), snd p)) (read_i64 d)
  end.

(* push_end! : the open container's end slot holds the grand-parent index *)
Definition push_end_fin (c : tok) (g par : nat) (t : tape) : outcome (pstate * nat * tape) :=
  let t' := push (upd t par c) (TEnd par) in
  match nth_error t' g with
  | Some (TArray _) => Ok (ArrayValue, g, t')
  | Some _ => Ok (Key, g, t')
  | None => OOB 310                      (* get_unchecked(grand_ind) *)
  end.

Definition push_end (par : nat) (t : tape) : outcome (pstate * nat * tape) :=
  match nth_error t par with
  | Some (TArray g) => push_end_fin (TArray (length t)) g par t
  | Some (TObject g) => push_end_fin (TObject (length t)) g par t
  | _ => Err E_Syntax
  end.

(* the close inside the primitive-array macro: get_unchecked_mut + unreachable_unchecked,
   state is not recomputed (continue 'outer with state == Key) *)
Definition close_array_unchecked (par : nat) (t : tape) : outcome (nat * tape) :=
  match nth_error t par with
  | Some (TArray g) => Ok (g, push (upd t par (TArray (length t))) (TEnd par))
  | Some _ => Panic 330
  | None => OOB 331
  end.

Definition set_parent_to_object (par : nat) (t : tape) : outcome tape :=
  match nth_error t par with
  | Some (TArray e) => Ok (upd t par (TObject e))
  | Some _ => Panic 320                  (* debug_assert!(false) / unreachable_unchecked *)
  | None => OOB 321
  end.

Definition pop (t : tape) : option (tape * tok) :=
  match rev t with [] => None | x :: r => Some (rev r, x) end.

Definition mixed_insert1 (t : tape) : outcome tape :=
  match pop t with
  | Some (t1, s1) => Ok (push (push t1 TMixed) s1)
  | None => Panic 340
  end.

Definition mixed_insert2 (t : tape) : outcome tape :=
  match pop t with
  | Some (t1, s1) =>
    match pop t1 with
    | Some (t2, s2) => Ok (push (push (push t2 TMixed) s2) s1)
    | None => Panic 341
    end
  | None => Panic 340
  end.

(* chunks_exact(2) over tape[parent_ind+1..], every pair [Array(x), End(y)] with x == y+1;
   a trailing odd token is ignored by chunks_exact, hence `pairs.remainder().is_empty()` in
   [only_empties] (fix for finding L: `a = { {} x y = z }` used to lose x) *)
Fixpoint all_empty_pairs (l : tape) : bool :=
  match l with
  | TArray x :: TEnd y :: r => Nat.eqb x (S y) && all_empty_pairs r
  | _ :: _ :: _ => false
  | _ => true
  end.
Definition only_empties (par : nat) (t : tape) : bool :=
  let rest := skipn (S par) t in
  Nat.leb 2 (length rest) && Nat.even (length rest) && all_empty_pairs rest.

(* the three id-class tests of the fast path *)
Definition tokenish (fx : bool) (id : N) : bool :=
  (L_UNQUOTED <? id) && negb (id =? L_F64) && negb (id =? L_U64) && negb (fx && (id =? L_I64)).

(* what one pass through the fast-path block hands on *)
Inductive fres :=
| FCont (d : bytes) (ps : pstate) (par : nat) (t : tape)            (* `continue` *)
| FFall (d : bytes) (id : N) (ps : pstate) (par : nat) (t : tape).  (* go on to the main match *)

(* parse_array_field!: the inner `loop` *)
Fixpoint arr_loop (fuel : nat) (k : skind) (c : N) (nd : bytes) (par : nat) (t : tape) : outcome fres :=
  match fuel with
  | O => OutOfFuel
  | S f =>
    do (x, nd2) <- read_id nd;
    if x =? c then
      do (v, nd') <- read_scalar k nd2;
      arr_loop f k c nd' par (push t v)
    else if x =? L_CLOSE then
      do (g, t') <- close_array_unchecked par t;
      Ok (FCont nd2 Key g t')
    else Ok (FFall nd2 x ArrayValue par t)
  end.

Definition array_field (k : skind) (c : N) (d4 : bytes) (par : nat) (t : tape) : outcome fres :=
  do (v1, d4') <- read_scalar k d4;
  let t := push t v1 in
  do (id5, d5) <- read_id d4';
  if id5 =? c then
    do (v2, nd) <- read_scalar k d5;
    arr_loop (S (length nd)) k c nd par (push t v2)
  else Ok (FFall d5 id5 OpenSecond par t).

(* the `if ENABLE_OPTIMIZATION && state == ParseState::Key` block; d = data after token_id *)
Definition key_fast (fx : bool) (d : bytes) (id : N) (par : nat) (t : tape) : outcome fres :=
  if (L_UNQUOTED <? id) || (id =? 11) then
    if negb (id =? L_F64) && negb (id =? L_U64) && negb (fx && (id =? L_I64)) then
      let t := push t (TToken id) in
      do (id2, d2) <- read_id d;
      if id2 =? L_EQUAL then
        do (id3, d3) <- read_id d2;
        if id3 =? L_I32 then
          do (v, r) <- read_scalar KI32 d3; Ok (FCont r Key par (push t v))
        else if id3 =? L_OPEN then
          let ind := length t in
          let t := push t (TArray par) in
          let par := ind in
          do (id4, d4) <- read_id d3;
          if id4 =? L_I32 then array_field KI32 L_I32 d4 par t
          else if id4 =? L_QUOTED then array_field KQuoted L_QUOTED d4 par t
          else if id4 =? L_F32 then array_field KF32 L_F32 d4 par t
          else if tokenish fx id4 || (id4 =? 11) then
            let t := push t (TToken id4) in
            do (id5, d5) <- read_id d4;
            if id5 =? L_EQUAL then
              do t <- set_parent_to_object par t;
              do (id6, d6) <- read_id d5;
              Ok (FFall d6 id6 ObjectValue par t)
            else Ok (FFall d5 id5 OpenSecond par t)
          else Ok (FFall d4 id4 OpenFirst par t)
        else if id3 =? L_QUOTED then
          do (v, r) <- read_scalar KQuoted d3; Ok (FCont r Key par (push t v))
        else if id3 =? L_F32 then
          do (v, r) <- read_scalar KF32 d3; Ok (FCont r Key par (push t v))
        else Ok (FFall d3 id3 ObjectValue par t)
      else Ok (FFall d2 id2 KeyValueSeparator par t)
    else Ok (FFall d id Key par t)
  else if id =? L_CLOSE then
    do (r, t') <- push_end par t;
    Ok (FCont d (fst r) (snd r) t')
  else if id =? L_QUOTED then
    do (v, d2) <- read_scalar KQuoted d;
    let t := push t v in
    do (id2, d3) <- read_id d2;
    if id2 =? L_EQUAL then
      do (id3, d4) <- read_id d3;
      if id3 =? L_OPEN then
        let ind := length t in
        let t := push t (TArray par) in
        let par := ind in
        do (id4, d5) <- read_id d4;
        if tokenish fx id4 then
          let t := push t (TToken id4) in
          do (id5, d6) <- read_id d5;
          if id5 =? L_EQUAL then
            do t <- set_parent_to_object par t;
            do (id6, d7) <- read_id d6;
            if id6 =? L_BOOL then
              do (v, r) <- read_scalar KBool d7; Ok (FCont r Key par (push t v))
            else if id6 =? L_QUOTED then
              do (v, r) <- read_scalar KQuoted d7; Ok (FCont r Key par (push t v))
            else Ok (FFall d7 id6 ObjectValue par t)
          else Ok (FFall d6 id5 OpenSecond par t)
        else Ok (FFall d5 id4 OpenFirst par t)
      else Ok (FFall d4 id3 ObjectValue par t)
    else Ok (FFall d3 id2 KeyValueSeparator par t)
  else if id =? L_I32 then
    do (v, d2) <- read_scalar KI32 d;
    let t := push t v in
    do (id2, d3) <- read_id d2;
    if id2 =? L_EQUAL then
      do (id3, d4) <- read_id d3;
      if id3 =? L_I32 then
        do (v, r) <- read_scalar KI32 d4; Ok (FCont r Key par (push t v))
      else Ok (FFall d4 id3 ObjectValue par t)
    else Ok (FFall d3 id2 KeyValueSeparator par t)
  else Ok (FFall d id Key par t).

(* machine state between two iterations of 'outer *)
Record st := mkst { s_data : bytes; s_ps : pstate; s_par : nat; s_tape : tape }.

(* the I32 run inside an array (main match, ENABLE_OPTIMIZATION && state == ArrayValue) *)
Fixpoint i32_run (fuel : nat) (nd : bytes) (par : nat) (t : tape) : outcome st :=
  match fuel with
  | O => OutOfFuel
  | S f =>
    do (x, nd2) <- read_id nd;
    if x =? L_I32 then
      do (v, nd') <- read_scalar KI32 nd2;
      i32_run f nd' par (push t v)
    else if x =? L_CLOSE then
      do (r, t') <- push_end par t;
      Ok (mkst nd2 (fst r) (snd r) t')
    else Ok (mkst nd ArrayValue par t)
  end.

(* `match token_id`, in source order; RGB carries a guard *)
Inductive idclass := CU32 | CU64 | CI32 | CBool | CQuoted | CUnquoted | CF32 | CF64
                   | COpen | CClose | CEqual | CRgb | CI64 | COther.
Definition classify (id : N) : idclass :=
  if id =? L_U32 then CU32 else if id =? L_U64 then CU64 else if id =? L_I32 then CI32
  else if id =? L_BOOL then CBool else if id =? L_QUOTED then CQuoted
  else if id =? L_UNQUOTED then CUnquoted else if id =? L_F32 then CF32 else if id =? L_F64 then CF64
  else if id =? L_OPEN then COpen else if id =? L_CLOSE then CClose else if id =? L_EQUAL then CEqual
  else if id =? L_RGB then CRgb else if id =? L_I64 then CI64 else COther.

Definition is_array_or_end (x : tok) : bool :=
  match x with TArray _ | TEnd _ => true | _ => false end.

(* a scalar arm: data = parse_x(d)?; state = next_state(state) *)
Definition scalar_arm (k : skind) (d : bytes) (ps : pstate) (par : nat) (t : tape) : outcome st :=
  do (v, r) <- read_scalar k d;
  do ps' <- next_state ps;
  Ok (mkst r ps' par (push t v)).

(* the ObjectToArray rewrite followed by the main match *)
Definition slow (opt : bool) (d : bytes) (id : N) (ps : pstate) (par : nat) (t : tape) : outcome st :=
  do (ps, t) <- (match ps with
                 | ObjectToArray => do t' <- mixed_insert2 t; Ok (ArrayValueMixed, t')
                 | _ => Ok (ps, t) end);
  match classify id with
  | CU32 => scalar_arm KU32 d ps par t
  | CU64 => scalar_arm KU64 d ps par t
  | CI32 =>
    do s <- scalar_arm KI32 d ps par t;
    match opt, s_ps s with
    | true, ArrayValue => i32_run (S (length (s_data s))) (s_data s) par (s_tape s)
    | _, _ => Ok s
    end
  | CBool => scalar_arm KBool d ps par t
  | CQuoted => scalar_arm KQuoted d ps par t
  | CUnquoted => scalar_arm KUnquoted d ps par t
  | CF32 => scalar_arm KF32 d ps par t
  | CF64 => scalar_arm KF64 d ps par t
  | COpen =>
    if negb (is_key ps) then Ok (mkst d OpenFirst (length t) (push t (TArray par)))
    else match t with
         | [] => Err E_Syntax
         | _ => do (id2, nd) <- read_id d;
                if id2 =? L_CLOSE then Ok (mkst nd ps par t) else Err E_Syntax
         end
  | CClose =>
    do t <- (match ps with
             | KeyValueSeparator => mixed_insert1 t
             | ObjectValue => Err E_Syntax
             | _ => Ok t end);
    do (r, t') <- push_end par t;
    Ok (mkst d (fst r) (snd r) t')
  | CEqual =>
    match ps with
    | KeyValueSeparator => Ok (mkst d ObjectValue par t)
    | OpenSecond => do t' <- set_parent_to_object par t; Ok (mkst d ObjectValue par t')
    | ArrayValueMixed => Ok (mkst d ps par (push t TEqual))
    | ArrayValue =>
      match pop t with
      | None => OOB 350                       (* pop().unwrap_unchecked() *)
      | Some (t1, last) =>
        if is_array_or_end last then Err E_Syntax
        else if only_empties par t1 then
          do t2 <- set_parent_to_object par t1;
          (* ptr.add(parent_ind + 1).write(last); set_len(parent_ind + 2) *)
          Ok (mkst d ObjectValue par (push (firstn (S par) t2) last))
        else Ok (mkst d ArrayValueMixed par (push (push (push t1 TMixed) last) TEqual))
      end
    | _ => Err E_Syntax
    end
  | CRgb =>
    match ps with
    | ObjectValue => do (v, r) <- read_scalar KRgb d; Ok (mkst r Key par (push t v))
    | _ => do ps' <- next_state ps; Ok (mkst d ps' par (push t (TToken id)))
    end
  | CI64 => scalar_arm KI64 d ps par t
  | COther => do ps' <- next_state ps; Ok (mkst d ps' par (push t (TToken id)))
  end.

Inductive step :=
| Continue (s : st)
| Done (r : outcome tape).

Definition stop {A} (o : outcome A) : step :=
  match o with
  | Ok _ => Done (Panic 399)   (* never used on Ok *)
  | Err e => Done (Err e) | Panic s => Done (Panic s) | OOB s => Done (OOB s) | OutOfFuel => Done OutOfFuel
  end.

Definition finish (s : st) : outcome tape :=
  match s_par s, s_ps s with
  | O, Key => Ok (s_tape s)
  | _, _ => Err E_Eof
  end.

Definition after_fast (opt : bool) (r : outcome fres) : step :=
  match r with
  | Ok (FCont d ps par t) => Continue (mkst d ps par t)
  | Ok (FFall d id ps par t) =>
    match slow opt d id ps par t with
    | Ok s' => Continue s'
    | o => stop o
    end
  | o => stop o
  end.

(* one iteration of 'outer: while let Some((d, token_id)) = parse_next_id_opt(data) *)
Definition iter (fx opt : bool) (s : st) : step :=
  match get_split 2 (s_data s) with
  | None => Done (finish s)
  | Some (h, d) =>
    let id := le_word 2 h in
    after_fast opt
      (if opt && is_key (s_ps s) then key_fast fx d id (s_par s) (s_tape s)
       else Ok (FFall d id (s_ps s) (s_par s) (s_tape s)))
  end.

Fixpoint loop (fx opt : bool) (fuel : nat) (s : st) : outcome tape :=
  match fuel with
  | O => OutOfFuel
  | S f => match iter fx opt s with
           | Done r => r
           | Continue s' => loop fx opt f s'
           end
  end.

(* token_tape.clear(); state = Key; parent_ind = 0.  Every iteration consumes >= 2 bytes. *)
Definition init (d : bytes) : st := mkst d Key O [].
Definition parse (fx opt : bool) (d : bytes) : outcome tape := loop fx opt (S (length d)) (init d).

(* the code as it is: whether the three id-class tests exclude I64 is read off the source *)
Definition parse_opt (d : bytes) : outcome tape := parse fast_path_excludes_i64 true d.
Definition parse_ref (d : bytes) : outcome tape := parse false false d.

(* what C03 observes: the tape, or the fact of rejection *)
Inductive observation := Accepted (t : tape) | Rejected | Crashed.
Definition obs (r : outcome tape) : observation :=
  match r with Ok t => Accepted t | Err _ => Rejected | _ => Crashed end.
