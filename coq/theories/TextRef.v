(* C07 specification side: a buffer-free reference tokenizer for the text token reader and the
   buffer requirement [need] of an input.  No buffer, no window, no refill, no fast path: the
   tokenizer looks at the whole remaining input [s] and classifies its first *item*.

   [item start s] looks at the head of the remaining input:
     ISkip s' n   one whitespace byte, one comment (up to, not including, its newline), or the
                  UTF-8 byte order mark (only at the very start of the stream) is dropped;
     ITok t s' n  a token ended by a byte that is present in [s];
     ITokEof t n  an unquoted token ended by the end of the input;
     IEnd n       clean end of input (nothing left, or an unterminated comment);
     IEof k n     the input ends inside an atom: Eof error, [k] bytes remain unconsumed;
   [n] is the number of bytes a streaming reader must be able to hold to decide the item: the
   bytes of the atom that have to stay buffered (carry_over of next_opt_refill) plus the byte
   that decides it (for items ended by the end of the input: the byte that never comes). *)
From JV Require Import Bytes Tables U64Swar BufWin TextTok TextReader.
Open Scope nat_scope.

Inductive istep :=
| ISkip (s' : bytes) (n : nat)
| ITok (t : rtok) (s' : bytes) (n : nat)
| ITokEof (t : rtok) (n : nat)
| IEnd (n : nat)
| IEof (k : nat) (n : nat).

Definition bump_item (m : nat) (i : istep) : istep :=
  match i with
  | ISkip s' n => ISkip s' (Nat.max m n)
  | ITok t s' n => ITok t s' (Nat.max m n)
  | ITokEof t n => ITokEof t (Nat.max m n)
  | IEnd n => IEnd (Nat.max m n)
  | IEof k n => IEof k (Nat.max m n)
  end.

(* an unquoted scalar: the first byte is taken whatever it is, then up to the next boundary *)
Definition unq_item (s : bytes) : istep :=
  match find_from is_boundary (tl s) 0 with
  | Some k => ITok (RUnq (firstn (S k) s)) (skipn (S k) s) (S (S k))
  | None => ITokEof (RUnq s) (S (length s))
  end.

(* after the first byte of an operator; s' = the bytes after it *)
Definition op_item (s' : bytes) (single double : operator) : istep :=
  match s' with
  | [] => IEof 1 2
  | c :: s'' => if b_is c 61 then ITok (ROp double) s'' 2 else ITok (ROp single) s' 2
  end.

Definition item (start : bool) (s : bytes) : istep :=
  match s with
  | [] => IEnd 0
  | c :: s' =>
    if is_ws c then ISkip s' 1
    else if b_is c 35 then
      match find_from (fun x => b_is x 10) s' 0 with
      | None => IEnd (S (length s))
      | Some k => ISkip (skipn k s') (k + 2)
      end
    else if b_is c 123 then ITok ROpen s' 1
    else if b_is c 125 then ITok RClose s' 1
    else if b_is c 34 then
      match rq_scan s' 0 with
      | inl i => ITok (RQuo (firstn i s')) (skipn (S i) s') (S i)
      | inr _ => IEof (length s') (S (length s'))
      end
    else if b_is c 64 then
      match s' with
      | [] => IEof 1 2
      | c2 :: s'' =>
        if b_is c2 91 then
          match find_from (fun x => b_is x 93) s'' 0 with
          | None => IEof (length s) (S (length s))
          | Some k => ITok (RUnq (firstn (k + 3) s)) (skipn (k + 3) s) (k + 3)
          end
        else unq_item s
      end
    else if b_is c 61 then op_item s' Equal Exact
    else if b_is c 60 then op_item s' LessThan LessThanEqual
    else if b_is c 33 then op_item s' NotEqual NotEqual
    else if b_is c 63 then op_item s' Exists Exists
    else if b_is c 62 then op_item s' GreaterThan GreaterThanEqual
    else if b_is c 239 && start then
      match s' with
      | b1 :: b2 :: s3 =>
          if b_is b1 187 && b_is b2 191 then ISkip s3 3 else bump_item 3 (unq_item s)
      | _ => IEof (length s) (S (length s))
      end
    else unq_item s
  end.

(* next token: result and the largest [n] of the items looked at *)
Inductive tres := RTok (t : rtok) (s' : bytes) | REnd | REof (k : nat).

Definition bump (m : nat) (x : tres * nat) : tres * nat := (fst x, Nat.max m (snd x)).

Fixpoint tok1 (fuel : nat) (start : bool) (s : bytes) : tres * nat :=
  match fuel with
  | O => (REof 0, 0)
  | S f =>
    match item start s with
    | ISkip s' n => bump n (tok1 f false s')
    | ITok t s' n => (RTok t s', n)
    | ITokEof t n => (RTok t [], n)
    | IEnd n => (REnd, n)
    | IEof k n => (REof k, n)
    end
  end.
Definition tk (start : bool) (s : bytes) : tres * nat := tok1 (S (length s)) start s.

(* whole input: token list with its terminal event, number of bytes left unconsumed when the
   terminal event is reported, and the buffer requirement *)
Fixpoint ref_run (fuel : nat) (start : bool) (s : bytes) : list rout * nat * nat :=
  match fuel with
  | O => ([OCrash 7098%N], 0, 0)
  | S f =>
    match tk start s with
    | (RTok t s', n) => let '(l, rem, m) := ref_run f false s' in (OTok t :: l, rem, Nat.max n m)
    | (REnd, n) => ([OEnd], 0, n)
    | (REof k, n) => ([OErr E_Eof], k, n)
    end
  end.

Definition ref_tokens (input : bytes) : list rout * nat * nat := ref_run (S (length input)) true input.
Definition tokens_of (input : bytes) : list rout := fst (fst (ref_tokens input)).
Definition leftover (input : bytes) : nat := snd (fst (ref_tokens input)).
Definition need (input : bytes) : nat := snd (ref_tokens input).
Definition fits (cap : nat) (input : bytes) : Prop := need input <= cap.

(* schedules of the underlying Read without I/O failures *)
Definition no_fail (sch : list event) : Prop := ~ In Fail sch.
