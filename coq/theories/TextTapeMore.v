(* C01, wave 4 (a_c01): model additions, definitions only.

   1. The cfg(not(target_arch = x86_64)) variant of parse_quote_scalar (text/tape.rs:205-232): a
      u64 at a time, `contains_zero_byte(acc ^ repeat_byte(c))` with the real word arithmetic of
      util.rs (U64Swar.v), then the byte walk to the first quote byte.  On these targets split_at_scalar
      IS split_at_scalar_fallback (TextTape.split_at_scalar_fallback_idx).
      Run against the real code under Miri for a 32-bit x86 target (props/C01_more.py, stream nonx86).
   2. `norm_eq`: the document with the optional `=` before `{` made explicit everywhere (outside the
      key-value part of an array, where `=` is an operator token).  Two documents with the same
      normal form differ only in optional `=` signs.
   3. The pseudo token of an unterminated comment at the end of the input. *)
From JV Require Import Bytes Tables U64Swar TextTok TextTape TextDoc.
Open Scope nat_scope.

(* ------------------------------------------------------------------ 1. SWAR quote scanner *)
Inductive pqres := PQFound (i : nat) | PQFallback | PQRunaway.

(* blocks of 8 over the haystack while ptr < len/8*8 *)
Fixpoint pq_swar (fuel : nat) (h : bytes) (ptr : nat) : pqres :=
  match fuel with
  | O => PQFallback
  | S f =>
      if Nat.ltb ptr (length h / 8 * 8) then
        let blk := firstn 8 (skipn ptr h) in
        let acc := le_word 8 blk in
        if contains_zero_byte (N.lxor acc (repeat_byte 92)) then PQFallback
        else if contains_zero_byte (N.lxor acc (repeat_byte 34)) then
          (* byte walk `while *ptr != QUOTE { ptr = ptr.offset(1) }`: leaves the block (and the slice) if the word test lied *)
          match find_idx (fun b => beq b 34) blk ptr with
          | Some i => PQFound i
          | None => PQRunaway
          end
        else pq_swar f h (ptr + 8)
      else PQFallback
  end.

Definition parse_quote_scalar_swar (d : bytes) : outcome (bytes * bytes) :=
  match d with
  | [] => Panic 3002%N
  | _ :: h =>
      match pq_swar (S (length h)) h 0 with
      | PQFound i => Ok (firstn i h, skipn (S i) h)
      | PQRunaway => OOB 3003%N
      | PQFallback =>
          match tq_scan h 0 with
          | Some i => Ok (firstn i h, skipn (S i) h)
          | None => Err E_TextErr
          end
      end
  end.

(* split_at_scalar on the same targets *)
Definition split_at_scalar_plain (d : bytes) : outcome (bytes * bytes) :=
  match d with
  | [] => Panic 3001%N
  | _ => let i := split_at_scalar_fallback_idx d in Ok (firstn i d, skipn i d)
  end.

(* ------------------------------------------------------------------ 2. optional `=` before `{` *)
Definition ne_op (op : option operator) : option operator :=
  match op with None => Some Equal | _ => op end.

Fixpoint ne_value (v : value) : value :=
  match v with
  | VScalar k s => VScalar k s
  | VObject fs tl => VObject (ne_fields fs) (ne_values tl)
  | VArray items => VArray (ne_values items)
  | VArrayKv items kvs => VArrayKv (ne_values items) kvs
  | VHeader name v => VHeader name (ne_value v)
  end
with ne_field (f : field) : field :=
  match f with
  | Field k key op v => Field k key (ne_op op) (ne_value v)
  | ParamV name u s => ParamV name u s
  | ParamO name u fs => ParamO name u (ne_fields fs)
  end
with ne_fields (fs : fields) : fields :=
  match fs with FNil => FNil | FCons f fs' => FCons (ne_field f) (ne_fields fs') end
with ne_values (vs : values) : values :=
  match vs with VNil => VNil | VCons v vs' => VCons (ne_value v) (ne_values vs') end.

Definition norm_eq (d : doc) : doc := ne_fields d.

(* ------------------------------------------------------------------ 3. unterminated trailing comment *)
Definition comment_tok (body : bytes) : rtok := (35%N :: body, false).
