(* text/writer.rs: TextWriter.  Faithful executable model, no proofs.

   The writer owns a `W: Write`; here W = Vec<u8> (never fails), so every operation returns the
   bytes it appended.  `?` propagation is modelled literally: an error keeps the state reached
   and the bytes written so far (wres).  The only error the writer itself raises is StackEmpty
   (class 1) in write_end.  Panic sites: 1 = WRITE_STATE_NEXT index / discriminant,
   10 = tokens[i] index (dom.rs), 11 = unreachable!() in write_value, 12 = Option::unwrap in the
   header arm, 13 = debug_assert!(false) in FieldsIter::next (debug profile only).

   Float Display is an ORACLE: a Section variable [fdisp is64 bits precision] (contract stated in
   proofs/WriterProofs.v: the text is a non-empty run of non-boundary bytes); the executable side
   passes the text printed by the implementation in the case.  Integer printing (itoa / Display)
   is the obvious decimal function [Date.fmt_int 0]. *)
From JV Require Import Bytes Tables TextTok Date.
Open Scope N_scope.

(* ---------------------------------------------------------------- state *)
Inductive dmode := DObject | DArray.
Inductive mmode := MDisabled | MStarted | MKeyed.
Inductive wstate := WError | WKey | WObjectValue | WKeyValueSeparator | WArrayValue
                  | WArrayValueFirst | WFirstKey | WFirstUnknown | WSecondUnknown.

(* discriminants and tables are generated from writer.rs (Tables.v) *)
Definition ws_code (s : wstate) : N :=
  match s with
  | WError => WS_Error | WKey => WS_Key | WObjectValue => WS_ObjectValue
  | WKeyValueSeparator => WS_KeyValueSeparator | WArrayValue => WS_ArrayValue
  | WArrayValueFirst => WS_ArrayValueFirst | WFirstKey => WS_FirstKey
  | WFirstUnknown => WS_FirstUnknown | WSecondUnknown => WS_SecondUnknown
  end.
Definition all_wstates : list wstate :=
  [WError; WKey; WObjectValue; WKeyValueSeparator; WArrayValue; WArrayValueFirst; WFirstKey; WFirstUnknown; WSecondUnknown].
Definition ws_of_code (c : N) : option wstate := find (fun s => ws_code s =? c) all_wstates.
Definition ws_in (l : list N) (s : wstate) : bool := existsb (N.eqb (ws_code s)) l.

(* WRITE_STATE_NEXT[self.state as usize] *)
Definition ws_next (s : wstate) : outcome wstate :=
  match nth_error write_state_next (N.to_nat (ws_code s)) with
  | Some c => match ws_of_code c with Some s' => Ok s' | None => Panic 1 end
  | None => Panic 1
  end.
Definition no_data_yet (s : wstate) : bool := ws_in ws_no_data s.

Record cfg := mkcfg { indent_char : N; indent_factor : N; dbg : bool }.
Record wr := mkwr { w_mode : dmode; w_depth : list dmode (* head = top of the Vec *);
                    w_state : wstate; w_nlt : bool; w_mixed : mmode }.

(* TextWriterBuilder::from_writer *)
Definition wr_init : wr := mkwr DObject [] WKey false MDisabled.

Definition set_state (w : wr) (s : wstate) : wr := mkwr (w_mode w) (w_depth w) s (w_nlt w) (w_mixed w).
Definition set_mode (w : wr) (m : dmode) : wr := mkwr m (w_depth w) (w_state w) (w_nlt w) (w_mixed w).
Definition set_nlt (w : wr) (b : bool) : wr := mkwr (w_mode w) (w_depth w) (w_state w) b (w_mixed w).
Definition set_mixed (w : wr) (m : mmode) : wr := mkwr (w_mode w) (w_depth w) (w_state w) (w_nlt w) m.
Definition set_depth (w : wr) (d : list dmode) : wr := mkwr (w_mode w) d (w_state w) (w_nlt w) (w_mixed w).

(* state queries *)
Definition q_depth (w : wr) : N := lenN (w_depth w).
Definition q_expecting_key (w : wr) : bool := ws_in ws_expecting_key (w_state w).
Definition q_at_unknown_start (w : wr) : bool := ws_in ws_at_unknown_start (w_state w).
Definition q_at_array_value (w : wr) : bool := ws_in ws_at_array_value (w_state w).

(* ---------------------------------------------------------------- results with `?` semantics *)
Inductive wres :=
| WOk (w : wr) (out : bytes)
| WErr (w : wr) (out : bytes) (e : N)
| WCrash (panic : bool) (site : N)     (* panic = true: Panic, false: OutOfFuel *)
.
Definition wbind (r : wres) (f : wr -> wres) : wres :=
  match r with
  | WOk w o => match f w with
               | WOk w' o' => WOk w' (o ++ o')
               | WErr w' o' e => WErr w' (o ++ o') e
               | WCrash p s => WCrash p s
               end
  | other => other
  end.
Notation "'wdo' w <- a ; b" := (wbind a (fun w => b)) (at level 200, w name, a at level 100, b at level 200).
Definition emit (w : wr) (b : bytes) : wres := WOk w b.

Definition mmode_eqb (a b : mmode) : bool :=
  match a, b with MDisabled, MDisabled | MStarted, MStarted | MKeyed, MKeyed => true | _, _ => false end.

Definition SP : N := 32.
Definition NL : N := 10.
Definition EQ : N := 61.
Definition QUOTE : N := 34.
Definition BSLASH : N := 92.
Definition LBRACE : N := 123.
Definition RBRACE : N := 125.

(* write_indent: self.indents.get(..n) (the precomputed cache) or the byte-by-byte slow path *)
Definition write_indent (c : cfg) (w : wr) : bytes :=
  let n := (length (w_depth w) * N.to_nat (indent_factor c))%nat in
  if N.of_nat n <=? writer_indent_cache
  then firstn n (repeat (indent_char c) (N.to_nat writer_indent_cache))
  else repeat (indent_char c) n.

(* write_line_terminator + write_preamble *)
Definition write_preamble (c : cfg) (w : wr) : wres :=
  let jw := w_nlt w in
  let lt := if jw then [NL] else [] in
  let w1 := set_nlt w false in
  match w_state w with
  | WArrayValue | WSecondUnknown =>
      if jw then emit w1 (lt ++ write_indent c w1)
      else if mmode_eqb (w_mixed w1) MKeyed then emit (set_mixed w1 MStarted) lt
      else emit w1 (lt ++ [SP])
  | WKey => emit w1 (lt ++ write_indent c w1)
  | WKeyValueSeparator => emit w1 (lt ++ [EQ])
  | s => if no_data_yet s then emit w1 (lt ++ write_indent c w1) else emit w1 lt
  end.

Definition wstate_eqb (a b : wstate) : bool := ws_code a =? ws_code b.

(* write_epilogue *)
Definition write_epilogue (w : wr) : wres :=
  match ws_next (w_state w) with
  | Ok s => emit (set_nlt (set_state w s) (wstate_eqb s WKey)) []
  | _ => WCrash true 1
  end.

(* preamble; raw bytes; epilogue -- write_unquoted, write_fmt and every write!(self, ..) *)
Definition write_raw (c : cfg) (w : wr) (data : bytes) : wres :=
  wdo w1 <- write_preamble c w; wdo w2 <- emit w1 data; write_epilogue w2.

(* escape(): first loop finds the first byte that needs escaping; the tail is re-written with a
   backslash before every backslash / quote; one trailing newline is dropped. *)
Definition needs_esc (b : N) : bool := (b =? BSLASH) || (b =? QUOTE).
Fixpoint esc_body (d : bytes) : bytes :=      (* data[i..len-1] loop *)
  match d with
  | [] => []
  | x :: r => (if needs_esc x then [BSLASH; x] else [x]) ++ esc_body r
  end.
Fixpoint find_esc (d : bytes) (i : nat) : option nat :=
  match d with
  | [] => None
  | x :: r => if needs_esc x then Some i else find_esc r (S i)
  end.
Definition escape (data : bytes) : bytes :=
  match find_esc data 0 with
  | Some i =>
      let head := firstn i data in
      let mid := esc_body (firstn (length data - 1 - i) (skipn i data)) in
      let tail := match last (map Some data) None with
                  | Some l => if l =? NL then [] else (if needs_esc l then [BSLASH; l] else [l])
                  | None => []
                  end in
      head ++ mid ++ tail
  | None =>
      match last (map Some data) None with
      | Some l => if l =? NL then removelast data else data
      | None => data
      end
  end.

Definition write_quoted (c : cfg) (w : wr) (data : bytes) : wres :=
  wdo w1 <- write_preamble c w; wdo w2 <- emit w1 ([QUOTE] ++ escape data ++ [QUOTE]); write_epilogue w2.

(* write_escaped_quotes (private; used by write_tape: tape scalars are already escaped) *)
Definition write_escaped_quotes (c : cfg) (w : wr) (data : bytes) : wres :=
  wdo w1 <- write_preamble c w; wdo w2 <- emit w1 ([QUOTE] ++ data ++ [QUOTE]); write_epilogue w2.

Definition write_start (c : cfg) (w : wr) : wres :=
  wdo w1 <- write_preamble c w;
  emit (mkwr DArray (w_mode w1 :: w_depth w1) WFirstUnknown true (w_mixed w1)) [LBRACE].
Definition write_object_start (c : cfg) (w : wr) : wres :=
  wdo w1 <- write_start c w; emit (set_state (set_mode w1 DObject) WFirstKey) [].
Definition write_array_start (c : cfg) (w : wr) : wres :=
  wdo w1 <- write_start c w; emit (set_state (set_mode w1 DArray) WArrayValueFirst) [].

Definition E_STACK_EMPTY : N := 1.
Definition write_end (c : cfg) (w : wr) : wres :=
  let old := w_state w in
  match w_depth w with
  | [] => WErr w [] E_STACK_EMPTY
  | m :: rest =>
      let w1 := mkwr m rest (match m with DObject => WKey | DArray => WArrayValue end) (w_nlt w) (w_mixed w) in
      let o := if no_data_yet old then [SP] else [NL] ++ write_indent c w1 in
      emit (set_mixed (set_nlt w1 true) MDisabled) (o ++ [RBRACE])
  end.

Definition write_operator (w : wr) (o : operator) : wres :=
  if mmode_eqb (w_mixed w) MDisabled
  then emit (set_state (set_mode w DObject) WObjectValue)
            (match o with Equal => [EQ] | _ => [SP] ++ op_symbol o ++ [SP] end)
  else emit (set_mixed w MKeyed) (op_symbol o).

Definition write_header (c : cfg) (w : wr) (h : bytes) : wres :=
  wdo w1 <- write_preamble c w; emit (set_state w1 WObjectValue) (h ++ [SP]).

Definition start_mixed_mode (w : wr) : wres := emit (set_mixed (set_mode w DArray) MStarted) [].

Definition dec_Z (z : Z) : bytes := fmt_int 0 z.
Definition dec_N' (n : N) : bytes := fmt_int 0 (Z.of_N n).

Definition RGB : bytes := [114; 103; 98].
Definition write_rgb (c : cfg) (w : wr) (r g b : N) (a : option N) : wres :=
  wdo w1 <- write_header c w RGB;
  wdo w2 <- write_array_start c w1;
  wdo w3 <- write_raw c w2 (dec_N' r);
  wdo w4 <- write_raw c w3 (dec_N' g);
  wdo w5 <- write_raw c w4 (dec_N' b);
  wdo w6 <- match a with Some x => write_raw c w5 (dec_N' x) | None => emit w5 [] end;
  write_end c w6.

(* {:x} of a u16 *)
Definition hex_digit (d : N) : N := if d <? 10 then 48 + d else 87 + d.
Fixpoint hex_fuel (fuel : nat) (n : N) (acc : bytes) : bytes :=
  match fuel with
  | O => acc
  | S f => let acc' := hex_digit (n mod 16) :: acc in if n <? 16 then acc' else hex_fuel f (n / 16) acc'
  end.
Definition hex_N (n : N) : bytes := hex_fuel 20 n [].
Definition UNKNOWN_PREFIX : bytes := [95; 95; 117; 110; 107; 110; 111; 119; 110; 95; 48; 120]. (* __unknown_0x *)
Definition YES : bytes := [121; 101; 115].
Definition NO : bytes := [110; 111].

(* binary/tape.rs BinaryToken, as far as write_binary looks at it *)
Inductive btok :=
| BArray (e : N) | BObject (e : N) | BMixed | BEqual | BEnd (e : N) | BBool (b : bool)
| BU32 (n : N) | BU64 (n : N) | BI64 (z : Z) | BI32 (z : Z)
| BQuoted (s : bytes) | BUnquoted (s : bytes) | BF32 (bits : N) | BF64 (bits : N)
| BToken (id : N) | BRgb (r g b : N) (a : option N).

(* the public API as a call alphabet *)
Inductive call :=
| CUnquoted (s : bytes) | CQuoted (s : bytes) | COperator (o : operator) | CHeader (s : bytes)
| CStart | CObjectStart | CArrayStart | CEnd | CBool (b : bool)
| CI32 (z : Z) | CU32 (n : N) | CU64 (n : N) | CI64 (z : Z)
| CF32 (bits : N) | CF64 (bits : N) | CF32p (bits prec : N) | CF64p (bits prec : N)
| CDate (wide : bool) (r : rawdate)
| CRgb (r g b : N) (a : option N)
| CMixed
| CFmt (s : bytes)                    (* write_fmt with already formatted text *)
| CBinary (t : btok).

Section WithFloatOracle.
  (* fdisp is64 bits precision = the text `{}` / `{:.p}` prints for the float with these bits *)
  Variable fdisp : bool -> N -> option N -> bytes.

  Definition write_binary (c : cfg) (w : wr) (t : btok) : wres :=
    match t with
    | BArray _ => write_array_start c w
    | BObject _ => write_object_start c w
    | BMixed => start_mixed_mode w
    | BEqual => write_operator w Equal
    | BEnd _ => write_end c w
    | BBool b => write_raw c w (if b then YES else NO)
    | BU32 n => write_raw c w (dec_N' n)
    | BU64 n => write_raw c w (dec_N' n)
    | BI64 z => write_raw c w (dec_Z z)
    | BI32 z => write_raw c w (dec_Z z)
    | BQuoted s => write_quoted c w s
    | BUnquoted s => write_raw c w s
    | BF32 b => write_raw c w (fdisp false b None)
    | BF64 b => write_raw c w (fdisp true b None)
    | BToken id => write_raw c w (UNKNOWN_PREFIX ++ hex_N id)
    | BRgb r g b a => write_rgb c w r g b a
    end.

  Definition step (c : cfg) (w : wr) (k : call) : wres :=
    match k with
    | CUnquoted s => write_raw c w s
    | CQuoted s => write_quoted c w s
    | COperator o => write_operator w o
    | CHeader s => write_header c w s
    | CStart => write_start c w
    | CObjectStart => write_object_start c w
    | CArrayStart => write_array_start c w
    | CEnd => write_end c w
    | CBool b => write_raw c w (if b then YES else NO)
    | CI32 z => write_raw c w (dec_Z z)
    | CU32 n => write_raw c w (dec_N' n)
    | CU64 n => write_raw c w (dec_N' n)
    | CI64 z => write_raw c w (dec_Z z)
    | CF32 b => write_raw c w (fdisp false b None)
    | CF64 b => write_raw c w (fdisp true b None)
    | CF32p b p => write_raw c w (fdisp false b (Some p))
    | CF64p b p => write_raw c w (fdisp true b (Some p))
    | CDate wide r => write_raw c w (game_fmt wide r)
    | CRgb r g b a => write_rgb c w r g b a
    | CMixed => start_mixed_mode w
    | CFmt s => write_raw c w s
    | CBinary t => write_binary c w t
    end.

  (* A call history: the writer stays usable after an error, so the run goes on.  The log holds,
     per call, whether it returned Err and the state afterwards (for the state queries). *)
  Fixpoint run_from (c : cfg) (w : wr) (calls : list call) : outcome (bytes * list (bool * wr)) :=
    match calls with
    | [] => Ok ([], [])
    | k :: rest =>
        match step c w k with
        | WOk w' o => do r <- run_from c w' rest; Ok (o ++ fst r, (false, w') :: snd r)
        | WErr w' o _ => do r <- run_from c w' rest; Ok (o ++ fst r, (true, w') :: snd r)
        | WCrash true s => Panic s
        | WCrash false _ => OutOfFuel
        end
    end.
  Definition run (c : cfg) (calls : list call) := run_from c wr_init calls.
End WithFloatOracle.

(* ---------------------------------------------------------------- write_tape over the DOM readers *)
Definition tget (t : ttape) (i : nat) : option ttok := nth_error t i.

(* dom.rs next_idx_header / next_idx / next_idx_values; None = tokens[idx] out of bounds (panic) *)
Definition next_idx_header (t : ttape) (idx : nat) : option nat :=
  match tget t idx with
  | Some (TArray e _) | Some (TObject e _) => Some (S e)
  | Some (TOperator _) | Some TMixedContainer => Some (idx + 2)%nat
  | Some _ => Some (S idx)
  | None => None
  end.
Fixpoint next_idx (fuel : nat) (t : ttape) (idx : nat) : outcome nat :=
  match fuel with
  | O => OutOfFuel
  | S f =>
      match tget t idx with
      | Some (TArray e _) | Some (TObject e _) => Ok (S e)
      | Some (TOperator _) => next_idx f t (S idx)
      | Some (THeader _) => match next_idx_header t (S idx) with Some n => Ok n | None => Panic 10 end
      | Some _ => Ok (S idx)
      | None => Panic 10
      end
  end.
Definition next_idx_values (t : ttape) (idx : nat) : option nat :=
  match tget t idx with
  | Some (TArray e _) | Some (TObject e _) => Some (S e)
  | Some _ => Some (S idx)
  | None => None
  end.

Definition crash_of {A} (o : outcome A) : wres :=
  match o with OutOfFuel => WCrash false 0 | Panic s | OOB s => WCrash true s | _ => WCrash true 0 end.

Definition PARAM_OPEN : bytes := [91; 91].           (* [[ *)
Definition PARAM_OPEN_NOT : bytes := [91; 91; 33].   (* [[! *)
Definition PARAM_HEAD_END : bytes := [93; 10].       (* ]\n *)
Definition RBRACKET : N := 93.

Inductive job :=
| JCore (ti ei : nat)       (* write_object_core over FieldsIter {token_ind, end_ind} *)
| JValue (vi : nat)         (* write_value of ValueReader {value_ind} *)
| JArrayLoop (ti ei : nat)  (* the `for value in array.values()` loop of write_array *).

Fixpoint wt (fuel : nat) (c : cfg) (t : ttape) (j : job) (w : wr) : wres :=
  match fuel with
  | O => WCrash false 0
  | S f =>
    match j with
    | JCore ti ei =>
        if (ei <=? ti)%nat then emit w [] else
        match tget t ti with
        | None => WCrash true 10
        | Some ktok =>
          let is_key := match ktok with TQuoted _ | TUnquoted _ | TParameter _ | TUndefinedParameter _ => true | _ => false end in
          match ktok with
          | TMixedContainer => emit w []
          | _ =>
            if negb is_key then (if dbg c then WCrash true 13 else emit w []) else
            match tget t (S ti) with
            | None => WCrash true 10
            | Some nt =>
              let opv := match nt with TOperator o => (Some o, S (S ti)) | _ => (None, S ti) end in
              let op := fst opv in let vi := snd opv in
              match next_idx f t vi with
              | Ok nti =>
                let wop (w : wr) := match op with Some o => write_operator w o | None => emit w [] end in
                let param (open : bytes) (x : bytes) :=
                  wdo w1 <- write_preamble c w;
                  wdo w2 <- emit w1 (open ++ x ++ PARAM_HEAD_END);
                  wdo w3 <- match tget t vi with
                            | None => WCrash true 10
                            | Some (TObject e _) =>
                                wdo a <- wt f c t (JCore (S vi) e) w2; emit a ([NL] ++ write_indent c a)
                            | Some (TArray e _) =>
                                wdo a <- wt f c t (JCore e e) w2; emit a ([NL] ++ write_indent c a)
                            | Some _ => wt f c t (JValue vi) w2
                            end;
                  emit w3 [RBRACKET] in
                let this :=
                  match ktok with
                  | TParameter x => param PARAM_OPEN x
                  | TUndefinedParameter x => param PARAM_OPEN_NOT x
                  | TQuoted x =>
                      wdo w1 <- write_escaped_quotes c w x; wdo w2 <- wop w1; wt f c t (JValue vi) w2
                  | TUnquoted x =>
                      wdo w1 <- write_raw c w x; wdo w2 <- wop w1; wt f c t (JValue vi) w2
                  | _ => emit w []
                  end in
                wdo w' <- this; wt f c t (JCore nti ei) w'
              | o => crash_of o
              end
            end
          end
        end
    | JValue vi =>
        match tget t vi with
        | None => WCrash true 10
        | Some (TArray e _) =>
            wdo w1 <- write_array_start c w; wdo w2 <- wt f c t (JArrayLoop (S vi) e) w1; write_end c w2
        | Some (TObject e _) =>
            wdo w1 <- write_object_start c w; wdo w2 <- wt f c t (JCore (S vi) e) w1; write_end c w2
        | Some TMixedContainer => start_mixed_mode w
        | Some (TUnquoted x) => write_raw c w x
        | Some (TQuoted x) => write_escaped_quotes c w x
        | Some (TParameter _) | Some (TUndefinedParameter _) | Some (TEnd _) => WCrash true 11
        | Some (TOperator o) =>
            if mmode_eqb (w_mixed w) MDisabled then emit w ([SP] ++ op_symbol o)
            else emit (set_mixed w MKeyed) (op_symbol o)
        | Some (THeader x) =>
            (* read_array(): ArrayReader {start = vi, end = next_idx(vi + 1)}; values.next().unwrap() twice *)
            match next_idx f t (S vi) with
            | Ok e =>
                wdo w1 <- write_header c w x;
                if negb (vi <? e)%nat then WCrash true 12 else
                match next_idx_values t vi with
                | None => WCrash true 10
                | Some ti2 =>
                    if negb (ti2 <? e)%nat then WCrash true 12 else
                    match next_idx_values t ti2 with
                    | None => WCrash true 10
                    | Some _ => wt f c t (JValue ti2) w1
                    end
                end
            | o => crash_of o
            end
        end
    | JArrayLoop ti ei =>
        if (ti <? ei)%nat then
          match next_idx_values t ti with
          | None => WCrash true 10
          | Some nti => wdo w1 <- wt f c t (JValue ti) w; wt f c t (JArrayLoop nti ei) w1
          end
        else emit w []
    end
  end.

(* write_tape: ObjectReader::new = {start 0, end tokens.len()} *)
Definition write_tape (fuel : nat) (c : cfg) (t : ttape) : wres :=
  wt fuel c t (JCore 0 (length t)) wr_init.

Definition tape_fuel (t : ttape) : nat := (4 * length t + 16)%nat.
