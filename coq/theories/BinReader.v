(* binary/reader.rs: TokenReader over BufWin (buffer.rs) and the scheduled Read.
   State = (window, underlying reader).  The data still to be lexed is always
   [win b ++ rest r]; the methods only ever look at [win b].
   next / refill_next (mutual recursion in the code: next -> refill_next -> next ...), read_bytes
   and skip_container are one-iteration step functions driven by BinLexer.run_steps.
   skip_container's `loop { while let Ok(..) = read_id(window) {..; break on short payload};
   fill_buf }` is the flat loop "consume one item from the window if it is complete, otherwise
   fill_buf" -- same sequence of advance/fill_buf calls.
   Error classes: E_LexEof / E_InvalidRgb (ReaderErrorKind::Lexer), E_Io (Read), E_BufferFull.
   buffer.rs: when the unconsumed window already fills a non-empty buffer fill_buf answers
   BufferFull (FillFull), so a token larger than the buffer surfaces as E_BufferFull; Ok(0) in
   that situation only for the slice-backed window (cap 0).
   No proofs in this file. *)
From JV Require Import Bytes Tables BinPrim BufWin BinLexer.
Open Scope nat_scope.

Definition rstate := (bufwin * rd)%type.

Definition rdr_new (cap : nat) (sched : list event) (d : bytes) : rstate :=
  (bw_new cap, mkrd d sched 0 0).
(* TokenReader::from_slice: the window is the slice, the buffer is empty (cap 0): fill_buf = Ok(0) *)
Definition rdr_from_slice (d : bytes) : rstate := (bw_from_slice d, mkrd [] [] 0 0).

Definition rdr_position (s : rstate) : nat := bw_position (fst s).
(* the bytes not yet consumed *)
Definition rdr_pending (s : rstate) : bytes := win (fst s) ++ rest (snd s).

(* the three-way answer of fill_buf as the callers match on it *)
Inductive fill_class := FcZero (s : rstate) | FcMore (s : rstate) | FcErr (e : N) (s : rstate).
Definition rdr_fill (s : rstate) : fill_class :=
  match bw_fill_buf (fst s) (snd s) with
  | FillOk n b' r' => if Nat.eqb n 0 then FcZero (b', r') else FcMore (b', r')
  | FillIo b' r' => FcErr E_Io (b', r')
  | FillFull b' r' => FcErr E_BufferFull (b', r')
  end.

(* self.buf.advance_to(p) where p is [used] bytes after start *)
Definition rdr_advance {A} (s : rstate) (used : nat) (k : rstate -> A) (crash : outcome unit -> A) : A :=
  match bw_advance (fst s) used with
  | Ok b' => k (b', snd s)
  | o => crash (recast o)
  end.

(* ---------- next / refill_next ---------- *)
Definition rdr_next_step (s : rstate) : rstate + (outcome (option btoken) * rstate) :=
  let w := win (fst s) in
  match read_token w with
  | Ok (t, w') =>
      rdr_advance s (length w - length w') (fun s' => inr (Ok (Some t), s')) (fun o => inr (recast o, s))
  | Err e =>
      if (e =? E_LexEof)%N then
        (* refill_next *)
        match rdr_fill s with
        | FcZero s' => if Nat.eqb (bw_window_len (fst s')) 0 then inr (Ok None, s') else inr (Err E_LexEof, s')
        | FcMore s' => inl s'
        | FcErr e' s' => inr (Err e', s')
        end
      else inr (Err e, s)
  | o => inr (recast o, s)
  end.

(* every non-final iteration takes at least one byte from the underlying reader *)
Definition rdr_fuel (s : rstate) : nat := S (length (win (fst s)) + 2 * length (rest (snd s))).

Definition rdr_next (s : rstate) : outcome (option btoken) * rstate :=
  match run_steps rdr_next_step (rdr_fuel s) s with
  | Some r => r
  | None => (OutOfFuel, s)
  end.

(* read(): next()?.ok_or_else(Eof) *)
Definition rdr_read (s : rstate) : outcome btoken * rstate :=
  match rdr_next s with
  | (Ok (Some t), s') => (Ok t, s')
  | (Ok None, s') => (Err E_LexEof, s')
  | (o, s') => (recast o, s')
  end.

(* ---------- read_bytes ---------- *)
Definition rdr_read_bytes_step (n : nat) (s : rstate) : rstate + (outcome bytes * rstate) :=
  if Nat.ltb (bw_window_len (fst s)) n then
    match rdr_fill s with
    | FcZero s' => inr (Err E_LexEof, s')
    | FcMore s' => inl s'
    | FcErr e s' => inr (Err e, s')
    end
  else
    rdr_advance s n (fun s' => inr (Ok (firstn n (win (fst s))), s')) (fun o => inr (recast o, s)).

Definition rdr_read_bytes (n : nat) (s : rstate) : outcome bytes * rstate :=
  match run_steps (rdr_read_bytes_step n) (rdr_fuel s) s with
  | Some r => r
  | None => (OutOfFuel, s)
  end.

(* ---------- skip_container ---------- *)
(* data.get(n..) *)
Definition get_from (n : nat) (d : bytes) : option bytes :=
  if Nat.leb n (length d) then Some (skipn n d) else None.

Definition rdr_skip_step (st : nat * rstate) : (nat * rstate) + (outcome unit * rstate) :=
  let '(depth, s) := st in
  let w := win (fst s) in
  let adv (used : nat) (depth' : nat) := rdr_advance s used (fun s' => inl (depth', s')) (fun o => inr (o, s)) in
  let fill :=
    match rdr_fill s with
    | FcZero s' => inr (Err E_LexEof, s')
    | FcMore s' => inl (depth, s')
    | FcErr e s' => inr (Err e, s')
    end in
  let fixed (n : nat) (data : bytes) :=
    match get_from n data with Some d => adv (length w - length d) depth | None => fill end in
  match read_id w with
  | Ok (id, data) =>
      if (id =? L_CLOSE)%N then
        rdr_advance s (length w - length data)
          (fun s' => if Nat.eqb depth 1 then inr (Ok tt, s') else inl (depth - 1, s'))
          (fun o => inr (o, s))
      else if (id =? L_OPEN)%N then adv (length w - length data) (S depth)
      else if (id =? L_BOOL)%N then fixed 1 data
      else if ((id =? L_F32) || (id =? L_U32) || (id =? L_I32))%N then fixed 4 data
      else if ((id =? L_F64) || (id =? L_I64) || (id =? L_U64))%N then fixed 8 data
      else if ((id =? L_QUOTED) || (id =? L_UNQUOTED))%N then
        match read_string data with
        | Ok (_, d) => adv (length w - length d) depth
        | _ => fill
        end
      else adv (length w - length data) depth
  | _ => fill
  end.

Definition rdr_skip_container (s : rstate) : outcome unit * rstate :=
  match run_steps rdr_skip_step (rdr_fuel s) (1, s) with
  | Some r => r
  | None => (OutOfFuel, s)
  end.

(* ---------- whole-stream run ---------- *)
Fixpoint stream_run (fuel : nat) (s : rstate) : run_res :=
  match fuel with
  | O => ([], (OutOfFuel, rdr_position s))
  | S f =>
      match rdr_next s with
      | (Ok (Some t), s') => let '(ts, e) := stream_run f s' in (t :: ts, e)
      | (Ok None, s') => ([], (Ok tt, rdr_position s'))
      | (o, s') => ([], (recast o, rdr_position s'))
      end
  end.

Definition run_stream (cap : nat) (sched : list event) (d : bytes) : run_res :=
  stream_run (S (length d)) (rdr_new cap sched d).

Definition run_slice_reader (d : bytes) : run_res := stream_run (S (length d)) (rdr_from_slice d).

Fixpoint no_fail (sched : list event) : bool :=
  match sched with
  | [] => true
  | Fail :: _ => false
  | Data _ :: r => no_fail r
  end.
