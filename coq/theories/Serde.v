(* Shapes, values and the scalar level of the serde deserializers.

   prim         what a jomini deserializer hands to the visitor (visit_bool / visit_i32,i64 / visit_u32,u64 /
                visit_str,string / visit_unit)
   coerce       serde's own primitive visitors (trusted library behaviour, exercised by correspondence):
                an integer target accepts any integer visit that is in range, bool only bool, String only str
   text_scalar  text ValueDeserializer / TextReaderTokenDeserializer: a typed hint parses the scalar with
                Scalar.to_u64 / to_i64 / to_bool and FALLS BACK to deserialize_any (= visit_str of the decoded
                bytes) when that fails (src/text/de.rs:1195-1316, 309-396); decode is a parameter (Encoding)
   bin_scalar   the three binary deserializers' `deser`: the token's own type decides the visit, hints do not
                convert (src/binary/de.rs)
   spec_struct  a struct target = Derive.visit over the object's fields (unknown dropped, missing Option = None) *)
From JV Require Import Bytes Scalar Derive.
Open Scope N_scope.

Inductive prim :=
| PBool (b : bool)
| PI (z : Z)            (* visit_i32 / visit_i64 *)
| PU (n : N)            (* visit_u32 / visit_u64 / visit_u16 *)
| PStr (s : bytes)      (* visit_str / visit_borrowed_str / visit_string: UTF-8 bytes *)
| PUnit.

Inductive sshape :=
| SStr | SBool
| SU (bits : N)         (* u8 u16 u32 u64 *)
| SI (bits : N)         (* i8 i16 i32 i64 *)
| SAny | SIgnore.

Inductive value :=
| VStr (s : bytes) | VBool (b : bool) | VU (n : N) | VI (z : Z)
| VUnit | VIgn | VNone | VSome (v : value)
| VSeq (vs : list value)
| VStruct (fields : list (list value)).    (* per declared field: one value, or the collected ones *)

Definition E_DE : N := 1.      (* serde::de::Error::invalid_type / invalid_value *)

Definition coerce (sh : sshape) (p : prim) : outcome value :=
  match sh, p with
  | SIgnore, _ => Ok VIgn
  | SAny, PBool b => Ok (VBool b)
  | SAny, PI z => Ok (VI z)
  | SAny, PU n => Ok (VU n)
  | SAny, PStr s => Ok (VStr s)
  | SAny, PUnit => Ok VUnit
  | SStr, PStr s => Ok (VStr s)
  | SBool, PBool b => Ok (VBool b)
  | SU bits, PU n => if n <? 2 ^ bits then Ok (VU n) else Err E_DE
  | SU bits, PI z => if (0 <=? z)%Z && (Z.to_N z <? 2 ^ bits) then Ok (VU (Z.to_N z)) else Err E_DE
  | SI bits, PI z => if ((- Z.of_N (2 ^ (bits - 1)) <=? z) && (z <? Z.of_N (2 ^ (bits - 1))))%Z then Ok (VI z) else Err E_DE
  | SI bits, PU n => if n <? 2 ^ (bits - 1) then Ok (VI (Z.of_N n)) else Err E_DE
  | _, _ => Err E_DE
  end.

Section Text.
  Variable decode : bytes -> bytes.     (* Encoding::decode: raw scalar bytes -> UTF-8 *)

  (* deserialize_any on a scalar *)
  Definition text_any (raw : bytes) : prim := PStr (decode raw).

  Definition text_scalar (sh : sshape) (raw : bytes) : outcome value :=
    match sh with
    | SU _ => match to_u64 raw with Ok n => coerce sh (PU n) | _ => coerce sh (text_any raw) end
    | SI _ => match to_i64 raw with Ok z => coerce sh (PI z) | _ => coerce sh (text_any raw) end
    | SBool => match to_bool raw with Ok b => coerce sh (PBool b) | _ => coerce sh (text_any raw) end
    | SIgnore => Ok VIgn
    | _ => coerce sh (text_any raw)
    end.
End Text.

(* binary scalar tokens (payloads already decoded by the lexer, C03/C08) *)
Inductive btok := BI32 (z : Z) | BU32 (n : N) | BI64 (z : Z) | BU64 (n : N) | BBool (b : bool) | BStr (s : bytes).

Section Bin.
  Variable decode : bytes -> bytes.
  Definition bin_prim (t : btok) : prim :=
    match t with
    | BI32 z | BI64 z => PI z
    | BU32 n | BU64 n => PU n
    | BBool b => PBool b
    | BStr s => PStr (decode s)
    end.
  Definition bin_scalar (sh : sshape) (t : btok) : outcome value :=
    match sh with SIgnore => Ok VIgn | _ => coerce sh (bin_prim t) end.
End Bin.

(* a struct target over an object whose field values have been deserialized into the matched field's type *)
Definition spec_struct (specs : list (field_spec value)) (kvs : list (key * outcome value)) : outcome value :=
  do outs <- visit value specs kvs;
  Ok (VStruct (map (fun o => match o with OVal v => [v] | OVec vs => vs end) outs)).

(* Option<T> field: missing = None *)
Definition option_field (k : bytes) : field_spec value := mk_field k None Once (DefaultTo VNone).
