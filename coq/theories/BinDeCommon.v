(* What the three binary serde deserializers of src/binary/de.rs share: BinaryConfig (resolver,
   FailedResolveStrategy, flavor), the resolution of token ids, and ColorSequence (src/de.rs).

   resolver  a function N -> option bytes (HashMap<u16,String> / BasicTokenResolver: `get`)
   strategy  Error / Stringify (format!("0x{:x}", id)) / Ignore ("__internal_identifier_ignore")
   flavor    decode (Encoding::decode, an outcome: the decoders of Encoding.v have unchecked sites),
             visit_f32 / visit_f64 as functions from the payload bytes to the IEEE bits -- user code
             (trait BinaryFlavor), hence parameters
   No proofs in this file. *)
From JV Require Import Bytes Tables BinPrim SerdeShape.
Open Scope N_scope.

Inductive strategy := SError | SStringify | SIgnore.

Record bcfg := mkcfg {
  c_resolve : N -> option bytes;
  c_strategy : strategy;
  c_decode : bytes -> outcome bytes;
  c_f32 : bytes -> N;
  c_f64 : bytes -> N;
  c_fops : fops }.

(* resolver given as an association list (first match, like a map built by successive inserts
   read back to front: the glue reverses) *)
Fixpoint assoc_resolve (l : list (N * bytes)) (id : N) : option bytes :=
  match l with
  | [] => None
  | (k, v) :: r => if k =? id then Some v else assoc_resolve r id
  end.

Definition hex_digit (d : N) : N := if d <? 10 then 48 + d else 87 + d.
Fixpoint hex_fuel (fuel : nat) (n : N) (acc : bytes) : bytes :=
  match fuel with
  | O => acc
  | S f => let acc' := hex_digit (n mod 16) :: acc in
           if n / 16 =? 0 then acc' else hex_fuel f (n / 16) acc'
  end.
(* format!("0x{:x}", id) *)
Definition stringify_id (id : N) : bytes := [48; 120] ++ hex_fuel 16 id [].

(* "__internal_identifier_ignore" *)
Definition IGNORE_ID : bytes :=
  [95;95;105;110;116;101;114;110;97;108;95;105;100;101;110;116;105;102;105;101;114;95;105;103;110;111;114;101].
Definition RGB_NAME : bytes := [114; 103; 98].

Section Cfg.
  Variable cfg : bcfg.

  (* the `Token(s) / Id(s) / LexemeId(s)` arm shared by visit_key and both `deser` functions *)
  Definition id_prim (id : N) : outcome prim :=
    match c_resolve cfg id with
    | Some name => Ok (PStr name)
    | None => match c_strategy cfg with
              | SError => Err EC_UNKTOKEN
              | SStringify => Ok (PStr (stringify_id id))
              | SIgnore => Ok (PStr IGNORE_ID)
              end
    end.

  Definition str_prim (s : bytes) : outcome prim := do s' <- c_decode cfg s; Ok (PStr s').

  (* ---- ColorSequence / InnerColorSequence: every Deserializer method forwards to deserialize_any ---- *)
  Definition inner_elem (c : rgb) (sh : shape) (idx : nat) : outcome (option dval * nat) :=
    let n := match rgb_a c with Some _ => 4%nat | None => 3%nat end in
    if Nat.leb n idx then Ok (None, idx)
    else
      let idx' := S idx in
      do x <- (match idx' with
               | 1%nat => Ok (rgb_r c) | 2%nat => Ok (rgb_g c) | 3%nat => Ok (rgb_b c)
               | 4%nat => match rgb_a c with Some a => Ok a | None => Panic 9101 end
               | _ => Panic 9102
               end);
      do v <- visit_prim (c_fops cfg) sh (PU x);
      Ok (Some v, idx').

  Definition color_elem (c : rgb) (sh : shape) (idx : nat) : outcome (option dval * nat) :=
    if Nat.leb 2 idx then Ok (None, idx)
    else
      let idx' := S idx in
      if Nat.eqb idx' 1 then
        do v <- visit_prim (c_fops cfg) sh (PStr RGB_NAME); Ok (Some v, idx')
      else
        do (r, _) <- visit_seq (inner_elem c) 6 sh 0%nat; Ok (Some (fst r), idx').

  (* the visitor of Seed(sh) receives visit_seq(ColorSequence::new(c)) *)
  Definition color_visit (_ : nat) (sh : shape) (c : rgb) : outcome dval :=
    do (r, _) <- visit_seq (color_elem c) 4 sh 0%nat; Ok (fst r).
End Cfg.

(* error classes of the lexer / reader / tape parser -> classes of jomini::Error (errors.rs From impls) *)
Definition ec (e : N) : N :=
  if e =? 110 then EC_EOF            (* BinPrim.E_LexEof *)
  else if e =? 111 then EC_SYNTAX    (* BinPrim.E_InvalidRgb *)
  else if e =? 100 then EC_IO        (* BufWin.E_Io *)
  else if e =? 101 then EC_FULL      (* BufWin.E_BufferFull *)
  else if e =? 102 then EC_EOF       (* BufWin.E_Eof *)
  else if e =? 120 then EC_SYNTAX    (* BinTape.E_Syntax *)
  else e.

(* (result, state) pairs of the lexer/reader models as one outcome with the class translated *)
Definition lift {A St} (r : outcome A * St) : outcome (A * St) :=
  match fst r with
  | Ok a => Ok (a, snd r)
  | Err e => Err (ec e)
  | Panic s => Panic s
  | OOB s => OOB s
  | OutOfFuel => OutOfFuel
  end.

Fixpoint shape_size (sh : shape) : nat :=
  match sh with
  | ShOpt s | ShSeq s | ShMap s | ShProp s => S (shape_size s)
  | ShTup ss => S (fold_right (fun s n => shape_size s + n)%nat 0%nat ss)
  | ShStruct _ fs => S (fold_right (fun f n => shape_size (snd f) + n)%nat 0%nat fs)
  | _ => 1%nat
  end.

(* enough for every loop and every nesting level: each consumes at least two input bytes or one
   shape constructor *)
Definition deser_fuel (sh : shape) (d : bytes) : nat := (length d + shape_size sh + 8)%nat.
