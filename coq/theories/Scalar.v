(* scalar.rs: integer / bool conversions (to_f64 lives in ScalarF64.v, it needs Flocq). *)
From JV Require Import Bytes Tables.
Open Scope N_scope.

(* ScalarError classes *)
Definition E_AllDigits : N := 1.
Definition E_Overflow : N := 2.
Definition E_InvalidBool : N := 3.
Definition E_PrecisionLoss : N := 4.

Definition U64_LIM : N := 18446744073709551616. (* 2^64 *)
Definition I64_MAX : N := 9223372036854775807.

(* overflow_mul_add: overflowing_mul(10) | overflowing_add(digit) *)
Definition overflow_mul_add (acc digit : N) : outcome N :=
  let r1 := acc * 10 in
  let o1 := U64_LIM <=? r1 in
  let r1w := r1 mod U64_LIM in
  let r2 := r1w + digit in
  let o2 := U64_LIM <=? r2 in
  if o1 || o2 then Err E_Overflow else Ok r2.

(* to_u64_t2: accumulate leading digits, return the unread rest *)
Fixpoint to_u64_t2 (d : bytes) (acc : N) : outcome (N * bytes) :=
  match d with
  | [] => Ok (acc, [])
  | x :: r =>
      if is_digit x then
        match overflow_mul_add acc (x - 48) with
        | Ok v => to_u64_t2 r v
        | Err e => Err e
        | Panic s => Panic s | OOB s => OOB s | OutOfFuel => OutOfFuel
        end
      else Ok (acc, d)
  end.

(* to_u64_t: at least one byte must have been consumed ("left == d" is slice equality) *)
Definition to_u64_t (d : bytes) (start : N) : outcome (N * bytes) :=
  do (res, rest) <- to_u64_t2 d start;
  if beqb rest d then Err E_Overflow else Ok (res, rest).

Definition to_u64 (d : bytes) : outcome N :=
  match d with
  | [] => Err E_AllDigits
  | c :: data =>
      if is_digit c || (c =? 43) then
        let start := if is_digit c then c - 48 else 0 in
        do (res, rest) <- to_u64_t2 data start;
        match rest with [] => Ok res | _ => Err E_AllDigits end
      else Err E_AllDigits
  end.

Definition to_i64_t (d : bytes) : outcome (Z * bytes) :=
  match d with
  | [] => Err E_AllDigits
  | c :: data =>
      if is_digit c || (c =? 45) || (c =? 43) then
        let sign := if c =? 45 then (-1)%Z else 1%Z in
        let start := if is_digit c then c - 48 else 0 in
        do (val, rest) <- to_u64_t2 data start;
        if val <=? I64_MAX then Ok ((sign * Z.of_N val)%Z, rest) else Err E_Overflow
      else Err E_AllDigits
  end.

Definition to_i64 (d : bytes) : outcome Z :=
  do (res, rest) <- to_i64_t d;
  match rest with [] => Ok res | _ => Err E_AllDigits end.

Definition to_bool (d : bytes) : outcome bool :=
  match d with
  | [121; 101; 115] => Ok true
  | [110; 111] => Ok false
  | _ => Err E_InvalidBool
  end.
