(* The serde `Deserializer` impls of src/binary/de.rs and src/text/de.rs at DISPATCH level (engineer w_fwd, wave 5).

   Every deserializer X of the two files implements some `deserialize_<m>` explicitly and hands the rest to
   `serde::forward_to_deserialize_any! { .. }`.  The translator (tools/gen_de_methods.py, a block of gen_tables.py) turns
   every such impl into a table (Tables.de_tables): per explicit method the class of its body

       kind 0 FORWARD   `self.deserialize_<fb>(..)`                       kind 3 DIRECT  visit call(s), no fall-back
       kind 1 BASE      the base routine `self.deser(visitor)` / `visit_key(..)`     kind 4 COND    visit call(s) that depend on the
       kind 2 DISPATCH  deserialize_any with its own match on the token                               token, else fall-back fb
       kind 5 REFUSE    Err only                                           (fb = method | 254 base routine | 255 none)

   plus the forward list.  This file answers "what happens when a target asks method m of deserializer X":

     slot_of d m      explicit / forwarded / missing (serde's default body: only i128 / u128 have one)
     normal d m       forwarding chains resolved to a normal form  (FORWARD and the forward list are followed; a method
                      that is neither explicit nor listed is NfMissing; a cycle is NfLoop)
     predict d m t s  the visit calls a recording visitor sees for token kind t under resolve strategy s, and whether
                      the value was consumed exactly (the harness kinds de.meth.bin / de.meth.text observe exactly this
                      on the real code: harness/src/fam_dmeth.rs, stream `method_table` of props/C04_methods.py and
                      props/C02_methods.py).  The base routines / deserialize_any dispatches themselves (`deser`,
                      `visit_key`, the token matches) and the token kinds on which a shortcut fires are written here by
                      hand from the source; WHICH method reaches them comes from the generated table only.

   No proofs here (proofs/DeMethodsProofs.v, pinned in Props/C04_methods.v, Props/C02_methods.v). *)
From Coq Require Import List NArith Bool.
From JV Require Import Tables.
Import ListNotations.
Open Scope N_scope.

(* ---------------------------------------------------------------- codes (the comments of Tables.v) *)
Definition M_any : N := 0.          Definition M_bool : N := 1.         Definition M_i8 : N := 2.
Definition M_i16 : N := 3.          Definition M_i32 : N := 4.          Definition M_i64 : N := 5.
Definition M_i128 : N := 6.         Definition M_u8 : N := 7.           Definition M_u16 : N := 8.
Definition M_u32 : N := 9.          Definition M_u64 : N := 10.         Definition M_u128 : N := 11.
Definition M_f32 : N := 12.         Definition M_f64 : N := 13.         Definition M_char : N := 14.
Definition M_str : N := 15.         Definition M_string : N := 16.      Definition M_bytes : N := 17.
Definition M_byte_buf : N := 18.    Definition M_option : N := 19.      Definition M_unit : N := 20.
Definition M_unit_struct : N := 21. Definition M_newtype_struct : N := 22. Definition M_seq : N := 23.
Definition M_tuple : N := 24.       Definition M_tuple_struct : N := 25. Definition M_map : N := 26.
Definition M_struct : N := 27.      Definition M_enum : N := 28.        Definition M_identifier : N := 29.
Definition M_ignored_any : N := 30.

Definition all_methods : list N :=
  [0; 1; 2; 3; 4; 5; 6; 7; 8; 9; 10; 11; 12; 13; 14; 15; 16; 17; 18; 19; 20; 21; 22; 23; 24; 25; 26; 27; 28; 29; 30].
(* serde gives deserialize_i128 / deserialize_u128 a default body ("i128 is not supported"); the other 29 are required *)
Definition is_128 (m : N) : bool := (m =? M_i128) || (m =? M_u128).
Definition required_methods : list N := filter (fun m => negb (is_128 m)) all_methods.

(* deserializers *)
Definition D_bin_reader_root : N := 0.   Definition D_bin_reader_tok : N := 1.
Definition D_bin_ondemand_root : N := 2. Definition D_bin_ondemand_tok : N := 3.
Definition D_bin_tape_root : N := 4.     Definition D_bin_tape_key : N := 5.     Definition D_bin_tape_value : N := 6.
Definition D_text_reader_root : N := 10. Definition D_text_reader_tok : N := 11.
Definition D_text_tape_root : N := 12.   Definition D_text_tape_value : N := 13.
Definition D_text_static : N := 14.      Definition D_text_operator : N := 15.
Definition all_deserializers : list N := [0; 1; 2; 3; 4; 5; 6; 10; 11; 12; 13; 14; 15].
Definition root_deserializers : list N := [0; 2; 4; 10; 12].
Definition bin_value_deserializers : list N := [1; 3; 6].       (* what a VALUE (or array element) is handed to *)
Definition bin_key_deserializers : list N := [1; 3; 5].         (* what a KEY is handed to *)
Definition text_value_deserializers : list N := [11; 13].
Definition value_deserializers : list N := [1; 3; 6; 11; 13].

(* visit calls (Tables.v) *)
Definition V_bool : N := 0.   Definition V_i32 : N := 3.   Definition V_i64 : N := 4.   Definition V_u16 : N := 7.
Definition V_u32 : N := 8.    Definition V_u64 : N := 9.   Definition V_f32 : N := 11.  Definition V_f64 : N := 12.
Definition V_char : N := 13.  Definition V_str : N := 14.  Definition V_bytes : N := 15. Definition V_none : N := 16.
Definition V_some : N := 17.  Definition V_unit : N := 18. Definition V_newtype : N := 19. Definition V_seq : N := 20.
Definition V_map : N := 21.   Definition V_enum : N := 22.
Definition V_property : N := 23.   (* visit_map that depends on the NAME "_internal_jomini_property", not on the token *)

Definition FB_BASE : N := 254.

(* ---------------------------------------------------------------- the table *)
Definition entry : Type := (N * N * list N * bool * N)%type.
Definition e_method (e : entry) : N := match e with (m, _, _, _, _) => m end.

Definition table_of (d : N) : option (list entry * list N) :=
  match find (fun r => fst r =? d) de_tables with Some r => Some (snd r) | None => None end.

Inductive slot :=
| SExplicit (kind : N) (visits : list N) (skip : bool) (fb : N)
| SForwarded
| SMissing.

Definition mem (x : N) (l : list N) : bool := existsb (N.eqb x) l.

Definition slot_of (d m : N) : slot :=
  match table_of d with
  | None => SMissing
  | Some (ex, fw) =>
    match find (fun e => e_method e =? m) ex with
    | Some (_, k, vs, sk, fb) => SExplicit k vs sk fb
    | None => if mem m fw then SForwarded else SMissing
    end
  end.

Definition is_explicit (d m : N) : bool := match slot_of d m with SExplicit _ _ _ _ => true | _ => false end.
Definition is_forwarded (d m : N) : bool := match slot_of d m with SForwarded => true | _ => false end.
Definition is_missing (d m : N) : bool := match slot_of d m with SMissing => true | _ => false end.

(* ---------------------------------------------------------------- normal forms *)
Inductive nf :=
| NfBase                                        (* the base routine on the token: `deser` / `visit_key` *)
| NfDispatch (visits : list N) (base : bool)    (* deserialize_any's own match on the token *)
| NfDirect (visits : list N) (skip : bool)      (* a visit call whatever the token is *)
| NfCond (visits : list N) (skip : bool) (fb : nf)   (* a shortcut on matching tokens, else fb *)
| NfRefuse                                      (* Err *)
| NfMissing                                     (* serde's default body *)
| NfLoop.                                       (* a forwarding cycle *)

Fixpoint resolve (fuel : nat) (d m : N) : nf :=
  match fuel with
  | O => NfLoop
  | S f =>
    match slot_of d m with
    | SMissing => NfMissing
    | SForwarded => resolve f d M_any
    | SExplicit k vs sk fb =>
      if k =? 0 then resolve f d fb
      else if k =? 1 then NfBase
      else if k =? 2 then NfDispatch vs (fb =? FB_BASE)
      else if k =? 3 then NfDirect vs sk
      else if k =? 4 then NfCond vs sk (if fb =? FB_BASE then NfBase else resolve f d fb)
      else NfRefuse
    end
  end.

(* 31 methods: a chain longer than 32 is a cycle *)
Definition normal (d m : N) : nf := resolve 33 d m.

Fixpoint nf_eqb (a b : nf) : bool :=
  let leq := fix leq (x y : list N) : bool :=
    match x, y with [] , [] => true | p :: x', q :: y' => (p =? q) && leq x' y' | _, _ => false end in
  match a, b with
  | NfBase, NfBase | NfRefuse, NfRefuse | NfMissing, NfMissing | NfLoop, NfLoop => true
  | NfDispatch v1 b1, NfDispatch v2 b2 => leq v1 v2 && Bool.eqb b1 b2
  | NfDirect v1 s1, NfDirect v2 s2 => leq v1 v2 && Bool.eqb s1 s2
  | NfCond v1 s1 f1, NfCond v2 s2 f2 => leq v1 v2 && Bool.eqb s1 s2 && nf_eqb f1 f2
  | _, _ => false
  end.

(* does the chain of m pass through deserialize_any (the forward list, or FORWARD any)? *)
Fixpoint reaches_any (fuel : nat) (d m : N) : bool :=
  match fuel with
  | O => true
  | S f =>
    if m =? M_any then true else
    match slot_of d m with
    | SMissing => false
    | SForwarded => true
    | SExplicit k _ _ fb =>
      if k =? 0 then reaches_any f d fb
      else if k =? 4 then (if fb =? FB_BASE then false else reaches_any f d fb)
      else false
    end
  end.
Definition through_any (d m : N) : bool := reaches_any 33 d m.

(* ---------------------------------------------------------------- token kinds, heads, status *)
(* binary tokens *)
Definition T_idk : N := 0.      (* token id the resolver knows *)
Definition T_idu : N := 1.      (* token id the resolver does not know *)
Definition T_quoted : N := 2.   Definition T_unquoted : N := 3.
Definition T_i32 : N := 4.      Definition T_u32 : N := 5.     Definition T_u64 : N := 6.   Definition T_i64 : N := 7.
Definition T_bool : N := 8.     Definition T_f32 : N := 9.     Definition T_f64 : N := 10.
Definition T_rgb : N := 11.
Definition T_arr : N := 12.     (* { e1 e2 }: exactly two scalars *)
Definition T_empty : N := 13.   (* { } *)
Definition T_obj : N := 14.     (* { k = v .. }: not empty, every field written with `=` *)
(* text tokens: a scalar by what it parses as *)
Definition T_tint : N := 20.    (* decimal integer 0 <= n < 2^53: to_i64, to_u64, to_f64 succeed *)
Definition T_tneg : N := 21.    (* negative integer > -2^53: to_i64, to_f64 *)
Definition T_tbool : N := 22.   (* yes / no *)
Definition T_tfloat : N := 23.  (* digits.digits: to_f64 only *)
Definition T_tword : N := 24.   (* anything else *)
Definition T_tarr : N := 25.    (* { s1 s2 .. } *)
Definition T_tobj : N := 26.    (* { k = v .. } not empty *)

Definition bin_scalar_tokens : list N := [0; 1; 2; 3; 4; 5; 6; 7; 8; 9; 10].
Definition bin_value_tokens : list N := [0; 1; 2; 3; 4; 5; 6; 7; 8; 9; 10; 11; 12; 13; 14].
Definition text_scalar_tokens : list N := [20; 21; 22; 23; 24].
Definition text_value_tokens : list N := [20; 21; 22; 23; 24; 25; 26].
Definition strategies : list N := [0; 1; 2].     (* FailedResolveStrategy: 0 Error, 1 Stringify, 2 Ignore *)

(* what the recording visitor prints *)
Definition H_bool : N := 0.  Definition H_int : N := 1.   Definition H_u16 : N := 2.   Definition H_float : N := 3.
Definition H_char : N := 4.  Definition H_str : N := 5.   Definition H_bytes : N := 6. Definition H_none : N := 7.
Definition H_some : N := 8.  Definition H_unit : N := 9.  Definition H_newtype : N := 10. Definition H_seq : N := 11.
Definition H_map : N := 12.  Definition H_enum : N := 13.

Definition head_of_visit (v : N) : N :=
  if v =? V_bool then H_bool
  else if v =? V_u16 then H_u16
  else if v <=? 10 then H_int
  else if v <=? 12 then H_float
  else if v =? V_char then H_char
  else if v =? V_str then H_str
  else if v =? V_bytes then H_bytes
  else if v =? V_none then H_none
  else if v =? V_some then H_some
  else if v =? V_unit then H_unit
  else if v =? V_newtype then H_newtype
  else if v =? V_seq then H_seq
  else if v =? V_enum then H_enum
  else H_map.

(* status: 0 = Ok and the field after the value reads back; 1 = Err (or the reader is left inside the value) ; 2 = not modelled *)
Definition S_ok : N := 0.  Definition S_err : N := 1.  Definition S_unmodelled : N := 2.
Definition obs : Type := (list N * N)%type.

Definition is_bin (d : N) : bool := d <? 10.
Definition is_lexer (d : N) : bool := (d =? D_bin_reader_tok) || (d =? D_bin_ondemand_tok).
Definition bin_open (t : N) : bool := (t =? T_arr) || (t =? T_empty) || (t =? T_obj).
Definition text_open (t : N) : bool := (t =? T_tarr) || (t =? T_tobj).
Definition text_scalar (t : N) : bool := (20 <=? t) && (t <=? 24).

(* the scalar visit of a binary token by its own kind (`deser` / `visit_key`), s = resolve strategy *)
Definition bin_scalar_visit (t s : N) : obs :=
  if t =? T_idk then ([H_str], S_ok)
  else if t =? T_idu then (if s =? 0 then ([], S_err) else ([H_str], S_ok))
  else if (t =? T_quoted) || (t =? T_unquoted) then ([H_str], S_ok)
  else if (t =? T_i32) || (t =? T_u32) || (t =? T_u64) || (t =? T_i64) then ([H_int], S_ok)
  else if t =? T_bool then ([H_bool], S_ok)
  else if (t =? T_f32) || (t =? T_f64) then ([H_float], S_ok)
  else ([], S_err).

(* a sequence visit of a container: the elements are read with deserialize_any.  The two lexer paths cannot tell an
   object from an array at `{`: the second element of an object is the `=` token, which their base routine refuses. *)
Definition seq_visit (d t : N) : obs :=
  if is_lexer d && (t =? T_obj) then ([H_seq], S_err) else ([H_seq], S_ok).

(* the base routine: BinaryReaderTokenDeserializer::deser / OndemandTokenDeserializer::deser / visit_key *)
Definition base (d t s : N) : obs :=
  if is_lexer d then
    (if (t =? T_rgb) || bin_open t then seq_visit d t else bin_scalar_visit t s)
  else if (d =? D_bin_tape_key) || (d =? D_bin_tape_value) then
    (if (t =? T_rgb) || bin_open t then ([], S_err) else bin_scalar_visit t s)
  else ([], S_unmodelled).

(* deserialize_any where it has its own match on the token *)
Definition dispatch (d t s : N) : obs :=
  if d =? D_bin_tape_value then
    (if (t =? T_arr) || (t =? T_empty) || (t =? T_rgb) then ([H_seq], S_ok)
     else if t =? T_obj then ([H_map], S_ok)
     else base d t s)
  else if d =? D_text_reader_tok then
    (if text_open t then ([H_seq], S_ok) else if text_scalar t then ([H_str], S_ok) else ([], S_unmodelled))
  else if d =? D_text_tape_value then
    (if t =? T_tarr then ([H_seq], S_ok) else if t =? T_tobj then ([H_map], S_ok)
     else if text_scalar t then ([H_str], S_ok) else ([], S_unmodelled))
  else if (d =? D_text_static) || (d =? D_text_operator) then ([H_str], S_ok)
  else base d t s.

(* on which tokens does a shortcut with visit v fire? *)
Definition fires1 (d v t : N) : bool :=
  if is_bin d then
    if v =? V_bool then t =? T_bool
    else if v =? V_i32 then t =? T_i32
    else if v =? V_u32 then t =? T_u32
    else if v =? V_u64 then t =? T_u64
    else if v =? V_i64 then t =? T_i64
    else if v =? V_f32 then t =? T_f32
    else if v =? V_f64 then t =? T_f64
    else if v =? V_str then (t =? T_quoted) || (t =? T_unquoted)
    else if v =? V_u16 then (t =? T_idk) || (t =? T_idu)
    else if v =? V_seq then (t =? T_rgb) || (t =? T_arr) || (t =? T_empty) || (is_lexer d && (t =? T_obj))
    else if v =? V_map then bin_open t
    else false
  else
    if v =? V_bool then t =? T_tbool
    else if v =? V_i64 then (t =? T_tint) || (t =? T_tneg)
    else if v =? V_u64 then t =? T_tint
    else if v =? V_f64 then (t =? T_tint) || (t =? T_tneg) || (t =? T_tfloat)
    else if (v =? V_str) || (v =? V_bytes) then text_scalar t
    else if (v =? V_map) || (v =? V_seq) then text_open t     (* tape: read_object / read_array succeed on both containers *)
    else false.

Definition first_firing (d : N) (vs : list N) (t : N) : option N := find (fun v => fires1 d v t) vs.

(* must the value be skipped before visit_unit, so that the reader stands behind it?
   reader paths: the token already carries its payload, only a container is still open; on-demand: the token is the
   2-byte id only, everything with a payload (all kinds but a token id) is still unread; tapes: nothing to skip *)
Definition needs_skip (d t : N) : bool :=
  if d =? D_bin_reader_tok then bin_open t
  else if d =? D_bin_ondemand_tok then negb ((t =? T_idk) || (t =? T_idu))
  else if d =? D_text_reader_tok then text_open t
  else false.

(* one direct visit v on token t; inner = what `deserialize_any` of the same deserializer gives (the recording visitor
   asks it of the deserializer handed to visit_some / visit_newtype_struct and of the enum's variant) *)
Definition direct (d v : N) (skip : bool) (t s : N) (inner : obs) : obs :=
  if (v =? V_some) || (v =? V_newtype) then (head_of_visit v :: fst inner, snd inner)
  else if v =? V_enum then
    (if (d =? D_text_tape_value) && negb (text_scalar t) then ([H_enum], S_unmodelled)
     else (H_enum :: fst inner, snd inner))
  else if v =? V_unit then ([H_unit], if needs_skip d t && negb skip then S_err else S_ok)
  else if v =? V_seq then
    (if is_bin d then seq_visit d t
     else if (d =? D_text_reader_tok) && text_scalar t then ([H_seq], S_err)   (* the FOLLOWING tokens are read as elements *)
     else ([H_seq], S_ok))
  else if (v =? V_map) || (v =? V_property) then
    (if t =? T_tarr then ([H_map], S_unmodelled)     (* a map asked of a text array: depends on the number of elements *)
     else ([H_map], S_ok))
  else ([head_of_visit v], S_ok).

Fixpoint eval_nf (d : N) (inner : obs) (n : nf) (t s : N) : obs :=
  match n with
  | NfBase => base d t s
  | NfDispatch _ _ => dispatch d t s
  | NfDirect vs sk => match vs with v :: _ => direct d v sk t s inner | [] => ([], S_unmodelled) end
  | NfCond vs sk fb =>
    match first_firing d vs t with
    | Some v => direct d v sk t s inner
    | None => eval_nf d inner fb t s
    end
  | NfRefuse | NfMissing | NfLoop => ([], S_err)
  end.

Fixpoint predict_f (fuel : nat) (d m t s : N) : obs :=
  match fuel with
  | O => ([], S_err)
  | S f => eval_nf d (predict_f f d M_any t s) (normal d m) t s
  end.

(* what the recording visitor sees when method m of deserializer d is asked on a token of kind t *)
Definition predict (d m t s : N) : obs := predict_f 4 d m t s.

Definition obs_eqb (a b : obs) : bool :=
  (fix leq (x y : list N) : bool :=
     match x, y with [], [] => true | p :: x', q :: y' => (p =? q) && leq x' y' | _, _ => false end) (fst a) (fst b)
  && (snd a =? snd b).

(* ---------------------------------------------------------------- the cells of the known findings *)
(* Q: unit / unit_struct on a value; R: i128 / u128 on a value; N: u16 on a token id in VALUE position; the other
   differences between the tape's ValueDeserializer and the two lexer deserializers are targets that do not fit the token:
   a container asked as something else (the lexer paths see `{`, the tape knows object from array) *)
Definition cell_Q (m : N) : bool := (m =? M_unit) || (m =? M_unit_struct).
Definition cell_R (m : N) : bool := is_128 m.
Definition cell_N (m t : N) : bool := (m =? M_u16) && ((t =? T_idk) || (t =? T_idu)).
(* P: newtype_struct / enum / option on a KEY *)
Definition cell_P (m : N) : bool := (m =? M_newtype_struct) || (m =? M_enum) || (m =? M_option).
(* does the target ask the token for something it can be?  An object only as a map / struct (or ignored): the recording
   visitor continues Option / newtype / enum with deserialize_any, and `any` on an object is outside the property (the lexer
   paths cannot tell `{ k = v }` from an array); an rgb value not as a map *)
Definition fits_token (m t : N) : bool :=
  if t =? T_obj then (m =? M_map) || (m =? M_struct) || (m =? M_ignored_any)
  else if t =? T_rgb then negb ((m =? M_map) || (m =? M_struct))
  else true.

(* all (method, token, strategy) cells of a token list *)
Definition cells (ms ts : list N) : list (N * N * N) :=
  flat_map (fun m => flat_map (fun t => map (fun s => (m, t, s)) strategies) ts) ms.

Definition agree3 (d1 d2 d3 : N) (c : N * N * N) : bool :=
  match c with (m, t, s) => obs_eqb (predict d1 m t s) (predict d2 m t s) && obs_eqb (predict d2 m t s) (predict d3 m t s) end.
Definition agree2 (d1 d2 : N) (c : N * N * N) : bool :=
  match c with (m, t, s) => obs_eqb (predict d1 m t s) (predict d2 m t s) end.

(* ---------------------------------------------------------------- text vs binary (C10) *)
(* "natural" cells: a method asked of the binary token and of the text scalar / container that render the same logical
   value: (method, binary token kind, text token kind).  Typed hints on the typed tokens (text scalars are untyped: under
   `any` they are strings, which is why the untyped methods are only paired with strings), sequences on arrays, maps on
   objects, ignored_any on everything. *)
Definition ints_signed : list N := [M_i8; M_i16; M_i32; M_i64].
Definition ints_unsigned : list N := [M_u8; M_u16; M_u32; M_u64].
Definition natural_cells : list (N * N * N) :=
  [(M_bool, T_bool, T_tbool)] ++
  flat_map (fun m => [(m, T_i32, T_tint); (m, T_u32, T_tint); (m, T_i64, T_tint); (m, T_u64, T_tint)]) (ints_signed ++ ints_unsigned) ++
  flat_map (fun m => [(m, T_i32, T_tneg); (m, T_i64, T_tneg)]) ints_signed ++
  flat_map (fun m => [(m, T_f32, T_tfloat); (m, T_f64, T_tfloat)]) [M_f32; M_f64] ++
  flat_map (fun m => [(m, T_quoted, T_tword); (m, T_unquoted, T_tword); (m, T_idk, T_tword)])
           [M_any; M_char; M_str; M_string; M_identifier; M_option; M_newtype_struct; M_enum] ++
  flat_map (fun m => [(m, T_arr, T_tarr)]) [M_any; M_seq; M_tuple; M_tuple_struct] ++
  flat_map (fun m => [(m, T_obj, T_tobj)]) [M_map; M_struct] ++
  flat_map (fun tb => map (fun tx => (M_ignored_any, tb, tx)) text_value_tokens) bin_value_tokens.
