(* C19 (text), strengthened disjunct (b) (audit/C19.md section 5, item S2).  Definitions only; the
   proofs are in proofs/TruncObjProofs.v, the statements in Props/C19_obj.v.

   [TextTrunc.consistent_tape F t], disjunct (b), says that the token F[p] of the complete tape
   that the truncated run auto-closed is "a container token" (Array or Object).  The parser only
   ever auto-closes at the end of the data in state Key, and in state Key (also
   KeyValueSeparator, ObjectValue) with parent p <> 0 the token at p is always an OBJECT (a
   container that turned out to be an array restores / switches to state ArrayValue, where the end
   of the data is an error).  [consistent_tape_obj] says so: F[p] = Object{..}.  Every other
   conjunct is literally that of [consistent_tape]. *)
From JV Require Import Bytes Tables TextTok TextTape TextTapeWf TextDoc TextTrunc.
Open Scope nat_scope.

Definition consistent_tape_obj (F t : ttape) : Prop :=
  prefix_cut t F \/
  exists p body,
    0 < p /\
    t = firstn p F ++ TObject (p + 1 + length body) false :: body ++ [TEnd p] /\
    length (firstn p F) = p /\
    (exists e m, nth_error F p = Some (TObject e m)) /\
    prefix_cut body (skipn (S p) F).

(* the result of parsing a truncated rendering of d *)
Definition consistent_obj (d : doc) (r : outcome (ttape * bool)) : Prop :=
  exists t b, r = Ok (t, b) /\ consistent_tape_obj (flatten d) t.
