(* src/binary/de.rs: BinaryDeserializer over a parsed BinaryTape (deserialize_tape / from_tape).

   The tape is immutable; every access object carries its own indices, so the walk's state is the
   cursor of the CURRENT access and a finished nested access hands control back to the cursor of
   its parent (tp_seq_exit / tp_map_exit return the outer state).

   state  = tcur: BinaryMap {tape_idx, end_idx, value_ind} / BinarySequence {idx, end_idx}
   token  = an index into the tape (KeyDeserializer.tape_idx / ValueDeserializer.value_ind)
   visit_key                                   tp_visit_key
   KeyDeserializer                             tp_dispatch true: deserialize_u16 on a Token gives the raw
                                               id, everything else forwards to visit_key
   ValueDeserializer                           tp_dispatch false: deserialize_any / _seq (tuple, tuple_struct)
                                               / _map (struct) / _ignored_any (visit_unit WITHOUT looking at
                                               the tape); every other method forwards to deserialize_any --
                                               so deserialize_u16 on a Token VALUE resolves the id, unlike the
                                               other two deserializers
   BinaryMap::next_key_seed / next_value_seed  tp_next_key / tp_next_value (`tokens[value_ind]` indexes
                                               unchecked: Panic when the key is the last token)
   BinarySequence::next_element_seed           tp_next_elem
   No proofs in this file. *)
From JV Require Import Bytes Tables BinPrim BinTape SerdeShape BinDeCommon.
Open Scope N_scope.

Record tcur := mkcur { t_idx : nat; t_end : nat; t_vind : nat }.

Section Tape.
  Variable cfg : bcfg.
  Variable tokens : tape.
  Notation act := (action tcur rgb).

  Definition tp_visit_key (i : nat) : outcome prim :=
    match nth_error tokens i with
    | None => Panic 9201                                  (* tokens[tape_idx] *)
    | Some t =>
      match t with
      | TObject _ | TArray _ | TEnd _ | TRgb _ => Err EC_DE
      | TMixed | TEqual => Ok PUnit
      | TBool x => Ok (PBool x)
      | TU32 x => Ok (PU x)
      | TU64 x => Ok (PU x)
      | TI64 x => Ok (PI64 x)
      | TI32 x => Ok (PI32 x)
      | TQuoted x | TUnquoted x => str_prim cfg x
      | TF32 x => Ok (PF32 (c_f32 cfg x))
      | TF64 x => Ok (PF64 (c_f64 cfg x))
      | TToken s => id_prim cfg s
      end
    end.

  Definition tp_key_prim (i : nat) (st : tcur) : outcome (act * tcur) :=
    do p <- tp_visit_key i; Ok (APrim p, st).

  Definition tp_any (i : nat) (st : tcur) : outcome (act * tcur) :=
    match nth_error tokens i with
    | None => Panic 9202
    | Some (TArray x) => Ok (ASeq (mkcur (S i) x 0), st)
    | Some (TRgb c) => Ok (AColor c, st)
    | Some (TObject x) => Ok (AMap (mkcur (S i) x 0), st)
    | Some (TEnd _) => Err EC_DE
    | Some _ => tp_key_prim i st
    end.

  Definition tp_dispatch (iskey : bool) (h : hint) (i : nat) (st : tcur) : outcome (act * tcur) :=
    if iskey then
      match h with
      | HU16 => match nth_error tokens i with
                | None => Panic 9203
                | Some (TToken x) => Ok (APrim (PU16 x), st)
                | Some _ => tp_key_prim i st
                end
      | _ => tp_key_prim i st
      end
    else
      match h with
      | HSeq => match nth_error tokens i with
                | None => Panic 9204
                | Some (TArray x) => Ok (ASeq (mkcur (S i) x 0), st)
                | Some (TRgb c) => Ok (AColor c, st)
                | Some _ => tp_key_prim i st
                end
      | HMap => match nth_error tokens i with
                | None => Panic 9205
                | Some (TObject x) | Some (TArray x) => Ok (AMap (mkcur (S i) x 0), st)
                | Some _ => tp_key_prim i st
                end
      | HIgnored => Ok (APrim PUnit, st)
      | _ => tp_any i st
      end.

  (* `match self.tokens[i] { Array(x) | Object(x) => x, _ => i }` *)
  Definition tp_skip (i : nat) : outcome nat :=
    match nth_error tokens i with
    | None => Panic 9206
    | Some (TArray x) | Some (TObject x) => Ok x
    | Some _ => Ok i
    end.

  Definition tp_next_elem (st : tcur) : outcome (option nat * tcur) :=
    if Nat.leb (t_end st) (t_idx st) then Ok (None, st)
    else do nk <- tp_skip (t_idx st);
         Ok (Some (t_idx st), mkcur (S nk) (t_end st) (t_vind st)).

  Definition tp_next_key (_ : bool) (st : tcur) : outcome (option nat * tcur) :=
    if Nat.ltb (t_idx st) (t_end st) then
      let vi := S (t_idx st) in
      do nk <- tp_skip vi;
      Ok (Some (t_idx st), mkcur (S nk) (t_end st) vi)
    else Ok (None, st).

  Definition tp_next_value (st : tcur) : outcome (nat * tcur) := Ok (t_vind st, st).

  Definition ops_tape : path_ops tcur nat rgb :=
    mkops tp_dispatch tp_next_elem (fun _ outer _ _ => Ok outer) (fun outer _ => Ok outer)
          tp_next_key tp_next_value (color_visit cfg).

  (* BinaryDeserializer::deserialize: BinaryMap::new(config, tokens, 0, tokens.len()) *)
  Definition deser_tokens (fuel : nat) (sh : shape) : outcome dval :=
    walk_root (c_fops cfg) ops_tape fuel sh (mkcur 0 (length tokens) 0).
End Tape.

(* BinaryTape::from_slice(data)? ; builder.deserialize_tape::<_, T>(&tape, resolver) *)
Definition deser_tape (cfg : bcfg) (sh : shape) (d : bytes) : outcome dval :=
  match parse_opt d with
  | Ok t => deser_tokens cfg t (deser_fuel sh d) sh
  | Err e => Err (ec e)
  | Panic s => Panic s
  | OOB s => OOB s
  | OutOfFuel => OutOfFuel
  end.
