(* C18, second part (model, no proofs).

   1. The attribute table of jomini_derive/src/lib.rs: what the proc-macro reads off ONE field of the
      struct it is applied to (the raw `#[jomini(..)]` arguments in source order, over all the
      attribute lists of the field, and the two facts it reads off the field's type), and the
      field_spec that the code it generates obeys.

      lib.rs                                              here
      --------------------------------------------------- ----------------------------------------
      is_duplicated   (any `duplicated` path)              a_duplicated
      is_take_last    (any `take_last` path)               a_take_last
      alias           (FIRST `alias = "str"`)              hd of a_aliases
      binary_token    (FIRST `token = int` that fits u16)  hd of a_tokens
      can_default: FIRST `default` meta: word / = "path"   a_default   (looked at first)
                   a path segment of the type is `Option`  a_option    (only without a default argument)
      can_deserialize_with                                 not here: it changes the value, not the
                                                           field semantics (the value type V is abstract;
                                                           the harness structs and the spec apply it)
      builder_fields: `if !is_duplicated(f)` first, then
                      `if !is_take_last(f)`                 dup_of_attrs (duplicated wins over take_last)
      field_extract  (Yes -> unwrap_or_default,
                      Path -> unwrap_or_else(path),
                      No -> missing_field)                  miss_of_attrs
      token_count > 0 && token_count < n -> panic!          macro_accepts

   2. The declarative reading of the property ([spec_visit]): what the statement of C18 promises,
      computed from the per-field occurrence sequences only. *)
From JV Require Import Bytes Derive.
From Coq Require Import Arith.

Inductive default_attr := DefAbsent | DefWord | DefPath.

Record field_attrs (V : Type) := mk_attrs {
  a_name : bytes;               (* the field's identifier *)
  a_aliases : list bytes;       (* every `alias = "…"` argument, source order *)
  a_tokens : list N;            (* every `token = …` argument that parses as u16, source order *)
  a_duplicated : bool;
  a_take_last : bool;
  a_option : bool;              (* the (outer) type path has a segment named Option *)
  a_default : default_attr;     (* the first `default` argument *)
  a_type_default : V;           (* <FieldType as Default>::default() *)
  a_path_default : V }.         (* what the `default = "path"` function returns *)
Arguments mk_attrs {V}.
Arguments a_name {V}.
Arguments a_aliases {V}.
Arguments a_tokens {V}.
Arguments a_duplicated {V}.
Arguments a_take_last {V}.
Arguments a_option {V}.
Arguments a_default {V}.
Arguments a_type_default {V}.
Arguments a_path_default {V}.

Section Macro.
  Variable V : Type.

  Definition key_of_attrs (a : field_attrs V) : bytes :=
    match a_aliases a with al :: _ => al | [] => a_name a end.

  Definition token_of_attrs (a : field_attrs V) : option N :=
    match a_tokens a with t :: _ => Some t | [] => None end.

  Definition dup_of_attrs (a : field_attrs V) : dup_policy :=
    if a_duplicated a then Duplicated else if a_take_last a then TakeLast else Once.

  Definition miss_of_attrs (a : field_attrs V) : miss_policy V :=
    match a_default a with
    | DefPath => DefaultTo (a_path_default a)
    | DefWord => DefaultTo (a_type_default a)
    | DefAbsent => if a_option a then DefaultTo (a_type_default a) else Required
    end.

  Definition spec_of_attrs (a : field_attrs V) : field_spec V :=
    mk_field (key_of_attrs a) (token_of_attrs a) (dup_of_attrs a) (miss_of_attrs a).

  Definition has_token (a : field_attrs V) : bool :=
    match a_tokens a with [] => false | _ => true end.

  (* the macro panics (compile error) when some but not all fields carry a token *)
  Definition macro_accepts (tbl : list (field_attrs V)) : bool :=
    let n := length (filter has_token tbl) in
    Nat.eqb n 0 || Nat.eqb n (length tbl).

  (* keys are requested through deserialize_u16 (token ids reach visit_u16) iff token_count > 0 *)
  Definition uses_token_keys (tbl : list (field_attrs V)) : bool :=
    negb (Nat.eqb (length (filter has_token tbl)) 0).

  (* the visitor generated for a struct, from its attribute table *)
  Definition visit_attrs (tbl : list (field_attrs V)) (kvs : list (key * outcome V)) : outcome (list (out V)) :=
    visit V (map spec_of_attrs tbl) kvs.
End Macro.

Section Spec.
  Variable V : Type.
  Notation fspec := (field_spec V).

  (* "any other field given twice is rejected as a duplicate" *)
  Definition twice (specs : list fspec) (kvs : list (key * outcome V)) (i : nat) : bool :=
    match dup_of V specs i with
    | Once => Nat.leb 2 (length (occ V specs i kvs))
    | _ => false
    end.
  Definition dup_clash (specs : list fspec) (kvs : list (key * outcome V)) : bool :=
    existsb (twice specs kvs) (seq 0 (length specs)).

  Definition miss_result (f : fspec) : outcome (out V) :=
    match f_miss f with DefaultTo v => Ok (OVal v) | Required => Err E_MISSING end.

  (* one field from the values of its occurrences (document order) *)
  Definition field_result (f : fspec) (vals : list V) : outcome (out V) :=
    match f_dup f with
    | Duplicated => Ok (OVec vals)
    | TakeLast => match rev vals with v :: _ => Ok (OVal v) | [] => miss_result f end
    | Once => match vals with v :: _ => Ok (OVal v) | [] => miss_result f end
    end.

  Fixpoint spec_fields (specs all : list fspec) (i : nat) (kvs : list (key * outcome V)) : outcome (list (out V)) :=
    match specs with
    | [] => Ok []
    | f :: r =>
      do o <- field_result f (okvals V (occ V all i kvs));
      do tl <- spec_fields r all (S i) kvs;
      Ok (o :: tl)
    end.

  (* the rearrangements of the input that the property quantifies over: generated by exchanging two
     neighbouring entries that do not belong to the same field (unknown fields move freely) *)
  Inductive reorder (specs : list fspec) : list (key * outcome V) -> list (key * outcome V) -> Prop :=
  | ro_refl : forall l, reorder specs l l
  | ro_swap : forall l1 k1 r1 k2 r2 l2,
      match_field V specs k1 <> match_field V specs k2 \/ match_field V specs k1 = None ->
      reorder specs (l1 ++ (k1, r1) :: (k2, r2) :: l2) (l1 ++ (k2, r2) :: (k1, r1) :: l2)
  | ro_trans : forall a b c, reorder specs a b -> reorder specs b c -> reorder specs a c.

  Definition spec_visit (specs : list fspec) (kvs : list (key * outcome V)) : outcome (list (out V)) :=
    if dup_clash specs kvs then Err E_DUP else spec_fields specs specs 0 kvs.
End Spec.
