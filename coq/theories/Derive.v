(* The visitor that #[derive(JominiDeserialize)] generates (jomini_derive/src/lib.rs), as a fold
   over the key/value list that a MapAccess delivers.

   generated code                                   model
   ------------------------------------------------ -------------------------------------------
   __FieldVisitor::visit_str  (alias replaces name)  key_matches (KStr s)  : s = f_key
   __FieldVisitor::visit_u16  (token attribute)      key_matches (KTok t)  : f_token = Some t
   `_ => __Field::__ignore` + next_value<IgnoredAny> find_field = None : the pair is skipped
   builder_init  (Option<T> = None / Vec default)    init
   builder_fields: duplicated  -> push               Duplicated
                   take_last   -> overwrite          TakeLast
                   otherwise   -> duplicate_field    Once   (the error is raised BEFORE the value
                                                             is deserialized)
   `#des?`  (the value's own Deserialize fails)      the pair carries [Err e]
   field_extract (declaration order, duplicated      extract
     fields skipped): unwrap_or_default / unwrap_or_else / missing_field
   The value type V is abstract (what T::deserialize returns); Option<T>, #[jomini(default)] and
   #[jomini(default = "f")] are all [DefaultTo v] with the respective v. *)
From JV Require Import Bytes.
From Coq Require Import Arith.

Inductive dup_policy := Once | Duplicated | TakeLast.
Inductive key := KStr (s : bytes) | KTok (t : N).

Inductive slot (V : Type) := SNone | SOne (v : V) | SMany (vs : list V).
Arguments SNone {V}.
Arguments SOne {V} v.
Arguments SMany {V} vs.

Inductive miss_policy (V : Type) := Required | DefaultTo (v : V).
Arguments Required {V}.
Arguments DefaultTo {V} v.

Record field_spec (V : Type) := mk_field {
  f_key : bytes;              (* alias if present, the field's name otherwise *)
  f_token : option N;         (* #[jomini(token = ..)] *)
  f_dup : dup_policy;
  f_miss : miss_policy V }.
Arguments mk_field {V}.
Arguments f_key {V}.
Arguments f_token {V}.
Arguments f_dup {V}.
Arguments f_miss {V}.

Definition E_DUP : N := 101.       (* serde::de::Error::duplicate_field *)
Definition E_MISSING : N := 102.   (* serde::de::Error::missing_field *)

Section Derive.
  Variable V : Type.
  Notation fspec := (field_spec V).

  Definition key_matches (f : fspec) (k : key) : bool :=
    match k with
    | KStr s => beqb s (f_key f)
    | KTok t => match f_token f with Some t' => N.eqb t t' | None => false end
    end.

  (* the generated `match` takes the first arm that fits *)
  Fixpoint find_field (specs : list fspec) (k : key) (i : nat) : option nat :=
    match specs with
    | [] => None
    | f :: r => if key_matches f k then Some i else find_field r k (S i)
    end.
  Definition match_field (specs : list fspec) (k : key) : option nat := find_field specs k 0.

  Definition state := nat -> slot V.

  Definition dup_of (specs : list fspec) (i : nat) : dup_policy :=
    match nth_error specs i with Some f => f_dup f | None => Once end.

  Definition init (specs : list fspec) : state :=
    fun i => match dup_of specs i with Duplicated => SMany [] | _ => SNone end.

  Definition upd (st : state) (i : nat) (s : slot V) : state :=
    fun j => if Nat.eqb j i then s else st j.

  Definition is_set (s : slot V) : bool := match s with SOne _ => true | _ => false end.

  Definition push (s : slot V) (v : V) : slot V :=
    match s with SMany l => SMany (l ++ [v]) | _ => SMany [v] end.

  Fixpoint visit_loop (specs : list fspec) (st : state) (kvs : list (key * outcome V)) : outcome state :=
    match kvs with
    | [] => Ok st
    | (k, r) :: rest =>
      match match_field specs k with
      | None => visit_loop specs st rest
      | Some i =>
        match dup_of specs i with
        | Once =>
          if is_set (st i) then Err E_DUP
          else do v <- r; visit_loop specs (upd st i (SOne v)) rest
        | TakeLast => do v <- r; visit_loop specs (upd st i (SOne v)) rest
        | Duplicated => do v <- r; visit_loop specs (upd st i (push (st i) v)) rest
        end
      end
    end.

  (* one output entry per declared field *)
  Inductive out := OVal (v : V) | OVec (vs : list V).

  Fixpoint extract_from (specs : list fspec) (st : state) (i : nat) : outcome (list out) :=
    match specs with
    | [] => Ok []
    | f :: r =>
      match f_dup f with
      | Duplicated =>
        do tl <- extract_from r st (S i);
        Ok (OVec (match st i with SMany l => l | _ => [] end) :: tl)
      | _ =>
        match st i with
        | SOne v => do tl <- extract_from r st (S i); Ok (OVal v :: tl)
        | _ =>
          match f_miss f with
          | DefaultTo v => do tl <- extract_from r st (S i); Ok (OVal v :: tl)
          | Required => Err E_MISSING
          end
        end
      end
    end.
  Definition extract (specs : list fspec) (st : state) : outcome (list out) := extract_from specs st 0.

  Definition visit (specs : list fspec) (kvs : list (key * outcome V)) : outcome (list out) :=
    do st <- visit_loop specs (init specs) kvs; extract specs st.

  (* ---- vocabulary of the statements ---- *)
  (* the results of the occurrences of field i, in document order *)
  Fixpoint occ (specs : list fspec) (i : nat) (kvs : list (key * outcome V)) : list (outcome V) :=
    match kvs with
    | [] => []
    | (k, r) :: rest =>
      match match_field specs k with
      | Some j => if Nat.eqb j i then r :: occ specs i rest else occ specs i rest
      | None => occ specs i rest
      end
    end.

  Fixpoint okvals (l : list (outcome V)) : list V :=
    match l with
    | [] => []
    | Ok v :: r => v :: okvals r
    | _ :: r => okvals r
    end.

  (* every value that belongs to a declared field deserializes *)
  Definition values_ok (specs : list fspec) (kvs : list (key * outcome V)) : Prop :=
    forall i r, In r (occ specs i kvs) -> exists v, r = Ok v.

  (* what one more occurrence does to a slot *)
  Definition step (d : dup_policy) (s : slot V) (v : V) : slot V :=
    match d with Duplicated => push s v | _ => SOne v end.
End Derive.

Arguments OVal {V} v.
Arguments OVec {V} vs.
