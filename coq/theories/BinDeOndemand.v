(* src/binary/de.rs: OndemandBinaryDeserializer (deserialize_slice / from_slice) over the Lexer.

   state  = the Lexer cursor (BinLexer.lexer)        token = the LexemeId just read (payload NOT read)
   OndemandTokenDeserializer::deser            od_deser
   the typed methods (deserialize_bool, ...)   od_dispatch: the hinted payload read when the token
                                               has the hinted type, `deser` otherwise
   deserialize_ignored_any                     Lexer::skip_value(token), then visit_unit
   OndemandSeq::next_element_seed              od_next_elem; deserialize_seq's `if !seq.hit_end` od_seq_exit
   OndemandMap::next_key_seed                  od_next_key: Close ends, an Open in key position swallows
                                               ONE MORE ID whatever it is (`let _ = read_id()?`), Eof
                                               (fewer than two bytes left) ends the root map
   OndemandMap::next_value_seed                od_next_value: an optional Equal is stepped over
   No proofs in this file. *)
From JV Require Import Bytes Tables BinPrim BinLexer SerdeShape BinDeCommon.
Open Scope N_scope.

Section Ondemand.
  Variable cfg : bcfg.
  Notation act := (action lexer rgb).

  Definition od_prim {A} (f : A -> prim) (r : outcome A * lexer) : outcome (act * lexer) :=
    do (a, l') <- lift r; Ok (APrim (f a), l').

  Definition od_string (l : lexer) : outcome (act * lexer) :=
    do (s, l') <- lift (lx_read_string l);
    do p <- str_prim cfg s;
    Ok (APrim p, l').

  Definition od_rgb (l : lexer) : outcome (act * lexer) :=
    do (c, l') <- lift (lx_read_rgb l); Ok (AColor c, l').

  Definition od_deser (tok : N) (l : lexer) : outcome (act * lexer) :=
    if (tok =? L_QUOTED) || (tok =? L_UNQUOTED) then od_string l
    else if tok =? L_U32 then od_prim PU (lx_read_u32 l)
    else if tok =? L_I32 then od_prim PI32 (lx_read_i32 l)
    else if tok =? L_U64 then od_prim PU (lx_read_u64 l)
    else if tok =? L_I64 then od_prim PI64 (lx_read_i64 l)
    else if tok =? L_BOOL then od_prim PBool (lx_read_bool l)
    else if tok =? L_F32 then od_prim (fun x => PF32 (c_f32 cfg x)) (lx_read_f32 l)
    else if tok =? L_F64 then od_prim (fun x => PF64 (c_f64 cfg x)) (lx_read_f64 l)
    else if tok =? L_RGB then od_rgb l
    else if tok =? L_OPEN then Ok (ASeq l, l)
    else if (tok =? L_CLOSE) || (tok =? L_EQUAL) then Err EC_SYNTAX
    else do p <- id_prim cfg tok; Ok (APrim p, l).

  Definition od_dispatch (_ : bool) (h : hint) (tok : N) (l : lexer) : outcome (act * lexer) :=
    match h with
    | HBool => if tok =? L_BOOL then od_prim PBool (lx_read_bool l) else od_deser tok l
    | HU16 => if is_id tok then Ok (APrim (PU16 tok), l) else od_deser tok l
    | HI32 => if tok =? L_I32 then od_prim PI32 (lx_read_i32 l) else od_deser tok l
    | HU32 => if tok =? L_U32 then od_prim PU (lx_read_u32 l) else od_deser tok l
    | HU64 => if tok =? L_U64 then od_prim PU (lx_read_u64 l) else od_deser tok l
    | HI64 => if tok =? L_I64 then od_prim PI64 (lx_read_i64 l) else od_deser tok l
    | HF32 => if tok =? L_F32 then od_prim (fun x => PF32 (c_f32 cfg x)) (lx_read_f32 l) else od_deser tok l
    | HF64 => if tok =? L_F64 then od_prim (fun x => PF64 (c_f64 cfg x)) (lx_read_f64 l) else od_deser tok l
    | HString => if (tok =? L_QUOTED) || (tok =? L_UNQUOTED) then od_string l else od_deser tok l
    | HSeq => if tok =? L_OPEN then Ok (ASeq l, l)
              else if tok =? L_RGB then od_rgb l
              else od_deser tok l
    | HMap => if tok =? L_OPEN then Ok (AMap l, l) else od_deser tok l
    | HIgnored => do (_, l') <- lift (lx_skip_value tok l); Ok (APrim PUnit, l')
    | HAny | HSmall | HIdent => od_deser tok l
    end.

  Definition od_next_elem (l : lexer) : outcome (option N * lexer) :=
    do (tok, l') <- lift (lx_read_id l);
    if tok =? L_CLOSE then Ok (None, l') else Ok (Some tok, l').

  (* after visitor.visit_seq returned from deserialize_seq on an Open *)
  Definition od_seq_exit (h : hint) (_ sub : lexer) (drained : bool) : outcome lexer :=
    match h, drained with
    | HSeq, false => do (e, l') <- lift (lx_read_id sub);
                     if e =? L_CLOSE then Ok l' else Err EC_SYNTAX
    | _, _ => Ok sub
    end.

  Fixpoint od_key_loop (fuel : nat) (root : bool) (l : lexer) : outcome (option N * lexer) :=
    match fuel with
    | O => OutOfFuel
    | S f =>
      match lx_read_id l with
      | (Ok tok, l1) =>
        if tok =? L_CLOSE then Ok (None, l1)
        else if tok =? L_OPEN then
          do (_, l2) <- lift (lx_read_id l1); od_key_loop f root l2
        else Ok (Some tok, l1)
      | (Err e, l1) => if (e =? E_LexEof) && root then Ok (None, l1) else Err (ec e)
      | (o, l1) => lift (recast o : outcome (option N), l1)
      end
    end.
  Definition od_next_key (root : bool) (l : lexer) : outcome (option N * lexer) :=
    od_key_loop (S (length (lx_data l))) root l.

  Definition od_next_value (l : lexer) : outcome (N * lexer) :=
    do (tok, l1) <- lift (lx_read_id l);
    if tok =? L_EQUAL then lift (lx_read_id l1) else Ok (tok, l1).

  Definition ops_od : path_ops lexer N rgb :=
    mkops od_dispatch od_next_elem od_seq_exit (fun _ sub => Ok sub) od_next_key od_next_value (color_visit cfg).

  (* BinaryDeserializerBuilder::deserialize_slice::<_, T>(data, resolver) *)
  Definition deser_ondemand (sh : shape) (d : bytes) : outcome dval :=
    walk_root (c_fops cfg) ops_od (deser_fuel sh d) sh (lx_new d).
End Ondemand.
