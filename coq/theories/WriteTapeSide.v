(* C05 (write_tape entry point): the executable side condition under which TextWriter::write_tape
   provably cannot reach `unreachable!()` (site 11 of Writer.wt) on a well-formed tape.
   Definitions only, no proofs (proofs/NoCrashWriteTape.v); meant to be run as an oracle on every
   real tape next to TapeWf.tape_wfb.

   write_value panics on a Parameter / UndefinedParameter token in VALUE position.  TapeWf.tape_wf
   does not exclude that (TapeWf.is_key, hence value_end and is_leaf, accept the two parameter
   tokens anywhere a scalar may stand), although the parser only ever pushes them as KEYS
   (TextTape.parse_param).  [no_param_valuesb t] says exactly what is missing:

     - no field value of the top-level object or of any Object container, and
     - no item of any Array container (items of the array tail of a mixed array included)

   is a Parameter / UndefinedParameter token.  It is checked per container, like
   TapeWf.cont_okb (no recursion over the nesting): two linear walks, one over `(key [op] value)*`
   and one over the top-level items of a Dyck range. *)
From JV Require Import Bytes TextTok TapeWf.
Open Scope nat_scope.

Definition is_param (k : ttok) : bool :=
  match k with TParameter _ | TUndefinedParameter _ => true | _ => false end.

Definition param_at (t : ttape) (i : nat) : bool :=
  match tget t i with Some k => is_param k | None => false end.

(* the fields `(key [op] value)*` of the object body [i, e) (up to the MixedContainer marker, where
   FieldsIter stops): no value is a parameter token.  false on anything that is not a field list. *)
Fixpoint np_fieldsb (fuel : nat) (t : ttape) (i e : nat) : bool :=
  match fuel with
  | O => false
  | S f =>
      if Nat.leb e i then true
      else
        match tget t i with
        | Some TMixedContainer => true
        | Some k =>
            if is_key k then
              let v := value_ind_of t i in
              negb (param_at t v) &&
              match value_end t v with Some n => np_fieldsb f t n e | None => false end
            else false
        | None => false
        end
  end.

(* the top-level items of the array body [i, e), as ValuesIter steps over them (a container is
   one item, every other token -- a Header too -- is one item): none is a parameter token *)
Definition item_next (i : nat) (k : ttok) : nat :=
  match container_end k with Some e' => S e' | None => S i end.

Fixpoint np_itemsb (fuel : nat) (t : ttape) (i e : nat) : bool :=
  match fuel with
  | O => false
  | S f =>
      if Nat.leb e i then true
      else
        match tget t i with
        | Some k => negb (is_param k) && np_itemsb f t (item_next i k) e
        | None => false
        end
  end.

(* per container token *)
Definition np_contb (t : ttape) (i : nat) : bool :=
  let fuel := S (length t) in
  match tget t i with
  | Some (TObject e _) => np_fieldsb fuel t (S i) e
  | Some (TArray e _) => np_itemsb fuel t (S i) e
  | _ => true
  end.

Definition no_param_valuesb (t : ttape) : bool :=
  np_fieldsb (S (length t)) t 0 (length t) && forallb (np_contb t) (seq 0 (length t)).
