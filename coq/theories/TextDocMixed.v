(* C01, wave 5 (w_c01): the documents of TextDoc.v with CONTAINERS INSIDE MIXED REGIONS (classes E2 / E3 of
   audit/C01.md), definitions only.

   The grammar, `flatten` and `render` of TextDoc.v already describe these documents (a `VObject fs tail` whose
   tail holds containers, a `VArrayKv items kvs` whose key-value part has container values or whose first item
   is a container): what excluded them from C01_parse_render was only the hypothesis `wf_doc` (`wf_tail` /
   `wf_kvs` = scalars only, `first_item_scalar`).  So the "wrapper grammar" is the SAME inductive type with a
   WEAKER well-formedness predicate `wfm_*`: every `wf_doc` document is a `wf_doc_mixed` document (the embedding
   is the identity, proofs/TextMixedProofs.wf_wfm), and `TextDoc.flatten` / `TextDoc.render` -- the functions the
   correspondence check already runs against the real parser -- are the flatten / render of the extended class.

   What the parser (src/text/tape.rs) demands of a mixed region, and `wfm_*` therefore keeps:

   * object -> array tail (`a = { b = c d e { f } g }`): the first bare value is read in state Key and the second
     decides the switch (`d {` would be the field `d = {`): the first TWO tail values are scalars, what follows is
     free (`wfm_tail`);
   * a container inside a mixed region is opened in state ParseOpen with `mixed_mode = true`.  Only the arm
     "first token is a scalar" writes `parent.mixed = true` into the tape, and only then does the closing `}` of the
     nested container restore (ArrayValue, mixed) -- `{}`, `{ {` and `{ [[` leave the flag stale (class E6d, a
     second MixedContainer marker: watch list) or are rejected (`[[` in mixed mode).  Hence members of a mixed
     region are scalars or SCALAR-FIRST non-empty containers (`sf_container`, the `sf_container` of the Python
     generator);
   * key-value part of an array: `key op value` with an operator other than `?=` (finding Q-exists-op-lost), the
     value a scalar or a scalar-first container (`wfm_kvs`); the items before it are ordinary array items, the
     first one not the ghost `{}` (`first_item_not_ghost`), headers excluded as in every array (class E4).

   Still outside: headers inside arrays (E4, ambiguous text), `{}` / container-first containers inside a mixed
   region (E6d: stale flag), operators in an object tail (not expressible: `VObject`'s tail is a list of values). *)
From JV Require Import Bytes Tables TextTok TextTape TextDoc.
Open Scope nat_scope.

(* non-empty container whose first token after `{` is a scalar *)
Definition sf_container (v : value) : bool :=
  match v with
  | VObject (FCons (Field _ _ _ _) _) _ => true
  | VArray (VCons (VScalar _ _) _) => true
  | VArrayKv (VCons (VScalar _ _) _) _ => true
  | _ => false
  end.

(* what may stand inside a mixed region *)
Definition mixed_member (v : value) : bool := is_scalar v || sf_container v.

Fixpoint wfm_value (v : value) : bool :=
  match v with
  | VScalar k s => wf_scalar k s
  | VObject fs tl => first_field_ok fs && wfm_fields fs && wfm_tail tl
  | VArray items => first_item_not_ghost items && wfm_items items
  | VArrayKv items kvs =>
      values_nonempty items && first_item_not_ghost items && wfm_items items && kvs_nonempty kvs && wfm_kvs kvs
  | VHeader name v => wf_word name && is_container v && negb (is_empty_array v) && wfm_value v
  end
with wfm_field (f : field) : bool :=
  match f with
  | Field k key op v =>
      wf_scalar k key && wfm_value v &&
      match op with None => is_container v | Some _ => true end
  | ParamV name u s => wf_pname name && wf_word s
  | ParamO name u fs => wf_pname name && param_first_ok fs && param_first_word fs && wfm_fields fs
  end
with wfm_fields (fs : fields) : bool :=
  match fs with FNil => true | FCons f fs' => wfm_field f && wfm_fields fs' end
(* array items: no headers *)
with wfm_items (vs : values) : bool :=
  match vs with VNil => true | VCons v vs' => negb (is_header v) && wfm_value v && wfm_items vs' end
(* bare values after the fields of an object: two scalars open the tail, then scalars / scalar-first containers *)
with wfm_tail (vs : values) : bool :=
  match vs with
  | VNil => true
  | VCons v1 r =>
      is_scalar v1 && wfm_value v1 &&
      match r with
      | VNil => true
      | VCons v2 r2 => is_scalar v2 && wfm_value v2 && wfm_mitems r2
      end
  end
(* members of a mixed region *)
with wfm_mitems (vs : values) : bool :=
  match vs with VNil => true | VCons v vs' => mixed_member v && wfm_value v && wfm_mitems vs' end
(* key-value part of an array: an operator other than ?=, the value a member of a mixed region *)
with wfm_kvs (fs : fields) : bool :=
  match fs with
  | FNil => true
  | FCons (Field k key op v) fs' => wf_scalar k key && kv_op op && mixed_member v && wfm_value v && wfm_kvs fs'
  | FCons _ _ => false
  end.

Definition wf_doc_mixed (d : doc) : Prop := wfm_fields d = true.

(* does the document use what wf_doc excludes?  (evidence for the generator: the stream counts these) *)
Definition beyond_wf_doc (d : doc) : bool := wfm_fields d && negb (wf_fields d).
