(* BasicTokenResolver::from_text_lines (src/binary/resolver.rs) and TokenResolver::resolve.

     let mut lookup = HashMap::new();  let mut line = String::new();
     while reader.read_line(&mut line)? != 0 {
         let (num, text) = line.split_once(' ').ok_or_else(|| invalid_syntax(..))?;
         let z = u16::from_str_radix(num.trim_start_matches("0x"), 16).map_err(|_| invalid_syntax(..))?;
         lookup.insert(z, String::from(text.trim_ascii_end()));
         line.clear();
     }

   The reader is an in-memory byte slice (the harness passes `&[u8]`): `read_line` delivers the
   bytes up to and including the next LF (or up to the end of the data), fails with an io error
   (ErrorKind::InvalidData -> jomini ErrorKind::Io) when they are not well-formed UTF-8, and
   returns 0 only at the end of the data.  The lines are therefore the LF-terminated pieces of the
   input, taken in order; the first failing line decides the error.  The table is an association
   list, most recent insert first ([resolve] = first match = HashMap::insert semantics: a later line
   overrides an earlier one for the same id).  `pos` only feeds the error message and is not modelled.
   No proofs here; see proofs/ResolverProofs.v. *)
From JV Require Import Bytes Utf8.
Open Scope N_scope.

Definition E_Io : N := 100.        (* read_line: "stream did not contain valid UTF-8" *)
Definition E_Syntax : N := 120.    (* Error::invalid_syntax: no space / not a u16 in hex *)

Definition LF : N := 10.
Definition SP : N := 32.

(* the successive results of BufRead::read_line on a byte slice: every piece ends with its LF,
   except possibly the last one; no piece is empty *)
Fixpoint split_lines (d : bytes) : list bytes :=
  match d with
  | [] => []
  | b :: r =>
    if b =? LF then [b] :: split_lines r
    else match split_lines r with
         | [] => [[b]]
         | l :: ls => (b :: l) :: ls
         end
  end.

(* str::split_once(' '): around the first space *)
Fixpoint split_once_sp (l : bytes) : option (bytes * bytes) :=
  match l with
  | [] => None
  | b :: r =>
    if b =? SP then Some ([], r)
    else match split_once_sp r with
         | None => None
         | Some (a, t) => Some (b :: a, t)
         end
  end.

(* str::trim_start_matches("0x"): removes every leading repetition of the pattern *)
Fixpoint trim_0x (l : bytes) : bytes :=
  match l with
  | a :: ((b :: r) as t) => if (a =? 48) && (b =? 120) then trim_0x r else a :: t
  | _ => l
  end.

(* char::to_digit(16) on a byte widened to char *)
Definition hex_digit (b : N) : option N :=
  if (48 <=? b) && (b <=? 57) then Some (b - 48)
  else if (97 <=? b) && (b <=? 102) then Some (b - 87)
  else if (65 <=? b) && (b <=? 70) then Some (b - 55)
  else None.

(* the digit loop of u16::from_ascii_radix: InvalidDigit / PosOverflow both end as None.  (For at
   most 4 digits the real code skips the overflow checks because 4 hex digits cannot exceed u16;
   the result is the same.) *)
Fixpoint hex_acc (acc : N) (ds : bytes) : option N :=
  match ds with
  | [] => Some acc
  | b :: r =>
    match hex_digit b with
    | None => None
    | Some d => let acc' := acc * 16 + d in
                if 65535 <? acc' then None else hex_acc acc' r
    end
  end.

(* u16::from_str_radix(s, 16): "" is Empty, a lone sign is InvalidDigit, a leading '+' is
   skipped, '-' is not a sign for an unsigned type (it is then an invalid digit) *)
Definition u16_from_hex (s : bytes) : option N :=
  match s with
  | [] => None
  | [b] => if (b =? 43) || (b =? 45) then None else hex_acc 0 s
  | b :: r => if b =? 43 then hex_acc 0 r else hex_acc 0 s
  end.

(* u8::is_ascii_whitespace: space, \t, \n, form feed, \r (not vertical tab) *)
Definition is_ascii_ws (b : N) : bool :=
  (b =? 32) || (b =? 9) || (b =? 10) || (b =? 12) || (b =? 13).

(* str::trim_ascii_end *)
Fixpoint trim_ascii_end (l : bytes) : bytes :=
  match l with
  | [] => []
  | b :: r =>
    match trim_ascii_end r with
    | [] => if is_ascii_ws b then [] else [b]
    | t => b :: t
    end
  end.

Definition table := list (N * bytes).

(* one iteration of the loop body on the line that read_line delivered *)
Definition parse_line (line : bytes) : outcome (N * bytes) :=
  if valid_utf8 line then
    match split_once_sp line with
    | None => Err E_Syntax
    | Some (num, text) =>
      match u16_from_hex (trim_0x num) with
      | None => Err E_Syntax
      | Some z => Ok (z, trim_ascii_end text)
      end
    end
  else Err E_Io.

Fixpoint load_lines (ls : list bytes) (m : table) : outcome table :=
  match ls with
  | [] => Ok m
  | l :: r => do kv <- parse_line l; load_lines r (kv :: m)
  end.

Definition from_text_lines (d : bytes) : outcome table := load_lines (split_lines d) [].

(* TokenResolver::resolve / is_empty of the loaded table *)
Fixpoint resolve (m : table) (id : N) : option bytes :=
  match m with
  | [] => None
  | (k, v) :: r => if k =? id then Some v else resolve r id
  end.

Definition is_empty (m : table) : bool := match m with [] => true | _ => false end.

(* ---------- renderings of a table as token text lines ---------- *)
Definition hexchar (upper : bool) (d : N) : N :=
  if d <? 10 then 48 + d else if upper then 55 + d else 87 + d.

(* the [w] low hex digits of n, most significant first: format!("{:0w$x}") for n < 16^w *)
Fixpoint hexw (upper : bool) (w : nat) (n : N) : bytes :=
  match w with
  | O => []
  | S w' => hexw upper w' (n / 16) ++ [hexchar upper (n mod 16)]
  end.

(* a line `[0x]<hex id> <name>\n` *)
Definition render_line (pfx upper : bool) (w : nat) (kv : N * bytes) : bytes :=
  (if pfx then [48; 120] else []) ++ hexw upper w (fst kv) ++ [SP] ++ snd kv ++ [LF].

Definition render_lines (pfx upper : bool) (w : nat) (m : table) : bytes :=
  flat_map (render_line pfx upper w) m.

(* what the harness writes for a `lines:` resolver: format!("0x{:04x} {}\n", k, v) *)
Definition render_std (m : table) : bytes := render_lines true false 4 m.
