(* LOGICAL documents: the common source of a plaintext rendering (TextDoc) and of a binary rendering
   (BinDoc) -- the "logical document" of property C10.  Definitions only.

     lscalar   integer | boolean | string | date (Y.M.D) | float (numeral + the flavor payloads)
     lval      scalar | rgb colour | array | object = list of (key string, value), duplicates allowed
     ldoc      the fields of the root object

   to_text d       the TextDoc document: integers in decimal (`{}` of core::fmt = Date.fmt_int 0), yes/no,
                   strings unquoted or quoted (a quoted string has its double quotes and backslashes escaped), dates `Y.M.D`
                   or `Y.MM.DD`, `key = value` with the plain `=` operator, colours `rgb { r g b [a] }`
   to_bin e d      the BinDoc document under the ENCODING CHOICE e: per node (addressed by its path =
                   list of child indices) which integer token carries an integer (I32 / U32 / I64 / U64),
                   whether a string / a key is QUOTED, UNQUOTED or a token id, whether a date is an I32
                   (Date::to_binary) or a string, whether a float is F32 or F64, where ghost `{ }`
                   objects sit; colours are rgb blocks; booleans BOOL tokens
   enc_ok e d      the choice can express the document: the integer fits the chosen token, an id
                   resolves to the string the text decoder yields for the text rendering (a literal
                   string decodes to it under the flavor's decoder), lengths fit u16, ghosts only
                   where the format has them (never first in an object)
   shared s d      the target shape [s] reads [d] the same way from both renderings BY CONSTRUCTION of
                   the formats: exactly the (shape, value) combinations of the table in [scalar_shared]
                   (e.g. a string target on an integer is not shared: text hands out the numeral 7 as a string, binary
                   refuses), sequences on arrays, maps / structs (by name) on non-empty objects,
                   Option anywhere, ignored / unknown fields whatever they contain.  It does not
                   depend on the encoding choice.
   No proofs in this file. *)
From JV Require Import Bytes Tables Utf8 Scalar Date TextTok BinPrim SerdeShape TextDeCommon BinDeCommon.
From JV Require TextDoc BinDoc.
Open Scope N_scope.

Notation skind := TextDoc.skind.
Notation Unq := TextDoc.Unq.
Notation Quo := TextDoc.Quo.

Inductive lscalar :=
| LInt (z : Z)
| LBool (b : bool)
| LStr (k : skind) (s : bytes)                    (* s = the string in the source encoding, unescaped *)
| LDate (y m d : Z) (wide quoted : bool)          (* wide: Y.MM.DD; quoted: written between double quotes in the text *)
| LFloat (raw : bytes) (p32 p64 : bytes).         (* text numeral; payload if encoded as F32 / as F64 *)

Inductive lval :=
| LScalar (l : lscalar)
| LRgb (c : rgb)
| LArr (vs : list lval)
| LObj (fs : list (skind * bytes * lval)).

Definition lfield := (skind * bytes * lval)%type.
Definition lf_kind (f : lfield) : skind := fst (fst f).
Definition lf_key (f : lfield) : bytes := snd (fst f).
Definition lf_val (f : lfield) : lval := snd f.
Definition ldoc := list lfield.

(* ------------------------------------------------------------------ text rendering *)
(* quoted scalars: a double quote and a backslash are written with a backslash in front *)
Fixpoint esc (s : bytes) : bytes :=
  match s with
  | [] => []
  | c :: r => if (c =? 34) || (c =? 92) then 92 :: c :: esc r else c :: esc r
  end.
Definition text_raw (k : skind) (s : bytes) : bytes := match k with Unq => s | Quo => esc s end.

Definition STR_YES : bytes := [121; 101; 115].
Definition STR_NO : bytes := [110; 111].

Definition ldate_raw (y m d : Z) : rawdate := mkraw y (m * 4096 + d * 128)%Z.
Definition date_text (y m d : Z) (wide : bool) : bytes := game_fmt wide (ldate_raw y m d).
Definition date_bin (y m d : Z) : Z := match date_to_binary (ldate_raw y m d) with Ok b => b | _ => 0%Z end.

Definition text_scalar (l : lscalar) : skind * bytes :=
  match l with
  | LInt z => (Unq, fmt_int 0 z)
  | LBool b => (Unq, if b then STR_YES else STR_NO)
  | LStr k s => (k, text_raw k s)
  | LDate y m d wide q => (if q then Quo else Unq, date_text y m d wide)
  | LFloat raw _ _ => (Unq, raw)
  end.

Definition rgb_channels (c : rgb) : list N :=
  [rgb_r c; rgb_g c; rgb_b c] ++ match rgb_a c with Some a => [a] | None => [] end.

Fixpoint tvalues (l : list TextDoc.value) : TextDoc.values :=
  match l with [] => TextDoc.VNil | x :: r => TextDoc.VCons x (tvalues r) end.
Fixpoint tfields (l : list TextDoc.field) : TextDoc.fields :=
  match l with [] => TextDoc.FNil | x :: r => TextDoc.FCons x (tfields r) end.

Fixpoint to_text_val (v : lval) {struct v} : TextDoc.value :=
  match v with
  | LScalar l => TextDoc.VScalar (fst (text_scalar l)) (snd (text_scalar l))
  | LRgb c => TextDoc.VHeader RGB_NAME (TextDoc.VArray (tvalues (map (fun x => TextDoc.VScalar Unq (dec_N x)) (rgb_channels c))))
  | LArr vs => TextDoc.VArray ((fix go (l : list lval) : TextDoc.values :=
                                  match l with [] => TextDoc.VNil | x :: r => TextDoc.VCons (to_text_val x) (go r) end) vs)
  | LObj fs => TextDoc.VObject ((fix go (l : list lfield) : TextDoc.fields :=
                                   match l with
                                   | [] => TextDoc.FNil
                                   | f :: r => TextDoc.FCons (TextDoc.Field (lf_kind f) (text_raw (lf_kind f) (lf_key f)) (Some Equal)
                                                                            (to_text_val (lf_val f))) (go r)
                                   end) fs) TextDoc.VNil
  end.

Fixpoint to_text_vals (l : list lval) : TextDoc.values :=
  match l with [] => TextDoc.VNil | x :: r => TextDoc.VCons (to_text_val x) (to_text_vals r) end.
Definition to_text_field (f : lfield) : TextDoc.field :=
  TextDoc.Field (lf_kind f) (text_raw (lf_kind f) (lf_key f)) (Some Equal) (to_text_val (lf_val f)).
Fixpoint to_text_fields (l : list lfield) : TextDoc.fields :=
  match l with [] => TextDoc.FNil | f :: r => TextDoc.FCons (to_text_field f) (to_text_fields r) end.

Definition to_text (d : ldoc) : TextDoc.doc := to_text_fields d.

(* ------------------------------------------------------------------ binary rendering *)
Inductive iwidth := WI32 | WU32 | WI64 | WU64.
Inductive sform := FQuoted | FUnquoted | FId (id : N).

(* the choices made at one node; for the value of an object's field also how its KEY is written and
   whether a ghost object precedes the field *)
Record choice := mkchoice {
  ch_int : iwidth;          (* token of an integer *)
  ch_str : sform;           (* form of a string (and of a date written as a string) *)
  ch_date_i32 : bool;       (* date as I32 (to_binary) instead of a string *)
  ch_f32 : bool;            (* float as F32 instead of F64 *)
  ch_key : sform;           (* form of the key of the field this value belongs to *)
  ch_kghost : bool;         (* `{ }` before that field *)
  ch_ghost : bool }.        (* `{ }` before the closing brace of this object / at the end of the root *)

(* a node is addressed by the list of child indices leading to it *)
Definition enc_choice := list nat -> choice.
Definition sub (e : enc_choice) (i : nat) : enc_choice := fun p => e (i :: p).

Definition bin_str (f : sform) (s : bytes) : BinDoc.bscalar :=
  match f with
  | FQuoted => BinDoc.SQuoted s
  | FUnquoted => BinDoc.SUnquoted s
  | FId id => BinDoc.SId id
  end.

Definition bin_scalar (c : choice) (l : lscalar) : BinDoc.bscalar :=
  match l with
  | LInt z => match ch_int c with
              | WI32 => BinDoc.SI32 z | WU32 => BinDoc.SU32 (Z.to_N z)
              | WI64 => BinDoc.SI64 z | WU64 => BinDoc.SU64 (Z.to_N z)
              end
  | LBool b => BinDoc.SBool b
  | LStr _ s => bin_str (ch_str c) s
  | LDate y m d wide _ => if ch_date_i32 c then BinDoc.SI32 (date_bin y m d) else bin_str (ch_str c) (date_text y m d wide)
  | LFloat _ p32 p64 => if ch_f32 c then BinDoc.SF32 p32 else BinDoc.SF64 p64
  end.

Definition bin_field (e : enc_choice) (i : nat) (f : lfield) (v : BinDoc.bval) : BinDoc.bfield :=
  (ch_kghost (e [i]), bin_str (ch_key (e [i])) (lf_key f), v).

Fixpoint to_bin_val (e : enc_choice) (v : lval) {struct v} : BinDoc.bval :=
  match v with
  | LScalar l => BinDoc.VScalar (bin_scalar (e []) l)
  | LRgb c => BinDoc.VRgb c
  | LArr vs => BinDoc.VArr ((fix go (i : nat) (l : list lval) : list BinDoc.bval :=
                               match l with [] => [] | x :: r => to_bin_val (sub e i) x :: go (S i) r end) 0%nat vs)
  | LObj fs => BinDoc.VObj ((fix go (i : nat) (l : list lfield) : list BinDoc.bfield :=
                               match l with
                               | [] => []
                               | f :: r => bin_field e i f (to_bin_val (sub e i) (lf_val f)) :: go (S i) r
                               end) 0%nat fs) (ch_ghost (e []))
  end.

Fixpoint to_bin_vals (e : enc_choice) (i : nat) (l : list lval) : list BinDoc.bval :=
  match l with [] => [] | x :: r => to_bin_val (sub e i) x :: to_bin_vals e (S i) r end.
Fixpoint to_bin_fields (e : enc_choice) (i : nat) (l : list lfield) : list BinDoc.bfield :=
  match l with [] => [] | f :: r => bin_field e i f (to_bin_val (sub e i) (lf_val f)) :: to_bin_fields e (S i) r end.

(* the binary document: fields of the root and the trailing-ghost flag (BinDoc.enc_doc's arguments) *)
Definition to_bin (e : enc_choice) (d : ldoc) : list BinDoc.bfield * bool := (to_bin_fields e 0 d, ch_ghost (e [])).

(* ------------------------------------------------------------------ sizes (fuel of the binary specification) *)
Fixpoint lsize (v : lval) {struct v} : nat :=
  match v with
  | LScalar _ | LRgb _ => 1
  | LArr vs => 2 + (fix go (l : list lval) : nat := match l with [] => 0 | x :: r => lsize x + go r end) vs
  | LObj fs => 2 + (fix go (l : list lfield) : nat := match l with [] => 0 | f :: r => 2 + lsize (lf_val f) + go r end) fs
  end%nat.
Fixpoint lsize_vals (l : list lval) : nat := match l with [] => 0 | x :: r => lsize x + lsize_vals r end%nat.
Fixpoint lsize_fields (l : list lfield) : nat := match l with [] => 0 | f :: r => 2 + lsize (lf_val f) + lsize_fields r end%nat.

(* no colour anywhere: the part of the documents the text walk theorems (core grammar) cover *)
Fixpoint norgb (v : lval) {struct v} : bool :=
  match v with
  | LScalar _ => true
  | LRgb _ => false
  | LArr vs => (fix go (l : list lval) : bool := match l with [] => true | x :: r => norgb x && go r end) vs
  | LObj fs => (fix go (l : list lfield) : bool := match l with [] => true | f :: r => norgb (lf_val f) && go r end) fs
  end.
Fixpoint norgb_fields (l : list lfield) : bool := match l with [] => true | f :: r => norgb (lf_val f) && norgb_fields r end.

(* objects are non-empty everywhere (an empty `{ }` is the empty ARRAY in both formats) *)
Fixpoint lwf (v : lval) {struct v} : bool :=
  match v with
  | LScalar _ | LRgb _ => true
  | LArr vs => (fix go (l : list lval) : bool := match l with [] => true | x :: r => lwf x && go r end) vs
  | LObj fs => match fs with [] => false | _ => true end &&
               (fix go (l : list lfield) : bool := match l with [] => true | f :: r => lwf (lf_val f) && go r end) fs
  end.
Fixpoint lwf_vals (l : list lval) : bool := match l with [] => true | x :: r => lwf x && lwf_vals r end.
Fixpoint lwf_fields (l : list lfield) : bool := match l with [] => true | f :: r => lwf (lf_val f) && lwf_fields r end.
Definition wf_ldoc (d : ldoc) : bool := lwf_fields d.

(* ------------------------------------------------------------------ side conditions *)
(* the calendar predicate of Props/C13.v (DateProofs.valid_md), restated here because model files do
   not import proof files *)
Definition ld_valid_md (m d : Z) : bool :=
  ((1 <=? m) && (m <=? 12) && (1 <=? d) &&
   match nth_error days_per_month (Z.to_nat m) with Some v => d <=? v | None => false end)%Z.

Definition int_fits (w : iwidth) (z : Z) : Prop :=
  match w with
  | WI32 => (-2147483648 <= z < 2147483648)%Z
  | WU32 => (0 <= z < 4294967296)%Z
  | WI64 => (-9223372036854775808 <= z < 9223372036854775808)%Z
  | WU64 => (0 <= z < 18446744073709551616)%Z
  end.

Section Shared.
  Variable decode : bytes -> cow.                  (* the text deserializer's Encoding::decode *)
  Variable parse_f64 : bytes -> outcome N.         (* Scalar::to_f64, as bits *)
  Variable cfg : bcfg.                             (* resolver, strategy, flavor, float casts of the binary side *)

  Definition tdec (raw : bytes) : bytes := cow_bytes (decode raw).

  (* ---- the encoding choice can express the document ---- *)
  (* [raw] = the text rendering of the string, [s] = its bytes in the binary rendering *)
  Definition str_ok (f : sform) (raw s : bytes) : Prop :=
    match f with
    | FQuoted | FUnquoted => lenN s < 65536 /\ c_decode cfg s = Ok (tdec raw)
    | FId id => is_id id = true /\ id < 65536 /\ c_resolve cfg id = Some (tdec raw)
    end.

  Definition scalar_enc_ok (c : choice) (l : lscalar) : Prop :=
    match l with
    | LInt z => int_fits (ch_int c) z
    | LBool _ => True
    | LStr k s => str_ok (ch_str c) (text_raw k s) s
    | LDate y m d wide _ => if ch_date_i32 c then True else str_ok (ch_str c) (date_text y m d wide) (date_text y m d wide)
    | LFloat _ p32 p64 => length p32 = 4%nat /\ length p64 = 8%nat
    end.

  Definition rgb_ok (c : rgb) : Prop := Forall (fun x => x < 4294967296) (rgb_channels c).

  Definition key_ok (e : enc_choice) (i : nat) (f : lfield) : Prop :=
    str_ok (ch_key (e [i])) (text_raw (lf_kind f) (lf_key f)) (lf_key f).

  Fixpoint enc_ok_v (e : enc_choice) (v : lval) {struct v} : Prop :=
    match v with
    | LScalar l => scalar_enc_ok (e []) l
    | LRgb c => rgb_ok c
    | LArr vs => (fix go (i : nat) (l : list lval) : Prop :=
                    match l with [] => True | x :: r => enc_ok_v (sub e i) x /\ go (S i) r end) 0%nat vs
    | LObj fs => ch_kghost (e [0%nat]) = false /\
                 (fix go (i : nat) (l : list lfield) : Prop :=
                    match l with [] => True | f :: r => (key_ok e i f /\ enc_ok_v (sub e i) (lf_val f)) /\ go (S i) r end) 0%nat fs
    end.
  Fixpoint enc_ok_vals (e : enc_choice) (i : nat) (l : list lval) : Prop :=
    match l with [] => True | x :: r => enc_ok_v (sub e i) x /\ enc_ok_vals e (S i) r end.
  Fixpoint enc_ok_fields (e : enc_choice) (i : nat) (l : list lfield) : Prop :=
    match l with [] => True | f :: r => (key_ok e i f /\ enc_ok_v (sub e i) (lf_val f)) /\ enc_ok_fields e (S i) r end.

  (* root: no ghost at the very start; a trailing ghost only after at least one field *)
  Definition enc_ok (e : enc_choice) (d : ldoc) : Prop :=
    ch_kghost (e [0%nat]) = false /\ (d = [] -> ch_ghost (e []) = false) /\ enc_ok_fields e 0 d.

  (* ---- the target shape reads the value the same way from both renderings ---- *)
  Notation F := (c_fops cfg).

  (* a float: the numeral parses, and the flavor decodes either payload to that number *)
  Definition float_ok (raw p32 p64 : bytes) : Prop :=
    exists b, parse_f64 raw = Ok b /\ c_f64 cfg p64 = b /\ f64_of_f32 F (c_f32 cfg p32) = b /\ c_f32 cfg p32 = f32_of_f64 F b.
  (* an integer read as a float: Scalar::to_f64 of the numeral = the `as` cast of the integer *)
  Definition int_float_ok (z : Z) : Prop :=
    exists b, parse_f64 (fmt_int 0 z) = Ok b /\ f64_of_int F z = b /\ f32_of_int F z = f32_of_f64 F b.
  (* a date: expressible in the binary format, a calendar day, and its text is left alone by the decoder *)
  Definition date_ok (y m d : Z) (wide : bool) : Prop :=
    (-5000 <= y <= 32767)%Z /\ ld_valid_md m d = true /\ tdec (date_text y m d wide) = date_text y m d wide.

  (* [core]: the target with its Option wrappers removed *)
  Definition scalar_shared (core : shape) (l : lscalar) : Prop :=
    match l with
    | LInt z =>
        (-9223372036854775808 < z < 18446744073709551616)%Z /\      (* i64::MIN: Scalar::to_i64 refuses its numeral *)
        match core with
        | ShU _ | ShI _ | ShBool => True       (* out of range / not a bool: the same error on both sides *)
        | ShF32 | ShF64 => int_float_ok z
        | _ => False                           (* String / any / date / enum: text hands out the numeral as a string *)
        end
    | LBool _ => match core with ShBool | ShU _ | ShI _ => True | _ => False end
    | LStr k s =>
        let raw := text_raw k s in
        match core with
        | ShStr | ShAny | ShDate | ShDateHour | ShEnum _ => True
        | ShBool => is_ok (to_bool raw) = false          (* a typed hint that does not parse: both sides refuse *)
        | ShU bits => bits <> 16 /\ is_ok (to_u64 raw) = false   (* u16 = token hint: binary hands out an id as a number *)
        | ShI _ => is_ok (to_i64 raw) = false
        | ShF32 | ShF64 => is_ok (parse_f64 raw) = false
        | _ => False
        end
    | LDate y m d wide _ => match core with ShDate => date_ok y m d wide | _ => False end
    | LFloat raw p32 p64 => match core with ShF32 | ShF64 => float_ok raw p32 p64 | _ => False end
    end.

  Fixpoint strip_opt (sh : shape) : shape := match sh with ShOpt s => strip_opt s | _ => sh end.

  Fixpoint shared_v (sh : shape) (v : lval) {struct v} : Prop :=
    match strip_opt sh with
    | ShIgn => True                                   (* ignored: nothing is looked at *)
    | core =>
      match v with
      | LScalar l => scalar_shared core l
      | LRgb _ => False
      | LArr vs =>
          match core with
          | ShSeq s => (fix all (l : list lval) : Prop := match l with [] => True | x :: r => shared_v s x /\ all r end) vs
          | ShTup ss => (fix zip (l : list lval) (ss : list shape) {struct l} : Prop :=
                           match l, ss with
                           | [], _ => True
                           | x :: r, s :: ss' => shared_v s x /\ zip r ss'
                           | _ :: _, [] => False
                           end) vs ss
          | _ => False
          end
      | LObj fs =>
          fs <> [] /\
          match core with
          | ShMap s => (fix all (l : list lfield) : Prop := match l with [] => True | f :: r => shared_v s (lf_val f) /\ all r end) fs
          | ShStruct false fds =>
              (fix all (l : list lfield) : Prop :=
                 match l with
                 | [] => True
                 | f :: r => match find_name fds (tdec (text_raw (lf_kind f) (lf_key f))) 0 with
                             | Some (_, fd) => shared_v (f_shape fd) (lf_val f)
                             | None => True            (* unknown field: skipped whatever it contains *)
                             end /\ all r
                 end) fs
          | _ => False
          end
      end
    end.

  Fixpoint shared_seq (s : shape) (l : list lval) : Prop :=
    match l with [] => True | x :: r => shared_v s x /\ shared_seq s r end.
  Fixpoint shared_tup (l : list lval) (ss : list shape) {struct l} : Prop :=
    match l, ss with
    | [], _ => True
    | x :: r, s :: ss' => shared_v s x /\ shared_tup r ss'
    | _ :: _, [] => False
    end.
  Fixpoint shared_map (s : shape) (l : list lfield) : Prop :=
    match l with [] => True | f :: r => shared_v s (lf_val f) /\ shared_map s r end.
  Fixpoint shared_struct (fds : list field) (l : list lfield) : Prop :=
    match l with
    | [] => True
    | f :: r => match find_name fds (tdec (text_raw (lf_kind f) (lf_key f))) 0 with
                | Some (_, fd) => shared_v (f_shape fd) (lf_val f)
                | None => True
                end /\ shared_struct fds r
    end.

  (* the root: a map or a struct by name; the root may be empty *)
  Definition shared (sh : shape) (d : ldoc) : Prop :=
    match sh with
    | ShMap s => shared_map s d
    | ShStruct false fds => shared_struct fds d
    | _ => False
    end.
End Shared.
