(* C19 (text): what "a result consistent with the complete document" means for the tape parser.
   Definitions only (the proofs are in proofs/TruncMainProofs.v, the statements in Props/C19_main.v).

   F = the tape of the complete document (flatten d), t = the tape returned for a truncated input.

   tok_cut x y      x is y, or x is an unquoted scalar whose bytes are a non-empty PREFIX of the
                    scalar y at the same place (y unquoted, or the header it would have become had
                    the following `{` still been there; "non-empty" unless y itself is empty).  A quoted scalar, an operator, a parameter
                    is never shortened: it is either complete or the parse is an error.
   prefix_cut t F   t is F cut short: every token of t but the last is literally the token of F
                    at the same index (absolute indices included), the last one is tok_cut.
   consistent_tape  either  (a) t is F cut short (the data ended at top level: every completed
                    top-level field is the original's, the field being cut is absent or its
                    scalar value is shorter), or
                    (b) exactly one closing bracket was missing: t = F[0..p) ++ Object .. End p
                    where F[p] is the top-level container being cut (a container token); the tokens before p are
                    literally F's, the body is F's body cut short, and the parser closed it
                    (the documented one-missing-bracket tolerance of the text format). *)
From JV Require Import Bytes Tables TextTok TextTape TextTapeWf TextDoc.
Open Scope nat_scope.

Definition bytes_prefix (a b : bytes) : Prop := exists r, b = a ++ r.

Definition tok_cut (x y : ttok) : Prop :=
  x = y \/
  exists s s', x = TUnquoted s /\ (y = TUnquoted s' \/ y = THeader s') /\ bytes_prefix s s' /\ (s <> [] \/ s' = []).

Definition prefix_cut (t F : ttape) : Prop :=
  t = [] \/
  exists t0 x y, t = t0 ++ [x] /\ firstn (length t0) F = t0 /\ nth_error F (length t0) = Some y /\ tok_cut x y.

Definition consistent_tape (F t : ttape) : Prop :=
  prefix_cut t F \/
  exists p body y,
    0 < p /\
    t = firstn p F ++ TObject (p + 1 + length body) false :: body ++ [TEnd p] /\
    length (firstn p F) = p /\
    nth_error F p = Some y /\ cont_end y <> None /\
    prefix_cut body (skipn (S p) F).

(* the result of parsing a truncated rendering of d *)
Definition consistent (d : doc) (r : outcome (ttape * bool)) : Prop :=
  exists t b, r = Ok (t, b) /\ consistent_tape (flatten d) t.
