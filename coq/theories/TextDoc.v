(* Abstract Clausewitz text documents, their expected tape (`flatten`, the SPEC side of C01) and
   layout-parametrised renderings.  Coq counterpart of props/textdoc.py (same grammar, same
   `flatten`, same token stream in `render`); definitions only.

   doc    := fields                                   (top level = implicit object body)
   field  := Field kind key op value                  op = None: key directly followed by a container
           | ParamV name undefined scalar             [[name] scalar ]   /  [[!name] scalar ]
           | ParamO name undefined fields             [[name] k = v ... ]
   value  := VScalar kind bytes                       Unq / Quo (bytes = raw content between the quotes)
           | VObject fields tail                      tail = bare values after the fields (object -> array mixed container)
           | VArray items
           | VArrayKv items fields                    array that turns into a key-value list (array -> kv mixed container)
           | VHeader name value                       rgb { .. }                                              *)
From JV Require Import Bytes Tables TextTok TextTape.
Open Scope nat_scope.

Inductive skind := Unq | Quo.

Inductive value :=
| VScalar (k : skind) (s : bytes)
| VObject (fs : fields) (tail : values)
| VArray (items : values)
| VArrayKv (items : values) (kvs : fields)
| VHeader (name : bytes) (v : value)
with field :=
| Field (k : skind) (key : bytes) (op : option operator) (v : value)
| ParamV (name : bytes) (undefined : bool) (s : bytes)
| ParamO (name : bytes) (undefined : bool) (fs : fields)
with fields :=
| FNil
| FCons (f : field) (fs : fields)
with values :=
| VNil
| VCons (v : value) (vs : values).

Definition doc := fields.

(* ------------------------------------------------------------------ the expected tape *)
Definition scalar_tok (k : skind) (s : bytes) : ttok :=
  match k with Unq => TUnquoted s | Quo => TQuoted s end.

Definition param_tok (undefined : bool) (name : bytes) : ttok :=
  if undefined then TUndefinedParameter name else TParameter name.

(* `=` leaves no token in an ordinary object; every operator does inside a mixed container *)
Definition op_toks (mixed : bool) (op : option operator) : ttape :=
  match op with
  | None => []
  | Some Equal => if mixed then [TOperator Equal] else []
  | Some o => [TOperator o]
  end.

Definition values_nonempty (vs : values) : bool := match vs with VNil => false | VCons _ _ => true end.

(* [off] = absolute tape index of the first token produced *)
Fixpoint flat_value (off : nat) (v : value) : ttape :=
  match v with
  | VScalar k s => [scalar_tok k s]
  | VObject fs tl =>
      let body := flat_fields false (S off) fs in
      let tail := match tl with
                  | VNil => []
                  | VCons _ _ => TMixedContainer :: flat_values (S (S off + length body)) tl
                  end in
      TObject (S off + length body + length tail) (values_nonempty tl) :: body ++ tail ++ [TEnd off]
  | VArray items =>
      let body := flat_values (S off) items in
      TArray (S off + length body) false :: body ++ [TEnd off]
  | VArrayKv items kvs =>
      let a := flat_values (S off) items in
      let b := flat_fields true (S (S off + length a)) kvs in
      TArray (S (S off + length a + length b)) true :: a ++ TMixedContainer :: b ++ [TEnd off]
  | VHeader name v => THeader name :: flat_value (S off) v
  end
with flat_field (mixed : bool) (off : nat) (f : field) : ttape :=
  match f with
  | Field k key op v =>
      let o := op_toks mixed op in
      scalar_tok k key :: o ++ flat_value (S off + length o) v
  | ParamV name u s => [param_tok u name; TUnquoted s]
  | ParamO name u fs =>
      let body := flat_fields false (S (S off)) fs in
      param_tok u name :: TObject (S (S off) + length body) false :: body ++ [TEnd (S off)]
  end
with flat_fields (mixed : bool) (off : nat) (fs : fields) : ttape :=
  match fs with
  | FNil => []
  | FCons f fs' => let a := flat_field mixed off f in a ++ flat_fields mixed (off + length a) fs'
  end
with flat_values (off : nat) (vs : values) : ttape :=
  match vs with
  | VNil => []
  | VCons v vs' => let a := flat_value off v in a ++ flat_values (off + length a) vs'
  end.

Definition flatten (d : doc) : ttape := flat_fields false 0 d.

(* ------------------------------------------------------------------ the token stream of a rendering *)
(* (bytes, glue): glue = the token is ended by the scanner only at a boundary byte (bare words) *)
Definition rtok := (bytes * bool)%type.

Definition scalar_bytes (k : skind) (s : bytes) : bytes :=
  match k with Unq => s | Quo => 34%N :: s ++ [34%N] end.
Definition stok (k : skind) (s : bytes) : rtok :=
  (scalar_bytes k s, match k with Unq => true | Quo => false end).
Definition lbrace : rtok := ([123%N], false).
Definition rbrace : rtok := ([125%N], false).
Definition rbracket : rtok := ([93%N], false).
Definition optok (op : option operator) : list rtok :=
  match op with None => [] | Some o => [(op_symbol o, false)] end.
Definition pname_bytes (undefined : bool) (name : bytes) : bytes :=
  [91%N; 91%N] ++ (if undefined then [33%N] else []) ++ name ++ [93%N].

Fixpoint toks_value (v : value) : list rtok :=
  match v with
  | VScalar k s => [stok k s]
  | VObject fs tl => lbrace :: toks_fields fs ++ toks_values tl ++ [rbrace]
  | VArray items => lbrace :: toks_values items ++ [rbrace]
  | VArrayKv items kvs => lbrace :: toks_values items ++ toks_fields kvs ++ [rbrace]
  | VHeader name v => (name, true) :: toks_value v
  end
with toks_field (f : field) : list rtok :=
  match f with
  | Field k key op v => stok k key :: optok op ++ toks_value v
  | ParamV name u s => (pname_bytes u name, false) :: (s, true) :: [rbracket]
  | ParamO name u fs => (pname_bytes u name, false) :: toks_fields fs ++ [rbracket]
  end
with toks_fields (fs : fields) : list rtok :=
  match fs with
  | FNil => []
  | FCons f fs' => toks_field f ++ toks_fields fs'
  end
with toks_values (vs : values) : list rtok :=
  match vs with
  | VNil => []
  | VCons v vs' => toks_value v ++ toks_values vs'
  end.

(* ------------------------------------------------------------------ layouts *)
(* a gap is a word over { space, tab, LF, CR, ';', '#' comment LF } *)
Inductive gap_ok : bytes -> Prop :=
| gap_nil : gap_ok []
| gap_ws c g : is_ws_t c = true -> gap_ok g -> gap_ok (c :: g)
| gap_comment body g : Forall (fun b => b <> 10%N) body -> gap_ok g -> gap_ok (35%N :: body ++ 10%N :: g).

(* decision procedure for [gap_ok] (used by the examples; soundness is proved in TextScanProofs) *)
Fixpoint gap_okb_c (in_comment : bool) (g : bytes) : bool :=
  match g with
  | [] => negb in_comment
  | c :: r =>
      if in_comment then gap_okb_c (negb (N.eqb c 10)) r
      else if N.eqb c 35 then gap_okb_c true r
      else is_ws_t c && gap_okb_c false r
  end.
Definition gap_okb (g : bytes) : bool := gap_okb_c false g.

(* gap i precedes token i; gap (number of tokens) trails the document; gap 0 is the left padding *)
Record layout := mkLayout { bom : bool; gap : nat -> bytes }.

Fixpoint render_toks (g : nat -> bytes) (ts : list rtok) (i : nat) : bytes :=
  match ts with
  | [] => g i
  | t :: ts' => g i ++ fst t ++ render_toks g ts' (S i)
  end.

Definition bom_bytes : bytes := [239%N; 187%N; 191%N].
Definition has_bom (d : bytes) : bool :=
  match d with 239%N :: 187%N :: 191%N :: _ => true | _ => false end.

Definition render (d : doc) (l : layout) : bytes :=
  (if bom l then bom_bytes else []) ++ render_toks (gap l) (toks_fields d) 0.

(* the byte after a bare word, if any, is a boundary byte *)
Definition starts_boundary (r : bytes) : Prop :=
  match r with [] => True | c :: _ => is_boundary c = true end.

Fixpoint sep_ok (g : nat -> bytes) (ts : list rtok) (i : nat) : Prop :=
  match ts with
  | [] => True
  | t :: ts' => (snd t = true -> starts_boundary (render_toks g ts' (S i))) /\ sep_ok g ts' (S i)
  end.

(* every gap is whitespace/comments; a bare word is followed by a boundary byte (i.e. the gap after
   it is non-empty and does not start with ';' exactly where the next token would otherwise be
   glued to it); without the BOM flag the text does not start with the three BOM bytes *)
Definition wf_layout (d : doc) (l : layout) : Prop :=
  (forall i, gap_ok (gap l i)) /\
  sep_ok (gap l) (toks_fields d) 0 /\
  (bom l = false -> has_bom (render d l) = false).

(* the same layout with [pad] more bytes of left padding *)
Definition with_pad (pad : bytes) (l : layout) : layout :=
  mkLayout (bom l) (fun i => if Nat.eqb i 0 then pad ++ gap l 0 else gap l i).

(* ------------------------------------------------------------------ well-formed documents *)
(* bare word: non-empty, no boundary byte, does not start with a double quote or a semicolon
   (skipped as white space), and is not a lone '@' (which would glue to a following '[') *)
Definition wf_word (s : bytes) : bool :=
  match s with
  | [] => false
  | c :: r =>
      negb (N.eqb c 34) && negb (N.eqb c 59) &&
      negb (N.eqb c 64 && match r with [] => true | _ => false end) &&
      forallb (fun b => negb (is_boundary b)) s
  end.

(* r = body ++ "]" with no ']' in body *)
Fixpoint closes_at_end (r : bytes) : bool :=
  match r with
  | [] => false
  | c :: r' => match r' with [] => N.eqb c 93 | _ => negb (N.eqb c 93) && closes_at_end r' end
  end.

(* interpolated expression  @[ body ]  (any bytes but ']' in the body, boundary bytes included) *)
Definition wf_varexpr (s : bytes) : bool :=
  match s with 64%N :: 91%N :: r => closes_at_end r | _ => false end.

(* unquoted scalar: a bare word or an interpolated expression *)
Definition wf_unq (s : bytes) : bool := wf_word s || wf_varexpr s.

(* quoted content: every double quote is escaped, no dangling backslash *)
Fixpoint wf_quo (s : bytes) : bool :=
  match s with
  | [] => true
  | c :: r =>
      if N.eqb c 92 then match r with [] => false | _ :: r' => wf_quo r' end
      else negb (N.eqb c 34) && wf_quo r
  end.

Definition wf_scalar (k : skind) (s : bytes) : bool :=
  match k with Unq => wf_unq s | Quo => wf_quo s end.

(* parameter name: non-empty, no boundary byte *)
Definition wf_pname (s : bytes) : bool :=
  match s with [] => false | _ => forallb (fun b => negb (is_boundary b)) s end.

Definition is_container (v : value) : bool :=
  match v with VObject _ _ | VArray _ | VArrayKv _ _ => true | _ => false end.
Definition is_scalar (v : value) : bool := match v with VScalar _ _ => true | _ => false end.
Definition is_header (v : value) : bool := match v with VHeader _ _ => true | _ => false end.
Definition is_empty_array (v : value) : bool := match v with VArray VNil => true | _ => false end.

(* the container kind is decided by what follows the first scalar: only = < > make it an object *)
Definition obj_first_op (o : option operator) : bool :=
  match o with
  | Some Equal | Some Exact | Some LessThan | Some LessThanEqual | Some GreaterThan | Some GreaterThanEqual => true
  | _ => false
  end.
Definition kv_op (o : option operator) : bool :=
  match o with Some Exists | None => false | Some _ => true end.

Definition first_field_ok (fs : fields) : bool :=
  match fs with
  | FNil => false
  | FCons (Field _ _ o _) _ => obj_first_op o
  | FCons _ _ => true
  end.
Definition param_first_ok (fs : fields) : bool :=
  match fs with
  | FCons (Field Unq _ (Some _) _) _ => true
  | _ => false
  end.
(* the first key of a parameter object is scanned as a bare word *)
Definition param_first_word (fs : fields) : bool :=
  match fs with
  | FCons (Field Unq key _ _) _ => wf_word key
  | _ => false
  end.
Definition first_item_scalar (vs : values) : bool :=
  match vs with VCons (VScalar _ _) _ => true | _ => false end.
Definition first_item_not_ghost (vs : values) : bool :=
  match vs with VCons (VArray VNil) _ => false | _ => true end.

Definition kvs_nonempty (fs : fields) : bool := match fs with FNil => false | _ => true end.

Fixpoint wf_value (v : value) : bool :=
  match v with
  | VScalar k s => wf_scalar k s
  | VObject fs tl => first_field_ok fs && wf_fields fs && wf_tail tl
  | VArray items => first_item_not_ghost items && wf_items items
  | VArrayKv items kvs => first_item_scalar items && wf_items items && kvs_nonempty kvs && wf_kvs kvs
  | VHeader name v => wf_word name && is_container v && negb (is_empty_array v) && wf_value v
  end
with wf_field (f : field) : bool :=
  match f with
  | Field k key op v =>
      wf_scalar k key && wf_value v &&
      match op with None => is_container v | Some _ => true end
  | ParamV name u s => wf_pname name && wf_word s
  | ParamO name u fs => wf_pname name && param_first_ok fs && param_first_word fs && wf_fields fs
  end
with wf_fields (fs : fields) : bool :=
  match fs with FNil => true | FCons f fs' => wf_field f && wf_fields fs' end
(* array items: no headers *)
with wf_items (vs : values) : bool :=
  match vs with VNil => true | VCons v vs' => negb (is_header v) && wf_value v && wf_items vs' end
(* bare values after the fields of an object: scalars *)
with wf_tail (vs : values) : bool :=
  match vs with VNil => true | VCons v vs' => is_scalar v && wf_value v && wf_tail vs' end
(* key-value part of an array: scalar values, an operator other than ?= *)
with wf_kvs (fs : fields) : bool :=
  match fs with
  | FNil => true
  | FCons (Field k key op v) fs' => wf_scalar k key && kv_op op && is_scalar v && wf_value v && wf_kvs fs'
  | FCons _ _ => false
  end.

Definition wf_doc (d : doc) : Prop := wf_fields d = true.
