(* LOGICAL documents, EXTENDED (wave 5, C10): LogicDoc.v plus
     * DateHour values  `Y.M.D.H` (hour 1..24): text = Date.game_fmt of the raw date with its hour, binary = the I32 of
       DateHour::to_binary or the same characters in a string token (quoted / unquoted / resolvable id);
     * colours that are READ, not only skipped: [xshared tp] admits a colour under the typed target
       (String | ignored, Vec<number> | ignored) -- how `color = rgb { r g b [a] }` is captured -- when [tp] = true;
       [tp] is the flag of TextDeSpec2.spec_value2: true = the text TAPE path (from_*_slice / from_*_tape), false = the
       part on which the text STREAM path (from_*_reader) agrees: the stream deserializer has no notion of headers
       (finding H-stream-header), so for tp = false a colour is shared only where it is skipped.
   LogicDoc.v is left untouched (its inductive types are matched on by the pinned proofs): the new scalar type wraps
   LogicDoc.lscalar ([XBase]), the tree type is new; [of_lval] / [of_ldoc] embed the old documents, the old renderings
   are the new renderings of the embedding (proofs/C10ExtProofs.v of_ldoc_text / of_ldoc_bin).

     to_textx d      TextDoc document (colours: VHeader "rgb" (VArray channels), as LogicDoc.to_text)
     to_binx e d     BinDoc document under the encoding choice e (LogicDoc.enc_choice, same addressing)
     enc_okx e d     the choice can express the document
     xshared tp s d  the target shape reads d the same way from both renderings by construction
     rgbpos d        no colour is an ARRAY ELEMENT: there the formats themselves part ways (the text parser has no
                     header in array position: `{ rgb { 1 2 3 } }` is the word rgb followed by an array; the binary
                     tape parser only recognises the rgb block in object-value position: finding O-tape-rgb-in-array)
   No proofs in this file. *)
From JV Require Import Bytes Tables Utf8 Scalar Date TextTok BinPrim SerdeShape TextDeCommon BinDeCommon LogicDoc.
From JV Require TextDoc BinDoc.
Open Scope N_scope.

Inductive xscalar :=
| XBase (l : lscalar)
| XDateHour (y m d h : Z) (wide quoted : bool).     (* wide: Y.MM.DD.HH; quoted: between double quotes in the text *)

Inductive xval :=
| XScalar (l : xscalar)
| XRgb (c : rgb)
| XArr (vs : list xval)
| XObj (fs : list (skind * bytes * xval)).

Definition xfield := (skind * bytes * xval)%type.
Definition xf_kind (f : xfield) : skind := fst (fst f).
Definition xf_key (f : xfield) : bytes := snd (fst f).
Definition xf_val (f : xfield) : xval := snd f.
Definition xdoc := list xfield.

(* ------------------------------------------------------------------ the embedding of LogicDoc *)
Fixpoint of_lval (v : lval) {struct v} : xval :=
  match v with
  | LScalar l => XScalar (XBase l)
  | LRgb c => XRgb c
  | LArr vs => XArr ((fix go (l : list lval) : list xval := match l with [] => [] | x :: r => of_lval x :: go r end) vs)
  | LObj fs => XObj ((fix go (l : list lfield) : list xfield :=
                        match l with [] => [] | f :: r => (lf_kind f, lf_key f, of_lval (lf_val f)) :: go r end) fs)
  end.
Definition of_lfield (f : lfield) : xfield := (lf_kind f, lf_key f, of_lval (lf_val f)).
Definition of_ldoc (d : ldoc) : xdoc := map of_lfield d.

(* ------------------------------------------------------------------ DateHour *)
Definition xdh_raw (y m d h : Z) : rawdate := mkraw y (m * 4096 + d * 128 + h * 4)%Z.
Definition xdh_text (y m d h : Z) (wide : bool) : bytes := game_fmt wide (xdh_raw y m d h).
Definition xdh_bin (y m d h : Z) : Z := match datehour_to_binary (xdh_raw y m d h) with Ok b => b | _ => 0%Z end.

(* ------------------------------------------------------------------ text rendering *)
Definition text_scalarx (l : xscalar) : skind * bytes :=
  match l with
  | XBase b => text_scalar b
  | XDateHour y m d h wide q => (if q then Quo else Unq, xdh_text y m d h wide)
  end.

Definition rgb_text (c : rgb) : TextDoc.value :=
  TextDoc.VHeader RGB_NAME (TextDoc.VArray (tvalues (map (fun x => TextDoc.VScalar Unq (dec_N x)) (rgb_channels c)))).

Fixpoint to_textx_val (v : xval) {struct v} : TextDoc.value :=
  match v with
  | XScalar l => TextDoc.VScalar (fst (text_scalarx l)) (snd (text_scalarx l))
  | XRgb c => rgb_text c
  | XArr vs => TextDoc.VArray ((fix go (l : list xval) : TextDoc.values :=
                                  match l with [] => TextDoc.VNil | x :: r => TextDoc.VCons (to_textx_val x) (go r) end) vs)
  | XObj fs => TextDoc.VObject ((fix go (l : list xfield) : TextDoc.fields :=
                                   match l with
                                   | [] => TextDoc.FNil
                                   | f :: r => TextDoc.FCons (TextDoc.Field (xf_kind f) (text_raw (xf_kind f) (xf_key f)) (Some Equal)
                                                                            (to_textx_val (xf_val f))) (go r)
                                   end) fs) TextDoc.VNil
  end.

Fixpoint to_textx_vals (l : list xval) : TextDoc.values :=
  match l with [] => TextDoc.VNil | x :: r => TextDoc.VCons (to_textx_val x) (to_textx_vals r) end.
Definition to_textx_field (f : xfield) : TextDoc.field :=
  TextDoc.Field (xf_kind f) (text_raw (xf_kind f) (xf_key f)) (Some Equal) (to_textx_val (xf_val f)).
Fixpoint to_textx_fields (l : list xfield) : TextDoc.fields :=
  match l with [] => TextDoc.FNil | f :: r => TextDoc.FCons (to_textx_field f) (to_textx_fields r) end.

Definition to_textx (d : xdoc) : TextDoc.doc := to_textx_fields d.

(* ------------------------------------------------------------------ binary rendering *)
Definition bin_scalarx (c : choice) (l : xscalar) : BinDoc.bscalar :=
  match l with
  | XBase b => bin_scalar c b
  | XDateHour y m d h wide _ =>
      if ch_date_i32 c then BinDoc.SI32 (xdh_bin y m d h) else bin_str (ch_str c) (xdh_text y m d h wide)
  end.

Definition bin_fieldx (e : enc_choice) (i : nat) (f : xfield) (v : BinDoc.bval) : BinDoc.bfield :=
  (ch_kghost (e [i]), bin_str (ch_key (e [i])) (xf_key f), v).

Fixpoint to_binx_val (e : enc_choice) (v : xval) {struct v} : BinDoc.bval :=
  match v with
  | XScalar l => BinDoc.VScalar (bin_scalarx (e []) l)
  | XRgb c => BinDoc.VRgb c
  | XArr vs => BinDoc.VArr ((fix go (i : nat) (l : list xval) : list BinDoc.bval :=
                               match l with [] => [] | x :: r => to_binx_val (sub e i) x :: go (S i) r end) 0%nat vs)
  | XObj fs => BinDoc.VObj ((fix go (i : nat) (l : list xfield) : list BinDoc.bfield :=
                               match l with
                               | [] => []
                               | f :: r => bin_fieldx e i f (to_binx_val (sub e i) (xf_val f)) :: go (S i) r
                               end) 0%nat fs) (ch_ghost (e []))
  end.

Fixpoint to_binx_vals (e : enc_choice) (i : nat) (l : list xval) : list BinDoc.bval :=
  match l with [] => [] | x :: r => to_binx_val (sub e i) x :: to_binx_vals e (S i) r end.
Fixpoint to_binx_fields (e : enc_choice) (i : nat) (l : list xfield) : list BinDoc.bfield :=
  match l with [] => [] | f :: r => bin_fieldx e i f (to_binx_val (sub e i) (xf_val f)) :: to_binx_fields e (S i) r end.

Definition to_binx (e : enc_choice) (d : xdoc) : list BinDoc.bfield * bool := (to_binx_fields e 0 d, ch_ghost (e [])).

(* the bytes of the binary rendering *)
Definition binx_bytes (e : enc_choice) (d : xdoc) : bytes := BinDoc.enc_doc (fst (to_binx e d)) (snd (to_binx e d)).

(* ------------------------------------------------------------------ sizes *)
Fixpoint xsize (v : xval) {struct v} : nat :=
  match v with
  | XScalar _ | XRgb _ => 1
  | XArr vs => 2 + (fix go (l : list xval) : nat := match l with [] => 0 | x :: r => xsize x + go r end) vs
  | XObj fs => 2 + (fix go (l : list xfield) : nat := match l with [] => 0 | f :: r => 2 + xsize (xf_val f) + go r end) fs
  end%nat.
Fixpoint xsize_vals (l : list xval) : nat := match l with [] => 0 | x :: r => xsize x + xsize_vals r end%nat.
Fixpoint xsize_fields (l : list xfield) : nat := match l with [] => 0 | f :: r => 2 + xsize (xf_val f) + xsize_fields r end%nat.

(* ------------------------------------------------------------------ well-formedness *)
Definition is_xrgb (v : xval) : bool := match v with XRgb _ => true | _ => false end.

(* no colour is an array element (colours are values of object fields, at any depth) *)
Fixpoint rgbpos_v (v : xval) {struct v} : bool :=
  match v with
  | XScalar _ | XRgb _ => true
  | XArr vs => (fix go (l : list xval) : bool := match l with [] => true | x :: r => negb (is_xrgb x) && rgbpos_v x && go r end) vs
  | XObj fs => (fix go (l : list xfield) : bool := match l with [] => true | f :: r => rgbpos_v (xf_val f) && go r end) fs
  end.
Fixpoint rgbpos_vals (l : list xval) : bool :=
  match l with [] => true | x :: r => negb (is_xrgb x) && rgbpos_v x && rgbpos_vals r end.
Fixpoint rgbpos (l : list xfield) : bool := match l with [] => true | f :: r => rgbpos_v (xf_val f) && rgbpos r end.

(* objects are non-empty everywhere (an empty `{ }` is the empty ARRAY in both formats) *)
Fixpoint xwf (v : xval) {struct v} : bool :=
  match v with
  | XScalar _ | XRgb _ => true
  | XArr vs => (fix go (l : list xval) : bool := match l with [] => true | x :: r => xwf x && go r end) vs
  | XObj fs => match fs with [] => false | _ => true end &&
               (fix go (l : list xfield) : bool := match l with [] => true | f :: r => xwf (xf_val f) && go r end) fs
  end.
Fixpoint xwf_vals (l : list xval) : bool := match l with [] => true | x :: r => xwf x && xwf_vals r end.
Fixpoint xwf_fields (l : list xfield) : bool := match l with [] => true | f :: r => xwf (xf_val f) && xwf_fields r end.
Definition wf_xdoc (d : xdoc) : bool := xwf_fields d.

(* ------------------------------------------------------------------ side conditions *)
Section SharedX.
  Variable tp : bool.                              (* true: text tape path; false: the part common with the text stream path *)
  Variable decode : bytes -> cow.
  Variable parse_f64 : bytes -> outcome N.
  Variable cfg : bcfg.

  Notation tdec := (tdec decode).

  Definition scalar_enc_okx (c : choice) (l : xscalar) : Prop :=
    match l with
    | XBase b => scalar_enc_ok decode cfg c b
    | XDateHour y m d h wide _ =>
        if ch_date_i32 c then True else str_ok decode cfg (ch_str c) (xdh_text y m d h wide) (xdh_text y m d h wide)
    end.

  Definition key_okx (e : enc_choice) (i : nat) (f : xfield) : Prop :=
    str_ok decode cfg (ch_key (e [i])) (text_raw (xf_kind f) (xf_key f)) (xf_key f).

  Fixpoint enc_okx_v (e : enc_choice) (v : xval) {struct v} : Prop :=
    match v with
    | XScalar l => scalar_enc_okx (e []) l
    | XRgb c => rgb_ok c
    | XArr vs => (fix go (i : nat) (l : list xval) : Prop :=
                    match l with [] => True | x :: r => enc_okx_v (sub e i) x /\ go (S i) r end) 0%nat vs
    | XObj fs => ch_kghost (e [0%nat]) = false /\
                 (fix go (i : nat) (l : list xfield) : Prop :=
                    match l with [] => True | f :: r => (key_okx e i f /\ enc_okx_v (sub e i) (xf_val f)) /\ go (S i) r end) 0%nat fs
    end.
  Fixpoint enc_okx_vals (e : enc_choice) (i : nat) (l : list xval) : Prop :=
    match l with [] => True | x :: r => enc_okx_v (sub e i) x /\ enc_okx_vals e (S i) r end.
  Fixpoint enc_okx_fields (e : enc_choice) (i : nat) (l : list xfield) : Prop :=
    match l with [] => True | f :: r => (key_okx e i f /\ enc_okx_v (sub e i) (xf_val f)) /\ enc_okx_fields e (S i) r end.

  Definition enc_okx (e : enc_choice) (d : xdoc) : Prop :=
    ch_kghost (e [0%nat]) = false /\ (d = [] -> ch_ghost (e []) = false) /\ enc_okx_fields e 0 d.

  (* a DateHour: expressible in the binary format, a calendar day, hour 1..24 (zero-padded only from 10 on: the parser does
     not read `.05` back), and its text is left alone by the decoder *)
  Definition dh_ok (y m d h : Z) (wide : bool) : Prop :=
    (-5000 <= y <= 32767)%Z /\ ld_valid_md m d = true /\ (1 <= h <= 24)%Z /\ (wide = true -> 10 <= h)%Z /\
    tdec (xdh_text y m d h wide) = xdh_text y m d h wide.

  Definition scalar_sharedx (core : shape) (l : xscalar) : Prop :=
    match l with
    | XBase b => scalar_shared decode parse_f64 cfg core b
    | XDateHour y m d h wide _ => match core with ShDateHour => dh_ok y m d h wide | _ => False end
    end.

  (* one colour channel x (a u32 in the binary block, its decimal numeral in the text) under the element shape e *)
  Definition chan_shared (e : shape) (x : N) : Prop :=
    match e with
    | ShU _ | ShI _ | ShBool | ShIgn => True            (* out of range / not a bool: the same refusal on both sides *)
    | ShF32 | ShF64 => int_float_ok parse_f64 cfg (Z.of_N x)
    | _ => False
    end.

  (* a colour under the shape [core] (Option wrappers removed): the pair (name, channels) *)
  Definition rgb_shared (core : shape) (c : rgb) : Prop :=
    tp = true /\ tdec RGB_NAME = RGB_NAME /\
    match core with
    | ShTup [s1; s2] =>
        (s1 = ShStr \/ s1 = ShIgn) /\
        match s2 with
        | ShIgn => True
        | ShSeq e => Forall (chan_shared e) (rgb_channels c)
        | _ => False
        end
    | _ => False
    end.

  Fixpoint xshared_v (sh : shape) (v : xval) {struct v} : Prop :=
    match strip_opt sh with
    | ShIgn => True
    | core =>
      match v with
      | XScalar l => scalar_sharedx core l
      | XRgb c => rgb_shared core c
      | XArr vs =>
          match core with
          | ShSeq s => (fix all (l : list xval) : Prop := match l with [] => True | x :: r => xshared_v s x /\ all r end) vs
          | ShTup ss => (fix zip (l : list xval) (ss : list shape) {struct l} : Prop :=
                           match l, ss with
                           | [], _ => True
                           | x :: r, s :: ss' => xshared_v s x /\ zip r ss'
                           | _ :: _, [] => False
                           end) vs ss
          | _ => False
          end
      | XObj fs =>
          fs <> [] /\
          match core with
          | ShMap s => (fix all (l : list xfield) : Prop := match l with [] => True | f :: r => xshared_v s (xf_val f) /\ all r end) fs
          | ShStruct false fds =>
              (fix all (l : list xfield) : Prop :=
                 match l with
                 | [] => True
                 | f :: r => match find_name fds (tdec (text_raw (xf_kind f) (xf_key f))) 0 with
                             | Some (_, fd) => xshared_v (f_shape fd) (xf_val f)
                             | None => True
                             end /\ all r
                 end) fs
          | _ => False
          end
      end
    end.

  Fixpoint xshared_seq (s : shape) (l : list xval) : Prop :=
    match l with [] => True | x :: r => xshared_v s x /\ xshared_seq s r end.
  Fixpoint xshared_tup (l : list xval) (ss : list shape) {struct l} : Prop :=
    match l, ss with
    | [], _ => True
    | x :: r, s :: ss' => xshared_v s x /\ xshared_tup r ss'
    | _ :: _, [] => False
    end.
  Fixpoint xshared_map (s : shape) (l : list xfield) : Prop :=
    match l with [] => True | f :: r => xshared_v s (xf_val f) /\ xshared_map s r end.
  Fixpoint xshared_struct (fds : list field) (l : list xfield) : Prop :=
    match l with
    | [] => True
    | f :: r => match find_name fds (tdec (text_raw (xf_kind f) (xf_key f))) 0 with
                | Some (_, fd) => xshared_v (f_shape fd) (xf_val f)
                | None => True
                end /\ xshared_struct fds r
    end.

  Definition xshared (sh : shape) (d : xdoc) : Prop :=
    match sh with
    | ShMap s => xshared_map s d
    | ShStruct false fds => xshared_struct fds d
    | _ => False
    end.
End SharedX.
