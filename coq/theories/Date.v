(* common/date.rs over Z: every i32/i16/u8 width that matters is written out. *)
From JV Require Import Bytes Tables U64Swar Scalar.
Open Scope Z_scope.

Definition in_i16 (x : Z) : bool := (-32768 <=? x) && (x <=? 32767).
Definition in_i32 (x : Z) : bool := (-2147483648 <=? x) && (x <=? 2147483647).
Definition wrap_i16 (x : Z) : Z := ((x + 32768) mod 65536) - 32768.
Definition wrap_u8 (x : Z) : Z := x mod 256.

Record xdate := mkx { xy : Z; xm : Z; xd : Z; xh : Z }.   (* ExpandedRawDate *)
Record rawdate := mkraw { ry : Z; rdata : Z }.           (* RawDate: year + packed u16 *)

(* month_day_from_julian: match over the generated ranges, `_ => unreachable!()` *)
Definition month_day_from_julian (d : Z) : outcome (Z * Z) :=
  match find (fun r => let '(lo, hi, _, _) := r in (lo <=? d) && (d <=? hi)) julian_ranges with
  | Some (_, _, m, off) => Ok (m, wrap_u8 (d + off))
  | None => Panic 1301
  end.

Definition julian_ordinal_day (m : Z) : outcome Z :=
  match find (fun r => fst r =? m) julian_ordinal with
  | Some (_, v) => Ok v
  | None => Panic 1302
  end.

(* ExpandedRawDate::from_binary; Rust `%` and `/` truncate toward zero *)
Definition x_from_binary (s0 : Z) : outcome (option xdate) :=
  let hour := Z.rem s0 24 in
  let s := Z.quot s0 24 in
  let dsj := Z.rem s 365 in
  if (hour <? 0) || (dsj <? 0) then Ok None
  else
    let s := Z.quot s 365 in
    let year := s - 5000 in
    if negb (in_i32 year) then Ok None      (* checked_sub *)
    else if negb (in_i16 year) then Ok None (* i16::try_from *)
    else
      do (m, d) <- month_day_from_julian dsj;
      Ok (Some (mkx year m d hour)).

Definition dig (b : N) : Z := Z.of_N b - 48.
Definition DOT : N := 46%N.

(* ExpandedRawDate::_parse, byte by byte.  u8 arithmetic: a*10+b <= 99, no overflow possible. *)
Definition x_parse (input : bytes) : outcome (option xdate) :=
  match to_i64_t input with
  | Err _ => Ok None
  | Panic s => Panic s | OOB s => OOB s | OutOfFuel => OutOfFuel
  | Ok (year, data) =>
    match data with
    | [] => if in_i32 year then x_from_binary year else Ok None
    | c0 :: _ =>
      if negb (in_i16 year) then Ok None else
      if negb (c0 =? DOT)%N then Ok None else
      match bget data 1 with None => Ok None | Some n1 =>
      if negb (is_digit n1) then Ok None else
      let month1 := dig n1 in
      match bget data 2 with None => Ok None | Some n2 =>
      let mo := if (n2 =? DOT)%N then Some (month1, 2%nat)
                else if is_digit n2 then Some (month1 * 10 + dig n2, 3%nat) else None in
      match mo with None => Ok None | Some (month, offset) =>
      match bget data offset with None => Ok None | Some c1 =>
      if negb (c1 =? DOT)%N then Ok None else
      match bget data (offset + 1) with None => Ok None | Some n3 =>
      if negb (is_digit n3) then Ok None else
      let day1 := dig n3 in
      let cont (day : Z) (offset : nat) : outcome (option xdate) :=
        match bget data offset with None => Ok None | Some c2 =>
        if negb (c2 =? DOT)%N then Ok None else
        match bget data (offset + 1) with None => Ok None | Some n5 =>
        if negb (is_digit n5) || (n5 =? 48)%N then Ok None else
        let hour1 := dig n5 in
        match bget data (offset + 2) with
        | None => Ok (Some (mkx year month day hour1))
        | Some n6 =>
          if is_digit n6 then
            if negb (Nat.eqb (length data) (offset + 3)) then Ok None
            else Ok (Some (mkx year month day (hour1 * 10 + dig n6)))
          else Ok None
        end end end in
      match bget data (offset + 2) with
      | None => Ok (Some (mkx year month day1 0))
      | Some n4 =>
        if (n4 =? DOT)%N then cont day1 (offset + 2)%nat
        else if is_digit n4 then
          let result := day1 * 10 + dig n4 in
          if negb (Nat.eqb (length data) (offset + 3)) then cont result (offset + 3)%nat
          else Ok (Some (mkx year month result 0))
        else Ok None
      end end end end end end
    end
  end.

(* RawDate packing: (month << 12) + (day << 7) + (hour << 2); fits u16 under the guard *)
Definition raw_from_ymdh_opt (y m d h : Z) : option rawdate :=
  if negb (m =? 0) && (m <? 13) && negb (d =? 0) && (d <? 32) && (h <? 25)
  then Some (mkraw y (m * 4096 + d * 128 + h * 4)) else None.
Definition raw_month (r : rawdate) : Z := Z.shiftr (rdata r) 12 mod 256.
Definition raw_day (r : rawdate) : Z := Z.land (Z.shiftr (rdata r) 7) 31.
Definition raw_hour (r : rawdate) : Z := Z.land (Z.shiftr (rdata r) 2) 31.
Definition raw_has_hour (r : rawdate) : bool := negb (Z.land (rdata r) 124 =? 0).
Definition raw_from_expanded (x : xdate) : option rawdate := raw_from_ymdh_opt (xy x) (xm x) (xd x) (xh x).

Definition dpm (m : Z) : outcome Z :=
  match nth_error days_per_month (Z.to_nat m) with Some v => Ok v | None => Panic 1303 end.

(* Date::from_ymd_opt *)
Definition date_from_ymd_opt (y m d : Z) : outcome (option rawdate) :=
  match raw_from_ymdh_opt y m d 0 with
  | None => Ok None
  | Some raw => do days <- dpm m; if d <=? days then Ok (Some raw) else Ok None
  end.
Definition date_from_expanded (x : xdate) : outcome (option rawdate) :=
  if negb (xh x =? 0) then Ok None else date_from_ymd_opt (xy x) (xm x) (xd x).

Definition datehour_from_ymdh_opt (y m d h : Z) : outcome (option rawdate) :=
  match raw_from_ymdh_opt y m d h with
  | None => Ok None
  | Some raw => do days <- dpm m; if (0 <? h) && (d <=? days) then Ok (Some raw) else Ok None
  end.
Definition datehour_from_expanded (x : xdate) := datehour_from_ymdh_opt (xy x) (xm x) (xd x) (xh x).

Definition uniform_from_ymd_opt (y m d : Z) : option rawdate :=
  if 30 <? d then None else raw_from_ymdh_opt y m d 0.
Definition uniform_from_expanded (x : xdate) : option rawdate :=
  if negb (xh x =? 0) then None else uniform_from_ymd_opt (xy x) (xm x) (xd x).

Definition olift {A B} (x : outcome (option A)) (f : A -> outcome (option B)) : outcome (option B) :=
  do o <- x; match o with Some a => f a | None => Ok None end.

(* Date::fast_parse_u64 : None = not all digits (fall back); Some r = decided *)
Definition date_fast_parse_u64 (r : N) : option (outcome (option rawdate)) :=
  match fast_digit_parse r with
  | None => None
  | Some val =>
      let val := Z.of_N val in
      let day := val mod 100 in
      let month := (val / 100) mod 100 in
      let val := val / 10000 in
      Some (date_from_expanded (mkx (wrap_i16 val) (wrap_u8 month) (wrap_u8 day) 0))
  end.

Definition date_fallback (s : bytes) : outcome (option rawdate) := olift (x_parse s) date_from_expanded.

Definition Z0c : N := 48%N.
Definition date_parse (s : bytes) : outcome (option rawdate) :=
  let fast8 (r : bytes) :=
    match date_fast_parse_u64 (le_u64 r) with Some x => x | None => date_fallback s end in
  match s with
  | [y1; y2; y3; y4; 46%N; m1; m2; 46%N; d1; d2] => fast8 [y1; y2; y3; y4; m1; m2; d1; d2]
  | [y1; y2; y3; y4; 46%N; m1; m2; 46%N; d1] => fast8 [y1; y2; y3; y4; m1; m2; Z0c; d1]
  | [y1; y2; y3; y4; 46%N; m1; 46%N; d1; d2] => fast8 [y1; y2; y3; y4; Z0c; m1; d1; d2]
  | _ =>
    if Nat.eqb (length s) 8 then
      let d := le_u64 s in
      let one_digit_month := (N.land d 71777214277877760 =? 12948046497185792)%N in
      let e := N.lor (N.land d 18388477864472215551) 13511005040541696 in
      match (if one_digit_month then date_fast_parse_u64 e else None) with
      | Some x => x
      | None => date_fallback s
      end
    else
      match s with
      | [] => Ok None
      | c :: _ =>
        if (Nat.ltb (length s) 5) || (Nat.ltb 12 (length s)) || negb ((c =? 45)%N || is_digit c)
        then Ok None else date_fallback s
      end
  end.

Definition datehour_parse (s : bytes) : outcome (option rawdate) := olift (x_parse s) datehour_from_expanded.
Definition uniform_parse (s : bytes) : outcome (option rawdate) :=
  olift (x_parse s) (fun x => Ok (uniform_from_expanded x)).
Definition raw_parse (s : bytes) : outcome (option rawdate) :=
  olift (x_parse s) (fun x =>
    match raw_from_expanded x with
    | None => Ok None
    | Some r =>
      match to_i64_t s with
      | Ok (_, []) => Ok None
      | Ok _ => Ok (Some r)
      | _ => Ok None
      end
    end).

(* Date::days *)
Definition date_days (r : rawdate) : outcome Z :=
  do md <- julian_ordinal_day (raw_month r);
  let yd := ry r * 365 in
  Ok (if yd <? 0 then yd - md - raw_day r else yd + md + raw_day r).

Definition days_until (a b : rawdate) : outcome Z :=
  do da <- date_days a; do db <- date_days b;
  let r := db - da in if in_i32 r then Ok r else Panic 1304.

Definition add_days (a : rawdate) (n : Z) : outcome rawdate :=
  do d0 <- date_days a;
  let nd := d0 + n in
  if negb (in_i32 nd) then Panic 1305 else
  let dsj := Z.abs (Z.rem nd 365) in
  let year := Z.quot nd 365 in
  do (m, d) <- month_day_from_julian dsj;
  if negb (in_i16 year) then Panic 1306 else
  match raw_from_ymdh_opt year m d (raw_hour a) with
  | Some r => Ok r
  | None => Panic 1307
  end.

Definition date_from_binary (s : Z) : outcome (option rawdate) :=
  olift (x_from_binary s) (fun x => date_from_expanded (mkx (xy x) (xm x) (xd x) 0)).
Definition date_from_binary_heuristic (s : Z) : outcome (option rawdate) :=
  olift (x_from_binary s) (fun x => if -100 <? xy x then date_from_expanded x else Ok None).
Definition datehour_from_binary (s : Z) : outcome (option rawdate) :=
  olift (x_from_binary s) (fun x => datehour_from_expanded (mkx (xy x) (xm x) (xd x) (xh x + 1))).
Definition datehour_from_binary_heuristic (s : Z) : outcome (option rawdate) :=
  olift (datehour_from_binary s) (fun r =>
    let is_min_year := (ry r =? 1) || (ry r =? -1) in
    let is_min_date := is_min_year && (raw_month r =? 1) && (raw_day r =? 1) && (raw_hour r =? 1) in
    if (ry r <? 1800) && negb is_min_date then Ok None else Ok (Some r)).

(* to_binary: i32 arithmetic; overflow = panic in debug, wrap in release -- flagged as Panic *)
Definition to_binary_z (year ordinal hour : Z) : outcome Z :=
  let year_part := (year + 5000) * 365 in
  let h := if hour <=? 1 then 0 else hour - 1 in   (* saturating_sub(1) *)
  let r := (year_part + ordinal) * 24 + h in
  if in_i32 r then Ok r else Panic 1308.
Definition date_to_binary (r : rawdate) : outcome Z :=
  do j <- julian_ordinal_day (raw_month r); to_binary_z (ry r) (j + raw_day r) 0.
Definition datehour_to_binary (r : rawdate) : outcome Z :=
  do j <- julian_ordinal_day (raw_month r); to_binary_z (ry r) (j + raw_day r) (raw_hour r).

(* Ord for RawDate: year, then packed data *)
Definition raw_cmp (a b : rawdate) : comparison :=
  match ry a ?= ry b with Eq => rdata a ?= rdata b | c => c end.

(* ---- formatting: core::fmt decimal printing modelled by the obvious function ---- *)
Fixpoint digits_fuel (fuel : nat) (n : N) (acc : bytes) : bytes :=
  match fuel with
  | O => acc
  | S f => let acc' := (48 + n mod 10)%N :: acc in
           if (n <? 10)%N then acc' else digits_fuel f (n / 10)%N acc'
  end.
Definition dec_N (n : N) : bytes := digits_fuel 40 n [].
Fixpoint pad0 (k : nat) (d : bytes) : bytes :=
  match k with O => d | S k' => 48%N :: pad0 k' d end.
(* `{:0w}` on a signed integer: sign counts toward the width *)
Definition fmt_int (w : nat) (z : Z) : bytes :=
  let ds := dec_N (Z.abs_N z) in
  if z <? 0 then 45%N :: pad0 (w - 1 - length ds) ds else pad0 (w - length ds) ds.

Definition DASH : N := 45%N.
Definition game_fmt (wide : bool) (r : rawdate) : bytes :=
  let w := if wide then 2%nat else 0%nat in
  fmt_int 0 (ry r) ++ [DOT] ++ fmt_int w (raw_month r) ++ [DOT] ++ fmt_int w (raw_day r)
  ++ (if raw_has_hour r then [DOT] ++ fmt_int w (raw_hour r) else []).
Definition iso_fmt (r : rawdate) : bytes :=
  fmt_int 4 (ry r) ++ [DASH] ++ fmt_int 2 (raw_month r) ++ [DASH] ++ fmt_int 2 (raw_day r)
  ++ (if raw_has_hour r then [84%N] ++ fmt_int 2 (raw_hour r - 1) else []).
