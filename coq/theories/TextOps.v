(* text/reader.rs: the public entry points of TokenReader on top of next_opt, and a driver that
   runs a *list of calls* on one reader (the state is carried from call to call):
     next        (None, None) -> Ok(None)
     read        (None, None) -> Err(Eof)      [reader.rs:777-784]
     read_bytes  TextReader.read_bytes          [reader.rs:521-533]
     position    after every call
   The run stops at the first clean end / error (what happens after an error is C20's subject).
   No proofs here. *)
From JV Require Import Bytes Tables U64Swar BufWin TextTok TextReader.
Open Scope nat_scope.

Definition reader_next (fuel : nat) (r : reader) : nres := next_opt fuel r.

Definition reader_read (fuel : nat) (r : reader) : nres :=
  match next_opt fuel r with
  | NEnd r' => NErr E_Eof r'
  | x => x
  end.

(* read_bytes keeping the reader when the call fails (the window has been refilled by then);
   TextOpsProofs.read_bytes_st_eq: its result is TextReader.read_bytes *)
Fixpoint read_bytes_st (fuel : nat) (r : reader) (n : nat) : outcome bytes * reader :=
  match fuel with
  | O => (OutOfFuel, r)
  | S f =>
      let b := rbw r in
      if Nat.ltb (length (win b)) n then
        match bw_fill_buf b (rrd r) with
        | FillOk 0 b2 rd2 => (Err E_Eof, mkreader b2 rd2 (rbom r))
        | FillOk _ b2 rd2 => read_bytes_st f (mkreader b2 rd2 (rbom r)) n
        | FillIo b2 rd2 => (Err E_Io, mkreader b2 rd2 (rbom r))
        | FillFull b2 rd2 => (Err E_BufferFull, mkreader b2 rd2 (rbom r))
        end
      else
        match bw_advance b n with
        | Ok b2 => (Ok (firstn n (win b)), with_bw r b2)
        | _ => (OOB 7020%N, r)
        end
  end.

Inductive rop := ONext | ORead | OBytes (n : nat).
Inductive oitem := XTok (t : rtok) | XEnd | XErr (e : N) | XBytes (b : bytes) | XCrash (s : N).

(* items with the value of position() after the call, and the reader at the end *)
Fixpoint run_ops (fuel : nat) (ops : list rop) (r : reader) : list (oitem * nat) * reader :=
  match ops with
  | [] => ([], r)
  | OBytes n :: ops' =>
      match read_bytes_st fuel r n with
      | (Ok b, r') => let '(l, rf) := run_ops fuel ops' r' in ((XBytes b, reader_position r') :: l, rf)
      | (Err e, r') => ([(XErr e, reader_position r')], r')
      | (Panic s, r') | (OOB s, r') => ([(XCrash s, 0)], r')
      | (OutOfFuel, r') => ([(XCrash 7021%N, 0)], r')
      end
  | o :: ops' =>
      match (match o with ORead => reader_read fuel r | _ => reader_next fuel r end) with
      | NTok t r' => let '(l, rf) := run_ops fuel ops' r' in ((XTok t, reader_position r') :: l, rf)
      | NEnd r' => ([(XEnd, reader_position r')], r')
      | NErr e r' => ([(XErr e, reader_position r')], r')
      | NCrash s => ([(XCrash s, 0)], r)
      end
  end.

Definition ops_fuel (input : bytes) (sch : list event) : nat := default_fuel input sch.

Definition stream_ops (cap : nat) (sch : list event) (input : bytes) (ops : list rop) : list (oitem * nat) * reader :=
  run_ops (ops_fuel input sch) ops (reader_new cap input sch).
Definition slice_ops (input : bytes) (ops : list rop) : list (oitem * nat) * reader :=
  run_ops (ops_fuel input []) ops (reader_from_slice input).

(* what the property compares: the items without the intermediate positions *)
Definition items_of (x : list (oitem * nat) * reader) : list oitem := map fst (fst x).
(* position() after the last call *)
Definition final_pos (x : list (oitem * nat) * reader) : nat := reader_position (snd x).

(* into_parts: the buffer handed back has the length the reader was built with; the inner Read
   has delivered [delivered] bytes *)
Definition parts_len (r : reader) : nat := cap (rbw r).
Definition parts_delivered (r : reader) : nat := delivered (rrd r).
