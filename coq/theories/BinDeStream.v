(* The key loops of the two streaming MapAccess implementations, at the level the I/O-fault property
   (C20) needs: which reader results are propagated and which are discarded.

   The reader is abstracted by the list of results of its successive operations (next / read /
   skip_container); an operation that fails with an I/O error leaves the data where it was, so a
   one-shot fault turns the fault-free result list  l1 ++ l2  into  l1 ++ RIo :: l2.

   text   src/text/de.rs:231-246   Open in key position => reader.skip_container()?   (propagates)
   binary src/binary/de.rs:95-114  Open in key position => let _ = reader.read();     (DISCARDS) *)
From JV Require Import Bytes Tables.

Inductive tok := TOpen | TClose | TEqual | TScalar (n : N).
Inductive rres := RTok (t : tok) | REof | RIo.
Inductive kres := KKey (t : tok) | KEnd | KErrIo | KErrEof.

(* one key loop, parametrised by whether the result of the reader operation that follows an Open
   in key position is propagated ([?]) or discarded ([let _ =]); the two flags are regenerated
   from the sources (Tables.text_key_loop_propagates / bin_key_loop_propagates). *)
Fixpoint next_key (propagate : bool) (root : bool) (rs : list rres) : kres :=
  match rs with
  | [] => KErrEof
  | RTok TClose :: _ => KEnd
  | RTok TOpen :: r =>
    match r with
    | RTok _ :: r' => next_key propagate root r'
    | REof :: r' => if propagate then KErrEof else next_key propagate root r'
    | RIo :: r' => if propagate then KErrIo else next_key propagate root r'
    | [] => KErrEof
    end
  | RTok t :: _ => KKey t
  | REof :: _ => if root then KEnd else KErrEof
  | RIo :: _ => KErrIo
  end.

Definition text_next_key := next_key text_key_loop_propagates.
Definition bin_next_key := next_key bin_key_loop_propagates.
