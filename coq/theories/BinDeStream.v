(* The key loops of the two streaming MapAccess implementations, at the level the I/O-fault property
   (C20) needs: which reader results are propagated and which are discarded.

   The reader is abstracted by the list of results of its successive operations (next / read /
   skip_container); an operation that fails with an I/O error leaves the data where it was, so a
   one-shot fault turns the fault-free result list  l1 ++ l2  into  l1 ++ RIo :: l2.

   text   src/text/de.rs:231-246   Open in key position => reader.skip_container()?   (propagates)
   binary src/binary/de.rs:95-114  Open in key position => let _ = reader.read();     (DISCARDS) *)
From JV Require Import Bytes.

Inductive tok := TOpen | TClose | TEqual | TScalar (n : N).
Inductive rres := RTok (t : tok) | REof | RIo.
Inductive kres := KKey (t : tok) | KEnd | KErrIo | KErrEof.

Fixpoint text_next_key (root : bool) (rs : list rres) : kres :=
  match rs with
  | [] => KErrEof
  | RTok TClose :: _ => KEnd
  | RTok TOpen :: r =>
    match r with                                  (* skip_container()? *)
    | RTok _ :: r' => text_next_key root r'
    | REof :: _ => KErrEof
    | RIo :: _ => KErrIo
    | [] => KErrEof
    end
  | RTok t :: _ => KKey t
  | REof :: _ => if root then KEnd else KErrEof
  | RIo :: _ => KErrIo
  end.

Fixpoint bin_next_key (root : bool) (rs : list rres) : kres :=
  match rs with
  | [] => KErrEof
  | RTok TClose :: _ => KEnd
  | RTok TOpen :: r =>
    match r with                                  (* let _ = reader.read(); *)
    | _ :: r' => bin_next_key root r'
    | [] => KErrEof
    end
  | RTok t :: _ => KKey t
  | REof :: _ => if root then KEnd else KErrEof
  | RIo :: _ => KErrIo
  end.
