(* C06 (binary half): what "structurally sound" means for a binary tape.
   Specification only: a declarative predicate [tape_wf] (links, back links, no index 0,
   nesting as an inductive grammar) and an executable Dyck checker [tape_wfb] (the one the
   harness mirrors on real tapes). *)
From JV Require Import Bytes Tables BinPrim BinTape.
Open Scope nat_scope.

Definition is_container (x : tok) : bool := match x with TArray _ | TObject _ => true | _ => false end.
Definition is_end (x : tok) : bool := match x with TEnd _ => true | _ => false end.
(* everything that is neither a container start nor an End (includes MixedContainer, Equal) *)
Definition is_scalar (x : tok) : bool := negb (is_container x) && negb (is_end x).
Definition container_end (x : tok) : option nat :=
  match x with TArray e | TObject e => Some e | _ => None end.

(* grammar: a sequence of complete values laid out from absolute index [base] *)
Inductive closed_seq : nat -> tape -> Prop :=
| CS_nil : forall b, closed_seq b []
| CS_scalar : forall b x r, is_scalar x = true -> closed_seq (S b) r -> closed_seq b (x :: r)
| CS_container : forall b c e inner r,
    container_end c = Some e -> e = S b + length inner ->
    closed_seq (S b) inner -> closed_seq (S e) r ->
    closed_seq b (c :: inner ++ TEnd b :: r).

Definition links_ok (t : tape) : Prop :=
  forall i c e, nth_error t i = Some c -> container_end c = Some e ->
                (i < e)%nat /\ (e < length t)%nat /\ nth_error t e = Some (TEnd i).
Definition back_links_ok (t : tape) : Prop :=
  forall e i, nth_error t e = Some (TEnd i) ->
              (i < e)%nat /\ exists c, nth_error t i = Some c /\ container_end c = Some e.
Definition no_index_zero (t : tape) : Prop :=
  (forall c, nth_error t 0 = Some c -> is_container c = false) /\
  (forall e, nth_error t e = Some (TEnd 0) -> False).

Definition tape_wf (t : tape) : Prop :=
  links_ok t /\ back_links_ok t /\ no_index_zero t /\ closed_seq 0 t.

(* executable checker: one pass with a stack of (start index, stored end) *)
Fixpoint dyck (pos : nat) (stack : list (nat * nat)) (l : tape) : bool :=
  match l with
  | [] => match stack with [] => true | _ => false end
  | x :: r =>
    match x with
    | TArray e | TObject e => negb (Nat.eqb pos 0) && dyck (S pos) ((pos, e) :: stack) r
    | TEnd i => match stack with
                | (p, e) :: s => Nat.eqb p i && Nat.eqb e pos && dyck (S pos) s r
                | [] => false
                end
    | _ => dyck (S pos) stack r
    end
  end.
Definition tape_wfb (t : tape) : bool := dyck 0 [] t.

