(* C05, wave 4 (audit/C05.md) -- entry points stated FROM BYTES.
   Props/C05.v re-exports the DOM / JSON no-crash theorems with the hypothesis TapeWf.tape_wf; the
   property is about byte strings given to `TextTape::from_slice(..)` followed by the reader API, so the
   statements that count for C05 are the ones composed with the parser (bridge theorem
   parse_tape_wf, proofs/TextTapeGrammarProofs.v).  They are pinned here under C05 names with the
   type of the owning property's theorem (so they cannot drift):

     C05_text_dom_from_bytes    for EVERY byte string the parser accepts: the complete observation of every
                                object node (fields, field_groups, remainder, lengths, size hints), of every
                                Array token read as an object, and every function of a value reader at every
                                index is defined -- no tokens[i] out of bounds, no unwrap on None, no usize
                                underflow, no debug_assert!, no fuel exhaustion (= the iterators terminate)
     C05_text_dom_root_from_bytes   the same spelled out for the document root (what tape.*_reader() returns)
     C05_text_json_from_bytes   json() of the root, of every value index, of every object node and of every
                                array reader, for every decoder, both profiles, all 18 option combinations: Ok
     C05_text_tape_wf_from_bytes    the bridge itself

   Recursion DEPTH of json() equals the nesting depth (known finding I-stack-depth); the theorems bound
   the model's fuel, not the real stack.  The tape writer on parsed tapes is Props/C05_wtape.v. *)
From JV Require Import Bytes Tables Scalar TextTok TextTape TapeWf Dom Json.
From JV.Props Require C16_parser C17_parser.

Theorem C05_text_tape_wf_from_bytes : forall input t bom, parse input = Ok (t, bom) -> TapeWf.tape_wf t.
Proof. exact C17_parser.C17_parser_tape_wf. Qed.
Print Assumptions C05_text_tape_wf_from_bytes.

Theorem C05_text_dom_from_bytes : ltac:(let t := type of C17_parser.C17_parsed_no_panic in exact t).
Proof. exact C17_parser.C17_parsed_no_panic. Qed.
Print Assumptions C05_text_dom_from_bytes.

Theorem C05_text_dom_root_from_bytes : ltac:(let t := type of C17_parser.C17_parsed_root_view in exact t).
Proof. exact C17_parser.C17_parsed_root_view. Qed.
Print Assumptions C05_text_dom_root_from_bytes.

Theorem C05_text_json_from_bytes : ltac:(let t := type of C16_parser.C16_parsed_json_total in exact t).
Proof. exact C16_parser.C16_parsed_json_total. Qed.
Print Assumptions C05_text_json_from_bytes.

(* non-vacuity: a document with a header, a mixed container and a parameter block parses, and the
   root view / JSON of its tape are defined (vm_compute on the extracted-and-run definitions) *)
Definition C05_inv_input : bytes :=
  [97; 61; 123; 98; 61; 99; 32; 49; 32; 50; 125; 32; 100; 61; 114; 103; 98; 123; 49; 125; 32; 101; 61; 123; 91; 91; 120; 93; 121; 93; 125]%N.
Example C05_inv_nonvacuous :
  exists t bom, parse C05_inv_input = Ok (t, bom) /\ length t = 18 /\
    (exists v, object_view false t (top_reader t) = Ok v) /\
    (forall v, v < length t -> is_crash (read_array t v) = false).
Proof.
  destruct (parse C05_inv_input) as [[t bom]| | | |] eqn:E; try (vm_compute in E; discriminate).
  exists t, bom. split; [reflexivity|].
  pose proof (C05_text_dom_from_bytes _ _ _ false E) as (_ & _ & H3).
  pose proof (C05_text_dom_root_from_bytes _ _ _ false E) as (rr & l & rem & _ & _ & _ & OV).
  split; [vm_compute in E; injection E as <- _; reflexivity|].
  split; [eexists; exact OV|]. intros v L. destruct (H3 v (fun b => b) L) as (_ & _ & _ & _ & _ & R). exact R.
Qed.
