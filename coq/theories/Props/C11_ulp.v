(* C11 — to_f64: the "within 2 ulp" clause and the assembled to_f64 sentence of the property.
   Statements only.  Vocabulary (proofs/ScalarF64Proofs.v, proofs/ScalarUlpProofs.v):

   frac_value neg i k        = sign * (i as f64 / 1e<k>), what the fractional branch of to_f64 returns
                               (C11_to_f64_frac / C11_to_f64_dot in Props/C11.v);
   decimal_value neg i k     = the exact real  +-i / 10^k;
   f64_decimal d neg i k     = the byte string d reads as sign neg, digit integer i (ALL digits, before and after
                               the '.', taken as one integer; a leading '+' counts 0) and k fractional digits:
                               one of the three accepted shapes  [-](digit|+)digit*   (k = 0),
                               [-](digit|+)digit* . digit+   and   [-]. digit+   (k = number of digits after '.');
   f64_accepts i k           = k = 0: i <= 2^53-1 (the integer guard);  k > 0: i < 2^64 and k <= 22;
   ulp                       = Flocq's [ulp radix2 (FLT_exp (-1074) 53)], the binary64 unit in the last place,
                               taken AT THE EXACT decimal value (not at the result);
   rounding                  = [round radix2 (FLT_exp (-1074) 53) ZnearestE], IEEE round-to-nearest-even.
   (3 - 1024 - 53 = -1074.)

   Axioms: only the standard-library real-number axioms that Flocq's reals need (allow-list in tools/vlib.py). *)
From Coq Require Import Reals.
From Flocq Require Import Core.Core IEEE754.BinarySingleNaN IEEE754.Binary IEEE754.Bits.
From JV Require Import Bytes Tables Scalar ScalarF64.
From JV.proofs Require Import ScalarProofs ScalarF64Proofs ScalarUlpProofs.
Open Scope N_scope.

(* 1. THE 2 ULP BOUND.  Whenever to_f64 goes through the fractional branch with digit integer i < 2^64
   (in particular 2^53 <= i, where the conversion i as f64 already rounds) and k <= 22 fractional digits, the
   result is strictly within 2 ulp of the exact decimal value +-i/10^k, ulp taken at the exact value. *)
Theorem C11_to_f64_2ulp : forall neg i k,
  i < U64_LIM -> k <= 22 ->
  (Rabs (B2R 53 1024 (frac_value neg i k) - decimal_value neg i k)
   <= 2 * ulp radix2 (FLT_exp (3 - 1024 - 53) 53) (decimal_value neg i k))%R.
Proof. intros neg i k Hi Hk. apply Rlt_le. exact (proj1 (frac_value_2ulp neg i k Hi Hk)). Qed.
Print Assumptions C11_to_f64_2ulp.

(* ... in fact strictly *)
Theorem C11_to_f64_2ulp_strict : forall neg i k,
  i < U64_LIM -> k <= 22 ->
  (Rabs (B2R 53 1024 (frac_value neg i k) - decimal_value neg i k)
   < 2 * ulp radix2 (FLT_exp (3 - 1024 - 53) 53) (decimal_value neg i k))%R.
Proof. intros neg i k Hi Hk. exact (proj1 (frac_value_2ulp neg i k Hi Hk)). Qed.

(* the sharper relative form: two roundings of relative error 2^-53 each, (1 + 2^-53)^2 - 1 = 2^-52 + 2^-106 *)
Theorem C11_to_f64_relative : forall neg i k,
  i < U64_LIM -> k <= 22 ->
  (Rabs (B2R 53 1024 (frac_value neg i k) - decimal_value neg i k)
   <= Rabs (decimal_value neg i k) * (bpow radix2 (-52) + bpow radix2 (-106)))%R.
Proof. intros neg i k Hi Hk. exact (proj2 (frac_value_2ulp neg i k Hi Hk)). Qed.
Print Assumptions C11_to_f64_relative.

(* the same on byte strings: both shapes with a '.' *)
Theorem C11_to_f64_2ulp_strings : forall d neg i k r,
  f64_decimal d neg i k -> to_f64 d = Ok r ->
  (Rabs (B2R 53 1024 r - decimal_value neg i k)
   <= 2 * ulp radix2 (FLT_exp (3 - 1024 - 53) 53) (decimal_value neg i k))%R.
Proof.
  intros d neg i k r Hd H. destruct (to_f64_numeric d neg i k r Hd H) as (_ & _ & _ & _ & H2 & _).
  apply Rlt_le. exact H2.
Qed.

(* 2. THE to_f64 SENTENCE OF THE PROPERTY, for every byte string d:
   to_f64 d is a refusal (never a crash), or Ok r where d is sign, digits and at most one '.' with reading
   (neg, i, k), the range conditions hold (integers: |v| <= 2^53-1, i.e. f64 holds them exactly), and
     r is finite (not NaN, not infinite);
     digit integer < 2^53  ==>  r is the correctly rounded decimal value;
     no '.'                ==>  r is exactly the integer;
     always                     r is within 2 ulp (and within relative 2^-52 + 2^-106) of the decimal value. *)
Theorem C11_to_f64_spec : forall d,
  (exists e, to_f64 d = Err e) \/
  (exists r neg i k,
     to_f64 d = Ok r /\ f64_decimal d neg i k /\
     (if k =? 0 then i <= f64_int_guard else i < U64_LIM /\ k <= 22) /\
     is_finite 53 1024 r = true /\
     (i < 2 ^ 53 -> B2R 53 1024 r = round radix2 (FLT_exp (3 - 1024 - 53) 53) (round_mode mode_NE) (decimal_value neg i k)) /\
     (k = 0 -> B2R 53 1024 r = decimal_value neg i k) /\
     (Rabs (B2R 53 1024 r - decimal_value neg i k)
      < 2 * ulp radix2 (FLT_exp (3 - 1024 - 53) 53) (decimal_value neg i k))%R /\
     (Rabs (B2R 53 1024 r - decimal_value neg i k)
      <= Rabs (decimal_value neg i k) * (bpow radix2 (-52) + bpow radix2 (-106)))%R).
Proof. exact to_f64_spec. Qed.
Print Assumptions C11_to_f64_spec.

(* the same clauses for EVERY reading of d (not only the one exhibited above), and the converse:
   a string with a reading inside the range conditions does convert *)
Theorem C11_to_f64_spec_all_readings : forall d neg i k r,
  f64_decimal d neg i k -> to_f64 d = Ok r -> f64_accepts i k /\ f64_numeric_spec neg i k r.
Proof. exact to_f64_numeric. Qed.

Theorem C11_to_f64_accepts : forall d neg i k,
  f64_decimal d neg i k -> f64_accepts i k -> exists r, to_f64 d = Ok r.
Proof. exact to_f64_decimal_conv. Qed.

(* to_f64 never crashes (no Panic / out-of-bounds / fuel outcome in the model) *)
Theorem C11_to_f64_total : forall d, match to_f64 d with Ok _ | Err _ => True | _ => False end.
Proof. exact to_f64_total. Qed.

(* 3. SHARPNESS: above 2^53 "correctly rounded" is false, and so is "within 1 ulp" -- 2 ulp is the right statement.
   "9007199254740993.0" (digit integer 10*(2^53+1)): the decimal value 2^53+1 is a tie that round-to-nearest-even
   sends to 2^53; to_f64 returns 2^53+2. *)
Theorem C11_to_f64_tie_witness :
  exists r, f64_decimal [57;48;48;55;49;57;57;50;53;52;55;52;48;57;57;51;46;48] false 90071992547409930 1 /\
            to_f64 [57;48;48;55;49;57;57;50;53;52;55;52;48;57;57;51;46;48] = Ok r /\
            B2R 53 1024 r <> round radix2 (FLT_exp (3 - 1024 - 53) 53) (round_mode mode_NE)
                               (decimal_value false 90071992547409930 1).
Proof. exact to_f64_tie_witness. Qed.

(* "239691543739222246.4": the result is more than 1 ulp (1.2 ulp = 38.4) away from the decimal value *)
Theorem C11_to_f64_more_than_1ulp_witness :
  exists r, f64_decimal [50;51;57;54;57;49;53;52;51;55;51;57;50;50;50;50;52;54;46;52] false 2396915437392222464 1 /\
            (2 ^ 53 <= 2396915437392222464 < U64_LIM) /\
            to_f64 [50;51;57;54;57;49;53;52;51;55;51;57;50;50;50;50;52;54;46;52] = Ok r /\
            (ulp radix2 (FLT_exp (3 - 1024 - 53) 53) (decimal_value false 2396915437392222464 1) <
             Rabs (B2R 53 1024 r - decimal_value false 2396915437392222464 1))%R.
Proof. exact to_f64_more_than_1ulp_witness. Qed.
Print Assumptions C11_to_f64_more_than_1ulp_witness.

(* 4. MONOTONICITY.  Two accepted strings with the same number of fractional digits (any signs, any digit
   integers up to u64::MAX): a smaller-or-equal decimal value converts to a smaller-or-equal double.
   _partial: for DIFFERENT numbers of fractional digits and a digit integer >= 2^53 monotonicity is not proved
   (two roundings with different divisors; not claimed by the property). *)
Theorem C11_to_f64_monotone_partial : forall d d' neg neg' i i' k r r',
  f64_decimal d neg i k -> f64_decimal d' neg' i' k -> to_f64 d = Ok r -> to_f64 d' = Ok r' ->
  (decimal_value neg i k <= decimal_value neg' i' k)%R -> (B2R 53 1024 r <= B2R 53 1024 r')%R.
Proof. exact to_f64_monotone_same_scale. Qed.

(* digit integers below 2^53: monotone across all shapes and scales (both are correctly rounded) *)
Theorem C11_to_f64_monotone_below_2p53 : forall d d' neg neg' i i' k k' r r',
  f64_decimal d neg i k -> f64_decimal d' neg' i' k' -> to_f64 d = Ok r -> to_f64 d' = Ok r' ->
  i < 2 ^ 53 -> i' < 2 ^ 53 ->
  (decimal_value neg i k <= decimal_value neg' i' k')%R -> (B2R 53 1024 r <= B2R 53 1024 r')%R.
Proof. exact to_f64_monotone_small. Qed.

(* 5. SIGN SYMMETRY.  Prefixing '-' to an accepted string without sign: accepted again, value negated; it is
   the IEEE negation (sign bit flipped, same magnitude bits) except for the integer zero. *)
Theorem C11_to_f64_neg_symmetry : forall d i k r,
  f64_decimal d false i k -> to_f64 d = Ok r ->
  exists r', to_f64 (45 :: d) = Ok r' /\ B2R 53 1024 r' = (- B2R 53 1024 r)%R /\
             (k <> 0 \/ i <> 0 -> r' = b64_opp r).
Proof. exact to_f64_neg_symmetry. Qed.
Print Assumptions C11_to_f64_neg_symmetry.

(* the exception: "-0" converts to +0.0 like "0" (i64 path), whereas "-0.0" gives -0.0 by the theorem above *)
Theorem C11_to_f64_minus_zero_quirk :
  to_f64 [45; 48] = Ok (B754_zero 53 1024 false) /\ to_f64 [48] = Ok (B754_zero 53 1024 false).
Proof. exact to_f64_minus_zero_int. Qed.

(* non-vacuity: "1844674407370955161.5" has digit integer 18446744073709551615 = u64::MAX >= 2^53 and one
   fractional digit; it converts *)
Example C11_ulp_nonvacuous :
  f64_decimal [49;56;52;52;54;55;52;52;48;55;51;55;48;57;53;53;49;54;49;46;53] false 18446744073709551615 1 /\
  2 ^ 53 <= 18446744073709551615 < U64_LIM /\
  to_f64_bits [49;56;52;52;54;55;52;52;48;55;51;55;48;57;53;53;49;54;49;46;53] = Ok 4880100556218669466%Z.
Proof.
  split; [|split; [split; vm_compute; [discriminate|reflexivity]|vm_compute; reflexivity]].
  exact (DecFrac false 49 [56;52;52;54;55;52;52;48;55;51;55;48;57;53;53;49;54;49] [53]
           (or_introl eq_refl) eq_refl eq_refl ltac:(discriminate)).
Qed.

(* the monotonicity / symmetry hypotheses are satisfiable: "1.5" <= "2.5", and "-1.5" *)
Example C11_mono_nonvacuous :
  f64_decimal [49;46;53] false 15 1 /\ f64_decimal [50;46;53] false 25 1 /\
  to_f64_bits [49;46;53] = Ok 4609434218613702656%Z /\ to_f64_bits [50;46;53] = Ok 4612811918334230528%Z /\
  to_f64_bits [45;49;46;53] = Ok 13832806255468478464%Z.
Proof.
  split; [exact (DecFrac false 49 [] [53] (or_introl eq_refl) eq_refl eq_refl ltac:(discriminate))|].
  split; [exact (DecFrac false 50 [] [53] (or_introl eq_refl) eq_refl eq_refl ltac:(discriminate))|].
  repeat split; vm_compute; reflexivity.
Qed.
