(* C05 — No input can crash, hang or escape memory bounds in any entry point.
   Every Rust panic site (indexing, unwrap, unreachable!, debug_assert!, overflow), every unchecked
   access and every loop of the modelled code is explicit in the models as an outcome
   Panic / OOB / OutOfFuel.  This file collects, per entry point, the theorem that the model never
   reaches such an outcome, for ALL inputs (and schedules / call histories).  The statements are
   re-stated here and proved by the theorems pinned in the owning property's file.
   Further entry points are pinned in Props/C05_readers.v (text and binary streaming readers and
   lexer: every method, every schedule incl. Fail events, every capacity), Props/C05_walks.v
   (binary on-demand and reader deserializer walks for every byte string and shape, text stream
   walk; the generic SerdeShape.walk theorem) and Props/C05_leaves.v (scalar conversions, date
   arithmetic under its documented preconditions).
   Props/C05_tapewalks.v adds the two tape deserializer walks (text: every parsed tape, every shape,
   own fuel; binary: every byte string, every shape, own fuel) with the parser invariants they need.
   NOT covered by a theorem: real stack depth (known finding I), allocator failure, pointer
   provenance.  The binary walk model returns Panic 9001 on shapes containing prop(..) where the
   implementation returns a deserialize error: a model-only artefact characterised exactly by
   C05_bde_prop_is_model_artefact (such shapes are not generated). *)
From JV Require Import Bytes Tables.
From JV Require TextTape BinTape BinPrim Writer TextReader BufWin.
From JV.Props Require C02 C03 C06 C08 C12 C13 C15 C16 C17.

(* text tape parser: no panic site reachable, fuel 2*len+8 suffices (termination) *)
Theorem C05_text_tape_never_crashes : forall input,
  match TextTape.parse input with Panic _ | OOB _ | OutOfFuel => False | _ => True end.
Proof. exact C06.C06_text_no_crash. Qed.
Print Assumptions C05_text_tape_never_crashes.

(* binary tape parser, optimised and reference interpretation, code as it is and repaired *)
Theorem C05_binary_tape_never_crashes : forall fx opt bytes, is_crash (BinTape.parse fx opt bytes) = false.
Proof. exact C03.C03_parse_never_crashes. Qed.
Print Assumptions C05_binary_tape_never_crashes.

(* binary lexer: a token, Eof or InvalidRgb -- nothing else *)
Theorem C05_binary_lexer_total : forall d,
  (exists t r, BinPrim.read_token d = Ok (t, r)) \/ BinPrim.read_token d = Err BinPrim.E_LexEof \/ BinPrim.read_token d = Err BinPrim.E_InvalidRgb.
Proof. exact C08.C08_read_token_total. Qed.
Print Assumptions C05_binary_lexer_total.

(* text writer: every call history, well formed or not, runs without a panic *)
Theorem C05_writer_never_crashes : forall (fdisp : bool -> N -> option N -> bytes) (c : Writer.cfg) (calls : list Writer.call),
  exists r, Writer.run fdisp c calls = Ok r.
Proof. exact C15.C15_no_panic. Qed.
Print Assumptions C05_writer_never_crashes.

(* The following entry points are re-exported with the statement of the owning property's theorem
   (the type is taken from that theorem, so it can never drift); informal meaning in the comment. *)

(* Date / DateHour / UniformDate / RawDate text parsers: never Panic / OOB / OutOfFuel, any byte string *)
Theorem C05_date_parsers_total : ltac:(let t := type of C13.C13_parse_total in exact t).
Proof. exact C13.C13_parse_total. Qed.
Print Assumptions C05_date_parsers_total.

(* from_binary (+ heuristics) over the whole i32 range: never a crash (the unreachable!() arms are unreachable) *)
Theorem C05_date_from_binary_total : ltac:(let t := type of C13.C13_from_binary_total in exact t).
Proof. exact C13.C13_from_binary_total. Qed.
Print Assumptions C05_date_from_binary_total.

(* string decoders: always Ok -- the two from_utf8_unchecked sites are never reached with ill-formed
   bytes and split_at never panics *)
Theorem C05_decode_w1252_total : ltac:(let t := type of C12.C12_w1252_spec in exact t).
Proof. exact C12.C12_w1252_spec. Qed.
Theorem C05_decode_utf8_total : ltac:(let t := type of C12.C12_utf8_spec in exact t).
Proof. exact C12.C12_utf8_spec. Qed.
Print Assumptions C05_decode_utf8_total.

(* scalar level of the deserializers (typed hints over Scalar conversions) never crashes *)
Theorem C05_de_scalar_level_total : ltac:(let t := type of C02.C02_scalar_never_crashes_partial in exact t).
Proof. exact C02.C02_scalar_never_crashes_partial. Qed.

(* DOM readers and JSON conversion on every well-formed tape (TapeWf.tape_wf), all options: no
   Panic (tokens[i], unwrap, usize subtraction, debug_assert!) and terminating *)
Theorem C05_dom_object_view_total : ltac:(let t := type of C17.C17_object_view_total in exact t).
Proof. exact C17.C17_object_view_total. Qed.
Theorem C05_dom_array_view_total : ltac:(let t := type of C17.C17_array_view_total in exact t).
Proof. exact C17.C17_array_view_total. Qed.
Theorem C05_dom_value_reader_total : ltac:(let t := type of C17.C17_value_reader_total in exact t).
Proof. exact C17.C17_value_reader_total. Qed.
Theorem C05_json_value_total : ltac:(let t := type of C16.C16_json_value_total in exact t).
Proof. exact C16.C16_json_value_total. Qed.
Theorem C05_json_object_total : ltac:(let t := type of C16.C16_json_object_total in exact t).
Proof. exact C16.C16_json_object_total. Qed.
Theorem C05_json_array_total : ltac:(let t := type of C16.C16_json_array_total in exact t).
Proof. exact C16.C16_json_array_total. Qed.
Print Assumptions C05_json_array_total.
