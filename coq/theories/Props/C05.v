(* C05 — No input can crash, hang or escape memory bounds in any entry point.
   Every Rust panic site (indexing, unwrap, unreachable!, debug_assert!, overflow), every unchecked
   access and every loop of the modelled code is explicit in the models as an outcome
   Panic / OOB / OutOfFuel.  This file collects, per entry point, the theorem that the model never
   reaches such an outcome, for ALL inputs (and schedules / call histories).  The statements are
   re-stated here and proved by the theorems pinned in the owning property's file.
   What is NOT covered by a theorem is listed in props/C05.py (CLAIM) and DESIGN.md section 11:
   real stack depth (known finding I), the deserializer walks, the DOM/JSON walks on arbitrary
   tapes (C16/C17 prove them on well-formed tapes), allocator failure, pointer provenance. *)
From JV Require Import Bytes Tables.
From JV Require TextTape BinTape BinPrim Writer TextReader BufWin.
From JV.Props Require C03 C06 C08 C15.

(* text tape parser: no panic site reachable, fuel 2*len+8 suffices (termination) *)
Theorem C05_text_tape_never_crashes : forall input,
  match TextTape.parse input with Panic _ | OOB _ | OutOfFuel => False | _ => True end.
Proof. exact C06.C06_text_no_crash. Qed.
Print Assumptions C05_text_tape_never_crashes.

(* binary tape parser, optimised and reference interpretation, code as it is and repaired *)
Theorem C05_binary_tape_never_crashes : forall fx opt bytes, is_crash (BinTape.parse fx opt bytes) = false.
Proof. exact C03.C03_parse_never_crashes. Qed.
Print Assumptions C05_binary_tape_never_crashes.

(* binary lexer: a token, Eof or InvalidRgb -- nothing else *)
Theorem C05_binary_lexer_total : forall d,
  (exists t r, BinPrim.read_token d = Ok (t, r)) \/ BinPrim.read_token d = Err BinPrim.E_LexEof \/ BinPrim.read_token d = Err BinPrim.E_InvalidRgb.
Proof. exact C08.C08_read_token_total. Qed.
Print Assumptions C05_binary_lexer_total.

(* text writer: every call history, well formed or not, runs without a panic *)
Theorem C05_writer_never_crashes : forall (fdisp : bool -> N -> option N -> bytes) (c : Writer.cfg) (calls : list Writer.call),
  exists r, Writer.run fdisp c calls = Ok r.
Proof. exact C15.C15_no_panic. Qed.
Print Assumptions C05_writer_never_crashes.
