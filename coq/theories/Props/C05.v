(* C05 — placeholder: collects the no-crash theorems of the individual models once merged. *)
From JV Require Import Bytes.
