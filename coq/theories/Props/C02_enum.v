(* C02, wave 5 (engineer w_c02): enums with DATA-CARRYING variants on both text parse paths.

   The statement of C02 lists "enums" among the target types.  Props/C02_walk*.v / C02_ext.v cover the unit-variant
   enum (SerdeShape.ShEnum).  This file covers what serde-derive generates for `enum E { A, B(T), C(T, U), D { x: T } }`:
   TextDeEnum.v models ValueDeserializer::deserialize_enum -> EnumAccess -> VariantDeserializer::{unit_variant,
   newtype_variant_seed, tuple_variant, struct_variant} (tape path) and TextReaderEnum (stream path), run against the
   implementation by the streams enum_model / enum_spec / enum_real of props/C02_enum.py.

   PART 1 -- the tape path returns the document's variant (proofs/TextDeEnumProofs.v):
     * C02_enum_tape_value_spec_partial: at a VALUE: for every value v of the TextDoc grammar sitting at index off of
       ANY tape (as a field's value or an element), every variant list and every fuel above the explicit bound,
       de_enum = spec_enum wherever spec_enum fits: a scalar names a payload-less variant, `name { .. }` /
       `{ name = payload }` / `{ name payload }` name a variant whose payload is read by the payload's shape exactly as
       TextDeSpec2.spec_v2 (the specification of C02_tape_path_ext_partial) reads that value;
     * C02_enum_tape_root_spec_partial: from the ROOT: `struct Root { name: Vec<E> }` over flatten d returns
       spec_enum_fields for every document of the TextDoc grammar, default fuel.
     `_partial`: (a) the views are the four above; what the code does on other containers (`{ a = 1 b = 2 }` takes the
     first pair, an operator other than `=` becomes the payload, a mixed object starts after the marker) is modelled
     and run (enum_model) but not specified; (b) the enum sits at a top-level field; inside Vec / Option / nested
     structs it is exercised by the harness only; (c) a parameter block named like the field is outside.
   PART 2 -- the stream path knows unit variants only (finding Q-stream-data-enum):
     * C02_enum_stream_unit_only: for EVERY token list, whatever from_*_reader returns for Root consists of declared
       unit variants; C02_enum_stream_payload_refused: once the value token names a payload variant the answer is a
       Deserialize error.  Hence "the streaming reader path yields an equal value" FAILS on every document whose
       enum value carries a payload: C02_enum_paths_differ_refuted (computed witness `color = rgb { 1 2 3 }`).
   PART 3 -- conservativity: with unit variants only, de_enum / sde_enum ARE the ShEnum cases of TextDeTape.de /
     TextDeStream.sde (C02_enum_unit_is_ShEnum_tape / _stream), so C02_tape_path_ext_partial, C02_stream_path_ext_partial
     and C02_paths_agree_outside_headers_partial speak about them. *)
From JV Require Import Bytes Utf8 TextTok TextReader TextDoc SerdeShape TextDeCommon TextDeTape TextDeStream TextDeSpec TextDeSpec2 TextDeEnum.
From JV.proofs Require Import TextDeTapeProofs TextDeMoreTape TextDeEnumProofs.
From JV.Props Require Import C02_walk.
Open Scope nat_scope.

(* ---- PART 1 *)
Theorem C02_enum_tape_value_spec_partial :
  forall (decode : bytes -> cow) (parse_f64 : bytes -> outcome N) (F : fops) (t : ttape) v vs off o fuel,
  ext_value v = true -> at_ t off (flat_value off v) ->
  cv2 v + variants_size vs <= fuel ->
  spec_enum decode parse_f64 F vs v <> Err EC_UNFIT ->
  de_enum decode parse_f64 F t fuel vs (kind o off) = spec_enum decode parse_f64 F vs v.
Proof. exact de_enum_spec. Qed.
Print Assumptions C02_enum_tape_value_spec_partial.

Theorem C02_enum_tape_root_spec_partial :
  forall (decode : bytes -> cow) (parse_f64 : bytes -> outcome N) (F : fops) name vs d,
  ext_fields d = true ->
  spec_enum_fields decode parse_f64 F name vs d <> Err EC_UNFIT ->
  enum_root_tape decode parse_f64 F name vs (flatten d) = spec_enum_fields decode parse_f64 F name vs d.
Proof. exact enum_root_tape_spec. Qed.
Print Assumptions C02_enum_tape_root_spec_partial.

(* non-vacuity: `color = rgb { 1 2 3 }  kind = { num = 5 }  color = { named = { a = 7 } }  color = plain` *)
Definition b_num : bytes := [110; 117; 109]%N.
Definition b_named : bytes := [110; 97; 109; 101; 100]%N.
Definition b_plain : bytes := [112; 108; 97; 105; 110]%N.
Definition b_kind : bytes := [107; 105; 110; 100]%N.
Definition sc (b : bytes) : value := VScalar Unq b.
Definition docE : doc :=
  FCons (Field Unq b_color (Some Equal) (VHeader b_rgb (VArray (VCons (sc [49]%N) (VCons (sc [50]%N) (VCons (sc [51]%N) VNil))))))
 (FCons (Field Unq b_kind (Some Equal) (VObject (FCons (Field Unq b_num (Some Equal) (sc [53]%N)) FNil) VNil))
 (FCons (Field Unq b_color (Some Equal)
           (VObject (FCons (Field Unq b_named (Some Equal) (VObject (FCons (Field Unq b_a (Some Equal) (sc [55]%N)) FNil) VNil)) FNil) VNil))
 (FCons (Field Unq b_color (Some Equal) (sc b_plain)) FNil))).
Definition vsE : variants :=
  [ (b_rgb, VSTuple [ShU 8; ShU 8; ShU 8]); (b_num, VSNewtype (ShU 32));
    (b_named, VSStruct [ (b_a, None, MOnce, ShU 8); (b_b, None, MOnce, ShOpt ShStr) ]); (b_plain, VSUnit) ].

Example C02_enum_root_nonvacuous :
  wf_doc docE /\ ext_fields docE = true /\
  spec_enum_fields dec0 pf0 F0 b_color vsE docE =
    Ok [ (b_rgb, DSeq [DU 1; DU 2; DU 3]); (b_named, DStruct [ (b_a, DU 7); (b_b, DNone) ]); (b_plain, DUnit) ] /\
  spec_enum_fields dec0 pf0 F0 b_kind vsE docE = Ok [ (b_num, DU 5) ] /\
  enum_root_tape dec0 pf0 F0 b_color vsE (flatten docE) = spec_enum_fields dec0 pf0 F0 b_color vsE docE.
Proof. split; [reflexivity|]. split; [reflexivity|]. split; [vm_compute; reflexivity|]. split; vm_compute; reflexivity. Qed.

(* ---- PART 2 *)
Theorem C02_enum_stream_unit_only :
  forall (decode : bytes -> cow) (parse_f64 : bytes -> outcome N) (F : fops) name vs (r : ltoks) l,
  enum_root_stream decode parse_f64 F name vs r = Ok l ->
  Forall (fun nx => find_variant vs (fst nx) = Some VSUnit /\ snd nx = DUnit) l.
Proof. exact enum_root_stream_unit_only. Qed.
Print Assumptions C02_enum_stream_unit_only.

Theorem C02_enum_stream_payload_refused :
  forall (decode : bytes -> cow) (parse_f64 : bytes -> outcome N) vs tk p nm vsh,
  stream_visit decode parse_f64 THStr tk = Ok (SVPrim p) -> resolve_variant vs p = Ok (nm, vsh) -> vsh <> VSUnit ->
  sde_enum decode parse_f64 vs tk = Err EC_DE.
Proof. exact sde_enum_payload_refused. Qed.
Print Assumptions C02_enum_stream_payload_refused.

Example C02_enum_stream_payload_refused_nonvacuous :
  stream_visit dec0 pf0 THStr (RUnq b_rgb) = Ok (SVPrim (TPStr false b_rgb)) /\
  resolve_variant vsE (TPStr false b_rgb) = Ok (b_rgb, VSTuple [ShU 8; ShU 8; ShU 8]) /\
  sde_enum dec0 pf0 vsE (RUnq b_plain) = Ok (b_plain, DUnit).
Proof. repeat split; vm_compute; reflexivity. Qed.

(* the clause "Deserializing the same bytes through the streaming reader path yields an equal value", for enum targets
   with a payload variant: refuted by `color = rgb { 1 2 3 }` into Root { color: Vec<E> }, E = rgb(u8, u8, u8) | plain *)
Definition docQ : doc :=
  FCons (Field Unq b_color (Some Equal) (VHeader b_rgb (VArray (VCons (sc [49]%N) (VCons (sc [50]%N) (VCons (sc [51]%N) VNil)))))) FNil.
Definition vsQ : variants := [ (b_rgb, VSTuple [ShU 8; ShU 8; ShU 8]); (b_plain, VSUnit) ].
Theorem C02_enum_paths_differ_refuted :
  exists d name vs,
    wf_doc d /\ ext_fields d = true /\
    spec_enum_fields dec0 pf0 F0 name vs d = Ok [ (b_rgb, DSeq [DU 1; DU 2; DU 3]) ] /\
    enum_root_tape dec0 pf0 F0 name vs (flatten d) = Ok [ (b_rgb, DSeq [DU 1; DU 2; DU 3]) ] /\
    enum_root_stream dec0 pf0 F0 name vs (tokens d) = Err EC_DE.
Proof. exists docQ, b_color, vsQ. split; [reflexivity|]. repeat split; vm_compute; reflexivity. Qed.
Print Assumptions C02_enum_paths_differ_refuted.

(* the externally tagged form of a UNIT variant `color = { plain = x }`: the tape path takes it, the stream path does not *)
Definition docU : doc :=
  FCons (Field Unq b_color (Some Equal) (VObject (FCons (Field Unq b_plain (Some Equal) (sc b_x)) FNil) VNil)) FNil.
Theorem C02_enum_paths_differ_tagged_unit_refuted :
  wf_doc docU /\
  enum_root_tape dec0 pf0 F0 b_color vsQ (flatten docU) = Ok [ (b_plain, DUnit) ] /\
  enum_root_stream dec0 pf0 F0 b_color vsQ (tokens docU) = Err EC_DE.
Proof. split; [reflexivity|]. split; vm_compute; reflexivity. Qed.

(* ---- PART 3 *)
Theorem C02_enum_unit_is_ShEnum_tape :
  forall (decode : bytes -> cow) (parse_f64 : bytes -> outcome N) (F : fops) (t : ttape) vs k f f',
  unit_only vs = true ->
  TextDeTape.de decode parse_f64 F t (S f) (ShEnum (vnames vs)) k =
    omap (fun nx => DEnum (fst nx)) (de_enum decode parse_f64 F t f' vs k).
Proof. exact de_enum_unit. Qed.
Print Assumptions C02_enum_unit_is_ShEnum_tape.

Theorem C02_enum_unit_is_ShEnum_stream :
  forall (decode : bytes -> cow) (parse_f64 : bytes -> outcome N) (F : fops) (R : Type)
         (rnext : R -> outcome (option TextReader.rtok * R)) (rskip : R -> outcome R) (rexpect : R -> outcome (TextReader.rtok * R))
         vs tk op r f,
  unit_only vs = true ->
  sde decode parse_f64 F R rnext rskip rexpect (S f) (ShEnum (vnames vs)) tk op r =
    (do nx <- sde_enum decode parse_f64 vs tk; Ok (DEnum (fst nx), r)).
Proof. exact sde_enum_unit. Qed.
Print Assumptions C02_enum_unit_is_ShEnum_stream.
