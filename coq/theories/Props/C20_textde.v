(* C20 at the level of the WHOLE text reader deserializer (wave 5, w_tdef).  Statements only.

   Model: TextDeReader.deser_text_reader decode pf fo cap sched sh d =
     TextDeserializer::from_{utf8,windows1252}_reader(TokenReader with a cap-byte buffer over the
     scripted Read).deserialize::<T>():  the serde walk TextDeStream.sde_root (TextReaderDeserializer,
     TextReaderMap key loop with ghost-`{}` skipping, read_expect_equals, operator capture,
     TextReaderTokenDeserializer, TextReaderSeq, TextReaderEnum, PropertyReaderMap) instantiated with
     the byte-level streaming reader TextReader (next_opt / skip_container / the read_expect_equals
     fast path) over BufWin with a schedule of [Data n | Fail] events.  The extracted function is
     run against the real deserializer on schedules WITH Fail events by stream
     `text_de_fault_model` of props/C20_de.py (kind c20.tde).

   Proved for EVERY decoder, float parser, float casts, buffer size, schedule, target shape and
   document bytes -- no hypothesis:
     * C20_text_deser_reader_fault_sound: the call returns the I/O error, or exactly (value or error,
       crash classes included) what it returns over the same schedule with the failures removed.  A
       fault is never turned into a shorter map, an absent Option, a default, a shorter scalar or
       another error class anywhere in the walk (key loop, read_expect_equals, operator + value
       reads, sequences, tuples and their closing token, ignored values = skip_container, ghost
       objects in key position).
     * C20_text_deser_reader_clean_id: without failures "failures removed" is the identity.
     * C20_text_deser_reader_st_fault_sound: same, with the final reader: a run that returns Ok has
       issued exactly as many read calls as its fault-free twin and every one was answered by a
       Data event.
     * C20_text_deser_reader_fault_at_k: if event k of the schedule is a failure (one-shot, or the
       first of a persistent tail), a run that returns Ok finished within k read calls (it never
       issued call k), and the fault-free twin finished after the same number of calls with the
       same value.
     * C20_text_deser_reader_persistent: hence if the fault-free run needs more than k read calls to
       succeed, or does not succeed, the run with a failure at read call k does not succeed either
       ("persistent failures always end in an error", for every k, not only k = 0); its error is
       the I/O error or the fault-free run's own error.
     * C20_text_deser_reader_fail_first: a Read that fails at its first call never yields a value.
   Proof route: FaultTextDeProofs -- a relational (parametricity) argument over the four mutually
   recursive walk functions (the walk never inspects an error), and the lock step of one reader
   call with its twin (FaultProofs' proofs, generalised to a relation that also carries the call
   counter and "every consumed event was Data").
   Not proved: nothing about io::ErrorKind (one Fail event in the model); retry on the same
   deserializer after an error (not offered by the API). *)
From JV Require Import Bytes Utf8 Scalar BufWin TextTok TextReader TextRef SerdeShape TextDeCommon TextDeStream TextDeReader.
From JV.proofs Require Import FaultProofs FaultTextDeProofs.
From Coq Require Import List NArith ZArith.
Import ListNotations.
Open Scope nat_scope.

Theorem C20_text_deser_reader_fault_sound : forall decode pf fo capv sch sh d,
  deser_text_reader decode pf fo capv sch sh d = Err EC_IO \/
  deser_text_reader decode pf fo capv sch sh d = deser_text_reader decode pf fo capv (clean sch) sh d.
Proof. exact deser_text_reader_fault_sound. Qed.
Print Assumptions C20_text_deser_reader_fault_sound.

Theorem C20_text_deser_reader_clean_id : forall decode pf fo capv sch sh d,
  no_fail sch ->
  deser_text_reader decode pf fo capv (clean sch) sh d = deser_text_reader decode pf fo capv sch sh d.
Proof. exact deser_text_reader_clean_id. Qed.
Print Assumptions C20_text_deser_reader_clean_id.

Theorem C20_text_deser_reader_st_fault_sound : forall decode pf fo capv sch sh d,
  deser_text_reader_st decode pf fo capv sch sh d = Err EC_IO \/
  match deser_text_reader_st decode pf fo capv sch sh d, deser_text_reader_st decode pf fo capv (clean sch) sh d with
  | Ok (v1, r1), Ok (v2, r2) =>
      v1 = v2 /\ readeq r1 r2 /\ reader_calls r1 = reader_calls r2 /\ no_fail (firstn (reader_calls r1) sch)
  | Ok _, _ | _, Ok _ => False
  | o1, o2 => omap fst o1 = omap fst o2
  end.
Proof. exact deser_text_reader_st_fault_sound. Qed.
Print Assumptions C20_text_deser_reader_st_fault_sound.

(* the state-returning function is the entry point plus the final reader *)
Theorem C20_text_deser_reader_of_st : forall decode pf fo capv sch sh d,
  deser_text_reader decode pf fo capv sch sh d = omap fst (deser_text_reader_st decode pf fo capv sch sh d).
Proof. exact deser_text_reader_of_st. Qed.

Theorem C20_text_deser_reader_fault_at_k : forall decode pf fo capv sch sh d k v r,
  nth_error sch k = Some Fail ->
  deser_text_reader_st decode pf fo capv sch sh d = Ok (v, r) ->
  reader_calls r <= k /\
  exists r2, deser_text_reader_st decode pf fo capv (clean sch) sh d = Ok (v, r2) /\ reader_calls r2 = reader_calls r.
Proof. exact deser_text_reader_fault_at_k. Qed.
Print Assumptions C20_text_deser_reader_fault_at_k.

Theorem C20_text_deser_reader_persistent : forall decode pf fo capv sch sh d k,
  nth_error sch k = Some Fail ->
  (forall v r2, deser_text_reader_st decode pf fo capv (clean sch) sh d = Ok (v, r2) -> k < reader_calls r2) ->
  deser_text_reader decode pf fo capv sch sh d = Err EC_IO \/
  (deser_text_reader decode pf fo capv sch sh d = deser_text_reader decode pf fo capv (clean sch) sh d /\
   forall v, deser_text_reader decode pf fo capv sch sh d <> Ok v).
Proof. exact deser_text_reader_persistent. Qed.
Print Assumptions C20_text_deser_reader_persistent.

Theorem C20_text_deser_reader_fail_first : forall decode pf fo capv tl sh d v,
  0 < capv -> deser_text_reader decode pf fo capv (Fail :: tl) sh d <> Ok v.
Proof. exact deser_text_reader_fail_first. Qed.
Print Assumptions C20_text_deser_reader_fail_first.

(* the generic statement behind them: ANY two token sources whose operations agree up to an I/O
   failure on the left give walks that agree up to an I/O failure on the left *)
Theorem C20_text_walk_parametric : forall decode pf fo (St : Type) n1 n2 k1 k2 e1 e2 (Rel : St -> St -> Prop),
  (forall a b, Rel a b -> FaultDeProofs.fsim (prel St Rel) (n1 a) (n2 b)) ->
  (forall a b, Rel a b -> FaultDeProofs.fsim Rel (k1 a) (k2 b)) ->
  (forall a b, Rel a b -> FaultDeProofs.fsim (prel St Rel) (e1 a) (e2 b)) ->
  forall fuel sh a b, Rel a b ->
    sde_root decode pf fo St n1 k1 e1 fuel sh a = Err EC_IO \/
    sde_root decode pf fo St n1 k1 e1 fuel sh a = sde_root decode pf fo St n2 k2 e2 fuel sh b.
Proof.
  intros. apply FaultDeProofs.fsim_eq. eapply sde_root_sim; eauto.
Qed.
Print Assumptions C20_text_walk_parametric.

(* ---------- non-vacuity ---------- *)
Definition ext_fo : fops := mkfops (fun x => x) (fun x => x) (fun _ => 0%N) (fun _ => 0%N).
Definition ext_dec (b : bytes) : cow := Borrowed b.
Definition ext_pf (_ : bytes) : outcome N := Err 1%N.
(* a=1 b=2 *)
Definition ext_input : bytes := [97; 61; 49; 32; 98; 61; 50]%N.
Definition ext_shape : shape := ShMap (ShI 32%N).
Definition ext_run := deser_text_reader ext_dec ext_pf ext_fo.
Definition ext_run_st := deser_text_reader_st ext_dec ext_pf ext_fo.

(* The first fill delivers "a=1 " (4 bytes), the second read fails: the I/O error, where the
   fault-free run returns both entries -- a deserializer that took the failure for the end of the
   data would return the one-entry map. *)
Example C20_text_ex_deser_fault :
  ext_run 16 [Data 4; Fail; Data 100] ext_shape ext_input = Err EC_IO /\
  ext_run 16 (clean [Data 4; Fail; Data 100]) ext_shape ext_input
    = Ok (DMap [([97%N], DI 1%Z); ([98%N], DI 2%Z)]).
Proof. split; vm_compute; reflexivity. Qed.

(* a cut INSIDE the last scalar ("b=2" arrives as "b=" then the fault): not the value with a
   shortened / missing scalar *)
Definition ext_input2 : bytes := [97; 61; 49; 32; 98; 61; 50; 51]%N.
Example C20_text_ex_deser_cut_scalar :
  ext_run 16 [Data 7; Fail; Data 100] ext_shape ext_input2 = Err EC_IO /\
  ext_run 16 [Data 7; Data 100] ext_shape ext_input2 = Ok (DMap [([97%N], DI 1%Z); ([98%N], DI 23%Z)]).
Proof. split; vm_compute; reflexivity. Qed.

(* a fault that is never reached changes nothing (3 read calls: the data, the end behind the last
   scalar, the end again for the key loop); a fault on the read that would have found the end of the
   data is reported although every entry was read *)
Example C20_text_ex_deser_unreached :
  ext_run 64 [Data 100; Data 1; Data 1; Fail] ext_shape ext_input = Ok (DMap [([97%N], DI 1%Z); ([98%N], DI 2%Z)]) /\
  ext_run 64 [Data 100; Data 1; Fail] ext_shape ext_input = Err EC_IO /\
  ext_run 64 [Data 100; Fail] ext_shape ext_input = Err EC_IO /\
  (exists r, ext_run_st 64 [Data 100; Data 1; Data 1; Fail] ext_shape ext_input = Ok (DMap [([97%N], DI 1%Z); ([98%N], DI 2%Z)], r) /\
             reader_calls r = 3 /\ nth_error [Data 100; Data 1; Data 1; Fail] 3 = Some Fail).
Proof.
  split; [vm_compute; reflexivity|]. split; [vm_compute; reflexivity|]. split; [vm_compute; reflexivity|].
  eexists. split; [vm_compute; reflexivity|]. split; reflexivity.
Qed.

(* the hypothesis of C20_text_deser_reader_persistent is satisfiable: the fault-free run of
   [Data 4; Fail; Data 100] needs 3 read calls, the fault sits at call 1 *)
Example C20_text_ex_persistent_hyp :
  nth_error [Data 4; Fail; Data 100] 1 = Some Fail /\
  forall v r2, ext_run_st 16 (clean [Data 4; Fail; Data 100]) ext_shape ext_input = Ok (v, r2) -> 1 < reader_calls r2.
Proof.
  split; [reflexivity|]. intros v r2. vm_compute. intros H. inversion H. repeat constructor.
Qed.

(* an ignored container (deserialize_ignored_any -> skip_container) and a ghost object in key
   position (next_key_seed -> skip_container) cut by a fault:  a={1 2} {} b=2 *)
Definition exti_input : bytes := [97; 61; 123; 49; 32; 50; 125; 32; 123; 125; 32; 98; 61; 50]%N.
Example C20_text_ex_deser_ignored :
  ext_run 16 [Data 5; Fail; Data 100] (ShMap ShIgn) exti_input = Err EC_IO /\
  ext_run 16 [Data 9; Fail; Data 100] (ShMap ShIgn) exti_input = Err EC_IO /\
  ext_run 16 [Data 5; Data 4; Data 100] (ShMap ShIgn) exti_input = Ok (DMap [([97%N], DIgn); ([98%N], DIgn)]).
Proof. repeat split; vm_compute; reflexivity. Qed.

(* read_expect_equals: the fast path (`=` followed by a buffered byte) and the tokenizer path (`=`
   is the last buffered byte: it may start `==`) under a fault right behind the `=` *)
Example C20_text_ex_expect_equals :
  ext_run 16 [Data 2; Fail; Data 100] ext_shape ext_input = Err EC_IO /\
  ext_run 16 [Data 2; Data 100] ext_shape ext_input = Ok (DMap [([97%N], DI 1%Z); ([98%N], DI 2%Z)]).
Proof. split; vm_compute; reflexivity. Qed.
