(* C19 (binary half) -- truncated documents never yield fabricated data: BinaryTapeParser::parse.
   Statements only; names prefixed C19_bin_.  Proofs: proofs/TruncBinProofs.v.

   Vocabulary (proofs/TruncBinProofs.v):
     [runs (init D) s]   s is a state the reference interpretation (opt = false) reaches on the WHOLE
                         input D, after some number of iterations of 'outer;
     [pos D s]           the number of bytes of D consumed when the run stands in s (a token boundary;
                         s_data s = skipn (pos D s) D, C19_bin_pos_is_position);
     [top s]             s_par s = 0 /\ s_ps s = Key: top level, key position -- not inside a container,
                         not between a key and the end of its value;
     [chop r D]          D without its last r bytes; firstn k D = chop (length D - k) D.

   What is proved, for ALL byte strings D and ALL cut points k <= length D:
   * C19_bin_exact: the parse of the prefix is DETERMINED by the run on the whole input.  Let s be
     the last state of that run with pos D s <= k.  If fewer than two bytes of the prefix are left
     behind s, the result is [finish s]: Ok (tape of s) iff [top s], Err otherwise.  If two or more
     bytes are left (the id of the next token is there but the tokens of the next iteration -- id,
     payload, or `{` `}` in key position -- are cut), the result is Err.  No third case.
   * C19_bin_trunc_*: D accepted with tape F and the prefix accepted with tape t  ==>  t is the tape
     of a top-level key position of the whole run, the cut lies AT that position or ONE byte after
     it, and t is a prefix of F (exists rest, F = t ++ rest): exactly the complete top-level fields
     before the cut, nothing else.
   * the contrapositive readings: cut inside a container / between a key and the end of its value /
     inside a payload ==> Err.
   Each statement for the reference interpretation, for the optimised interpretation with the I64
   exclusion (parse true true, unconditional), and for the parser the correspondence check runs
   (parse_opt) under [fast_path_excludes_i64 = true] -- the transfer is C03_fast_eq_ref_fixed.
   For the parser WITHOUT the I64 exclusion (fx = false, finding B) the optimised half is stated on the class of
   C03_fast_eq_ref_no_i64, which is proved closed under taking prefixes (C19_bin_no_i64_prefix_closed);
   outside that class the optimised parser differs from the reference one on WHOLE inputs already.

   The "one byte after": `while let Some((data, token_id)) = parse_next_id_opt(data)` leaves the loop
   as soon as fewer than two bytes are left, so a single trailing byte is ignored, on whole inputs
   as well (parse_ref [x] = Ok []).  This is the code's behaviour, reported as an observation.

   NOT proved here: that a top-level key position of the run is a field boundary of an abstract
   binary document (there is no abstract binary document type in the model; ref_faithful of C03 is
   carried by the harness); the deserializer / reader / lexer paths (BinDeStream, BinReader). *)
From JV Require Import Bytes Tables BinPrim BinTape BinTapeWf.
From JV.proofs Require Import BinTapeWfProofs BinTapeInv BinTapeSim BinTapeSafe TruncBinProofs.
Open Scope nat_scope.

(* ------------------------------------------------------------------ the reference interpretation *)
(* the parse of D without its last r bytes, exactly, in terms of the run on D *)
Theorem C19_bin_exact : forall D r s1, runs (init D) s1 -> r <= length (s_data s1) ->
  (length (s_data s1) < r + 2 -> parse_ref (chop r D) = finish s1) /\
  (forall s2, iter false false s1 = Continue s2 -> length (s_data s2) < r -> r + 2 <= length (s_data s1) ->
              parse_ref (chop r D) = Err E_LexEof).
Proof. exact trunc_exact. Qed.
Print Assumptions C19_bin_exact.

(* every accepted input is such a run, ending in a top-level key position with < 2 bytes left *)
Theorem C19_bin_run_exists : forall D, exists sn, runs (init D) sn /\ iter false false sn = Done (parse_ref D).
Proof. exact parse_ref_runs. Qed.
Print Assumptions C19_bin_run_exists.

(* [pos D s] is a position in D: the data of s is the rest of D from there on *)
Theorem C19_bin_pos_is_position : forall D s, runs (init D) s ->
  s_data s = skipn (pos D s) D /\ D = firstn (pos D s) D ++ s_data s /\ pos D s <= length D.
Proof. exact runs_data_is_rest. Qed.
Print Assumptions C19_bin_pos_is_position.

Theorem C19_bin_trunc_ref : forall D F k, k <= length D -> parse_ref D = Ok F ->
  (exists e, parse_ref (firstn k D) = Err e) \/
  (exists s, runs (init D) s /\ top s /\ pos D s <= k <= pos D s + 1 /\
             parse_ref (firstn k D) = Ok (s_tape s) /\ exists rest, F = s_tape s ++ rest).
Proof. exact (trunc_gen parse_ref obs_ref_ref). Qed.
Print Assumptions C19_bin_trunc_ref.

Theorem C19_bin_trunc_ref_ok : forall D F k t, k <= length D -> parse_ref D = Ok F -> parse_ref (firstn k D) = Ok t ->
  exists s, runs (init D) s /\ top s /\ pos D s <= k <= pos D s + 1 /\ t = s_tape s /\ exists rest, F = t ++ rest.
Proof. exact (trunc_gen_ok parse_ref obs_ref_ref). Qed.
Print Assumptions C19_bin_trunc_ref_ok.

(* state-free headline: an accepted prefix of an accepted input carries a prefix of its tape (any k) *)
Theorem C19_bin_prefix_tape_ref : forall D F k t, parse_ref D = Ok F -> parse_ref (firstn k D) = Ok t ->
  exists rest, F = t ++ rest.
Proof. exact (trunc_gen_plain parse_ref obs_ref_ref). Qed.
Print Assumptions C19_bin_prefix_tape_ref.

(* the whole input need not be accepted: the tapes of two accepted prefixes extend one another *)
Theorem C19_bin_prefix_mono_ref : forall D k1 k2 t1 t2, k1 <= k2 ->
  parse_ref (firstn k1 D) = Ok t1 -> parse_ref (firstn k2 D) = Ok t2 -> exists rest, t2 = t1 ++ rest.
Proof. exact (trunc_gen_mono parse_ref obs_ref_ref). Qed.
Print Assumptions C19_bin_prefix_mono_ref.

(* the tape of a top-level key position is never modified afterwards *)
Theorem C19_bin_top_tape_prefix : forall D s s', runs (init D) s -> top s -> runs s s' ->
  exists rest, s_tape s' = s_tape s ++ rest.
Proof. exact top_tape_prefix. Qed.
Print Assumptions C19_bin_top_tape_prefix.

(* cut (at a token boundary or one byte after it) inside a container *)
Theorem C19_bin_cut_in_container_ref : forall D k s, k <= length D -> runs (init D) s ->
  pos D s <= k <= pos D s + 1 -> s_par s <> 0 -> exists e, parse_ref (firstn k D) = Err e.
Proof. intros D k s Hk H Hc Hp. eapply (trunc_gen_not_top parse_ref obs_ref_ref); eauto. intros [A _]. auto. Qed.
Print Assumptions C19_bin_cut_in_container_ref.

(* cut between a key and the end of its value *)
Theorem C19_bin_cut_mid_field_ref : forall D k s, k <= length D -> runs (init D) s ->
  pos D s <= k <= pos D s + 1 -> s_ps s <> Key -> exists e, parse_ref (firstn k D) = Err e.
Proof. intros D k s Hk H Hc Hp. eapply (trunc_gen_not_top parse_ref obs_ref_ref); eauto. intros [_ A]. auto. Qed.
Print Assumptions C19_bin_cut_mid_field_ref.

(* cut inside a payload: inside the tokens of the iteration s -> s2, the id being present *)
Theorem C19_bin_cut_in_payload_ref : forall D k s s2, runs (init D) s -> iter false false s = Continue s2 ->
  pos D s + 2 <= k < pos D s2 -> exists e, parse_ref (firstn k D) = Err e.
Proof. exact (trunc_gen_in_payload parse_ref obs_ref_ref). Qed.
Print Assumptions C19_bin_cut_in_payload_ref.

(* and the positive reading: cut at a top-level key position (or one byte after) *)
Theorem C19_bin_cut_at_top_ref : forall D k s, k <= length D -> runs (init D) s ->
  pos D s <= k <= pos D s + 1 -> top s -> parse_ref (firstn k D) = Ok (s_tape s).
Proof. exact (trunc_gen_at_top parse_ref obs_ref_ref). Qed.
Print Assumptions C19_bin_cut_at_top_ref.

(* ------------------------------------------------------------------ the optimised interpretation, I64 excluded *)
Theorem C19_bin_trunc_opt_fixed : forall D F k, k <= length D -> parse true true D = Ok F ->
  (exists e, parse true true (firstn k D) = Err e) \/
  (exists s, runs (init D) s /\ top s /\ pos D s <= k <= pos D s + 1 /\
             parse true true (firstn k D) = Ok (s_tape s) /\ exists rest, F = s_tape s ++ rest).
Proof. exact (trunc_gen (parse true true) obs_fixed_ref). Qed.
Print Assumptions C19_bin_trunc_opt_fixed.

Theorem C19_bin_trunc_opt_fixed_ok : forall D F k t, k <= length D ->
  parse true true D = Ok F -> parse true true (firstn k D) = Ok t ->
  exists s, runs (init D) s /\ top s /\ pos D s <= k <= pos D s + 1 /\ t = s_tape s /\ exists rest, F = t ++ rest.
Proof. exact (trunc_gen_ok (parse true true) obs_fixed_ref). Qed.
Print Assumptions C19_bin_trunc_opt_fixed_ok.

Theorem C19_bin_prefix_tape_opt_fixed : forall D F k t, parse true true D = Ok F -> parse true true (firstn k D) = Ok t ->
  exists rest, F = t ++ rest.
Proof. exact (trunc_gen_plain (parse true true) obs_fixed_ref). Qed.
Print Assumptions C19_bin_prefix_tape_opt_fixed.

Theorem C19_bin_cut_not_top_opt_fixed : forall D k s, k <= length D -> runs (init D) s ->
  pos D s <= k <= pos D s + 1 -> ~ top s -> exists e, parse true true (firstn k D) = Err e.
Proof. exact (trunc_gen_not_top (parse true true) obs_fixed_ref). Qed.
Print Assumptions C19_bin_cut_not_top_opt_fixed.

Theorem C19_bin_cut_in_payload_opt_fixed : forall D k s s2, runs (init D) s -> iter false false s = Continue s2 ->
  pos D s + 2 <= k < pos D s2 -> exists e, parse true true (firstn k D) = Err e.
Proof. exact (trunc_gen_in_payload (parse true true) obs_fixed_ref). Qed.
Print Assumptions C19_bin_cut_in_payload_opt_fixed.

(* ------------------------------------------------------------------ the parser the correspondence check runs *)
Theorem C19_bin_trunc_code : fast_path_excludes_i64 = true ->
  forall D F k, k <= length D -> parse_opt D = Ok F ->
  (exists e, parse_opt (firstn k D) = Err e) \/
  (exists s, runs (init D) s /\ top s /\ pos D s <= k <= pos D s + 1 /\
             parse_opt (firstn k D) = Ok (s_tape s) /\ exists rest, F = s_tape s ++ rest).
Proof. intro E. exact (trunc_gen parse_opt (obs_code_ref E)). Qed.
Print Assumptions C19_bin_trunc_code.

Theorem C19_bin_prefix_tape_code : fast_path_excludes_i64 = true ->
  forall D F k t, parse_opt D = Ok F -> parse_opt (firstn k D) = Ok t -> exists rest, F = t ++ rest.
Proof. intro E. exact (trunc_gen_plain parse_opt (obs_code_ref E)). Qed.
Print Assumptions C19_bin_prefix_tape_code.

Theorem C19_bin_cut_not_top_code : fast_path_excludes_i64 = true ->
  forall D k s, k <= length D -> runs (init D) s ->
  pos D s <= k <= pos D s + 1 -> ~ top s -> exists e, parse_opt (firstn k D) = Err e.
Proof. intro E. exact (trunc_gen_not_top parse_opt (obs_code_ref E)). Qed.
Print Assumptions C19_bin_cut_not_top_code.

Theorem C19_bin_cut_in_payload_code : fast_path_excludes_i64 = true ->
  forall D k s s2, runs (init D) s -> iter false false s = Continue s2 ->
  pos D s + 2 <= k < pos D s2 -> exists e, parse_opt (firstn k D) = Err e.
Proof. intro E. exact (trunc_gen_in_payload parse_opt (obs_code_ref E)). Qed.
Print Assumptions C19_bin_cut_in_payload_code.

(* ------------------------------------------------------------------ without the I64 exclusion (fx = false) *)
(* on the class of C03_fast_eq_ref_no_i64 (the I64 id never is the next lexeme in key position or as
   first element of a container along the run on D); the class is closed under taking prefixes, so
   the hypothesis is on the whole input only *)
Theorem C19_bin_no_i64_prefix_closed : forall D k,
  i64_never_in_key_position D -> i64_never_in_key_position (firstn k D).
Proof. exact i64_never_firstn. Qed.
Print Assumptions C19_bin_no_i64_prefix_closed.

Theorem C19_bin_trunc_asis : forall D F k, i64_never_in_key_position D -> k <= length D -> parse false true D = Ok F ->
  (exists e, parse false true (firstn k D) = Err e) \/
  (exists s, runs (init D) s /\ top s /\ pos D s <= k <= pos D s + 1 /\
             parse false true (firstn k D) = Ok (s_tape s) /\ exists rest, F = s_tape s ++ rest).
Proof. exact (trunc_on (parse false true) i64_never_in_key_position obs_asis_ref i64_never_firstn). Qed.
Print Assumptions C19_bin_trunc_asis.

Theorem C19_bin_prefix_tape_asis : forall D F k t, i64_never_in_key_position D ->
  parse false true D = Ok F -> parse false true (firstn k D) = Ok t -> exists rest, F = t ++ rest.
Proof. exact (trunc_on_plain (parse false true) i64_never_in_key_position obs_asis_ref i64_never_firstn). Qed.
Print Assumptions C19_bin_prefix_tape_asis.

Theorem C19_bin_cut_not_top_asis : forall D k s, i64_never_in_key_position D -> k <= length D -> runs (init D) s ->
  pos D s <= k <= pos D s + 1 -> ~ top s -> exists e, parse false true (firstn k D) = Err e.
Proof. exact (trunc_on_not_top (parse false true) i64_never_in_key_position obs_asis_ref i64_never_firstn). Qed.
Print Assumptions C19_bin_cut_not_top_asis.

Theorem C19_bin_cut_in_payload_asis : forall D k s s2, i64_never_in_key_position D -> runs (init D) s ->
  iter false false s = Continue s2 -> pos D s + 2 <= k < pos D s2 -> exists e, parse false true (firstn k D) = Err e.
Proof. exact (trunc_on_in_payload (parse false true) i64_never_in_key_position obs_asis_ref i64_never_firstn). Qed.
Print Assumptions C19_bin_cut_in_payload_asis.

(* parse_opt, whatever the generated flag fast_path_excludes_i64 says *)
Theorem C19_bin_trunc_code_no_i64 : forall D F k, i64_never_in_key_position D -> k <= length D -> parse_opt D = Ok F ->
  (exists e, parse_opt (firstn k D) = Err e) \/
  (exists s, runs (init D) s /\ top s /\ pos D s <= k <= pos D s + 1 /\
             parse_opt (firstn k D) = Ok (s_tape s) /\ exists rest, F = s_tape s ++ rest).
Proof. exact (trunc_on parse_opt i64_never_in_key_position obs_code_on i64_never_firstn). Qed.
Print Assumptions C19_bin_trunc_code_no_i64.

Theorem C19_bin_prefix_tape_code_no_i64 : forall D F k t, i64_never_in_key_position D ->
  parse_opt D = Ok F -> parse_opt (firstn k D) = Ok t -> exists rest, F = t ++ rest.
Proof. exact (trunc_on_plain parse_opt i64_never_in_key_position obs_code_on i64_never_firstn). Qed.
Print Assumptions C19_bin_prefix_tape_code_no_i64.

(* ------------------------------------------------------------------ non-vacuity *)
(* `0x2d82 = i32 89   0x2d83 = { i32 1 i32 2 }`: 10 + 20 bytes *)
Definition C19_bin_doc : bytes :=
  [130;45; 1;0; 12;0; 89;0;0;0;  131;45; 1;0; 3;0; 12;0; 1;0;0;0; 12;0; 2;0;0;0; 4;0]%N.

Example C19_bin_doc_whole :
  parse_ref C19_bin_doc = Ok [TToken 11650; TI32 89; TToken 11651; TArray 6; TI32 1; TI32 2; TEnd 3].
Proof. vm_compute. reflexivity. Qed.

(* cut inside a payload (the i32 of the first field), between key and value, inside the container *)
Example C19_bin_doc_cut_payload : parse_ref (firstn 8 C19_bin_doc) = Err E_LexEof /\ parse_opt (firstn 8 C19_bin_doc) = Err E_LexEof.
Proof. split; vm_compute; reflexivity. Qed.
Example C19_bin_doc_cut_mid_field : parse_ref (firstn 12 C19_bin_doc) = Err E_Eof /\ parse_opt (firstn 12 C19_bin_doc) = Err E_Eof.
Proof. split; vm_compute; reflexivity. Qed.
Example C19_bin_doc_cut_container : parse_ref (firstn 22 C19_bin_doc) = Err E_Eof /\ parse_opt (firstn 22 C19_bin_doc) = Err E_Eof.
Proof. split; vm_compute; reflexivity. Qed.

(* cut at the top-level boundary after the first field, and one byte after it: the first field, a prefix *)
Example C19_bin_doc_cut_top :
  parse_ref (firstn 10 C19_bin_doc) = Ok [TToken 11650; TI32 89] /\
  parse_ref (firstn 11 C19_bin_doc) = Ok [TToken 11650; TI32 89] /\
  parse_opt (firstn 10 C19_bin_doc) = Ok [TToken 11650; TI32 89].
Proof. repeat split; vm_compute; reflexivity. Qed.

(* every cut point of the example: an error, or the empty tape / the first field / the whole tape *)
Example C19_bin_doc_all_cuts :
  forallb (fun k => match parse_ref (firstn k C19_bin_doc) with
                    | Err _ => true
                    | Ok t => (Nat.leb k 1 && Nat.eqb (length t) 0) || ((Nat.eqb k 10 || Nat.eqb k 11) && Nat.eqb (length t) 2)
                              || (Nat.eqb k 30 && Nat.eqb (length t) 7)
                    | _ => false end) (seq 0 31) = true.
Proof. vm_compute. reflexivity. Qed.

(* the hypotheses of the readings are inhabited: the state after the first field (three iterations)
   is a top-level key position at byte 10; the state after `0x2d83 = {` (three more) is inside a container *)
Example C19_bin_doc_run_top : exists s, runs (init C19_bin_doc) s /\ top s /\ pos C19_bin_doc s = 10 /\
  s_tape s = [TToken 11650; TI32 89].
Proof.
  eexists. split.
  - eapply runs_step; [vm_compute; reflexivity|]. eapply runs_step; [vm_compute; reflexivity|].
    eapply runs_step; [vm_compute; reflexivity|]. apply runs_refl.
  - vm_compute. auto.
Qed.

Example C19_bin_doc_run_container : exists s, runs (init C19_bin_doc) s /\ s_par s <> 0 /\ pos C19_bin_doc s = 16.
Proof.
  eexists. split.
  - do 6 (eapply runs_step; [vm_compute; reflexivity|]). apply runs_refl.
  - vm_compute. split; [discriminate|reflexivity].
Qed.

(* the single ignored trailing byte, on a whole input *)
Example C19_bin_stray_byte : parse_ref [7]%N = Ok [] /\ parse_opt [7]%N = Ok [].
Proof. split; vm_compute; reflexivity. Qed.

(* the example lies in the class of the as-is theorems *)
Example C19_bin_doc_no_i64 : i64_never_in_key_position C19_bin_doc.
Proof. intros s H. run_star H. Qed.

(* the name used in the work plan: the reference statement of C19_bin_trunc_ref *)
Theorem C19_trunc_bin : forall D F k, k <= length D -> parse_ref D = Ok F ->
  (exists e, parse_ref (firstn k D) = Err e) \/
  (exists s, runs (init D) s /\ top s /\ pos D s <= k <= pos D s + 1 /\
             parse_ref (firstn k D) = Ok (s_tape s) /\ exists rest, F = s_tape s ++ rest).
Proof. exact C19_bin_trunc_ref. Qed.
