(* C14 — the core clause: parse (write_tape (parse x)) = parse x, and write . parse is idempotent,
   as THEOREMS connecting the writer model (Writer.v, the one the correspondence check runs against
   text/writer.rs) with the parser model (TextTape.v, C01).  Statements only.

   Documents, `flatten`, `render`, layouts: TextDoc.v.  The writer's layout `layout_w`, its
   normalisation `norm_fields` and the round-trippable subset `rt`: proofs/WriterLayoutDefs.v.

   rt d  =  wf_doc d  (the grammar of C01: all 8 operators, quoted/unquoted/@[..] scalars, nested
            objects and arrays, empty containers, arrays of containers, `key {`, headers, parameter
            objects, arrays that turn into key-value lists)
         /\ rt_fields d: no object that continues as a bare value list (the writer cannot print the
            switch; documented), no parameter VALUE `[[p] v ]` (known finding rt-param-value)
         /\ nobom d: the first key does not itself begin with EF BB BF (NEW finding, see
            C14_bom_key_refuted below).
   The two other known findings (rt-mixed-nested-op, calls-mixed-mode-lost) concern containers
   inside the key-value list of an array, which are outside wf_doc (wf_kvs admits scalars only).

   Normalisations of the writer (d' = norm_fields d): a container directly after its key
   (`key {`) is written `key={`; nothing else changes (quoted scalars are re-quoted verbatim,
   operators other than `=` get one space on each side, `=` none).  [flatten_norm] shows the
   normalisation is invisible on the tape. *)
From JV Require Import Bytes Tables TextTok TextTape TextDoc Date Writer.
From JV.proofs Require Import WriterLayoutDefs WriterLayoutProofs.
Open Scope nat_scope.

(* 1. For EVERY configuration (any indent byte, any factor 0..255 -- the 16-byte indent cache
   boundary is inside the quantifier -- debug or release) the bytes write_tape produces for the tape
   of a round-trippable document are exactly the rendering of the normalised document under the
   explicit layout [layout_w c d]; the writer ends at depth 0 expecting a key. *)
Theorem C14_write_is_layout : forall c d, rt d ->
  write_tape (tape_fuel (flatten d)) c (flatten d) = WOk (w_end d) (render (norm_fields d) (layout_w c d)).
Proof. exact write_is_layout. Qed.
Print Assumptions C14_write_is_layout.

(* the layout: chunk by chunk it is the list of gaps below; depth * factor indent bytes by
   [C14_indent_any_config] (Props/C14.v) *)
Theorem C14_layout_w_wf : forall c d, cfg_ok c -> rt d ->
  wf_layout (norm_fields d) (layout_w c d) /\ wf_doc (norm_fields d) /\ flatten (norm_fields d) = flatten d.
Proof.
  intros c d Hc Hr. split; [apply layout_w_wf; assumption|]. split; [apply norm_wf, Hr|apply flatten_norm].
Qed.
Print Assumptions C14_layout_w_wf.

(* 2. THE PROPERTY: with a white-space indent character (or factor 0) the output parses -- with the
   parser model of C01 -- to exactly the tape that was written: same keys, operators, scalars,
   quoting, nesting, container end indices; no BOM reported. *)
Theorem C14_reparse : forall c d, cfg_ok c -> rt d ->
  exists out, write_tape (tape_fuel (flatten d)) c (flatten d) = WOk (w_end d) out /\
              parse out = Ok (flatten d, false).
Proof.
  intros c d Hc Hr. eexists. split; [apply (write_is_layout c d Hr)|].
  apply (write_reparse c d _ _ Hc Hr (write_is_layout c d Hr)).
Qed.
Print Assumptions C14_reparse.

(* 3. write . parse . write = write: re-parsing the output (written under c1) and writing it again
   under the same or ANY other configuration c2 gives byte for byte what writing the original tape
   under c2 gives; with c2 = c1 the output is a fixed point. *)
Theorem C14_idempotent : forall c1 c2 d out w, cfg_ok c1 -> rt d ->
  write_tape (tape_fuel (flatten d)) c1 (flatten d) = WOk w out ->
  exists t', parse out = Ok (t', false) /\
             write_tape (tape_fuel t') c2 t' = write_tape (tape_fuel (flatten d)) c2 (flatten d) /\
             write_tape (tape_fuel t') c1 t' = WOk w out.
Proof.
  intros c1 c2 d out w Hc Hr Hw. exists (flatten d).
  split; [apply (write_reparse c1 d out w Hc Hr Hw)|]. split; [reflexivity|exact Hw].
Qed.
Print Assumptions C14_idempotent.

(* and starting from TEXT: for every well-formed layout l of a round-trippable document (any white
   space, comments, CRLF, ';', BOM), parse . write . parse = parse *)
Theorem C14_text_roundtrip : forall c d l, cfg_ok c -> rt d -> wf_layout d l ->
  exists t out w, parse (render d l) = Ok (t, bom l) /\
                  write_tape (tape_fuel t) c t = WOk w out /\ parse out = Ok (t, false).
Proof.
  intros c d l Hc Hr Hl. exists (flatten d). destruct (C14_reparse c d Hc Hr) as [out [Hw Hp]].
  exists out, (w_end d). split; [|split; assumption].
  apply TextParseProofs.parse_render; [apply Hr|exact Hl].
Qed.
Print Assumptions C14_text_roundtrip.

(* NEW FINDING (not in known_findings.json when this was proved).  The hypothesis [nobom] cannot be
   dropped: a tape whose first key starts with the bytes EF BB BF (the parser produces it for
   " \xEF\xBB\xBFabc=1": the BOM probe only looks at offset 0) is written at offset 0, and the
   re-parse strips those bytes as a BOM: key `\xEF\xBB\xBFabc` comes back as `abc`.
   Replay on the implementation: writer.rt 32,2,r 20efbbbf6162633d31
     -> t1=U:efbbbf616263 U:31 | o1=efbbbf6162633d31 | t2=U:616263 U:31. *)
Open Scope N_scope.
Definition bom_doc : doc := FCons (Field Unq [239;187;191;97;98;99] (Some Equal) (VScalar Unq [49])) FNil.
Theorem C14_bom_key_refuted :
  wf_doc bom_doc /\ rt_fields bom_doc = true /\
  exists out w, write_tape (tape_fuel (flatten bom_doc)) (mkcfg 32 2 false) (flatten bom_doc) = WOk w out /\
    parse out = Ok ([TUnquoted [97;98;99]; TUnquoted [49]], true) /\
    flatten bom_doc = [TUnquoted [239;187;191;97;98;99]; TUnquoted [49]].
Proof.
  split; [reflexivity|]. split; [reflexivity|]. eexists. eexists. split; [vm_compute; reflexivity|].
  split; vm_compute; reflexivity.
Qed.
Print Assumptions C14_bom_key_refuted.

(* The two exclusions of [rt_fields] are necessary -- the model reproduces the known findings:
   (a) parameter value (known finding rt-param-value): a={ [[p] v ] k=w } is written
       `a={\n  [[p]\n  v]=k\n  w\n}` and re-parses to a different tape;
   (b) object continuing as a value list: m={ a=1 x "y" } is written `m={\n  a=1\n}`: the tail is
       dropped (write_object_core stops at the MixedContainer token; documented limitation). *)
Definition pv_doc : doc :=
  FCons (Field Unq [97] (Some Equal)
    (VObject (FCons (ParamV [112] false [118]) (FCons (Field Unq [107] (Some Equal) (VScalar Unq [119])) FNil)) VNil)) FNil.
Definition tail_doc : doc :=
  FCons (Field Unq [109] (Some Equal)
    (VObject (FCons (Field Unq [97] (Some Equal) (VScalar Unq [49])) FNil)
             (VCons (VScalar Unq [120]) (VCons (VScalar Quo [121]) VNil)))) FNil.
Theorem C14_exclusions_refuted :
  (wf_doc pv_doc /\ nobom pv_doc = true /\
   exists out w t', write_tape (tape_fuel (flatten pv_doc)) (mkcfg 32 2 false) (flatten pv_doc) = WOk w out /\
     parse out = Ok (t', false) /\ length t' = 9%nat /\ length (flatten pv_doc) = 7%nat) /\
  (wf_doc tail_doc /\ nobom tail_doc = true /\
   exists out w t', write_tape (tape_fuel (flatten tail_doc)) (mkcfg 32 2 false) (flatten tail_doc) = WOk w out /\
     parse out = Ok (t', false) /\ length t' = 5%nat /\ length (flatten tail_doc) = 8%nat).
Proof.
  split; (split; [reflexivity|]; split; [reflexivity|]; eexists; eexists; eexists;
          split; [vm_compute; reflexivity|]; split; [vm_compute; reflexivity|]; split; reflexivity).
Qed.
Print Assumptions C14_exclusions_refuted.

(* non-vacuity: a round-trippable document using every admitted construct
     [[!q] k = v ] a = { b = "x y" c ?= d } n = { p { 2 } r != s t = u } l { 1 { 3 } { } }
     h = rgb { 1 } "k" >= @[1 +2]
   under an indent configuration that crosses the 16-byte cache (tab x 9, depth 2), and the actual
   bytes of a small one *)
Definition ex_rt : doc :=
  FCons (ParamO [113] true (FCons (Field Unq [107] (Some Equal) (VScalar Unq [118])) FNil))
 (FCons (Field Unq [97] (Some Equal)
           (VObject (FCons (Field Unq [98] (Some Equal) (VScalar Quo [120;32;121]))
                    (FCons (Field Unq [99] (Some TextTok.Exists) (VScalar Unq [100])) FNil)) VNil))
 (FCons (Field Unq [110] (Some Equal)
           (VArrayKv (VCons (VScalar Unq [112]) (VCons (VArray (VCons (VScalar Unq [50]) VNil)) VNil))
                     (FCons (Field Unq [114] (Some NotEqual) (VScalar Unq [115]))
                     (FCons (Field Unq [116] (Some Equal) (VScalar Unq [117])) FNil))))
 (FCons (Field Unq [108] None
           (VArray (VCons (VScalar Unq [49]) (VCons (VArray (VCons (VScalar Unq [51]) VNil)) (VCons (VArray VNil) VNil)))))
 (FCons (Field Unq [104] (Some Equal) (VHeader [114;103;98] (VArray (VCons (VScalar Unq [49]) VNil))))
 (FCons (Field Quo [107] (Some GreaterThanEqual) (VScalar Unq [64;91;49;32;43;50;93])) FNil))))).

Example C14_reparse_nonvacuous :
  rt ex_rt /\ cfg_ok (mkcfg 9 9 true) /\ cfg_ok (mkcfg 46 0 false) /\
  (exists w, write_tape (tape_fuel (flatten ex_rt)) (mkcfg 9 9 true) (flatten ex_rt)
             = WOk w (render (norm_fields ex_rt) (layout_w (mkcfg 9 9 true) ex_rt))) /\
  write_tape 50 (mkcfg 32 1 false) (flatten (FCons (Field Unq [97] None (VArrayKv (VCons (VScalar Unq [49]) VNil)
                                                     (FCons (Field Unq [98] (Some LessThan) (VScalar Quo [99])) FNil))) FNil))
  = WOk (mkwr DObject [] WKey true MDisabled) [97; 61; 123; 10; 32; 49; 32; 98; 60; 34; 99; 34; 10; 125].
Proof.
  split; [split; [reflexivity|split; reflexivity]|]. split; [left; reflexivity|]. split; [right; reflexivity|].
  split; [eexists; vm_compute; reflexivity|vm_compute; reflexivity].
Qed.
