(* C09 (binary half) -- placeholder, statements follow *)
From JV Require Import Bytes Tables BinPrim BufWin BinLexer BinReader.
