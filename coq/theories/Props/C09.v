(* C09 (binary half) -- Skipping a container or value lands exactly after its matching close.
   Statements only.  balanced_read d (BinLexer): from a position just after an Open, read tokens with
   read_token, count opens and closes, return the data that follows the matching close.
   The text half (text TokenReader::skip_container / skip_unquoted_value) is stated separately. *)
From JV Require Import Bytes Tables BinPrim BufWin BinLexer BinReader.
From JV.proofs Require Import BinLexProofs BinRoundProofs BinStreamProofs BinSkipProofs.
Open Scope nat_scope.

(* Lexer::skip_container (via skip_value(OPEN)): for ALL byte strings -- so also for strings, floats
   and integers whose payload bytes look like OPEN/CLOSE ids, and for rgb blocks, which the skipper
   walks through as Open U32.. Close -- if token counting reaches the matching close, the skip
   succeeds and leaves the cursor on exactly the same remaining data (= same byte position) *)
Theorem C09_bin_lexer_skip_lands : forall d r,
  balanced_read d = Some r -> skip_container_bytes d = (Ok tt, r).
Proof. exact lexer_skip_lands. Qed.
Print Assumptions C09_bin_lexer_skip_lands.

Theorem C09_bin_lexer_skip_value_open : forall l r,
  balanced_read (lx_data l) = Some r -> lx_skip_value L_OPEN l = (Ok tt, mklx r (lx_orig l)).
Proof. exact lexer_skip_value_open. Qed.
Print Assumptions C09_bin_lexer_skip_value_open.

(* non-vacuity: a container body holding a string made of CLOSE ids, an rgb block and a nested container *)
Example C09_bin_nonvacuous :
  let body := concat (map write_token
     [BQuoted [4%N; 0%N; 4%N; 0%N]; BEqual; BRgb (mkrgb 3 4 5 (Some 4%N)); BOpen; BU64 1125912791875587; BClose; BClose; BId 7%N]) in
  balanced_read body = Some [7%N; 0%N] /\ skip_container_bytes body = (Ok tt, [7%N; 0%N]).
Proof. vm_compute. split; reflexivity. Qed.
