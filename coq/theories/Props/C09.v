(* C09 — placeholder until skip theorems are pinned. *)
From JV Require Import Bytes Tables TextTok TextReader.
