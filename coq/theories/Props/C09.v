(* C09 (binary half) -- Skipping a container or value lands exactly after its matching close.
   Statements only.  balanced_read d (BinLexer): from a position just after an Open, read tokens with
   read_token, count opens and closes, return the data that follows the matching close.
   The text half (text TokenReader::skip_container / skip_unquoted_value) is stated separately. *)
From JV Require Import Bytes Tables BinPrim BufWin BinLexer BinReader.
From JV.proofs Require Import BinLexProofs BinRoundProofs BinStreamProofs BinSkipProofs BinRSkipProofs BinSkipValueProofs.
Open Scope nat_scope.

(* Lexer::skip_container (via skip_value(OPEN)): for ALL byte strings -- so also for strings, floats
   and integers whose payload bytes look like OPEN/CLOSE ids, and for rgb blocks, which the skipper
   walks through as Open U32.. Close -- if token counting reaches the matching close, the skip
   succeeds and leaves the cursor on exactly the same remaining data (= same byte position) *)
Theorem C09_bin_lexer_skip_lands : forall d r,
  balanced_read d = Some r -> skip_container_bytes d = (Ok tt, r).
Proof. exact lexer_skip_lands. Qed.
Print Assumptions C09_bin_lexer_skip_lands.

Theorem C09_bin_lexer_skip_value_open : forall l r,
  balanced_read (lx_data l) = Some r -> lx_skip_value L_OPEN l = (Ok tt, mklx r (lx_orig l)).
Proof. exact lexer_skip_value_open. Qed.
Print Assumptions C09_bin_lexer_skip_value_open.

(* Lexer::skip_value(id) after read_id returned id: ends where reading the value as one token ends
   (value_read: for an Open, where balanced token reading ends); ids that carry no value (Equal,
   Close, a true id) are skipped as nothing, an rgb block as one value *)
Theorem C09_bin_lexer_skip_value_lands : forall d id d1 r orig,
  read_id d = Ok (id, d1) -> value_read d = Some r ->
  lx_skip_value id (mklx d1 orig) = (Ok tt, mklx r orig).
Proof. exact lexer_skip_value_lands. Qed.
Print Assumptions C09_bin_lexer_skip_value_lands.

(* TokenReader::skip_container: [st_ok s d pos c] says that the reader state s (any split of the
   pending data between window and underlying reader, any fault-free rest of the schedule, capacity
   c) stands at stream position pos with d still to come.  If the capacity fits d (holds its
   largest token, BinLexer.fits) and token counting reaches the matching close leaving r, the skip
   succeeds and leaves a state that stands for r at position pos + |d| - |r|. *)
Theorem C09_bin_reader_skip_lands : forall s d pos c r,
  st_ok s d pos c -> fits c d = true -> balanced_read d = Some r ->
  exists s', rdr_skip_container s = (Ok tt, s') /\ st_ok s' r (pos + (length d - length r)) c.
Proof. exact reader_skip_lands. Qed.
Print Assumptions C09_bin_reader_skip_lands.

(* both skip loops are iterations of "one id plus its payload" (skip_item); a token is one item, an
   rgb token is 6 or 7 items that leave the depth unchanged *)
Theorem C09_bin_token_is_items : forall c depth d t r,
  read_token d = Ok (t, r) -> 1 <= depth -> length d - length r <= c ->
  (t = BClose /\ depth = 1 /\ skip_item d = Ok (L_CLOSE, r)) \/ isteps c depth d (depth_after t depth) r.
Proof. exact token_steps. Qed.

(* non-vacuity: a container body holding a string made of CLOSE ids, an rgb block and a nested container *)
Example C09_bin_nonvacuous :
  let body := concat (map write_token
     [BQuoted [4%N; 0%N; 4%N; 0%N]; BEqual; BRgb (mkrgb 3 4 5 (Some 4%N)); BOpen; BU64 1125912791875587; BClose; BClose; BId 7%N]) in
  balanced_read body = Some [7%N; 0%N] /\ skip_container_bytes body = (Ok tt, [7%N; 0%N]) /\
  fits 30 body = true /\
  let s := rdr_new 30 [Data 1; Data 1; Data 5; Data 1; Data 2; Data 40; Data 1] body in
  st_ok s body 0 30 /\ fst (rdr_skip_container s) = Ok tt /\ rdr_position (snd (rdr_skip_container s)) = length body - 2.
Proof. vm_compute. repeat split; reflexivity. Qed.
