(* C20 at the text-reader level — I/O failures of the underlying Read surface as errors.
   Statements only.  Models: BufWin (Read with a schedule of [Data n | Fail] events, buffer
   window), TextReader (next_opt / run_next / run_stream), TextRef (reference tokenizer tk,
   tokens_of, need).  All C07 theorems assume [no_fail sch]; here the schedule is ARBITRARY.

   rokf input r   = the reader's view of the stream is consistent (input = consumed ++ window ++
                    unread, window within the buffer); it is C07's [rok] without [no_fail].
   stepf          = C07's relation [stepres_ws] between the reference tokenizer's verdict at the
                    current stream position and the result of the call, with rokf for rok.
   Proof route: fault erasure.  A reader over [sch] and its twin over [clean sch] (Fail events
   dropped; only the failed events and the call counter are forgotten) run in lock step until
   the faulty one returns E_Io; the C07 theorems apply to the twin.

   Proved:
     * C20_next_fault_sound: one call under any schedule = E_Io with an intact reader, or exactly
       the fault-free result (token / end / Eof of the reference tokenizer).  Never a different
       token, never a clean end caused by a fault, never a crash.
     * C20_run_prefix / C20_stream_fault_prefix: a run (which stops at the first error) yields the
       complete fault-free token list, or a proper prefix of it followed by OErr E_Io.
     * C20_run_lockstep / C20_stream_lockstep: with NO hypothesis on buffer size, input or fuel:
       the run under faults equals the run of the same reader over the schedule with the Fail
       events removed (token list, terminal event -- BufferFull included -- and position), or is
       a proper prefix of that run's tokens followed by OErr E_Io.
     * C20_read_bytes_fault / C20_skip_container_fault / C20_skip_unquoted_value_fault: the other
       operations of the reader either return Err E_Io or the outcome of the fault-free twin
       (same bytes, same successor reader up to the erased events, same error, same fuel use).
     * C20_persistent_errors_call / C20_persistent_errors_run / C20_stream_fail_first: while the Read is failing, no call
       reports a clean end or Eof, a call that still returns a token did not touch the Read, and
       the run ends with the I/O error.
     * C20_position_le_delivered_reader: position + buffered = delivered is kept by every call
       into whatever reader it returns, hence position <= bytes delivered, for every schedule.
     * C20_next_keeps_stream: every result of next_opt (token, end, ANY error) carries a reader
       with an intact stream view.
     * C20_retry_outside_quote: after E_Io at a position whose fault-free verdict is neither a
       quoted scalar nor Eof, calling next_opt again on the returned reader fails again or
       returns exactly the fault-free result of the failed call (the pending atom is seen from
       its first byte).  Holds at any depth of the refill loop (after any number of successful
       fills within the failed call).
   Not claimed: resumability after an I/O error inside a quoted scalar (known finding
   text-retry-in-quote; C20_ex_known_finding_retry_in_quote shows the model reproduces it: the
   window is repositioned after the opening quote).  Positions whose verdict is Eof are excluded
   too, because an unterminated quote is reported as Eof. *)
From JV Require Import Bytes Tables U64Swar BufWin TextTok TextReader TextRef.
From JV.proofs Require Import BufWinProofs TextReaderProofs TextRefProofs TextReaderMainProofs TextReaderFullProofs FaultProofs.
From Coq Require Import List.
Import ListNotations.
Open Scope nat_scope.

Theorem C20_next_fault_sound : forall input fuel r,
  wf_bytes input -> rokf input r -> length (rest (rrd r)) + 2 <= fuel ->
  capok (rbw r) (rrd r) (snd (tk (startb r) (stream_of r))) ->
  (exists r', next_opt fuel r = NErr E_Io r' /\ rokf input r' /\ reader_position r' <= length input)
  \/ stepf input (cap (rbw r)) (length (rest (rrd r))) (fst (tk (startb r) (stream_of r))) (next_opt fuel r).
Proof. exact next_fault_sound. Qed.
Print Assumptions C20_next_fault_sound.

Theorem C20_next_keeps_stream : forall input fuel r,
  rokf input r ->
  match next_opt fuel r with NTok _ r' | NEnd r' | NErr _ r' => rokf input r' | NCrash _ => True end.
Proof. exact next_opt_rokf. Qed.
Print Assumptions C20_next_keeps_stream.

Theorem C20_run_prefix : forall input, wf_bytes input -> forall n fuel r start sref,
  rokf input r -> srel r start sref ->
  length sref < n -> length input + 2 <= fuel ->
  capok (rbw r) (rrd r) (snd (rr start sref)) ->
  run_next n fuel r = (fst (fst (rr start sref)), length input - snd (fst (rr start sref)))
  \/ exists pre suf p,
       run_next n fuel r = (map OTok pre ++ [OErr E_Io], p) /\
       fst (fst (rr start sref)) = map OTok pre ++ suf /\ suf <> [] /\ p <= length input.
Proof. exact run_prefix. Qed.
Print Assumptions C20_run_prefix.

Theorem C20_stream_fault_prefix : forall input sch capv,
  wf_bytes input -> need input <= capv ->
  run_stream capv sch input = (tokens_of input, length input - leftover input)
  \/ exists pre suf p,
       run_stream capv sch input = (map OTok pre ++ [OErr E_Io], p) /\
       tokens_of input = map OTok pre ++ suf /\ suf <> [] /\ p <= length input.
Proof. exact stream_fault_prefix. Qed.
Print Assumptions C20_stream_fault_prefix.

Theorem C20_position_le_delivered_reader : forall fuel r,
  fill_inv (rbw r) (rrd r) ->
  match next_opt fuel r with
  | NTok _ r' | NEnd r' | NErr _ r' =>
      fill_inv (rbw r') (rrd r') /\ reader_position r' <= delivered (rrd r')
  | NCrash _ => True
  end.
Proof. exact position_le_delivered. Qed.
Print Assumptions C20_position_le_delivered_reader.

Theorem C20_position_new : forall capv input sch,
  fill_inv (rbw (reader_new capv input sch)) (rrd (reader_new capv input sch)).
Proof. exact fill_inv_new. Qed.

(* ---------- the run against its fault-free twin: no side conditions ---------- *)
(* readeq r1 r2: same window, same BOM state, same unread data and delivered count, and the
   schedule of r2 is the schedule of r1 with the Fail events removed *)
Theorem C20_run_lockstep : forall n fuel r1 r2, readeq r1 r2 ->
  run_next n fuel r1 = run_next n fuel r2
  \/ exists pre suf p,
       run_next n fuel r1 = (map OTok pre ++ [OErr E_Io], p) /\
       fst (run_next n fuel r2) = map OTok pre ++ suf /\ suf <> [].
Proof. exact run_lockstep. Qed.
Print Assumptions C20_run_lockstep.

Theorem C20_stream_lockstep : forall capv sch input,
  let twin := run_next (length input + 2) (default_fuel input sch) (reader_new capv input (clean sch)) in
  run_stream capv sch input = twin
  \/ exists pre suf p,
       run_stream capv sch input = (map OTok pre ++ [OErr E_Io], p) /\
       fst twin = map OTok pre ++ suf /\ suf <> [].
Proof. exact stream_lockstep. Qed.
Print Assumptions C20_stream_lockstep.

Theorem C20_clean_no_fail : forall sch, no_fail (clean sch).
Proof. exact clean_no_fail. Qed.
Theorem C20_clean_id : forall sch, no_fail sch -> clean sch = sch.
Proof. exact clean_id. Qed.

(* ---------- read_bytes / skip_container / skip_unquoted_value ---------- *)
(* oreq R o1 o2: same outcome class (Ok/Err e/Panic s/OOB s/OutOfFuel) with R on the Ok payloads *)
Theorem C20_read_bytes_fault : forall fuel r1 r2 n, readeq r1 r2 ->
  read_bytes fuel r1 n = Err E_Io \/
  oreq (fun x y => fst x = fst y /\ readeq (snd x) (snd y)) (read_bytes fuel r1 n) (read_bytes fuel r2 n).
Proof. exact read_bytes_fault. Qed.
Print Assumptions C20_read_bytes_fault.

Theorem C20_skip_container_fault : forall fuel r1 r2, readeq r1 r2 ->
  skip_container fuel r1 = Err E_Io \/ oreq readeq (skip_container fuel r1) (skip_container fuel r2).
Proof. exact skip_container_fault. Qed.
Print Assumptions C20_skip_container_fault.

Theorem C20_skip_unquoted_value_fault : forall fuel r1 r2, readeq r1 r2 ->
  skip_unquoted_value fuel r1 = Err E_Io \/
  oreq readeq (skip_unquoted_value fuel r1) (skip_unquoted_value fuel r2).
Proof. exact skip_unquoted_value_fault. Qed.
Print Assumptions C20_skip_unquoted_value_fault.

(* every reader has a fault-free twin *)
Theorem C20_twin_exists : forall r, readeq r (erase r) /\ no_fail (sched (rrd (erase r))).
Proof. intros r. split; [apply readeq_erase|apply clean_no_fail]. Qed.

(* ---------- a failing Read ---------- *)
(* While the next event of the schedule is Fail (cap > 0 = a real buffer): a call returns a
   token only from already-buffered bytes, without touching the Read; it never reports a clean
   end; the only errors are E_Io (the failed read, schedule advanced by that one event) and
   BufferFull (the Read was not called). *)
Theorem C20_persistent_errors_call : forall fuel r tl,
  sched (rrd r) = Fail :: tl -> 0 < cap (rbw r) ->
  match next_opt fuel r with
  | NTok _ r' => rrd r' = rrd r /\ cap (rbw r') = cap (rbw r)
  | NEnd _ => False
  | NErr e r' => (e = E_Io /\ rrd r' = rd_after_fail (rrd r)) \/ (e = E_BufferFull /\ rrd r' = rrd r)
  | NCrash _ => True
  end.
Proof. exact next_opt_failing. Qed.
Print Assumptions C20_persistent_errors_call.

Theorem C20_persistent_errors_run : forall input, wf_bytes input -> forall n fuel r start sref tl,
  rokf input r -> srel r start sref ->
  length sref < n -> length input + 2 <= fuel ->
  capok (rbw r) (rrd r) (snd (rr start sref)) ->
  sched (rrd r) = Fail :: tl -> 0 < cap (rbw r) ->
  exists pre suf p,
    run_next n fuel r = (map OTok pre ++ [OErr E_Io], p) /\
    fst (fst (rr start sref)) = map OTok pre ++ suf /\ suf <> [] /\ p <= length input.
Proof. exact persistent_run. Qed.
Print Assumptions C20_persistent_errors_run.

Theorem C20_stream_fail_first : forall input capv tl, 0 < capv ->
  run_stream capv (Fail :: tl) input = ([OErr E_Io], 0).
Proof. exact stream_fail_first. Qed.
Print Assumptions C20_stream_fail_first.

(* ---------- retry ---------- *)
(* qeof res = the fault-free verdict is a quoted scalar or Eof (excluded, see header) *)
Theorem C20_retry_outside_quote : forall input fuel r r',
  wf_bytes input -> rokf input r -> length (rest (rrd r)) + 2 <= fuel ->
  capok (rbw r) (rrd r) (snd (tk (startb r) (stream_of r))) ->
  next_opt fuel r = NErr E_Io r' ->
  ~ qeof (fst (tk (startb r) (stream_of r))) ->
  (exists r'', next_opt fuel r' = NErr E_Io r'' /\ rokf input r'' /\ reader_position r'' <= length input)
  \/ stepf input (cap (rbw r)) (length (rest (rrd r))) (fst (tk (startb r) (stream_of r))) (next_opt fuel r').
Proof. exact retry_outside_quote. Qed.
Print Assumptions C20_retry_outside_quote.

(* the reader returned with the error is positioned on the pending atom *)
Theorem C20_retry_position : forall input fuel r r',
  wf_bytes input -> rokf input r -> next_opt fuel r = NErr E_Io r' ->
  qeof (fst (tk (startb r) (stream_of r))) \/
  (fst (tk (startb r') (stream_of r')) = fst (tk (startb r) (stream_of r)) /\
   snd (tk (startb r') (stream_of r')) <= snd (tk (startb r) (stream_of r)) /\
   cap (rbw r') = cap (rbw r) /\ length (rest (rrd r')) <= length (rest (rrd r))).
Proof. exact next_opt_retry_pos. Qed.
Print Assumptions C20_retry_position.

(* ---------- non-vacuity ---------- *)
(* "a=b " read through an 8-byte buffer; the Read delivers 2 bytes, then fails, then delivers
   the rest.  The first call succeeds although a Fail is scheduled later; the second call hits
   the fault and returns E_Io; the hypotheses of C20_next_fault_sound hold at both calls. *)
Definition ex_input : bytes := [97; 61; 98; 32]%N.
Definition ex_sched : list event := [Data 2; Fail; Data 10].
Definition ex_r0 : reader := reader_new 8 ex_input ex_sched.
Definition ex_r1 : reader :=
  mkreader (mkbw 8 [61%N] 1 0) (mkrd [98; 32]%N [Fail; Data 10] 1 2) 0%N.
Definition ex_r2 : reader :=
  mkreader (mkbw 8 [61%N] 0 1) (mkrd [98; 32]%N [Data 10] 2 2) 0%N.

Example C20_ex_success_before_fail :
  next_opt 20 ex_r0 = NTok (RUnq [97%N]) ex_r1 /\ In Fail (sched (rrd ex_r0)) /\
  fst (tk (startb ex_r0) (stream_of ex_r0)) = RTok (RUnq [97%N]) [61; 98; 32]%N.
Proof. split; [vm_compute; reflexivity|]. split; [right; left; reflexivity|vm_compute; reflexivity]. Qed.

Example C20_ex_io_error :
  next_opt 20 ex_r1 = NErr E_Io ex_r2 /\
  wf_bytes ex_input /\ rokf ex_input ex_r1 /\ length (rest (rrd ex_r1)) + 2 <= 20 /\
  capok (rbw ex_r1) (rrd ex_r1) (snd (tk (startb ex_r1) (stream_of ex_r1))).
Proof.
  split; [vm_compute; reflexivity|]. split; [repeat constructor|]. split.
  - split; [exists [97%N]; split; reflexivity|right; cbn; repeat constructor].
  - split; [cbn; repeat constructor|]. right. vm_compute. split; repeat constructor.
Qed.

Example C20_ex_run :
  run_stream 8 ex_sched ex_input = ([OTok (RUnq [97%N]); OErr E_Io], 1) /\
  tokens_of ex_input = [OTok (RUnq [97%N]); OTok (ROp Equal); OTok (RUnq [98%N]); OEnd] /\
  need ex_input <= 8.
Proof. split; [vm_compute; reflexivity|]. split; [vm_compute; reflexivity|]. vm_compute. repeat constructor. Qed.

(* a schedule with a fault that is never reached: the run is the fault-free run *)
Example C20_ex_run_unreached_fault :
  run_stream 8 [Data 10; Data 10; Fail] ex_input = (tokens_of ex_input, length ex_input - leftover ex_input).
Proof. vm_compute. reflexivity. Qed.

(* the hypotheses of C20_persistent_errors_run hold at ex_r1 (the Read is failing, one operator
   byte is buffered but undecided): the run from there is the I/O error *)
Example C20_ex_persistent :
  sched (rrd ex_r1) = Fail :: [Data 10] /\ 0 < cap (rbw ex_r1) /\
  rokf ex_input ex_r1 /\ srel ex_r1 false [61; 98; 32]%N /\
  capok (rbw ex_r1) (rrd ex_r1) (snd (rr false [61; 98; 32]%N)) /\
  run_next 4 20 ex_r1 = ([OErr E_Io], 1) /\
  fst (fst (rr false [61; 98; 32]%N)) = [OTok (ROp Equal); OTok (RUnq [98%N]); OEnd].
Proof.
  split; [reflexivity|]. split; [cbn; repeat constructor|]. split.
  { split; [exists [97%N]; split; reflexivity|right; cbn; repeat constructor]. }
  split; [left; split; reflexivity|]. split; [right; vm_compute; split; repeat constructor|].
  split; vm_compute; reflexivity.
Qed.

(* retry after the fault of C20_ex_io_error: the verdict at ex_r1 is the operator '=', not a
   quoted scalar; the retried call returns it *)
Example C20_ex_retry :
  next_opt 20 ex_r1 = NErr E_Io ex_r2 /\
  fst (tk (startb ex_r1) (stream_of ex_r1)) = RTok (ROp Equal) [98; 32]%N /\
  ~ qeof (fst (tk (startb ex_r1) (stream_of ex_r1))) /\
  exists r3, next_opt 20 ex_r2 = NTok (ROp Equal) r3 /\ stream_of r3 = [98; 32]%N.
Proof.
  split; [vm_compute; reflexivity|]. split; [vm_compute; reflexivity|]. split; [vm_compute; intros []|].
  eexists. split; vm_compute; reflexivity.
Qed.

(* known finding text-retry-in-quote, reproduced by the model: '"ab" ' with the fault after
   '"a'.  The error reader's window starts AFTER the opening quote, so the retried call returns
   the unquoted scalar ab" instead of the quoted scalar "ab".  (C20_next_fault_sound still holds
   for the retried call: it returns what the reference tokenizer returns at the position the
   reader is actually at.)  This is why C20_retry_outside_quote excludes quoted scalars. *)
Definition exq_input : bytes := [34; 97; 98; 34; 32]%N.
Example C20_ex_known_finding_retry_in_quote :
  fst (tk true exq_input) = RTok (RQuo [97; 98]%N) [32%N] /\
  exists r1, next_opt 20 (reader_new 8 exq_input [Data 2; Fail; Data 10]) = NErr E_Io r1 /\
    stream_of r1 = [97; 98; 34; 32]%N /\ reader_position r1 = 1 /\
    exists r2, next_opt 20 r1 = NTok (RUnq [97; 98; 34]%N) r2.
Proof.
  split; [vm_compute; reflexivity|]. eexists. split; [vm_compute; reflexivity|].
  split; [vm_compute; reflexivity|]. split; [vm_compute; reflexivity|]. eexists. vm_compute. reflexivity.
Qed.

(* lockstep with a buffer that is too small ('{abc ' through 2 bytes): the fault-free twin ends
   with BufferFull; a fault that is not reached changes nothing, a fault that is reached cuts
   the run with E_Io *)
Definition exs_input : bytes := [123; 97; 98; 99; 32]%N.
Example C20_ex_lockstep_small_buffer :
  run_stream 2 [Data 1; Data 1; Data 1; Fail] exs_input = ([OTok ROpen; OErr E_BufferFull], 1) /\
  run_stream 2 [Data 1; Fail; Data 1; Data 1; Fail] exs_input = ([OTok ROpen; OErr E_Io], 1) /\
  run_next 7 (default_fuel exs_input [Data 1; Fail; Data 1; Data 1; Fail])
           (reader_new 2 exs_input (clean [Data 1; Fail; Data 1; Data 1; Fail]))
    = ([OTok ROpen; OErr E_BufferFull], 1).
Proof. repeat split; vm_compute; reflexivity. Qed.

(* skipping 'a=b} c' (the inside of a container): the fault is hit when the closing brace is not
   yet buffered, and is harmless when it is *)
Definition exk_input : bytes := [97; 61; 98; 125; 32; 99]%N.
Example C20_ex_skip_container :
  skip_container 20 (reader_new 8 exk_input [Data 3; Fail; Data 10]) = Err E_Io /\
  exists r', skip_container 20 (reader_new 8 exk_input [Data 4; Fail; Data 10]) = Ok r' /\
             reader_position r' = 4 /\ In Fail (sched (rrd r')).
Proof. split; [vm_compute; reflexivity|]. eexists. split; [vm_compute; reflexivity|]. split; [reflexivity|left; reflexivity]. Qed.
Example C20_ex_read_bytes :
  read_bytes 20 (reader_new 8 exk_input [Data 3; Fail; Data 10]) 4 = Err E_Io /\
  exists r', read_bytes 20 (reader_new 8 exk_input [Data 3; Fail; Data 10]) 3 = Ok ([97; 61; 98]%N, r').
Proof. split; [vm_compute; reflexivity|]. eexists. vm_compute. reflexivity. Qed.

(* the name used in the work plan: persistent failure ends in an error (= C20_persistent_errors_run) *)
Theorem C20_persistent_errors : forall input, wf_bytes input -> forall n fuel r start sref tl,
  rokf input r -> srel r start sref ->
  length sref < n -> length input + 2 <= fuel ->
  capok (rbw r) (rrd r) (snd (rr start sref)) ->
  sched (rrd r) = Fail :: tl -> 0 < cap (rbw r) ->
  exists pre suf p,
    run_next n fuel r = (map OTok pre ++ [OErr E_Io], p) /\
    fst (fst (rr start sref)) = map OTok pre ++ suf /\ suf <> [] /\ p <= length input.
Proof. exact C20_persistent_errors_run. Qed.
