(* C01, layout clause "trailing white space / comments" -- statements only; proofs in
   proofs/TextTrailProofs.v.  Right-hand counterpart of C01_left_padding_all_inputs (Props/C01_more.v):
   for EVERY byte string the parser accepts (well-formed rendering or not), a gap -- any word over
   space, tab, LF, CR, ';' and complete `# ... LF` comments -- appended at the end changes neither
   the tape nor the BOM flag.  Model function: TextTape.parse (run against text/tape.rs on every
   stream of props/C01*.py). *)
From JV Require Import Bytes Tables TextTok TextTape TextDoc.
From JV.proofs Require Import TextScanProofs TextTrailProofs.
Open Scope nat_scope.

(* 1. the clause.  Side condition: the first byte of the gap, if any, is a boundary byte (space, tab,
   LF, CR or '#': everything a gap can start with except ';').  It is needed only when the text
   ends inside a bare word (2. and 3. below): ';' is white space for the skipper but does not end a
   bare word. *)
Theorem C01_parse_trailing_gap : forall d g t b,
  parse d = Ok (t, b) -> gap_ok g -> starts_boundary g -> parse (d ++ g) = Ok (t, b).
Proof. exact parse_trailing_gap. Qed.
Print Assumptions C01_parse_trailing_gap.

(* 2. the side condition cannot be dropped: `a=b` followed by `;` is the field a = `b;` *)
Theorem C01_parse_trailing_gap_semicolon_refuted :
  exists d g t b, parse d = Ok (t, b) /\ gap_ok g /\ parse (d ++ g) <> Ok (t, b).
Proof. exact parse_trailing_gap_semicolon_refuted. Qed.
Print Assumptions C01_parse_trailing_gap_semicolon_refuted.

(* 3. ... but it is not needed when the accepted text ends with a boundary byte (white space, a
   closing brace, an operator, '#', ...; also as the last byte of an unterminated comment): then
   EVERY gap may follow, one that starts with ';' included *)
Theorem C01_parse_trailing_gap_after_boundary : forall d0 c g t b,
  parse (d0 ++ [c]) = Ok (t, b) -> is_boundary c = true -> gap_ok g ->
  parse (d0 ++ [c] ++ g) = Ok (t, b).
Proof. exact parse_trailing_gap_after_boundary. Qed.
Print Assumptions C01_parse_trailing_gap_after_boundary.

(* 1. and 3. in one statement *)
Theorem C01_parse_trailing_gap_gen : forall d g t b,
  parse d = Ok (t, b) -> gap_ok g ->
  starts_boundary g \/ (exists d0 c, d = d0 ++ [c] /\ is_boundary c = true) ->
  parse (d ++ g) = Ok (t, b).
Proof. exact parse_trailing_gap_gen. Qed.
Print Assumptions C01_parse_trailing_gap_gen.

(* 4. the step-level fact behind 1.: one iteration of the main loop on the data followed by the gap
   does what it does on the data alone and leaves the gap behind the remaining data
   ([appS g s] = the state s with g appended to its data); at the end of the data -- possibly
   inside an unterminated comment, which the gap then continues -- the same exit *)
Theorem C01_step_trailing_gap : forall g s, gap_ok g -> starts_boundary g ->
  (forall s', step s = Next s' -> step (appS g s) = Next (appS g s')) /\
  (forall F, step s = Done F -> step (appS g s) = Done F).
Proof. exact step_trailing_gap. Qed.
Print Assumptions C01_step_trailing_gap.

(* non-vacuity.  `a=b` ++ ` #c LF` *)
Example C01_trailing_gap_nonvacuous :
  parse [97; 61; 98]%N = Ok ([TUnquoted [97%N]; TUnquoted [98%N]], false) /\
  gap_ok [32; 35; 99; 10]%N /\ starts_boundary [32; 35; 99; 10]%N /\
  parse ([97; 61; 98] ++ [32; 35; 99; 10])%N = Ok ([TUnquoted [97%N]; TUnquoted [98%N]], false).
Proof.
  split; [vm_compute; reflexivity|]. split; [apply gap_okb_sound; reflexivity|].
  split; vm_compute; reflexivity.
Qed.

(* the accepted text ends inside an unterminated comment, which the gap continues:
   `a=b #x` ++ ` #y LF TAB` *)
Example C01_trailing_gap_open_comment :
  parse [97; 61; 98; 32; 35; 120]%N = Ok ([TUnquoted [97%N]; TUnquoted [98%N]], false) /\
  gap_ok [32; 35; 121; 10; 9]%N /\ starts_boundary [32; 35; 121; 10; 9]%N /\
  parse ([97; 61; 98; 32; 35; 120] ++ [32; 35; 121; 10; 9])%N = Ok ([TUnquoted [97%N]; TUnquoted [98%N]], false).
Proof.
  split; [vm_compute; reflexivity|]. split; [apply gap_okb_sound; reflexivity|].
  split; vm_compute; reflexivity.
Qed.

(* 3. is not vacuous either: `a={b}` ++ `;;CR`  (the gap starts with ';') *)
Example C01_trailing_gap_after_boundary_nonvacuous :
  parse ([97; 61; 123; 98] ++ [125])%N = Ok ([TUnquoted [97%N]; TArray 3 false; TUnquoted [98%N]; TEnd 1], false) /\
  is_boundary 125%N = true /\ gap_ok [59; 59; 13]%N /\ ~ starts_boundary [59; 59; 13]%N /\
  parse ([97; 61; 123; 98] ++ [125] ++ [59; 59; 13])%N = Ok ([TUnquoted [97%N]; TArray 3 false; TUnquoted [98%N]; TEnd 1], false).
Proof.
  split; [vm_compute; reflexivity|]. split; [vm_compute; reflexivity|].
  split; [apply gap_okb_sound; reflexivity|]. split; [vm_compute; discriminate|]. vm_compute; reflexivity.
Qed.
