(* C01, wave 4 (a_c01) -- statements only; proofs in proofs/TextParseMoreProofs.v.  See audit/C01.md.
   Model functions: TextTape.parse (run against text/tape.rs on every stream of props/C01*.py),
   TextTapeMore.parse_quote_scalar_swar (run against the cfg(not(x86_64)) code under Miri, stream nonx86). *)
From JV Require Import Bytes Tables TextTok TextTape TextDoc TextTapeMore.
From JV.proofs Require Import TextScanProofs TextParseProofs TextParseMoreProofs.
Open Scope nat_scope.

(* 1. utf8_bom(), for EVERY byte string (accepted or not, well-formed or not): a BOM in front of a
   text that does not itself start with one changes the flag and nothing else; the flag of an
   accepted input says exactly whether the input starts with EF BB BF. *)
Theorem C01_bom_transparent : forall d, has_bom d = false ->
  parse (bom_bytes ++ d) = omap (fun p => (fst p, true)) (parse d).
Proof. exact bom_transparent. Qed.
Print Assumptions C01_bom_transparent.

Theorem C01_bom_flag : forall input t b, parse input = Ok (t, b) -> b = has_bom input.
Proof. exact parse_bom_flag. Qed.
Print Assumptions C01_bom_flag.

(* 2. left padding, for EVERY byte string: any gap (white space, CR, LF, ';', complete comments) of
   any length in front of a text changes nothing (C01_padding_independent says it for rendered
   well-formed documents only) *)
Theorem C01_left_padding_all_inputs : forall pad d, gap_ok pad -> has_bom d = false ->
  parse (pad ++ d) = parse d.
Proof. exact left_padding_all_inputs. Qed.
Print Assumptions C01_left_padding_all_inputs.

Example C01_left_padding_nonvacuous :
  gap_ok [32; 35; 123; 10; 59; 13; 9]%N /\
  parse ([32; 35; 123; 10; 59; 13; 9] ++ [97; 61; 123; 98; 125])%N = Ok ([TUnquoted [97%N]; TArray 3 false; TUnquoted [98%N]; TEnd 1], false).
Proof. split; [apply gap_okb_sound; reflexivity | vm_compute; reflexivity]. Qed.

(* 3. a '#' comment that runs to the end of the input WITHOUT a newline (excluded by wf_layout,
   whose gaps only hold complete comments): same tape *)
Theorem C01_parse_render_trailing_comment : forall d l body,
  wf_doc d -> wf_layout d l -> Forall (fun b => b <> 10%N) body ->
  parse (render d l ++ 35%N :: body) = Ok (flatten d, bom l).
Proof. exact parse_render_trailing_comment. Qed.
Print Assumptions C01_parse_render_trailing_comment.

(* 4. the optional `=` before `{`: two well-formed documents that differ only in optional `=` signs
   (same normal form) give the same tape in any two layouts *)
Theorem C01_eq_before_brace_optional : forall d1 d2 l1 l2,
  wf_doc d1 -> wf_doc d2 -> norm_eq d1 = norm_eq d2 -> wf_layout d1 l1 -> wf_layout d2 l2 ->
  omap fst (parse (render d1 l1)) = omap fst (parse (render d2 l2)).
Proof. exact eq_before_brace_optional. Qed.
Print Assumptions C01_eq_before_brace_optional.

Open Scope N_scope.
(* a = { b = 1 c = { 1 } } d = { }   vs   a { b = 1 c { 1 } } d { } *)
Definition eqb_doc (o : option operator) : doc :=
  FCons (Field Unq [97] o (VObject (FCons (Field Unq [98] (Some Equal) (VScalar Unq [49]))
                                   (FCons (Field Unq [99] o (VArray (VCons (VScalar Unq [49]) VNil))) FNil)) VNil))
 (FCons (Field Unq [100] o (VArray VNil)) FNil).
Open Scope nat_scope.

Example C01_eq_before_brace_nonvacuous :
  wf_doc (eqb_doc None) /\ wf_doc (eqb_doc (Some Equal)) /\ eqb_doc None <> eqb_doc (Some Equal) /\
  norm_eq (eqb_doc None) = norm_eq (eqb_doc (Some Equal)) /\
  render (eqb_doc None) sp_layout <> render (eqb_doc (Some Equal)) sp_layout /\
  wf_layout (eqb_doc None) sp_layout /\ wf_layout (eqb_doc (Some Equal)) sp_layout.
Proof.
  repeat split; try reflexivity; try discriminate;
    try (intros i; apply gap_okb_sound; reflexivity); try (cbn; repeat split; intros; reflexivity || exact I).
Qed.

(* 4b. ... and why wf_doc must exclude a FIRST member `k { .. }` of a nested object: that text is also
   the rendering of a well-formed ARRAY document with a different tape, so no parser can honour the
   optional `=` there (the implementation gives the array reading: look-ahead of one token). *)
Theorem C01_first_member_no_eq_ambiguous :
  wf_doc amb_arr /\ (forall l, render amb_obj l = render amb_arr l) /\ flatten amb_obj <> flatten amb_arr /\
  parse (render amb_obj sp_layout) = Ok (flatten amb_arr, false).
Proof. exact first_member_no_eq_ambiguous. Qed.
Print Assumptions C01_first_member_no_eq_ambiguous.

(* 5. the two findings of the `excluded` stream, on the model (known_findings.json M-first-ne,
   Q-exists-op-lost): a first member with `!=` turns the container into a mixed array; `?=` outside
   the position directly after an object key is not an operator at all *)
Theorem C01_first_ne_refuted :
  wf_layout (first_op_doc NotEqual) sp_layout /\
  flatten (first_op_doc NotEqual) = [TUnquoted [97%N]; TObject 5 false; TUnquoted [107%N]; TOperator NotEqual; TUnquoted [118%N]; TEnd 1] /\
  parse (render (first_op_doc NotEqual) sp_layout) =
    Ok ([TUnquoted [97%N]; TArray 6 true; TMixedContainer; TUnquoted [107%N]; TOperator NotEqual; TUnquoted [118%N]; TEnd 1], false).
Proof. exact first_ne_refuted. Qed.
Print Assumptions C01_first_ne_refuted.

Theorem C01_exists_op_lost_refuted :
  In (TOperator TextTok.Exists) (flatten (first_op_doc TextTok.Exists)) /\
  parse (render (first_op_doc TextTok.Exists) sp_layout) =
    Ok ([TUnquoted [97%N]; TArray 7 true; TUnquoted [107%N]; TMixedContainer; TUnquoted [63%N]; TOperator Equal; TUnquoted [118%N]; TEnd 1], false) /\
  In (TOperator TextTok.Exists) (flatten kv_exists_doc) /\
  parse (render kv_exists_doc sp_layout) =
    Ok ([TUnquoted [97%N]; TArray 8 true; TUnquoted [49%N]; TUnquoted [107%N]; TMixedContainer; TUnquoted [63%N]; TOperator Equal; TUnquoted [118%N]; TEnd 1], false).
Proof. exact exists_op_lost_refuted. Qed.
Print Assumptions C01_exists_op_lost_refuted.

(* 6. the scanners of the other architectures (cfg(not(target_arch = x86_64))): the SWAR quote scanner
   (u64 words, contains_zero_byte / repeat_byte of util.rs with their real arithmetic) meets the same
   escape-aware specification as the SSE2 one, for every haystack of bytes; split_at_scalar is the
   byte-wise fallback there and equals the SSE2 result for every input *)
Theorem C01_quote_scalar_swar_spec : forall h, Forall (fun b => (b < 256)%N) h ->
  parse_quote_scalar_swar (34%N :: h) =
  match tq_scan h 0 with
  | Some i => Ok (firstn i h, skipn (S i) h)
  | None => Err E_TextErr
  end.
Proof. intros h. exact (quote_scalar_swar_spec 34%N h). Qed.
Print Assumptions C01_quote_scalar_swar_spec.

Theorem C01_quote_scalar_arch_independent : forall h, Forall (fun b => (b < 256)%N) h ->
  parse_quote_scalar_swar (34%N :: h) = parse_quote_scalar (34%N :: h).
Proof. intros h. exact (quote_scalar_arch_independent 34%N h). Qed.
Print Assumptions C01_quote_scalar_arch_independent.

Theorem C01_split_at_scalar_arch_independent : forall d, split_at_scalar_plain d = split_at_scalar d.
Proof. exact split_at_scalar_arch_independent. Qed.
Print Assumptions C01_split_at_scalar_arch_independent.

Example C01_swar_nonvacuous :   (* "abcdefg" : the quote is the last lane of the first word *)
  parse_quote_scalar_swar [34; 97; 98; 99; 100; 101; 102; 103; 34; 61]%N = Ok ([97; 98; 99; 100; 101; 102; 103]%N, [61%N]).
Proof. vm_compute. reflexivity. Qed.
