(* C02 — the deserializer WALKS of src/text/de.rs inside the model (complements Props/C02.v, which
   pins the scalar / struct level).  Statements only.

   Models (all executable, all run against the implementation by the `walk_model` stream of
   props/C02.py): TextDeTape.deser_tape (TextDeserializer::from_*_tape / from_*_slice /
   ObjectReader::deserialize over the token list of the tape, with the dom.rs readers) and
   TextDeStream.deser_stream (TextReaderDeserializer over the reader's token list).
   Specification: TextDeSpec.spec_value, structural recursion on the abstract document (TextDoc).
   [fits sh d] := spec_value sh d <> Err EC_UNFIT: along the part of the document that is visited, the
   shape asks for a map/struct where the document has an object, a sequence/tuple where it has an
   array, `any` only on scalars, Property only on a field's value.

   FULL statement (DESIGN 6/C02):
       forall d sh, wf_doc d -> fits sh d ->
         deser_tape enc sh (flatten d) = spec_value enc sh d = deser_stream enc sh (tokens d)
       (stream: unless a header is captured, finding H)
   PROVED here, for every document of the CORE grammar, every shape, every decoder and float parameter:
     * C02_stream_path_spec_partial (deser_stream (tokens d) = spec_value), hence
       C02_paths_agree_partial (deser_tape (flatten d) = deser_stream (tokens d)); the stream model
       is the token-list instance (see TextDeStream.v: that the tokens do not depend on buffer size /
       read schedule is C07_stream_eq_slice; that the byte-level skip_container lands where the
       token-level one does is only exercised by correspondence);
     * C02_tape_path_spec_partial: the tape half, for every document of the CORE grammar
       (core_fields: scalars quoted/unquoted, objects of `key op value` fields with any of the 8
       operators or none, arrays, arbitrary nesting; every shape: typed scalar hints with their
       fall-backs, String, bool, dates, floats, enums, Option, Property, seq, tuple, map, struct with
       Once/Last/Collect fields, unknown fields dropped whatever they contain, duplicate keys,
       missing Option), with the DEFAULT fuel of the extracted function (termination included),
       for every decoder and every float parameter.
     MISSING (carried by the correspondence stream `walk_model` and the oracle only):
       object tails (the synthetic "remainder" key), arrays that turn into key-value lists, headers
       (`rgb {..}`: next_idx_header, the 2-element view, deserialize_any's look-ahead), parameters
       `[[p] ..]`, ghost `{}` objects, `any` on containers, Property<T> outside a field value
       (serde-derive's own visitor), EnumAccess on arrays; the composition with the byte-level
       lexers (C01_parse_render for flatten, C07 for tokens) is not restated here.
     * the two known deviations are reproduced by the models (witness theorems): H (the stream path
       has no headers) and M-tape-first-ne (`!=` as the first operator of a nested container). *)
From JV Require Import Bytes Utf8 TextTok TextReader TextDoc SerdeShape TextDeCommon TextDeTape TextDeStream TextDeSpec.
From JV.proofs Require Import TextDeTapeProofs TextDeStreamProofs.
Open Scope N_scope.

Theorem C02_tape_path_spec_partial : forall (decode : bytes -> cow) (parse_f64 : bytes -> outcome N) (F : fops) sh d,
  core_fields d = true -> fits decode parse_f64 F sh d ->
  deser_tape decode parse_f64 F sh (flatten d) = spec_value decode parse_f64 F sh d.
Proof. exact tape_path_spec_core. Qed.
Print Assumptions C02_tape_path_spec_partial.

(* the same with explicit fuel: any fuel above the document's cost gives the same answer, at every
   ObjectReader (start, end) = the whole tape *)
Theorem C02_tape_root_any_fuel_partial : forall decode parse_f64 F sh d fuel,
  core_fields d = true -> (cfs d + shape_size sh <= fuel)%nat ->
  spec_value decode parse_f64 F sh d <> Err EC_UNFIT ->
  de_root decode parse_f64 F (flatten d) fuel sh 0 (length (flatten d)) = spec_value decode parse_f64 F sh d.
Proof. exact tape_root_spec. Qed.
Print Assumptions C02_tape_root_any_fuel_partial.

Theorem C02_stream_path_spec_partial : forall (decode : bytes -> cow) (parse_f64 : bytes -> outcome N) (F : fops) sh d,
  core_fields d = true -> fits decode parse_f64 F sh d ->
  deser_stream decode parse_f64 F sh (tokens d) = spec_value decode parse_f64 F sh d.
Proof. exact stream_path_spec_core. Qed.
Print Assumptions C02_stream_path_spec_partial.

Theorem C02_paths_agree_partial : forall (decode : bytes -> cow) (parse_f64 : bytes -> outcome N) (F : fops) sh d,
  core_fields d = true -> fits decode parse_f64 F sh d ->
  deser_tape decode parse_f64 F sh (flatten d) = deser_stream decode parse_f64 F sh (tokens d).
Proof. exact paths_agree_core. Qed.
Print Assumptions C02_paths_agree_partial.

(* skip_container (token level) on a well-bracketed body lands exactly after the matching Close *)
Theorem C02_stream_skip_lands_partial : forall fs rest d,
  core_fields fs = true -> l_skip_depth (rtoks_fields fs ++ rest) d = l_skip_depth rest d.
Proof. intros fs rest d H. exact (proj1 (proj2 (proj2 skip_bal)) fs H rest d). Qed.
Print Assumptions C02_stream_skip_lands_partial.

(* ------------------------------------------------------------------ non-vacuity and witnesses *)
Definition dec0 (d : bytes) : cow := Borrowed d.
Definition pf0 (d : bytes) : outcome N := Err 1.
Definition F0 : fops := mkfops (fun x => x) (fun x => x) (fun _ => 0) (fun _ => 0).

Definition b_a : bytes := [97]. Definition b_b : bytes := [98]. Definition b_c : bytes := [99].
Definition b_d : bytes := [100]. Definition b_l : bytes := [108]. Definition b_x : bytes := [120].

(* a=1 b={ c=yes d >= "x" } l={ 1 2 } a=3   into
   struct { a*: u8, b: struct { c: bool, d: Property<String>, zz: Option<u8> }, l: seq(u8) }  -- l unknown to the shape *)
Definition doc1 : doc :=
  FCons (Field Unq b_a (Some Equal) (VScalar Unq [49]))
  (FCons (Field Unq b_b (Some Equal) (VObject
      (FCons (Field Unq b_c (Some Equal) (VScalar Unq [121; 101; 115]))
      (FCons (Field Unq b_d (Some GreaterThanEqual) (VScalar Quo b_x)) FNil)) VNil))
  (FCons (Field Unq b_l None (VArray (VCons (VScalar Unq [49]) (VCons (VScalar Unq [50]) VNil))))
  (FCons (Field Unq b_a (Some Equal) (VScalar Unq [51])) FNil))).
Definition sh1 : shape :=
  ShStruct false
    [ (b_a, None, MCollect, ShU 8);
      (b_b, None, MOnce, ShStruct false [ (b_c, None, MOnce, ShBool); (b_d, None, MOnce, ShProp ShStr);
                                          ([122; 122], None, MOnce, ShOpt (ShU 8)) ]) ].

Example C02_walk_nonvacuous :
  core_fields doc1 = true /\ fits dec0 pf0 F0 sh1 doc1 /\
  deser_tape dec0 pf0 F0 sh1 (flatten doc1) =
    Ok (DStruct [ (b_a, DSeq [DU 1; DU 3]);
                  (b_b, DStruct [ (b_c, DBool true); (b_d, DProp 3 (DStr b_x)); ([122; 122], DNone) ]) ]).
Proof. split; [reflexivity|]. split; [unfold fits; vm_compute; discriminate | vm_compute; reflexivity]. Qed.

(* and the stream path returns the same value on that document *)
Example C02_walk_nonvacuous_stream :
  deser_stream dec0 pf0 F0 sh1 (tokens doc1) = deser_tape dec0 pf0 F0 sh1 (flatten doc1).
Proof. vm_compute. reflexivity. Qed.

(* finding H: `color = rgb { 1 2 3 } x=1` into struct { color: (String, Vec<u8>), x: u8 } -- the tape
   path delivers ("rgb", [1,2,3]); the stream path reads "rgb" as the value and fails on the tuple *)
Definition b_color : bytes := [99; 111; 108; 111; 114].
Definition b_rgb : bytes := [114; 103; 98].
Definition tapeH : ttape :=
  [TUnquoted b_color; THeader b_rgb; TArray 6 false; TUnquoted [49]; TUnquoted [50]; TUnquoted [51]; TEnd 2;
   TUnquoted b_x; TUnquoted [49]].
Definition toksH : ltoks :=
  ([RUnq b_color; ROp Equal; RUnq b_rgb; ROpen; RUnq [49]; RUnq [50]; RUnq [51]; RClose; RUnq b_x; ROp Equal; RUnq [49]], None).
Definition shH : shape :=
  ShStruct false [ (b_color, None, MOnce, ShTup [ShStr; ShSeq (ShU 8)]); (b_x, None, MOnce, ShU 8) ].

Theorem C02_known_H_stream_header :
  deser_tape dec0 pf0 F0 shH tapeH =
    Ok (DStruct [ (b_color, DSeq [DStr b_rgb; DSeq [DU 1; DU 2; DU 3]]); (b_x, DU 1) ]) /\
  deser_stream dec0 pf0 F0 shH toksH = Err EC_DE.
Proof. split; vm_compute; reflexivity. Qed.

(* finding M: `u={a != 1 b=2}` into struct { u: struct { a: Property<u8>, b: u8 } } -- the tape marks the
   container as an array (`!=` is not looked for after the first scalar), the stream path reads fields *)
Definition b_u : bytes := [117].
Definition tapeM : ttape :=
  [TUnquoted b_u; TArray 9 true; TMixedContainer; TUnquoted b_a; TOperator NotEqual; TUnquoted [49];
   TUnquoted b_b; TOperator Equal; TUnquoted [50]; TEnd 1].
Definition toksM : ltoks :=
  ([RUnq b_u; ROp Equal; ROpen; RUnq b_a; ROp NotEqual; RUnq [49]; RUnq b_b; ROp Equal; RUnq [50]; RClose], None).
Definition shM : shape :=
  ShStruct false [ (b_u, None, MOnce, ShStruct false [ (b_a, None, MOnce, ShProp (ShU 8)); (b_b, None, MOnce, ShU 8) ]) ].

Theorem C02_known_M_tape_first_ne :
  deser_stream dec0 pf0 F0 shM toksM = Ok (DStruct [ (b_u, DStruct [ (b_a, DProp 4 (DU 1)); (b_b, DU 2) ]) ]) /\
  deser_tape dec0 pf0 F0 shM tapeM <> deser_stream dec0 pf0 F0 shM toksM.
Proof. split; [vm_compute; reflexivity | vm_compute; discriminate]. Qed.
