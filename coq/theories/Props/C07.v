(* C07 — Streaming text reader is independent of read chunking and buffer size.
   Statements only.  Model: BufWin (buffer.rs) and TextReader (text/reader.rs); specification:
   TextRef (buffer-free reference tokenizer [ref_tokens], buffer requirement [need]).
   Proved:
     * the buffer never loses / reorders data under any schedule, end-of-input is reported only
       when the stream has ended (a full buffer is BufferFull);
     * every scan that survives a refill resumes correctly for any continuation of the data;
     * C07_fast_paths_unobservable: next_opt (SWAR whitespace skip, unrolled boundary scan, SWAR
       quote search) = next_opt_fallback, up to one consumed space after an unquoted scalar;
     * C07_slice_eq_tok: the zero-copy reader produces the reference token list, terminal event
       and final position;
     * C07_stream_eq_tok / C07_stream_eq_slice: for ALL schedules without I/O failures (any
       number of reads of any sizes, including 1-byte reads) and ALL buffer sizes >= need input,
       the streaming reader produces the same token list, terminal event and final position as
       the zero-copy reader;
     * C07_stream_full: for every non-empty buffer smaller than need input the streaming reader
       returns a proper prefix of the slice reader's tokens followed by BufferFull: never a
       clean end, never a split or dropped token.  (Together: for every buffer size > 0 exactly
       one of the two cases applies.  cap = 0 is the model's encoding of the bufferless slice
       window and is not a streaming configuration.)
   Hypotheses: bytes are < 256 (wf_bytes), the Read does not fail (no_fail; faults are C20). *)
From JV Require Import Bytes Tables U64Swar BufWin TextTok TextReader TextRef.
From JV.proofs Require Import BufWinProofs TextReaderProofs TextFastProofs TextReaderMainProofs TextReaderFullProofs.
Open Scope nat_scope.

Theorem C07_fill_buf_preserves : forall input b r,
  stream_inv input b r ->
  match bw_fill_buf b r with
  | FillOk n b' r' => stream_inv input b' r' /\ length (win b') = length (win b) + n
                      /\ exists bs, win b' = win b ++ bs /\ length bs = n
  | FillIo b' r' => stream_inv input b' r' /\ win b' = win b
  | FillFull b' r' => b' = b /\ r' = r
  end.
Proof. exact fill_buf_preserves. Qed.
Print Assumptions C07_fill_buf_preserves.

Theorem C07_fill_ok0_is_eof : forall b r b' r',
  cap b > 0 -> bw_fill_buf b r = FillOk 0 b' r' -> rest r = [] /\ length (win b) < cap b.
Proof. exact fill_ok0_is_eof. Qed.
Print Assumptions C07_fill_ok0_is_eof.

Theorem C07_fill_full_iff : forall b r,
  cap b > 0 -> ((exists b' r', bw_fill_buf b r = FillFull b' r') <-> cap b <= length (win b)).
Proof. exact fill_full_iff. Qed.
Print Assumptions C07_fill_full_iff.

Theorem C07_unquoted_resume : forall p c1 c2,
  find_from p c1 0 = None ->
  find_from p (c1 ++ c2) 0 = find_from p (skipn (length c1) (c1 ++ c2)) (length c1).
Proof. exact unquoted_resume. Qed.
Print Assumptions C07_unquoted_resume.

Theorem C07_refill_quote_resume : forall c1 c2,
  match rq_scan c1 0 with
  | inl i => rq_scan (c1 ++ c2) 0 = inl i
  | inr o => o <= length c1 /\ rq_scan (c1 ++ c2) 0 = rq_scan (skipn o (c1 ++ c2)) o
  end.
Proof. exact refill_quote_resume. Qed.
Print Assumptions C07_refill_quote_resume.

Theorem C07_fallback_quote_resume : forall c1 c2,
  match qscan c1 0 with
  | QFound i => rq_scan (c1 ++ c2) 0 = inl i
  | QEnd => rq_scan (c1 ++ c2) 0 = rq_scan (skipn (length c1) (c1 ++ c2)) (length c1)
  | QEndEsc i => i < length c1 /\ rq_scan (c1 ++ c2) 0 = rq_scan (skipn i (c1 ++ c2)) i
  end.
Proof. exact fallback_quote_resume. Qed.
Print Assumptions C07_fallback_quote_resume.

(* non-vacuity: the escape-split situations of findings J and K are instances *)
Example C07_J_instance : qscan [97; 92]%N 0 = QEndEsc 1 /\ rq_scan ([97; 92] ++ [34; 98; 34])%N 0 = inl 4.
Proof. split; reflexivity. Qed.

(* ---------- fast paths ---------- *)
Theorem C07_fast_paths_unobservable : forall fuel r,
  wf_bytes (win (rbw r)) ->
  next_opt fuel r = fallback fuel r \/
  exists t i,
    nth_error (win (rbw r)) i = Some 32%N /\
    fallback fuel r = emit r t i /\ next_opt fuel r = emit r t (S i).
Proof. exact next_opt_fast_eq_fallback. Qed.
Print Assumptions C07_fast_paths_unobservable.

(* ---------- slice reader = reference tokenizer ---------- *)
Theorem C07_slice_eq_tok : forall input, wf_bytes input ->
  run_slice input = (tokens_of input, length input - leftover input).
Proof. exact slice_eq_tok. Qed.
Print Assumptions C07_slice_eq_tok.

(* ---------- MAIN: streaming reader = reference tokenizer = slice reader ---------- *)
Theorem C07_stream_eq_tok : forall input sch capv,
  wf_bytes input -> no_fail sch -> need input <= capv ->
  run_stream capv sch input = (tokens_of input, length input - leftover input).
Proof. exact stream_eq_tok. Qed.
Print Assumptions C07_stream_eq_tok.

Theorem C07_stream_eq_slice : forall input sch capv,
  wf_bytes input -> no_fail sch -> need input <= capv ->
  run_stream capv sch input = run_slice input.
Proof. exact stream_eq_slice. Qed.
Print Assumptions C07_stream_eq_slice.

(* ---------- a buffer that is too small ---------- *)
Theorem C07_stream_full : forall input sch capv,
  wf_bytes input -> no_fail sch -> 0 < capv < need input ->
  exists pre suf p,
    run_stream capv sch input = (map OTok pre ++ [OErr E_BufferFull], p) /\
    fst (run_slice input) = map OTok pre ++ suf /\ suf <> [].
Proof. exact stream_full. Qed.
Print Assumptions C07_stream_full.

(* ---------- corollaries ---------- *)
Theorem C07_schedule_independent : forall input sch1 sch2 cap1 cap2,
  wf_bytes input -> no_fail sch1 -> no_fail sch2 -> need input <= cap1 -> need input <= cap2 ->
  run_stream cap1 sch1 input = run_stream cap2 sch2 input.
Proof. exact schedule_independent. Qed.
Print Assumptions C07_schedule_independent.

(* the hypothesis of the main theorem is satisfiable for every input: |input| + 1 bytes suffice *)
Theorem C07_need_le_length : forall input, need input <= S (length input).
Proof. exact need_le_length. Qed.
Print Assumptions C07_need_le_length.

Theorem C07_stream_eq_slice_big : forall input sch capv,
  wf_bytes input -> no_fail sch -> length input < capv -> run_stream capv sch input = run_slice input.
Proof. exact stream_eq_slice_big. Qed.
Print Assumptions C07_stream_eq_slice_big.

(* non-vacuity: an input with an escaped quote inside a quoted scalar, a comment, a parameter
   token and a two-byte operator needs 5 bytes; with one-byte reads and a 5-byte buffer the
   streaming reader gives the slice result, with a 4-byte buffer it reports BufferFull *)
Definition C07_ex_input : bytes := [97;98;32;34;120;92;34;121;34;32;35;99;10;64;91;49;93;60;61]%N.
Example C07_ex_hyps : wf_bytes C07_ex_input /\ no_fail (repeat (Data 1) 30) /\ need C07_ex_input = 5.
Proof.
  split; [repeat constructor|]. split; [|reflexivity].
  intros H. apply repeat_spec in H. discriminate.
Qed.
Example C07_ex_run : run_stream 5 (repeat (Data 1) 30) C07_ex_input = run_slice C07_ex_input /\
                     fst (run_stream 4 (repeat (Data 1) 30) C07_ex_input) = [OTok (RUnq [97;98]%N); OErr E_BufferFull].
Proof. split; vm_compute; reflexivity. Qed.
