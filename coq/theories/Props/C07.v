(* C07 — Streaming text reader is independent of read chunking and buffer size.
   Statements only.  Model: BufWin (buffer.rs) and TextReader (text/reader.rs).
   Proved so far: the buffer never loses / reorders data under any schedule, end-of-input is
   reported only when the stream has ended (a full buffer is BufferFull), and every scan that
   survives a refill resumes correctly for any continuation of the data (the (carry_over,
   offset) pairs handed to next_opt_refill).  NOT yet proved as one theorem:
     stream_eq_slice : forall input sched cap, fits cap input ->
                       run_stream cap sched input = run_slice input
   which is carried by the correspondence + oracle streams of props/C07.py. *)
From JV Require Import Bytes Tables U64Swar BufWin TextTok TextReader.
From JV.proofs Require Import BufWinProofs TextReaderProofs.
Open Scope nat_scope.

Theorem C07_fill_buf_preserves : forall input b r,
  stream_inv input b r ->
  match bw_fill_buf b r with
  | FillOk n b' r' => stream_inv input b' r' /\ length (win b') = length (win b) + n
                      /\ exists bs, win b' = win b ++ bs /\ length bs = n
  | FillIo b' r' => stream_inv input b' r' /\ win b' = win b
  | FillFull b' r' => b' = b /\ r' = r
  end.
Proof. exact fill_buf_preserves. Qed.
Print Assumptions C07_fill_buf_preserves.

Theorem C07_fill_ok0_is_eof : forall b r b' r',
  cap b > 0 -> bw_fill_buf b r = FillOk 0 b' r' -> rest r = [] /\ length (win b) < cap b.
Proof. exact fill_ok0_is_eof. Qed.
Print Assumptions C07_fill_ok0_is_eof.

Theorem C07_fill_full_iff : forall b r,
  cap b > 0 -> ((exists b' r', bw_fill_buf b r = FillFull b' r') <-> cap b <= length (win b)).
Proof. exact fill_full_iff. Qed.
Print Assumptions C07_fill_full_iff.

Theorem C07_unquoted_resume : forall p c1 c2,
  find_from p c1 0 = None ->
  find_from p (c1 ++ c2) 0 = find_from p (skipn (length c1) (c1 ++ c2)) (length c1).
Proof. exact unquoted_resume. Qed.
Print Assumptions C07_unquoted_resume.

Theorem C07_refill_quote_resume : forall c1 c2,
  match rq_scan c1 0 with
  | inl i => rq_scan (c1 ++ c2) 0 = inl i
  | inr o => o <= length c1 /\ rq_scan (c1 ++ c2) 0 = rq_scan (skipn o (c1 ++ c2)) o
  end.
Proof. exact refill_quote_resume. Qed.
Print Assumptions C07_refill_quote_resume.

Theorem C07_fallback_quote_resume : forall c1 c2,
  match qscan c1 0 with
  | QFound i => rq_scan (c1 ++ c2) 0 = inl i
  | QEnd => rq_scan (c1 ++ c2) 0 = rq_scan (skipn (length c1) (c1 ++ c2)) (length c1)
  | QEndEsc i => i < length c1 /\ rq_scan (c1 ++ c2) 0 = rq_scan (skipn i (c1 ++ c2)) i
  end.
Proof. exact fallback_quote_resume. Qed.
Print Assumptions C07_fallback_quote_resume.

(* non-vacuity: the escape-split situations of findings J and K are instances *)
Example C07_J_instance : qscan [97; 92]%N 0 = QEndEsc 1 /\ rq_scan ([97; 92] ++ [34; 98; 34])%N 0 = inl 4.
Proof. split; reflexivity. Qed.
