(* C15, wave 5 (w_wr) -- the side condition `wf_doc d` of C15_calls_parse_back_partial / C15_mixed_calls_parse_back,
   discharged for every scalar text the writer produces itself.  Statements only; proofs/WriterTextProofs.v.

   A scalar written by write_unquoted / write_fmt / write_binary(Unquoted) is the caller's text verbatim: there
   wf_scalar IS the caller's obligation ("it is up to the caller to ensure that the data is a valid unquoted
   field", writer.rs).  For every OTHER call with a text (call_text) the obligation is met by the writer:
   integers of any size, booleans, dates (game format, for every raw date: any year, any packed month/day/hour),
   ISO dates, unknown binary tokens, quoted strings with arbitrary payload -- and floats under the Display
   contract [float_contract]: the printed string satisfies the decidable predicate WriterMix.wf_word_text
   (= TextDoc.wf_word), which the stream `wfword` of props/C15_w5.py evaluates on every float text written by the
   C15 streams and compares with the real scanner. *)
From JV Require Import Bytes Tables TextTok TextTape TextDoc Date Writer WriterMix.
From JV.proofs Require Import WriterLayoutDefs WriterCallsLayoutProofs WriterTextProofs.

Theorem C15_int_text_is_bare_word : forall z, wf_word (dec_Z z) = true.
Proof. exact int_text_wf. Qed.
Print Assumptions C15_int_text_is_bare_word.

Theorem C15_uint_text_is_bare_word : forall n, wf_word (dec_N' n) = true.
Proof. exact uint_text_wf. Qed.
Print Assumptions C15_uint_text_is_bare_word.

(* every raw date: no validity assumption on year / month / day / hour *)
Theorem C15_date_text_is_bare_word : forall wide r, wf_word (game_fmt wide r) = true /\ wf_word (iso_fmt r) = true.
Proof. intros. split; [apply date_text_wf|apply iso_text_wf]. Qed.
Print Assumptions C15_date_text_is_bare_word.

Theorem C15_unknown_token_text_is_bare_word : forall id, wf_word (UNKNOWN_PREFIX ++ hex_N id) = true.
Proof. exact unknown_text_wf. Qed.
Print Assumptions C15_unknown_token_text_is_bare_word.

(* the scalar part of wf_doc for every call that does not pass the caller's text through verbatim; the float
   contract is only needed for the float calls *)
Theorem C15_generated_text_wf : forall fdisp k kd s,
  verbatim_call k = false -> (float_call k = true -> float_contract fdisp) ->
  call_text fdisp k = Some (kd, s) -> wf_scalar kd s = true.
Proof. exact generated_text_wf. Qed.
Print Assumptions C15_generated_text_wf.

(* non-vacuity: a date with a negative year and an hour, i64::MIN, and a float oracle meeting the contract *)
Open Scope N_scope.
Example C15_text_nonvacuous :
  game_fmt false (mkraw (-12) (Z.lor (Z.shiftl 11 12) (Z.lor (Z.shiftl 30 7) (Z.shiftl 24 2)))) = [45;49;50;46;49;49;46;51;48;46;50;52] /\
  dec_Z (-9223372036854775808) = [45;57;50;50;51;51;55;50;48;51;54;56;53;52;55;55;53;56;48;56] /\
  float_contract (fun _ _ _ => [49;46;53]) /\
  call_text (fun _ _ _ => [49;46;53]) (CF64 0) = Some (Unq, [49;46;53]) /\
  wf_word_text [49;101;45;55] = true /\ wf_word_text [78;97;78] = true /\ wf_word_text [45;105;110;102] = true.
Proof. repeat split. Qed.
