(* C10 (wave 5, engineer w_c10; audit/C10.md "still open" items 1, 2, 4) -- the text <-> binary agreement over the EXTENDED
   logical documents of LogicDocX.v: colours that are READ at arbitrary object-value positions, DateHour values, and the
   text STREAM path from the BYTES.  Statements only.

   LogicDocX.v: xdoc = LogicDoc's documents + XDateHour scalars, with [xshared tp] admitting a colour under the typed
   target (String | ignored, Vec<number> | ignored) when tp = true.  The text side is TextDeSpec2.spec_value2 tp (the
   specification WITH headers: tp = true is what the text tape path yields, tp = false the part common with the text
   stream path; proved equal to the walks on the whole TextDoc grammar in Props/C02_walk2.v / C02_ext.v), the binary side
   BinDoc.spec_of with ColorSequence (BinDeCommon.color_visit).

   PROVED, for every text decoder, float parser, resolver, strategy, flavor, float casts, shape, document, admissible
   encoding choice, layout of the text, binary buffer capacity that fits, fault-free schedules, no size bound:
     1. C10_ext_spec_agree / C10_ext_spec_of_agree: xshared tp s d -> enc_okx e d ->
          spec_value2 tp s (to_textx d) = BinDoc.spec_value fuel s (to_binx e d)   (every fuel above shape + document;
          at the entry points' fuel), colours and DateHour included.
     2. C10_ext_shared_fits: a shared target fits the text rendering (spec_value2 never says "unfit").
     3. C10_ext_text_bin_agree (gap 1): for BOTH flags the text tape path on flatten (to_textx d) and the three binary
        paths on the bytes of to_binx e d return spec_value2 tp -- with tp = true this is the agreement for colours
        captured as typed pairs anywhere in the document (object values at any depth, inside arrays of objects, under
        Option, duplicate keys, ...), errors (channel out of range) included;
        C10_ext_text_bin_agree_stream: for tp = false also the text stream path on the reader tokens: five paths.
     4. C10_ext_bytes_agree (both flags) / C10_ext_bytes_agree_stream (gap 2): the same FROM THE BYTES of both renderings:
        TextDeBytes.deser_slice (= TextTape.parse, C01, then the tape walk) on `render (to_textx d) l` for every layout l,
        and TextDeBytes.deser_reader (= the streaming reader TextReader.run_stream, C07, then the stream walk) under
        EVERY read schedule without I/O failure and EVERY buffer capacity >= need -- all five paths from bytes.  Side
        conditions of the reader theorem of C02_ext: bare words do not start with '?' (plain_fields), the rendering is
        a byte string (wf_bytes).
     5. DateHour (gap 4): XDateHour values are part of xshared (target DateHour; I32 of DateHour::to_binary or string
        token), so C10_link_datehour is lifted to documents by 1-4; C10_ext_embeds: LogicDoc's documents are the XBase
        fragment (same renderings), so nothing of C10_link.v is lost.
   REFUTED (by the faithful models; replayed on the implementation by props/C10_ext.py):
     * C10_ext_rgb_in_array_refuted: a colour as an ARRAY ELEMENT -- the text parser has no header in array position (text
       slice and reader: a word and an array -> invalid type), the binary tape parser only knows the rgb block in
       object-value position (unknown token 0x243), the on-demand and stream binary deserializers deliver the colour:
       three different answers for one logical document (finding rgb-in-array; binary half = O-tape-rgb-in-array);
     * C10_ext_rgb_stream_refuted: a colour captured as a pair through the text STREAM path is an error where the text
       slice path and all binary paths deliver it (finding H-stream-header seen from C10): hence tp = false excludes it;
     * C10_ext_rgb_string_refuted: a colour into a String -- the text paths read the header's name "rgb" and drop the
       channels, the binary paths refuse (ColorSequence is a sequence): outside xshared, by design like `any`.
   NOT proved / remaining side conditions: float_ok / int_float_ok stay per-instance hypotheses (shown satisfiable with the
   real Scalar::to_f64 model and IEEE casts below); a colour under a fixed-size tuple of channels ([u8; 3]) or under
   Option<String> is not in xshared; XDateHour under a Date target (by design different: audit S6'). *)
From JV Require Import Bytes Tables Utf8 Scalar Date TextTok BinPrim BufWin BinLexer BinReader SerdeShape
  TextDeCommon BinDeCommon TextDeSpec TextDeSpec2 TextDeTape TextDeStream TextDeBytes BinDeOndemand BinDeReader BinDeTape LogicDoc LogicDocX.
From JV Require TextDoc BinDoc TextRef.
From JV.proofs Require Import C10RgbProofs C10ExtProofs C10ExtCompose C10ExtExamples.
From Coq Require Import NArith ZArith Lia List Bool.
Import ListNotations.
Open Scope N_scope.

(* ------------------------------------------------------------------ 1. the two specifications *)
Theorem C10_ext_spec_agree : forall tp decode pf cfg sh d e fuel,
  xshared tp decode pf cfg sh d -> enc_okx decode cfg e d ->
  (BinDeCommon.shape_size sh + xsize_fields d < fuel)%nat ->
  spec_value2 tp decode pf (c_fops cfg) sh (to_textx d)
  = BinDoc.spec_value cfg fuel sh (fst (to_binx e d)) (snd (to_binx e d)).
Proof. exact xspec_agree. Qed.
Print Assumptions C10_ext_spec_agree.

Theorem C10_ext_spec_of_agree : forall decode pf cfg tp sh d e,
  xshared tp decode pf cfg sh d -> enc_okx decode cfg e d ->
  spec_value2 tp decode pf (c_fops cfg) sh (to_textx d) = BinDoc.spec_of cfg sh (fst (to_binx e d)) (snd (to_binx e d)).
Proof. exact xspec_of_agree. Qed.
Print Assumptions C10_ext_spec_of_agree.

(* any value inside a document (a colour, a DateHour, an object holding colours ...), any Option nesting of the target *)
Theorem C10_ext_value_agree : forall tp decode pf cfg v sh e fuel st o,
  xshared_v tp decode pf cfg sh v -> enc_okx_v decode cfg e v ->
  (BinDeCommon.shape_size sh + xsize v <= fuel)%nat ->
  walk (c_fops cfg) (BinDoc.ops_doc cfg) fuel false sh (to_binx_val e v) st
  = omap (fun d => (d, st)) (spec_v2 tp decode pf (c_fops cfg) (to_textx_val v) sh o).
Proof. intros tp decode pf cfg v. exact (xval_agree tp decode pf cfg v). Qed.
Print Assumptions C10_ext_value_agree.

Theorem C10_ext_shared_fits : forall tp decode pf cfg sh d e,
  xshared tp decode pf cfg sh d -> enc_okx decode cfg e d -> fits2 tp decode pf (c_fops cfg) sh (to_textx d).
Proof. exact xshared_fits. Qed.
Print Assumptions C10_ext_shared_fits.

(* LogicDoc's documents are the XBase fragment: same text rendering, same binary rendering *)
Theorem C10_ext_embeds : forall e d, to_textx (of_ldoc d) = to_text d /\ to_binx e (of_ldoc d) = to_bin e d.
Proof. intros e d. split; [apply of_ldoc_text|apply of_ldoc_bin]. Qed.
Print Assumptions C10_ext_embeds.

(* ... and LogicDoc.shared / enc_ok / wf_ldoc / norgb_fields are the corresponding predicates of the fragment: every hypothesis
   of Props/C10_link.v's theorems implies the hypothesis of the theorems of this file on the embedded document *)
Theorem C10_ext_subsumes_logicdoc : forall tp decode pf cfg sh e d,
  (shared decode pf cfg sh d -> xshared tp decode pf cfg sh (of_ldoc d)) /\
  (enc_ok decode cfg e d -> enc_okx decode cfg e (of_ldoc d)) /\
  wf_xdoc (of_ldoc d) = wf_ldoc d /\ (norgb_fields d = true -> rgbpos (of_ldoc d) = true).
Proof.
  intros. split; [apply shared_embed|]. split; [apply enc_embed|]. split; [apply wf_embed|apply rgbpos_embed].
Qed.
Print Assumptions C10_ext_subsumes_logicdoc.

(* hence C10_text_bin_agree_partial restated over spec_value2 is an instance of C10_ext_text_bin_agree_stream *)
Theorem C10_ext_logicdoc_five_paths : forall decode pf cfg sh d e cap sched,
  wf_ldoc d = true -> norgb_fields d = true -> shared decode pf cfg sh d -> enc_ok decode cfg e d ->
  BinReader.no_fail sched = true -> BinLexer.fits cap (BinDoc.enc_doc (fst (to_bin e d)) (snd (to_bin e d))) = true ->
  let v := spec_value2 false decode pf (c_fops cfg) sh (to_text d) in
  let b := BinDoc.enc_doc (fst (to_bin e d)) (snd (to_bin e d)) in
  v <> Err EC_UNFIT /\
  TextDeTape.deser_tape decode pf (c_fops cfg) sh (TextDoc.flatten (to_text d)) = v /\
  TextDeStream.deser_stream decode pf (c_fops cfg) sh (tokens (to_text d)) = v /\
  BinDeTape.deser_tape cfg sh b = v /\ BinDeOndemand.deser_ondemand cfg sh b = v /\ BinDeReader.deser_reader cfg cap sched sh b = v.
Proof. exact logicdoc_five_paths. Qed.
Print Assumptions C10_ext_logicdoc_five_paths.

(* the renderings are what the walk theorems need *)
Theorem C10_ext_renderings_wf : forall decode cfg e d,
  wf_xdoc d = true -> rgbpos d = true -> enc_okx decode cfg e d ->
  ext_fields (to_textx d) = true /\ sx_fields (to_textx d) = true /\
  BinDoc.wf_doc (fst (to_binx e d)) (snd (to_binx e d)) = true /\
  BinDoc.tape_ok_doc (fst (to_binx e d)) = true.
Proof.
  intros decode cfg e d Hw Hp He. destruct (ext_textx d Hp) as [H1 H2]. split; [exact H1|]. split; [exact H2|].
  split; [apply (binx_wf_doc decode cfg), He; exact Hw|apply binx_tape_ok_doc, Hp].
Qed.

(* ------------------------------------------------------------------ 2. the paths, token level *)
Theorem C10_ext_text_bin_agree : forall decode pf cfg tp sh d e cap sched,
  wf_xdoc d = true -> rgbpos d = true -> xshared tp decode pf cfg sh d -> enc_okx decode cfg e d ->
  BinReader.no_fail sched = true -> BinLexer.fits cap (binx_bytes e d) = true ->
  let v := spec_value2 tp decode pf (c_fops cfg) sh (to_textx d) in
  v <> Err EC_UNFIT /\
  TextDeTape.deser_tape decode pf (c_fops cfg) sh (TextDoc.flatten (to_textx d)) = v /\
  BinDeTape.deser_tape cfg sh (binx_bytes e d) = v /\
  BinDeOndemand.deser_ondemand cfg sh (binx_bytes e d) = v /\
  BinDeReader.deser_reader cfg cap sched sh (binx_bytes e d) = v.
Proof. exact xtext_bin_agree. Qed.
Print Assumptions C10_ext_text_bin_agree.

Theorem C10_ext_text_bin_agree_stream : forall decode pf cfg sh d e cap sched,
  wf_xdoc d = true -> rgbpos d = true -> xshared false decode pf cfg sh d -> enc_okx decode cfg e d ->
  BinReader.no_fail sched = true -> BinLexer.fits cap (binx_bytes e d) = true ->
  let v := spec_value2 false decode pf (c_fops cfg) sh (to_textx d) in
  v <> Err EC_UNFIT /\
  TextDeTape.deser_tape decode pf (c_fops cfg) sh (TextDoc.flatten (to_textx d)) = v /\
  TextDeStream.deser_stream decode pf (c_fops cfg) sh (tokens (to_textx d)) = v /\
  BinDeTape.deser_tape cfg sh (binx_bytes e d) = v /\
  BinDeOndemand.deser_ondemand cfg sh (binx_bytes e d) = v /\
  BinDeReader.deser_reader cfg cap sched sh (binx_bytes e d) = v.
Proof. exact xtext_bin_agree_stream. Qed.
Print Assumptions C10_ext_text_bin_agree_stream.

(* ------------------------------------------------------------------ 3. the paths, from the bytes of both renderings *)
Theorem C10_ext_bytes_agree : forall decode pf cfg tp sh d e l cap sched,
  wf_xdoc d = true -> rgbpos d = true -> xshared tp decode pf cfg sh d -> enc_okx decode cfg e d ->
  TextDoc.wf_doc (to_textx d) -> TextDoc.wf_layout (to_textx d) l ->
  BinReader.no_fail sched = true -> BinLexer.fits cap (binx_bytes e d) = true ->
  let v := spec_value2 tp decode pf (c_fops cfg) sh (to_textx d) in
  v <> Err EC_UNFIT /\
  TextDeBytes.deser_slice decode pf (c_fops cfg) sh (TextDoc.render (to_textx d) l) = v /\
  BinDeTape.deser_tape cfg sh (binx_bytes e d) = v /\
  BinDeOndemand.deser_ondemand cfg sh (binx_bytes e d) = v /\
  BinDeReader.deser_reader cfg cap sched sh (binx_bytes e d) = v.
Proof. exact xbytes_agree. Qed.
Print Assumptions C10_ext_bytes_agree.

Theorem C10_ext_bytes_agree_stream : forall decode pf cfg sh d e l capv sch cap sched,
  wf_xdoc d = true -> rgbpos d = true -> xshared false decode pf cfg sh d -> enc_okx decode cfg e d ->
  TextDoc.wf_doc (to_textx d) -> TextDoc.wf_layout (to_textx d) l ->
  plain_fields (to_textx d) = true -> wf_bytes (TextDoc.render (to_textx d) l) ->
  TextRef.no_fail sch -> (TextRef.need (TextDoc.render (to_textx d) l) <= capv)%nat ->
  BinReader.no_fail sched = true -> BinLexer.fits cap (binx_bytes e d) = true ->
  let v := spec_value2 false decode pf (c_fops cfg) sh (to_textx d) in
  v <> Err EC_UNFIT /\
  TextDeBytes.deser_slice decode pf (c_fops cfg) sh (TextDoc.render (to_textx d) l) = v /\
  TextDeBytes.deser_reader decode pf (c_fops cfg) sh capv sch (TextDoc.render (to_textx d) l) = v /\
  BinDeTape.deser_tape cfg sh (binx_bytes e d) = v /\
  BinDeOndemand.deser_ondemand cfg sh (binx_bytes e d) = v /\
  BinDeReader.deser_reader cfg cap sched sh (binx_bytes e d) = v.
Proof. exact xbytes_agree_stream. Qed.
Print Assumptions C10_ext_bytes_agree_stream.

(* ------------------------------------------------------------------ 4. where the paths part ways *)
Theorem C10_ext_rgb_in_array_refuted :
  TextDoc.render (to_textx arr_doc) sp_layout = arr_text /\
  TextDeBytes.deser_slice id_dec pf_none F_id arr_shape arr_text = Err EC_DE /\
  TextDeBytes.deser_reader id_dec pf_none F_id arr_shape 64 [] arr_text = Err EC_DE /\
  BinDeTape.deser_tape cfg_id arr_shape (binx_bytes rgb_enc arr_doc) = Err EC_UNKTOKEN /\
  BinDeOndemand.deser_ondemand cfg_id arr_shape (binx_bytes rgb_enc arr_doc) = Ok arr_value /\
  BinDeReader.deser_reader cfg_id 64 [] arr_shape (binx_bytes rgb_enc arr_doc) = Ok arr_value.
Proof. exact rgb_in_array_witness. Qed.
Print Assumptions C10_ext_rgb_in_array_refuted.

Theorem C10_ext_rgb_stream_refuted :
  let t := TextDoc.render (to_textx col_doc) sp_layout in
  TextDeBytes.deser_slice id_dec pf_none F_id (rgb_shape 8) t = Ok col_value /\
  TextDeBytes.deser_reader id_dec pf_none F_id (rgb_shape 8) 64 [] t = Err EC_DE /\
  TextDeStream.deser_stream id_dec pf_none F_id (rgb_shape 8) (tokens (to_textx col_doc)) = Err EC_DE /\
  BinDeTape.deser_tape cfg_id (rgb_shape 8) (binx_bytes rgb_enc col_doc) = Ok col_value /\
  BinDeOndemand.deser_ondemand cfg_id (rgb_shape 8) (binx_bytes rgb_enc col_doc) = Ok col_value /\
  BinDeReader.deser_reader cfg_id 64 [] (rgb_shape 8) (binx_bytes rgb_enc col_doc) = Ok col_value.
Proof. exact rgb_stream_witness. Qed.
Print Assumptions C10_ext_rgb_stream_refuted.

Theorem C10_ext_rgb_string_refuted :
  let t := TextDoc.render (to_textx col_doc) sp_layout in
  TextDeBytes.deser_slice id_dec pf_none F_id str_shape t = Ok (DStruct [ (b_color, DStr RGB_NAME) ]) /\
  TextDeBytes.deser_reader id_dec pf_none F_id str_shape 64 [] t = Ok (DStruct [ (b_color, DStr RGB_NAME) ]) /\
  BinDeTape.deser_tape cfg_id str_shape (binx_bytes rgb_enc col_doc) = Err EC_DE /\
  BinDeOndemand.deser_ondemand cfg_id str_shape (binx_bytes rgb_enc col_doc) = Err EC_DE /\
  BinDeReader.deser_reader cfg_id 64 [] str_shape (binx_bytes rgb_enc col_doc) = Err EC_DE.
Proof. exact rgb_string_witness. Qed.
Print Assumptions C10_ext_rgb_string_refuted.

(* ------------------------------------------------------------------ non-vacuity
   C10ExtExamples.big_doc: colours captured at depth 2 (inside an object), at depth 3 (inside an array of objects), with
   and without alpha, channels into u8 and into f32; DateHour as I32 and as unquoted / quoted string tokens at the year
   boundaries; floats and an integer into float targets -- under the REAL float parameters (Scalar::to_f64's model, IEEE
   casts, little-endian payloads), for which float_ok / int_float_ok hold (C10ExtExamples.float_ok_15 ...). *)
Example C10_ext_float_conditions_satisfiable :
  float_ok real_pf real_cfg [49; 46; 53] [0; 0; 192; 63] [0; 0; 0; 0; 0; 0; 248; 63] /\
  float_ok real_pf real_cfg [48; 46; 50; 53] [0; 0; 128; 62] [0; 0; 0; 0; 0; 0; 208; 63] /\
  int_float_ok real_pf real_cfg 7 /\ int_float_ok real_pf real_cfg 4.
Proof.
  split; [exact float_ok_15|]. split; [exact float_ok_025|].
  split; apply int_float_ok_small; auto.
Qed.

Example C10_ext_nonvacuous_hyps :
  wf_xdoc big_doc = true /\ rgbpos big_doc = true /\ TextDoc.wf_doc (to_textx big_doc) /\ plain_fields (to_textx big_doc) = true /\
  xshared true id_dec real_pf real_cfg big_shape big_doc /\
  xshared false id_dec real_pf real_cfg plain_shape big_doc /\
  enc_okx id_dec real_cfg big_enc big_doc /\
  TextDoc.wf_layout (to_textx big_doc) sp_layout /\
  BinLexer.fits 32 (binx_bytes big_enc big_doc) = true.
Proof.
  split; [reflexivity|]. split; [reflexivity|]. split; [reflexivity|]. split; [reflexivity|].
  split.
  { cbn -[float_ok int_float_ok]. repeat split; try reflexivity; try lia; try discriminate; auto using float_ok_15, float_ok_025;
      try (repeat constructor; apply int_float_ok_small; auto); try (apply int_float_ok_small; auto). }
  split.
  { cbn -[float_ok int_float_ok]. repeat split; try reflexivity; try lia; try discriminate; auto using float_ok_15, float_ok_025;
      try (apply int_float_ok_small; auto). }
  split.
  { cbn. repeat split; try reflexivity; try lia; try discriminate; repeat constructor. }
  split; [|vm_compute; reflexivity].
  apply sp_layout_wf; [|vm_compute; reflexivity].
  cbn. repeat split; intros; reflexivity.
Qed.

Example C10_ext_nonvacuous_values :
  spec_value2 true id_dec real_pf real_fops big_shape (to_textx big_doc) = Ok big_value /\
  TextDeBytes.deser_slice id_dec real_pf real_fops big_shape (TextDoc.render (to_textx big_doc) sp_layout) = Ok big_value /\
  BinDeTape.deser_tape real_cfg big_shape (binx_bytes big_enc big_doc) = Ok big_value /\
  BinDeOndemand.deser_ondemand real_cfg big_shape (binx_bytes big_enc big_doc) = Ok big_value /\
  BinDeReader.deser_reader real_cfg 32 [Data 1; Data 5; Data 2] big_shape (binx_bytes big_enc big_doc) = Ok big_value /\
  (* the stream half: one-byte reads through the smallest sufficient buffer *)
  spec_value2 false id_dec real_pf real_fops plain_shape (to_textx big_doc) = Ok plain_value /\
  TextDeBytes.deser_reader id_dec real_pf real_fops plain_shape
    (TextRef.need (TextDoc.render (to_textx big_doc) sp_layout)) (repeat (Data 1) 400) (TextDoc.render (to_textx big_doc) sp_layout) = Ok plain_value /\
  BinDeReader.deser_reader real_cfg 32 [] plain_shape (binx_bytes big_enc big_doc) = Ok plain_value.
Proof. repeat split; vm_compute; reflexivity. Qed.
