(* C17 DOM iterators, lengths and groupings agree with each other: statements only.
   Every theorem is about TapeWf / Dom, the functions the correspondence streams `wf` and `node`
   of props/C17.py run against the real reader API.  All quantify over every token list that
   satisfies TapeWf.tape_wf (what the parser produces: checked on every real tape by the stream
   `wf`; proved for the parser model by the tape family, C06) and over every node. *)
From JV Require Import Bytes TextTok TapeWf Dom.
From JV.proofs Require Import DomProofs.
Open Scope nat_scope.

(* the boolean checker run by the oracle implies the predicate the theorems assume *)
Theorem C17_wf_checker_sound : forall t, tape_wfb t = true -> tape_wf t.
Proof. exact tape_wfb_sound. Qed.
Print Assumptions C17_wf_checker_sound.

(* object nodes ([obj_node]: the whole tape or the inside of an Object token): the fields that
   FieldsIter yields are the fields of the object grammar, and fields_len, the size hint and the
   number of yielded items agree *)
Theorem C17_fields_len_agree : forall dbg t r, tape_wf t -> obj_node t r ->
  exists l last,
    fields_spec t (o_start r) (o_end r) last l /\
    fields_all dbg t r = Ok (l, last) /\
    fields_len t (o_start r) (o_end r) = Ok (length l) /\
    fields_size_hint t (o_start r) (o_end r) = Ok (length l).
Proof. exact fields_agree. Qed.
Print Assumptions C17_fields_len_agree.

(* array nodes over a Dyck range: values() yields the top-level items, len / size hint /
   is_empty / tokens_len agree with it *)
Theorem C17_values_len_agree : forall t r, arr_ok t r ->
  exists l,
    items t (a_start r) (a_end r) l /\
    values_all t r = Ok l /\
    array_len t r = Ok (length l) /\
    array_is_empty t r = Ok (Nat.eqb (length l) 0) /\
    array_tokens_len r = Ok (a_end r - a_start r).
Proof. exact values_agree. Qed.
Print Assumptions C17_values_len_agree.

(* every array reader the API hands out on a well-formed tape is such a range *)
Theorem C17_read_array_ok : forall t v k, tape_wf t -> tget t v = Some k ->
  match k with
  | TArray _ _ | TObject _ _ | THeader _ => exists r, read_array t v = Ok r /\ arr_ok t r
  | _ => read_array t v = Err E_not_array
  end.
Proof. exact read_array_ok. Qed.
Print Assumptions C17_read_array_ok.

(* the two-pass HashMap grouping = partition of the fields by raw key: one group per distinct key
   in order of first appearance ([first_fields]), holding exactly the (operator, value) pairs of the
   fields with that key in field order ([vals_of]); its size hint is the number of groups *)
Theorem C17_groups_partition : forall dbg t r, tape_wf t -> obj_node t r ->
  exists l last,
    fields_all dbg t r = Ok (l, last) /\
    field_groups dbg t r = Ok (groups_spec l, length (groups_spec l), last).
Proof. exact groups_partition. Qed.
Print Assumptions C17_groups_partition.

(* the list-level fact, for every list of fields *)
Theorem C17_groups_run_partition : forall fs, groups_run fs (gmap_build fs) = groups_spec fs.
Proof. exact groups_run_partition. Qed.
Print Assumptions C17_groups_run_partition.

(* the specification itself has each distinct raw key exactly once and misses none *)
Theorem C17_groups_keys_distinct : forall fs, NoDup (map field_kb (first_fields [] fs)).
Proof. intro fs. apply first_fields_nodup. Qed.
Print Assumptions C17_groups_keys_distinct.

Theorem C17_groups_keys_complete : forall fs f, In f fs ->
  In (field_kb f) (map field_kb (first_fields [] fs)).
Proof.
  intros fs f H. destruct (first_fields_complete fs [] f H) as [M | M]; auto. discriminate.
Qed.
Print Assumptions C17_groups_keys_complete.

(* what remains after the fields is exactly the array part of a mixed container: the range after
   the MixedContainer marker up to the container's end (empty when there is no marker), and it is a
   proper array node *)
Theorem C17_remainder_is_tail : forall dbg t r l last, tape_wf t -> obj_node t r ->
  fields_all dbg t r = Ok (l, last) ->
  remainder t last (o_end r) = tail_reader last (o_end r) /\
  arr_ok t (tail_reader last (o_end r)) /\
  (last = o_end r \/ (last < o_end r /\ tget t last = Some TMixedContainer)).
Proof. exact remainder_is_tail. Qed.
Print Assumptions C17_remainder_is_tail.

(* no Panic / OOB / fuel exhaustion: the complete observation of an object node is defined and is
   the one the grammar describes; same for an Array token read as an object; and every function of
   a value reader is crash free *)
Theorem C17_object_view_total : forall dbg t r, tape_wf t -> obj_node t r ->
  exists rr l rem,
    fields_spec t (o_start r) (o_end r) rr l /\
    items t (a_start (tail_reader rr (o_end r))) (a_end (tail_reader rr (o_end r))) rem /\
    object_view dbg t r = Ok (view_of t r l rr rem).
Proof. exact object_view_ok. Qed.
Print Assumptions C17_object_view_total.

Theorem C17_array_as_object : forall dbg t i e m, tape_wf t -> tget t i = Some (TArray e m) ->
  exists rem, items t (S i) e rem /\
    object_view dbg t (mk_oreader e e) =
    Ok (mk_obj_view 0 0 [] e rem (length rem) (e - S i) [] 0 0).
Proof. exact object_view_of_array. Qed.
Print Assumptions C17_array_as_object.

Theorem C17_array_view_total : forall t r, arr_ok t r ->
  exists l, items t (a_start r) (a_end r) l /\
    array_view t r = Ok (mk_arr_view (length l) l (a_end r - a_start r)).
Proof. exact array_view_ok. Qed.
Print Assumptions C17_array_view_total.

Theorem C17_value_reader_total : forall t v dec, tape_wf t -> v < length t ->
  is_crash (value_token t v) = false /\ is_crash (value_tokens_len t v) = false /\
  is_crash (read_scalar t v) = false /\ is_crash (read_str dec t v) = false /\
  is_crash (read_object t v) = false /\ is_crash (read_array t v) = false.
Proof. exact value_reader_total. Qed.
Print Assumptions C17_value_reader_total.

(* non-vacuity: the tape of  x={a=b 10 c=d 20} k={1 rgb{2}} k=3 c<rgb{1}  is well formed, has
   duplicate keys, a mixed container, operators and headers *)
Definition ex_tape : ttape :=
  [TUnquoted [120]; TObject 10 true; TUnquoted [97]; TUnquoted [98]; TMixedContainer; TUnquoted [49; 48];
   TUnquoted [99]; TOperator Equal; TUnquoted [100]; TUnquoted [50; 48]; TEnd 1;
   TUnquoted [107]; TArray 18 false; TUnquoted [49]; TUnquoted [114; 103; 98]; TArray 17 false; TUnquoted [50]; TEnd 15; TEnd 12;
   TUnquoted [107]; TUnquoted [51];
   TUnquoted [99]; TOperator LessThan; THeader [114; 103; 98]; TArray 26 false; TUnquoted [49]; TEnd 24]%N.

Example C17_nonvacuous : tape_wf ex_tape /\ obj_node ex_tape (top_reader ex_tape) /\
  obj_node ex_tape (mk_oreader 2 10) /\
  (exists v, object_view false ex_tape (top_reader ex_tape) = Ok v /\ ov_fields_len v = 4 /\ length (ov_groups v) = 3).
Proof.
  split; [apply tape_wfb_sound; vm_compute; reflexivity|].
  split; [constructor|]. split; [apply (on_obj ex_tape 1 10 true); reflexivity|].
  eexists. split; [vm_compute; reflexivity|]. split; reflexivity.
Qed.
