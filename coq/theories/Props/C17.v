(* C17 DOM iterators, lengths and groupings agree with each other: statements only. *)
From JV Require Import Bytes TextTok TapeWf Dom.
