(* C01 — Text tape mirrors the document regardless of layout.
   Statements only; every proof is [exact lemma].  The model functions (TextTape.v) are the ones
   the correspondence check runs against text/tape.rs; the document type, `flatten`, `render`
   and the layout predicates are TextDoc.v (Coq counterpart of props/textdoc.py). *)
From JV Require Import Bytes Tables TextTok TextTape TextDoc.
From JV.proofs Require Import TextScanProofs TextParseProofs.
Open Scope nat_scope.

(* 1. the byte set tested by the SSE2 compare chain of split_at_scalar (operands regenerated from
   text/tape.rs) is exactly the boundary class of data.rs CHARACTER_CLASS (regenerated too) *)
Theorem C01_simd_set_eq_class : forall b, In b simd_boundary_bytes <-> is_boundary b = true.
Proof. exact simd_set_eq_class. Qed.
Print Assumptions C01_simd_set_eq_class.

(* 2. split_at_scalar = cut at the first boundary byte (at least one byte), for every length and
   every position of the boundary relative to the 16-byte blocks *)
Theorem C01_split_at_scalar_spec : forall d, d <> [] ->
  let i := Nat.max 1 (match find_idx is_boundary d 0 with Some i => i | None => length d end) in
  split_at_scalar d = Ok (firstn i d, skipn i d).
Proof. exact split_at_scalar_spec. Qed.
Print Assumptions C01_split_at_scalar_spec.

(* 3. parse_quote_scalar = the escape-aware byte scan; the block walk never changes its answer *)
Theorem C01_quote_scalar_spec : forall h,
  parse_quote_scalar (34%N :: h) =
  match tq_scan h 0 with
  | Some i => Ok (firstn i h, skipn (S i) h)
  | None => Err E_TextErr
  end.
Proof. intros h. exact (quote_scalar_spec 34%N h). Qed.
Print Assumptions C01_quote_scalar_spec.

(* 4. skip_ws_t skips exactly a gap (whitespace bytes, ';' and complete comments) and stops at the
   first significant byte *)
Theorem C01_skip_ws_spec : forall gap rest, gap_ok gap ->
  skip_ws_t (gap ++ rest) = skip_ws_t rest /\
  (forall c r, rest = c :: r -> is_ws_t c = false -> c <> 35%N -> skip_ws_t (gap ++ rest) = Some rest).
Proof. exact skip_ws_spec. Qed.
Print Assumptions C01_skip_ws_spec.

(* non-vacuity: a gap with a comment containing structural bytes, CRLF, tabs and ';' *)
Example C01_gap_nonvacuous :
  gap_ok [32; 35; 97; 123; 34; 61; 35; 10; 13; 10; 9; 59; 32]%N.
Proof. apply gap_okb_sound. reflexivity. Qed.

(* 5. THE PROPERTY (full statement, kept visible; proved below for growing sub-grammars):

   | Theorem C01_parse_render : forall d l,
   |   wf_doc d -> wf_layout d l -> parse (render d l) = Ok (flatten d, bom l).
   | Corollary C01_layout_independent : forall d l1 l2,
   |   wf_doc d -> wf_layout d l1 -> wf_layout d l2 ->
   |   omap fst (parse (render d l1)) = omap fst (parse (render d l2)).                            *)

(* stage 1: top-level fields `key op scalar` — all 8 operators, quoted and unquoted keys and
   values, EVERY layout (gaps of white space, CR/LF, ';', comments; BOM; left padding) *)
Theorem C01_parse_render_flat : forall d l,
  flat_doc d = true -> wf_doc d -> wf_layout d l -> parse (render d l) = Ok (flatten d, bom l).
Proof. exact parse_render_flat. Qed.
Print Assumptions C01_parse_render_flat.

(* stage 2: no parameters, no mixed containers (`plain_fields`): nested objects, arrays of scalars
   and of containers, empty containers `{}`, headers `rgb { .. }`, `key {` without `=`, all
   operators, quoted/unquoted keys and values — EVERY layout *)
Theorem C01_parse_render_plain : forall d l,
  plain_fields d = true -> wf_doc d -> wf_layout d l -> parse (render d l) = Ok (flatten d, bom l).
Proof. exact parse_render_plain. Qed.
Print Assumptions C01_parse_render_plain.

(* non-vacuity:  a={b="x y" "c"<1} l{1{3}{}} h=rgb{1}  with a comment directly after an operator,
   CRLF, ';' and left padding *)
Open Scope N_scope.
Definition ex_doc : doc :=
  FCons (Field Unq [97] (Some Equal)
           (VObject (FCons (Field Unq [98] (Some Equal) (VScalar Quo [120;32;121]))
                    (FCons (Field Quo [99] (Some LessThan) (VScalar Unq [49])) FNil)) VNil))
 (FCons (Field Unq [108] None
           (VArray (VCons (VScalar Unq [49]) (VCons (VArray (VCons (VScalar Unq [51]) VNil)) (VCons (VArray VNil) VNil)))))
 (FCons (Field Unq [104] (Some Equal) (VHeader [114;103;98] (VArray (VCons (VScalar Unq [49]) VNil)))) FNil)).
Definition ex_layout (b : bool) : layout :=
  mkLayout b (fun i => nth i [[32]; []; [35;99;10]; []; []; []; [32]; []; []; []; [13;10]; []; []; []; []; []; []; []; [];
                              [59;32]; []; []; []; []; []; [10]] []).
Open Scope nat_scope.

Example C01_plain_nonvacuous : forall b,
  plain_fields ex_doc = true /\ wf_doc ex_doc /\ wf_layout ex_doc (ex_layout b).
Proof.
  intros b. split; [reflexivity|]. split; [reflexivity|]. split; [|split].
  - intros i. cbn [ex_layout gap].
    do 26 (destruct i as [|i]; [apply gap_okb_sound; reflexivity|]). destruct i; constructor.
  - cbn. repeat split; intros H; try discriminate H; try reflexivity; exact I.
  - cbn [ex_layout bom]. intros ->. reflexivity.
Qed.

Example C01_plain_example_runs :
  parse (render ex_doc (ex_layout true)) = Ok (flatten ex_doc, true).
Proof. vm_compute. reflexivity. Qed.

(* stage 3: everything but parameter blocks (`noparam_fields`): in addition to stage 2, mixed
   containers — objects followed by bare values `{ a=b c d }` and arrays that turn into key-value
   lists `{ a b c=d e>=f }` — EVERY layout *)
Theorem C01_parse_render_noparam : forall d l,
  noparam_fields d = true -> wf_doc d -> wf_layout d l -> parse (render d l) = Ok (flatten d, bom l).
Proof. exact parse_render_noparam. Qed.
Print Assumptions C01_parse_render_noparam.

(* non-vacuity:  m={a=1 x "y"} n={p q r!=s t=u}  *)
Open Scope N_scope.
Definition ex_mixed : doc :=
  FCons (Field Unq [109] (Some Equal)
           (VObject (FCons (Field Unq [97] (Some Equal) (VScalar Unq [49])) FNil)
                    (VCons (VScalar Unq [120]) (VCons (VScalar Quo [121]) VNil))))
 (FCons (Field Unq [110] (Some Equal)
           (VArrayKv (VCons (VScalar Unq [112]) (VCons (VScalar Unq [113]) VNil))
                     (FCons (Field Unq [114] (Some NotEqual) (VScalar Unq [115]))
                     (FCons (Field Unq [116] (Some Equal) (VScalar Unq [117])) FNil)))) FNil).
Definition ex_mixed_layout : layout :=
  mkLayout false (fun i => nth i [[]; []; []; []; []; []; [32]; [9]; []; [10]; []; []; []; [32]; [32]; []; []; [32]; []; []; []; []] []).
Open Scope nat_scope.

Example C01_noparam_nonvacuous :
  noparam_fields ex_mixed = true /\ wf_doc ex_mixed /\ wf_layout ex_mixed ex_mixed_layout.
Proof.
  split; [reflexivity|]. split; [reflexivity|]. split; [|split].
  - intros i. cbn [ex_mixed_layout gap].
    do 22 (destruct i as [|i]; [apply gap_okb_sound; reflexivity|]). destruct i; constructor.
  - cbn. repeat split; intros H; try discriminate H; try reflexivity; exact I.
  - intros _. reflexivity.
Qed.

Example C01_noparam_example_runs :
  parse (render ex_mixed ex_mixed_layout) = Ok (flatten ex_mixed, false) /\
  render ex_mixed ex_mixed_layout =
  [109;61;123;97;61;49;32;120;9;34;121;34;125;10;110;61;123;112;32;113;32;114;33;61;115;32;116;61;117;125]%N.
Proof. split; vm_compute; reflexivity. Qed.
