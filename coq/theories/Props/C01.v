(* C01 — Text tape mirrors the document regardless of layout.
   Statements only; every proof is [exact lemma].  The model functions (TextTape.v) are the ones
   the correspondence check runs against text/tape.rs; the document type, `flatten`, `render`
   and the layout predicates are TextDoc.v (Coq counterpart of props/textdoc.py). *)
From JV Require Import Bytes Tables TextTok TextTape TextDoc.
From JV.proofs Require Import TextScanProofs TextParseProofs.
Open Scope nat_scope.

(* 1. the byte set tested by the SSE2 compare chain of split_at_scalar (operands regenerated from
   text/tape.rs) is exactly the boundary class of data.rs CHARACTER_CLASS (regenerated too) *)
Theorem C01_simd_set_eq_class : forall b, In b simd_boundary_bytes <-> is_boundary b = true.
Proof. exact simd_set_eq_class. Qed.
Print Assumptions C01_simd_set_eq_class.

(* 2. split_at_scalar = cut at the first boundary byte (at least one byte), for every length and
   every position of the boundary relative to the 16-byte blocks *)
Theorem C01_split_at_scalar_spec : forall d, d <> [] ->
  let i := Nat.max 1 (match find_idx is_boundary d 0 with Some i => i | None => length d end) in
  split_at_scalar d = Ok (firstn i d, skipn i d).
Proof. exact split_at_scalar_spec. Qed.
Print Assumptions C01_split_at_scalar_spec.

(* 3. parse_quote_scalar = the escape-aware byte scan; the block walk never changes its answer *)
Theorem C01_quote_scalar_spec : forall h,
  parse_quote_scalar (34%N :: h) =
  match tq_scan h 0 with
  | Some i => Ok (firstn i h, skipn (S i) h)
  | None => Err E_TextErr
  end.
Proof. intros h. exact (quote_scalar_spec 34%N h). Qed.
Print Assumptions C01_quote_scalar_spec.

(* 4. skip_ws_t skips exactly a gap (whitespace bytes, ';' and complete comments) and stops at the
   first significant byte *)
Theorem C01_skip_ws_spec : forall gap rest, gap_ok gap ->
  skip_ws_t (gap ++ rest) = skip_ws_t rest /\
  (forall c r, rest = c :: r -> is_ws_t c = false -> c <> 35%N -> skip_ws_t (gap ++ rest) = Some rest).
Proof. exact skip_ws_spec. Qed.
Print Assumptions C01_skip_ws_spec.

(* non-vacuity: a gap with a comment containing structural bytes, CRLF, tabs and ';' *)
Example C01_gap_nonvacuous :
  gap_ok [32; 35; 97; 123; 34; 61; 35; 10; 13; 10; 9; 59; 32]%N.
Proof. apply gap_okb_sound. reflexivity. Qed.

(* 5. THE PROPERTY, for the whole grammar of TextDoc.v (every construct of props/textdoc.py:
   fields with all 8 operators, quoted/unquoted scalars, nested objects and arrays, empty
   containers, arrays of containers, `key {` without `=`, headers, mixed containers of both kinds,
   parameter values and parameter objects, also as the first member of an object) and EVERY
   layout: any gap of white space / CR / LF / ';' / complete comments between any two tokens and
   around the document, optional BOM.  [wf_layout] only asks that a bare word is followed by a
   boundary byte and that the BOM flag is truthful.  Block positions are irrelevant because the
   scanner theorems 2 and 3 hold for every length and offset. *)
Theorem C01_parse_render : forall d l,
  wf_doc d -> wf_layout d l -> parse (render d l) = Ok (flatten d, bom l).
Proof. exact parse_render. Qed.
Print Assumptions C01_parse_render.

Theorem C01_layout_independent : forall d l1 l2,
  wf_doc d -> wf_layout d l1 -> wf_layout d l2 ->
  omap fst (parse (render d l1)) = omap fst (parse (render d l2)).
Proof. exact layout_independent. Qed.
Print Assumptions C01_layout_independent.

(* left padding 0..oo is a special case of a layout *)
Theorem C01_padding_independent : forall d l pad,
  wf_doc d -> wf_layout d l -> gap_ok pad ->
  parse (render d (with_pad pad l)) = parse (render d l).
Proof. exact padding_independent. Qed.
Print Assumptions C01_padding_independent.

(* non-vacuity: a document using every construct
     [[p] 1 ] [[!q] k = v ] a = { [[x] y ] b = "x y" } m = { a = 1 x "y" } n = { p q r != s t = u }
     l { 1 { 3 } { } } h = rgb { 1 } "k" ?= "0123456789abcde" z >= @[1 +2] @v = 1
   with a comment directly after an operator (gap 6), no left padding, CRLF, ';', and a quoted
   scalar of 15 bytes (closing quote on byte 15 of the first 16-byte block of its haystack) *)
Open Scope N_scope.
Definition ex_doc : doc :=
  FCons (ParamV [112] false [49])
 (FCons (ParamO [113] true (FCons (Field Unq [107] (Some Equal) (VScalar Unq [118])) FNil))
 (FCons (Field Unq [97] (Some Equal)
           (VObject (FCons (ParamV [120] false [121])
                    (FCons (Field Unq [98] (Some Equal) (VScalar Quo [120;32;121])) FNil)) VNil))
 (FCons (Field Unq [109] (Some Equal)
           (VObject (FCons (Field Unq [97] (Some Equal) (VScalar Unq [49])) FNil)
                    (VCons (VScalar Unq [120]) (VCons (VScalar Quo [121]) VNil))))
 (FCons (Field Unq [110] (Some Equal)
           (VArrayKv (VCons (VScalar Unq [112]) (VCons (VScalar Unq [113]) VNil))
                     (FCons (Field Unq [114] (Some NotEqual) (VScalar Unq [115]))
                     (FCons (Field Unq [116] (Some Equal) (VScalar Unq [117])) FNil))))
 (FCons (Field Unq [108] None
           (VArray (VCons (VScalar Unq [49]) (VCons (VArray (VCons (VScalar Unq [51]) VNil)) (VCons (VArray VNil) VNil)))))
 (FCons (Field Unq [104] (Some Equal) (VHeader [114;103;98] (VArray (VCons (VScalar Unq [49]) VNil))))
 (FCons (Field Quo [107] (Some TextTok.Exists) (VScalar Quo [48;49;50;51;52;53;54;55;56;57;97;98;99;100;101]))
 (FCons (Field Unq [122] (Some GreaterThanEqual) (VScalar Unq [64;91;49;32;43;50;93]))
 (FCons (Field Unq [64;118] (Some Equal) (VScalar Unq [49])) FNil))))))))).
Definition ex_layout (b : bool) : layout :=
  mkLayout b (fun i => if Nat.eqb i 0 then [] else if Nat.eqb i 6 then [35;99;32;123;34;10]
                       else if Nat.eqb i 9 then [13;10;9] else if Nat.eqb i 20 then [32;59;32] else [32]).
Open Scope nat_scope.

Example C01_nonvacuous : forall b, wf_doc ex_doc /\ wf_layout ex_doc (ex_layout b).
Proof.
  intros b. split; [reflexivity|]. split; [|split].
  - intros i. cbn [ex_layout gap].
    repeat match goal with |- context [Nat.eqb i ?k] => destruct (Nat.eqb i k) end;
      apply gap_okb_sound; reflexivity.
  - cbn. repeat split; intros H; try discriminate H; try reflexivity; exact I.
  - cbn [ex_layout bom]. intros ->. reflexivity.
Qed.

Example C01_example_runs :
  parse (render ex_doc (ex_layout true)) = Ok (flatten ex_doc, true) /\
  length (flatten ex_doc) = 56.
Proof. split; vm_compute; reflexivity. Qed.
