(* C01 — placeholder until the scanner theorems are pinned. *)
From JV Require Import Bytes Tables TextTok TextTape.
