(* C01 — Text tape mirrors the document regardless of layout.
   Statements only; every proof is [exact lemma].  The model functions (TextTape.v) are the ones
   the correspondence check runs against text/tape.rs; the document type, `flatten`, `render`
   and the layout predicates are TextDoc.v (Coq counterpart of props/textdoc.py). *)
From JV Require Import Bytes Tables TextTok TextTape TextDoc.
From JV.proofs Require Import TextScanProofs TextParseProofs.
Open Scope nat_scope.

(* 1. the byte set tested by the SSE2 compare chain of split_at_scalar (operands regenerated from
   text/tape.rs) is exactly the boundary class of data.rs CHARACTER_CLASS (regenerated too) *)
Theorem C01_simd_set_eq_class : forall b, In b simd_boundary_bytes <-> is_boundary b = true.
Proof. exact simd_set_eq_class. Qed.
Print Assumptions C01_simd_set_eq_class.

(* 2. split_at_scalar = cut at the first boundary byte (at least one byte), for every length and
   every position of the boundary relative to the 16-byte blocks *)
Theorem C01_split_at_scalar_spec : forall d, d <> [] ->
  let i := Nat.max 1 (match find_idx is_boundary d 0 with Some i => i | None => length d end) in
  split_at_scalar d = Ok (firstn i d, skipn i d).
Proof. exact split_at_scalar_spec. Qed.
Print Assumptions C01_split_at_scalar_spec.

(* 3. parse_quote_scalar = the escape-aware byte scan; the block walk never changes its answer *)
Theorem C01_quote_scalar_spec : forall h,
  parse_quote_scalar (34%N :: h) =
  match tq_scan h 0 with
  | Some i => Ok (firstn i h, skipn (S i) h)
  | None => Err E_TextErr
  end.
Proof. intros h. exact (quote_scalar_spec 34%N h). Qed.
Print Assumptions C01_quote_scalar_spec.

(* 4. skip_ws_t skips exactly a gap (whitespace bytes, ';' and complete comments) and stops at the
   first significant byte *)
Theorem C01_skip_ws_spec : forall gap rest, gap_ok gap ->
  skip_ws_t (gap ++ rest) = skip_ws_t rest /\
  (forall c r, rest = c :: r -> is_ws_t c = false -> c <> 35%N -> skip_ws_t (gap ++ rest) = Some rest).
Proof. exact skip_ws_spec. Qed.
Print Assumptions C01_skip_ws_spec.

(* non-vacuity: a gap with a comment containing structural bytes, CRLF, tabs and ';' *)
Example C01_gap_nonvacuous :
  gap_ok [32; 35; 97; 123; 34; 61; 35; 10; 13; 10; 9; 59; 32]%N.
Proof. apply gap_okb_sound. reflexivity. Qed.

(* 5. THE PROPERTY (full statement, kept visible; proved below for growing sub-grammars):

   Theorem C01_parse_render : forall d l,
     wf_doc d -> wf_layout d l -> parse (render d l) = Ok (flatten d, bom l).
   Corollary C01_layout_independent : forall d l1 l2,
     wf_doc d -> wf_layout d l1 -> wf_layout d l2 ->
     omap fst (parse (render d l1)) = omap fst (parse (render d l2)).                              *)

(* stage 1: top-level fields `key op scalar` — all 8 operators, quoted and unquoted keys and
   values, EVERY layout (gaps of white space, CR/LF, ';', comments; BOM; left padding) *)
Theorem C01_parse_render_flat : forall d l,
  flat_doc d = true -> wf_doc d -> wf_layout d l -> parse (render d l) = Ok (flatten d, bom l).
Proof. exact parse_render_flat. Qed.
Print Assumptions C01_parse_render_flat.
