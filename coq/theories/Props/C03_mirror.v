(* C03 -- clause "the binary tape contains exactly the stream's keys and values with their binary types
   and payloads ... ghost `{}` dropped", stated against the LEXER's token sequence for EVERY input the tape
   parser accepts (C03_faithful.v states it for the encodings of abstract documents only: no mixed
   containers, keys of four kinds).  Definitions: BinTapeMirror.v.  [raw_lex] is BinPrim.read_token (the
   primitive of binary/lexer.rs) iterated until fewer than two bytes remain, with the RGB id read as a
   plain id (the tape parser decides by context whether an rgb block follows); [untape] is the token
   sequence a tape denotes (Rgb -> the tokens of its block); both sides without Equal tokens.

   FULL STATEMENT (false for the code as it is, finding L):
     forall bytes t, parse_ref bytes = Ok t ->
       exists toks, raw_lex bytes = Some toks /\ ghost_erase (noeq toks) (noeq (untape t))
   i.e. the stream is the tape plus deleted adjacent `{ }` pairs.  What is proved:
     * C03_tape_subseq_of_lexer_tokens (unconditional): every token of the tape is a token of the stream,
       same type, same payload, same order -- nothing fabricated, altered or reordered;
     * C03_tape_mirrors_lexer_tokens_partial: under [odd_hit bytes = false] (the run never takes the
       only_empties branch with an odd remainder) the stream is the tape plus inserted `{ }` pairs --
       [ghost_groups], which also admits nested pairs `{ { } }` (the proof carries the relation on the
       flat sequences and cannot tell that the deleted pairs were adjacent in the stream); the strict
       relation [ghost_erase] is what the kind bt.mir decides on the real tapes (C03_mirror_decider);
     * C03_mirror_refuted: without the exclusion the statement is false, the witness loses the value x. *)
From JV Require Import Bytes Tables BinPrim BinTape BinTapeMirror.
From JV.proofs Require Import BinTapeMirrorProofs.

Theorem C03_tape_subseq_of_lexer_tokens : forall bytes t, parse_ref bytes = Ok t ->
  exists toks, raw_lex bytes = Some toks /\ subseq (noeq toks) (noeq (untape t)).
Proof. exact ref_tape_subseq. Qed.
Print Assumptions C03_tape_subseq_of_lexer_tokens.

Theorem C03_opt_tape_subseq_of_lexer_tokens : forall bytes t, parse_opt bytes = Ok t ->
  exists toks, raw_lex bytes = Some toks /\ subseq (noeq toks) (noeq (untape t)).
Proof. exact opt_tape_subseq. Qed.
Print Assumptions C03_opt_tape_subseq_of_lexer_tokens.

Theorem C03_tape_mirrors_lexer_tokens_partial : forall bytes t, parse_ref bytes = Ok t -> odd_hit bytes = false ->
  exists toks, raw_lex bytes = Some toks /\ ghost_groups (noeq toks) (noeq (untape t)).
Proof. exact ref_tape_mirror. Qed.
Print Assumptions C03_tape_mirrors_lexer_tokens_partial.

Theorem C03_opt_tape_mirrors_lexer_tokens_partial : forall bytes t, parse_opt bytes = Ok t -> odd_hit bytes = false ->
  exists toks, raw_lex bytes = Some toks /\ ghost_groups (noeq toks) (noeq (untape t)).
Proof. exact opt_tape_mirror. Qed.
Print Assumptions C03_opt_tape_mirrors_lexer_tokens_partial.

(* finding L: `a = { {} x y = z }` (ids 0x2d82..0x2d85) -- both parsers accept, the lexer sees x = Id 11651,
   the tape does not hold it, and the strict decider says no *)
Theorem C03_mirror_refuted : exists bytes t toks,
  parse_ref bytes = Ok t /\ parse_opt bytes = Ok t /\ raw_lex bytes = Some toks /\
  In (BId 11651%N) toks /\ ~ In (TToken 11651%N) t /\ mirrorb toks t = false.
Proof. exact mirror_refuted. Qed.
Print Assumptions C03_mirror_refuted.

(* the executable checks that the correspondence stream `mirror` runs (model side; the harness side
   computes the same two flags from the real Lexer and the real tape) decide the relations above *)
Theorem C03_mirror_decider : forall toks t, mirrorb toks t = true <-> ghost_erase (noeq toks) (noeq (untape t)).
Proof. exact mirrorb_strict. Qed.
Print Assumptions C03_mirror_decider.

Theorem C03_mirror_decider_implies_groups : forall toks t, mirrorb toks t = true -> ghost_groups (noeq toks) (noeq (untape t)).
Proof. exact mirrorb_groups. Qed.

Theorem C03_submirror_decider : forall toks t, submirrorb toks t = true -> subseq (noeq toks) (noeq (untape t)).
Proof. exact submirrorb_sound. Qed.

(* non-vacuity: a mixed container (array turning into a key-value list) is accepted, never hits the odd
   case, and is mirrored exactly: `a = { 1 b = c }` *)
Example C03_mirror_nonvacuous :
  let bytes := [130;45; 1;0; 3;0; 12;0; 1;0;0;0; 131;45; 1;0; 132;45; 4;0]%N in
  parse_ref bytes = Ok [TToken 11650%N; TArray 7; TI32 1%Z; TMixed; TToken 11651%N; TEqual; TToken 11652%N; TEnd 1]
  /\ odd_hit bytes = false
  /\ raw_lex bytes = Some [BId 11650%N; BEqual; BOpen; BI32 1%Z; BId 11651%N; BEqual; BId 11652%N; BClose].
Proof. vm_compute. repeat split. Qed.
