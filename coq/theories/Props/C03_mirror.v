(* C03 -- clause "the binary tape contains exactly the stream's keys and values with their binary types
   and payloads ... ghost `{}` dropped", stated against the LEXER's token sequence for EVERY input the tape
   parser accepts (C03_faithful.v states it for the encodings of abstract documents only: no mixed
   containers, keys of four kinds).  Definitions: BinTapeMirror.v.  [raw_lex] is BinPrim.read_token (the
   primitive of binary/lexer.rs) iterated until fewer than two bytes remain, with the RGB id read as a
   plain id (the tape parser decides by context whether an rgb block follows); [untape] is the token
   sequence a tape denotes (Rgb -> the tokens of its block); both sides without Equal tokens.

   * C03_tape_subseq_of_lexer_tokens: every token of the tape is a token of the stream, same type, same
     payload, same order -- nothing fabricated, altered or reordered;
   * C03_tape_mirrors_lexer_tokens: the stream is the tape plus inserted `{ }` pairs ([ghost_groups]);
     unconditional since the fix for finding L (the `only_empties` test of tape.rs now requires
     `pairs.remainder().is_empty()`; before, `a = { {} x y = z }` lost x and the theorem carried the
     hypothesis that the run never meets an odd remainder);
   * C03_tape_keeps_every_payload: hence every token of the stream other than `{`, `}`, `=` is on the tape;
   * C03_witness_L_mirrors: regression example, the former witness of finding L now mirrors exactly.

   What the relation does NOT say: [ghost_groups] inserts pairs one after the other at any place, so it
   also admits a nested `{ { } }` as inserted material (the proof carries the relation on the flat
   sequences and cannot tell that the deleted pairs were adjacent in the stream).  The strict relation
   [ghost_erase] (adjacent, un-nested pairs only) is what the kind bt.mir decides on the real tapes for
   every accepted input of every stream (C03_mirror_decider), and ghost_erase implies ghost_groups. *)
From JV Require Import Bytes Tables BinPrim BinTape BinTapeMirror.
From JV.proofs Require Import BinTapeMirrorProofs.

Theorem C03_tape_subseq_of_lexer_tokens : forall bytes t, parse_ref bytes = Ok t ->
  exists toks, raw_lex bytes = Some toks /\ subseq (noeq toks) (noeq (untape t)).
Proof. exact ref_tape_subseq. Qed.
Print Assumptions C03_tape_subseq_of_lexer_tokens.

Theorem C03_opt_tape_subseq_of_lexer_tokens : forall bytes t, parse_opt bytes = Ok t ->
  exists toks, raw_lex bytes = Some toks /\ subseq (noeq toks) (noeq (untape t)).
Proof. exact opt_tape_subseq. Qed.
Print Assumptions C03_opt_tape_subseq_of_lexer_tokens.

Theorem C03_tape_mirrors_lexer_tokens : forall bytes t, parse_ref bytes = Ok t ->
  exists toks, raw_lex bytes = Some toks /\ ghost_groups (noeq toks) (noeq (untape t)).
Proof. exact ref_tape_mirror. Qed.
Print Assumptions C03_tape_mirrors_lexer_tokens.

Theorem C03_opt_tape_mirrors_lexer_tokens : forall bytes t, parse_opt bytes = Ok t ->
  exists toks, raw_lex bytes = Some toks /\ ghost_groups (noeq toks) (noeq (untape t)).
Proof. exact opt_tape_mirror. Qed.
Print Assumptions C03_opt_tape_mirrors_lexer_tokens.

Theorem C03_tape_keeps_every_payload : forall bytes t, parse_opt bytes = Ok t \/ parse_ref bytes = Ok t ->
  exists toks, raw_lex bytes = Some toks /\
    forall x, In x toks -> x <> BOpen -> x <> BClose -> x <> BEqual -> In x (untape t).
Proof. exact tape_keeps_payloads. Qed.
Print Assumptions C03_tape_keeps_every_payload.

(* regression example for finding L (fixed): `a = { {} x y = z }` (ids 0x2d82..0x2d85) is a mixed array that
   keeps the leading `{}` and x = Id 11651, and the strict decider accepts it *)
Theorem C03_witness_L_mirrors : exists t toks,
  parse_ref witness_L = Ok t /\ parse_opt witness_L = Ok t /\ raw_lex witness_L = Some toks /\
  t = [TToken 11650%N; TArray 9; TArray 3; TEnd 2; TToken 11651%N; TMixed; TToken 11652%N; TEqual; TToken 11653%N; TEnd 1] /\
  In (BId 11651%N) toks /\ In (TToken 11651%N) t /\ mirrorb toks t = true.
Proof. exact witness_L_mirrors. Qed.
Print Assumptions C03_witness_L_mirrors.

(* the executable checks that the correspondence stream `mirror` runs (model side; the harness side
   computes the same two flags from the real Lexer and the real tape) decide the relations above *)
Theorem C03_mirror_decider : forall toks t, mirrorb toks t = true <-> ghost_erase (noeq toks) (noeq (untape t)).
Proof. exact mirrorb_strict. Qed.
Print Assumptions C03_mirror_decider.

Theorem C03_mirror_decider_implies_groups : forall toks t, mirrorb toks t = true -> ghost_groups (noeq toks) (noeq (untape t)).
Proof. exact mirrorb_groups. Qed.

Theorem C03_submirror_decider : forall toks t, submirrorb toks t = true -> subseq (noeq toks) (noeq (untape t)).
Proof. exact submirrorb_sound. Qed.

(* non-vacuity: a mixed container (array turning into a key-value list) is accepted and mirrored
   exactly: `a = { 1 b = c }` *)
Example C03_mirror_nonvacuous :
  let bytes := [130;45; 1;0; 3;0; 12;0; 1;0;0;0; 131;45; 1;0; 132;45; 4;0]%N in
  parse_ref bytes = Ok [TToken 11650%N; TArray 7; TI32 1%Z; TMixed; TToken 11651%N; TEqual; TToken 11652%N; TEnd 1]
  /\ raw_lex bytes = Some [BId 11650%N; BEqual; BOpen; BI32 1%Z; BId 11651%N; BEqual; BId 11652%N; BClose].
Proof. vm_compute. repeat split. Qed.
