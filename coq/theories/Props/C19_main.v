(* C19 — Truncated documents never yield fabricated data.  TEXT TAPE, main theorem.
   Statements only; proofs in proofs/TruncMainProofs.v, definitions in TextTrunc.v.

   consistent d r  :=  r = Ok (t, _)  and  consistent_tape (flatten d) t, where with F = flatten d
     consistent_tape F t :=
        prefix_cut t F                                   -- the data ended at top level
     \/ exists p body,  t = F[0..p) ++ Object{end} :: body ++ [End p]  /\  F[p] is a container token
                         /\  prefix_cut body F[p+1..)    -- exactly one closing bracket was missing
     prefix_cut t F := t = [] \/ t = t0 ++ [x] with t0 = F[0..|t0|) LITERALLY (same tokens, same
        absolute indices) and tok_cut x F[|t0|]
     tok_cut x y := x = y \/ x = Unquoted s, y = Unquoted s' or Header s', s a non-empty prefix of s'
   Hence: every completed top-level field of the result is the original's; only the last token may
   differ, and then it is an unquoted scalar that is a PREFIX of the original scalar at that place
   (never extended, merged with its neighbour or invented); quoted scalars, operators, parameters
   and `@[..]` expressions are complete or the parse is an error.

   The theorem is proved for ANY input whose complete parse succeeds (C19_trunc_generic), not only
   for renderings of abstract documents; C19_trunc_text is its instance through C01_parse_render.

   Proof: (1) every scanner and every arm of [step] is LOCAL: on the data with its last r bytes
   removed the step is the same step on the shortened data, or fails, or sees the end of the data,
   or leaves a state from which no success is possible, or (value of a field) pushes a shortened
   unquoted scalar and reaches the end (C19_step_local); (2) along the complete run a token that is
   neither an open container nor the last token never changes (C19_tokens_frozen); (3) exit
   analysis: success needs state Key with parent 0, or one open container whose slot is 0. *)
From JV Require Import Bytes Tables TextTok TextTape TextTapeWf TextDoc TextTrunc.
From JV.proofs Require Import TextTapeWfProofs TextTapeInvProofs TruncMainProofs.
From Coq Require Import List.
Import ListNotations.
Open Scope nat_scope.

(* ---- the property, for every well-formed document, every layout and EVERY cut point ---- *)
Theorem C19_trunc_text : forall d l k,
  wf_doc d -> wf_layout d l ->
  let r := parse (firstn k (render d l)) in
  (exists e, r = Err e) \/ consistent d r.
Proof. exact trunc_text. Qed.
Print Assumptions C19_trunc_text.

(* ---- the same for any byte string that parses, e.g. real save files outside the grammar of TextDoc ---- *)
Theorem C19_trunc_generic : forall D F b k,
  parse D = Ok (F, b) ->
  (exists e, parse (firstn k D) = Err e) \/
  (exists t b', parse (firstn k D) = Ok (t, b') /\ consistent_tape F t).
Proof. exact trunc_generic. Qed.
Print Assumptions C19_trunc_generic.

(* ---- in the words of the property: every scalar token of the result (Unquoted, Quoted, Parameter,
        UndefinedParameter, Header) sits at the index where the original tape has a scalar, and its bytes
        are a prefix of that scalar's bytes: never extended, never merged with a neighbour, never invented ---- *)
Theorem C19_scalars_prefix : forall F t i x s,
  consistent_tape F t -> nth_error t i = Some x -> TextTapeWf.scalar_bytes x = Some s ->
  exists y s', nth_error F i = Some y /\ TextTapeWf.scalar_bytes y = Some s' /\ bytes_prefix s s'.
Proof. exact consistent_scalars. Qed.
Print Assumptions C19_scalars_prefix.

(* ---- position-wise reading of prefix_cut: all tokens but the last are the original's ---- *)
Theorem C19_prefix_cut_tokens : forall t F i,
  prefix_cut t F -> i + 1 < length t -> nth_error t i = nth_error F i.
Proof. exact prefix_cut_nth. Qed.

Theorem C19_prefix_cut_last : forall t0 x F,
  prefix_cut (t0 ++ [x]) F -> exists y, nth_error F (length t0) = Some y /\ tok_cut x y.
Proof. exact prefix_cut_last. Qed.

Theorem C19_prefix_cut_length : forall t F, prefix_cut t F -> length t <= length F.
Proof. exact prefix_cut_length. Qed.

(* ---- per-token-kind cut lemmas: a scalar scanner on truncated data returns the same scalar, or an
        error, or (unquoted only) a non-empty prefix of it with nothing left ---- *)
Theorem C19_scalar_cut : forall r c d1 tok d',
  r <= length d1 -> scalar_step (c :: d1) c = Ok (tok, d') ->
  let res := scalar_step (c :: chop r d1) c in
  res = Ok (tok, chop r d') \/ res = Err E_TextErr \/
  (exists s s', tok = TUnquoted s /\ res = Ok (TUnquoted s', []) /\ bytes_prefix s' s /\ s' <> []).
Proof. exact scalar_step_chop. Qed.
Print Assumptions C19_scalar_cut.

(* a quoted scalar is never shortened *)
Theorem C19_quoted_cut : forall r c h a b,
  r <= length h -> parse_quote_scalar (c :: h) = Ok (a, b) ->
  parse_quote_scalar (c :: chop r h) = Ok (a, chop r b) \/ parse_quote_scalar (c :: chop r h) = Err E_TextErr.
Proof. exact parse_quote_scalar_chop. Qed.

(* ---- locality of one iteration of the main loop ---- *)
Theorem C19_step_local : forall r s s',
  step s = Next s' ->
  skip_ws_t (chop r (pdata s)) = None \/ cut_res r s' (step (chopS r s)).
Proof. exact step_chop. Qed.
Print Assumptions C19_step_local.

Theorem C19_step_local_done : forall r s F, step s = Done F -> step (chopS r s) = Done F.
Proof. exact step_chop_done. Qed.

(* ---- tokens that are not open containers and not the last token are never modified again ---- *)
Theorem C19_tokens_frozen : forall s sf F,
  runs s sf -> step sf = Done F -> Inv s -> ext (ptape s) F.
Proof. exact runs_ext. Qed.
Print Assumptions C19_tokens_frozen.

(* ---- a container token is only ever rewritten into a container token, at the same index ---- *)
Theorem C19_containers_stay : forall s sf F,
  runs s sf -> step sf = Done F -> Inv s -> cext (ptape s) F.
Proof. exact runs_cext. Qed.
Print Assumptions C19_containers_stay.

(* ---- the run on the truncated data, from any reachable state of the complete run ---- *)
Theorem C19_cut_run : forall s sf F,
  runs s sf -> step sf = Done F -> Inv s ->
  forall r fuel tr, ploop fuel (chopS r s) = Ok tr -> consistent_tape F tr.
Proof. exact cut_run. Qed.
Print Assumptions C19_cut_run.

(* ---- non-vacuity:  a = bcd x = { y = zz }  ---- *)
Open Scope N_scope.
Definition c19_doc : doc :=
  FCons (Field Unq [97] (Some Equal) (VScalar Unq [98;99;100]))
 (FCons (Field Unq [120] (Some Equal)
           (VObject (FCons (Field Unq [121] (Some Equal) (VScalar Unq [122;122])) FNil) VNil)) FNil).
Definition c19_layout : layout := mkLayout false (fun i => if Nat.eqb i 0 then [] else [32]).
Open Scope nat_scope.

Example C19_main_nonvacuous : wf_doc c19_doc /\ wf_layout c19_doc c19_layout /\ length (render c19_doc c19_layout) = 23.
Proof.
  split; [reflexivity|]. split; [|reflexivity]. split; [|split].
  - intros i. cbn [c19_layout gap]. destruct (Nat.eqb i 0); apply TextScanProofs.gap_okb_sound; reflexivity.
  - cbn. repeat split; intros H; try discriminate H; try reflexivity; exact I.
  - intros _. reflexivity.
Qed.

(* `a = bc`: the value is shortened, never extended;  `a =`: error;  `a = bcd x = { y = z`: the one
   missing bracket is tolerated, the last scalar is a prefix;  cut inside two open containers is
   not reachable here, see C19_eof_nested *)
Example C19_main_examples :
  parse (firstn 6 (render c19_doc c19_layout)) = Ok ([TUnquoted [97]; TUnquoted [98;99]]%N, false) /\
  parse (firstn 3 (render c19_doc c19_layout)) = Err E_TextErr /\
  parse (firstn 19 (render c19_doc c19_layout)) =
    Ok ([TUnquoted [97]; TUnquoted [98;99;100]; TUnquoted [120]; TObject 6 false; TUnquoted [121]; TUnquoted [122]; TEnd 3]%N, false) /\
  flatten c19_doc =
    [TUnquoted [97]; TUnquoted [98;99;100]; TUnquoted [120]; TObject 6 false; TUnquoted [121]; TUnquoted [122;122]; TEnd 3]%N.
Proof. repeat split; vm_compute; reflexivity. Qed.

(* every cut point of the example, by evaluation: error or a tape no longer than the original *)
Example C19_main_all_cuts :
  forallb (fun k => match parse (firstn k (render c19_doc c19_layout)) with
                    | Ok (t, _) => Nat.leb (length t) (length (flatten c19_doc))
                    | Err _ => true
                    | _ => false end) (seq 0 24) = true.
Proof. vm_compute. reflexivity. Qed.
