(* C04 — the token resolver loaded from text lines (BasicTokenResolver::from_text_lines), the
   resolver that the C04 quantifier names next to the HashMap.  Statements only; every proof is
   [exact lemma].  The model functions are the ones the correspondence stream `resolver-lines`
   (kind de.resolver, ocaml/fam_resolver.ml) runs against the real code.

   Text of a resolver file: lines `<id> <name>`; read_line pieces end with their LF (the last one
   may lack it) and must be valid UTF-8 (else an io error); the id is everything before the first
   space with all leading "0x" removed, parsed by u16::from_str_radix(_, 16); the name is the rest
   minus trailing ASCII whitespace; a later line overrides an earlier one. *)
From JV Require Import Bytes Utf8 Resolver.
From JV Require BinDeCommon.
From JV.proofs Require Import ResolverProofs.
Open Scope N_scope.

(* Round trip.  Every finite map m (no id twice) from ids <= 0xFFFF to names that are well-formed
   UTF-8, contain no LF and do not end in ASCII whitespace (space, \t, \n, \f, \r), written one
   line per entry as  [0x]<id in w hex digits, either case> <name>\n  (w >= 1 digits that can hold the
   id: `0x%04x name` is pfx = true, w = 4; bare `%x` is pfx = false and w = number of digits),
   loads, and the loaded table resolves every id exactly as m does. *)
Theorem C04_resolver_roundtrip : forall (pfx upper : bool) (w : nat) (m : table),
  (0 < w)%nat ->
  Forall (fun kv => fst kv < 16 ^ N.of_nat w /\ fst kv <= 65535 /\
                    (wf_bytes (snd kv) /\ valid_utf8 (snd kv) = true /\ ~ In LF (snd kv) /\
                     (forall l c, snd kv = l ++ [c] -> is_ascii_ws c = false))) m ->
  NoDup (map fst m) ->
  exists m', from_text_lines (render_lines pfx upper w m) = Ok m' /\
             (forall id, resolve m' id = resolve m id) /\ is_empty m' = is_empty m.
Proof. exact resolver_roundtrip. Qed.
Print Assumptions C04_resolver_roundtrip.

(* the rendering the harness (and jomini's own tests) use: "0x{:04x} {}\n" *)
Theorem C04_resolver_roundtrip_std : forall m : table,
  Forall (fun kv => fst kv <= 65535 /\
                    (wf_bytes (snd kv) /\ valid_utf8 (snd kv) = true /\ ~ In LF (snd kv) /\
                     (forall l c, snd kv = l ++ [c] -> is_ascii_ws c = false))) m ->
  NoDup (map fst m) ->
  exists m', from_text_lines (render_std m) = Ok m' /\
             (forall id, resolve m' id = resolve m id) /\ is_empty m' = is_empty m.
Proof. exact resolver_roundtrip_std. Qed.
Print Assumptions C04_resolver_roundtrip_std.

(* non-vacuity: the crate's doc example plus an empty name, a name with inner / leading spaces and a
   non-ASCII name meet the hypotheses *)
Example C04_resolver_roundtrip_nonvacuous :
  let m := [(65535, [109; 121; 95; 116]); (61166, []); (1, [32; 97; 32; 98]); (0, [110; 97; 195; 175; 118; 101])] in
  Forall (fun kv => fst kv <= 65535 /\
                    (wf_bytes (snd kv) /\ valid_utf8 (snd kv) = true /\ ~ In LF (snd kv) /\
                     (forall l c, snd kv = l ++ [c] -> is_ascii_ws c = false))) m /\ NoDup (map fst m) /\
  from_text_lines (render_std m) = Ok (rev m) /\
  from_text_lines (render_lines false true 5 m) = Ok (rev m).
Proof.
  cbv zeta. split; [|split; [|split; vm_compute; reflexivity]].
  - assert (Hn : forall name, forallb (fun b => (b <? 256) && negb (b =? LF)) name = true ->
                   is_ascii_ws (last name 0) = false \/ name = [] ->
                   wf_bytes name /\ ~ In LF name /\ (forall l c, name = l ++ [c] -> is_ascii_ws c = false)).
    { intros name Hf Hl. rewrite forallb_forall in Hf. split; [|split].
      - apply Forall_forall. intros b Hb. apply Hf in Hb. apply andb_prop in Hb as [Hb _]. now apply N.ltb_lt.
      - intros Hin. apply Hf in Hin. apply andb_prop in Hin as [_ Hin]. discriminate.
      - intros l c ->. destruct Hl as [Hl|Hl]; [now rewrite last_last in Hl|destruct l; discriminate]. }
    repeat constructor; cbn [fst snd]; try lia; try reflexivity; try (apply Hn; [reflexivity|auto]).
    all: try (destruct (Hn _ eq_refl (or_introl eq_refl)) as (A & B & C); assumption).
  - cbn [map fst]. repeat constructor; cbn [In]; lia.
Qed.

(* Last binding wins, on rendered tables with repeated ids: the line for (k, v) that is not followed
   by another line for k decides what k resolves to, whatever the earlier lines said *)
Theorem C04_resolver_last_wins : forall (pfx upper : bool) (w : nat) (m1 : table) (k : N) (v : bytes) (m2 : table),
  (0 < w)%nat ->
  Forall (fun kv => fst kv < 16 ^ N.of_nat w /\ fst kv <= 65535 /\
                    (wf_bytes (snd kv) /\ valid_utf8 (snd kv) = true /\ ~ In LF (snd kv) /\
                     (forall l c, snd kv = l ++ [c] -> is_ascii_ws c = false))) (m1 ++ (k, v) :: m2) ->
  ~ In k (map fst m2) ->
  exists t, from_text_lines (render_lines pfx upper w (m1 ++ (k, v) :: m2)) = Ok t /\ resolve t k = Some v.
Proof. exact resolver_last_wins_rendered. Qed.
Print Assumptions C04_resolver_last_wins.

(* ... and on arbitrary text: append one line that parses to (k, v) to ANY file that loads (and is
   empty or ends with LF): k now resolves to v, every other id is unchanged *)
Theorem C04_resolver_last_wins_raw : forall (d l : bytes) (k : N) (v : bytes) (t0 : table),
  (d = [] \/ exists d', d = d' ++ [LF]) -> from_text_lines d = Ok t0 ->
  ((exists body, l = body ++ [LF] /\ ~ In LF body) \/ (l <> [] /\ ~ In LF l)) ->
  parse_line l = Ok (k, v) ->
  exists t, from_text_lines (d ++ l) = Ok t /\ resolve t k = Some v /\
            (forall id, id <> k -> resolve t id = resolve t0 id).
Proof. exact resolver_last_wins_raw. Qed.
Print Assumptions C04_resolver_last_wins_raw.

Example C04_resolver_last_wins_nonvacuous :
  (* "1 a\n01 b\n0x0x1 c"  ->  1 resolves to "c" *)
  exists t, from_text_lines [49; 32; 97; 10; 48; 49; 32; 98; 10; 48; 120; 48; 120; 49; 32; 99] = Ok t /\
            resolve t 1 = Some [99].
Proof. eexists. split; vm_compute; reflexivity. Qed.

(* Rejection.  If any read_line piece of the file
     - has no space, or
     - has, before its first space, a byte that is neither a hex digit nor 'x' nor '+'
       (non-hex id; '-', '_', tab, non-ASCII ... included), or
     - has nothing before its first space but an optional 0x, or
     - has there a hex number (any width, either case, with or without 0x) above 0xFFFF,
   the load fails (with the syntax error, or the io error if an earlier or the same piece is not
   UTF-8): it never returns a table. *)
Theorem C04_resolver_rejects : forall (d l : bytes),
  In l (split_lines d) ->
  ( ~ In SP l
    \/ (exists num text b, l = num ++ SP :: text /\ ~ In SP num /\ In b num /\
                           hex_digit b = None /\ b <> 120 /\ b <> 43)
    \/ (exists (pfx : bool) text, l = (if pfx then [48; 120] else []) ++ SP :: text)
    \/ (exists (pfx upper : bool) w n text, n < 16 ^ N.of_nat w /\ 65535 < n /\
          l = ((if pfx then [48; 120] else []) ++ hexw upper w n) ++ SP :: text) ) ->
  from_text_lines d = Err E_Syntax \/ from_text_lines d = Err E_Io.
Proof.
  intros d l Hin H. apply (resolver_rejects d l Hin).
  destruct H as [H|[(num & text & b & -> & H)|[(pfx & text & ->)|(pfx & up & w & n & text & Hn & Hb & ->)]]].
  - apply bad_no_space; exact H.
  - destruct H as (? & ? & ? & ? & ?). eapply bad_nonhex; eassumption.
  - apply (bad_empty pfx).
  - apply (bad_overflow pfx); assumption.
Qed.
Print Assumptions C04_resolver_rejects.

(* the pieces of the file really are its lines: they concatenate to the file, each is an LF-free
   body followed by LF, or (last piece only) a non-empty LF-free tail *)
Theorem C04_resolver_lines_partition : forall d : bytes,
  concat (split_lines d) = d /\
  Forall (fun l => (exists body, l = body ++ [LF] /\ ~ In LF body) \/ (l <> [] /\ ~ In LF l)) (split_lines d) /\
  (forall ls l, split_lines d = ls ++ [l] -> Forall (fun x => exists body, x = body ++ [LF] /\ ~ In LF body) ls).
Proof.
  intros d. split; [apply split_lines_concat|split; [apply split_lines_shape|apply split_lines_inner]].
Qed.
Print Assumptions C04_resolver_lines_partition.

Example C04_resolver_rejects_nonvacuous :
  (* "zz a\n", "1\n", "-1 a", "10000 a", "0x a", "1 a\n\n" (empty second line), "1\ta\n", invalid UTF-8 *)
  from_text_lines [122; 122; 32; 97; 10] = Err E_Syntax /\
  from_text_lines [49; 10] = Err E_Syntax /\
  from_text_lines [45; 49; 32; 97] = Err E_Syntax /\
  from_text_lines [49; 48; 48; 48; 48; 32; 97] = Err E_Syntax /\
  from_text_lines [48; 120; 32; 97] = Err E_Syntax /\
  from_text_lines [49; 32; 97; 10; 10] = Err E_Syntax /\
  from_text_lines [49; 9; 97; 10] = Err E_Syntax /\
  from_text_lines [49; 32; 255; 10] = Err E_Io /\
  from_text_lines [43; 49; 102; 32; 97; 13; 10] = Ok [(31, [97])].
Proof. vm_compute. repeat split; reflexivity. Qed.

(* Totality: no input reaches a panic site / runs out of fuel (there is neither in the model: the
   code has no indexing, unwrap or arithmetic that can overflow besides `pos`, a running byte count);
   the only outcomes are a table, the syntax error and the io error *)
Theorem C04_resolver_total : forall d : bytes,
  is_crash (from_text_lines d) = false /\
  ((exists t, from_text_lines d = Ok t) \/ from_text_lines d = Err E_Syntax \/ from_text_lines d = Err E_Io).
Proof. exact resolver_total. Qed.
Print Assumptions C04_resolver_total.

(* What an accepted file says: every piece parsed, the table lists the parsed (id, name) pairs latest
   first, every id is a u16 and no name ends in ASCII whitespace *)
Theorem C04_resolver_accepts_sound : forall (d : bytes) (t : table), from_text_lines d = Ok t ->
  exists kvs, Forall2 (fun l kv => parse_line l = Ok kv) (split_lines d) kvs /\ t = rev kvs /\
    Forall (fun kv => fst kv <= 65535 /\ (forall l c, snd kv = l ++ [c] -> is_ascii_ws c = false)) kvs.
Proof. exact resolver_ok_sound. Qed.
Print Assumptions C04_resolver_accepts_sound.

(* the loaded table is consulted exactly like the association-list resolver of the three
   deserializer walk models (BinDeCommon.assoc_resolve, the `c_resolve` of Props/C04_walk.v) *)
Theorem C04_resolver_is_walk_resolver : forall (m : table) (id : N),
  resolve m id = BinDeCommon.assoc_resolve m id.
Proof. exact resolve_is_assoc. Qed.
Print Assumptions C04_resolver_is_walk_resolver.
