(* C09 (text half), wave 4 -- the document-level statements WITHOUT the restrictions of
   C09_text_doc_skip_partial / C09_text_doc_stream_partial.  Statements only.

   TextSkipDoc.skp_fields d : every unquoted piece of text of the document (bare words,
     interpolated expressions, header names, parameter names, parameter values) holds none of the
     bytes  open brace, close brace, double quote, hash;  quoted content is TextDoc.wf_quo.
     Parameter blocks ([[name] ... ]), interpolated expressions (@[ ... ]), bare words starting
     with a question mark, every operator, mixed containers and headers are included.  The
     excluded documents are exactly the refuted class (C09_text_quote_in_word_refuted,
     C09_text_varexpr_brace_refuted).  No structural well-formedness is needed.
   TextSkipDoc.gaps_ok l  : every gap of the layout is whitespace and comments (comments hold any
     byte but LF -- braces, quotes, hashes included).  Neither the separator condition (sep_ok) nor
     the byte-order-mark clause of TextDoc.wf_layout is needed. *)
From JV Require Import Bytes Tables U64Swar BufWin TextTok TextReader TextRef TextSkipRef TextTape TextDoc TextSkipDoc.
From JV.proofs Require Import BufWinProofs TextReaderMainProofs TextSkipProofs TextSkipStreamProofs TextSkipTokProofs
  TextSkipEndProofs TextSkipDocProofs TextSkipAllProofs.
Open Scope nat_scope.

(* every Open token of the rendering: the document's own token list has the matching Close
   (post' = the tokens after it); the rendering continues with [s] after the Open; the byte-level
   reference of skip_container (= the streaming skip_container by C09_text_stream_eq_ref, = the
   SWAR scan by C09_text_wide_eq_bytes) consumes |s| - |r| > 0 bytes and what is left is exactly
   the rendering of post' with its leading gap. *)
Theorem C09_text_doc_skip_all : forall d l pre post,
  skp_fields d = true -> gaps_ok l ->
  toks_fields d = pre ++ lbrace :: post ->
  exists post',
    match_close 1 post = Some post' /\
    let s := render_toks (gap l) post (S (length pre)) in
    let r := render_toks (gap l) post' (length (toks_fields d) - length post') in
    (exists p, render d l = p ++ 123%N :: s) /\
    length r < length s /\ skip_ref s = Some (length s - length r) /\
    skipn (length s - length r) s = r.
Proof. exact doc_skip_all. Qed.
Print Assumptions C09_text_doc_skip_all.

(* streaming form: ANY reader state that satisfies the C07 invariant [rok] (any history, any
   fault-free schedule of the reads still to come) and stands just after an Open of the
   rendering, any buffer with skip_need <= cap (1 byte; 3 when the skipped text has a backslash
   inside a quoted scalar) or the bufferless slice window: skip_container succeeds, the stream
   that remains is the rendering of the tokens after the document's matching Close, and
   position() has advanced by exactly the number of bytes that disappeared from the stream. *)
Theorem C09_text_doc_stream_all : forall d l pre post input fuel r,
  skp_fields d = true -> gaps_ok l ->
  toks_fields d = pre ++ lbrace :: post ->
  wf_bytes input -> rok input r ->
  stream_of r = render_toks (gap l) post (S (length pre)) ->
  skip_cap_ok r -> length (rest (rrd r)) < fuel ->
  exists post' r',
    match_close 1 post = Some post' /\
    skip_container fuel r = Ok r' /\ rok input r' /\
    stream_of r' = render_toks (gap l) post' (length (toks_fields d) - length post') /\
    reader_position r' + length (stream_of r') = reader_position r + length (stream_of r) /\
    cap (rbw r') = cap (rbw r).
Proof. exact doc_stream_skip_all. Qed.
Print Assumptions C09_text_doc_stream_all.

(* the class in terms of TextDoc.wf_doc: a well-formed document is skippable as soon as its
   unquoted tokens are clean (uc_fields: no brace, double quote, hash in a bare word, interpolated
   expression, header name, parameter name or parameter value) *)
Theorem C09_text_wf_doc_skippable : forall d, wf_doc d -> uc_fields d = true -> skp_fields d = true.
Proof. exact wf_doc_skippable. Qed.

(* the byte-level core, on any token list (not only documents): gaps, clean pieces, quoted
   scalars and braces; the rendering splits into a non-empty prefix that ends with the matching
   close and the rendering of the rest, and the reference consumes exactly the prefix -- from any
   depth >= 1 (a skip that starts deeper in the document is the same statement) *)
Theorem C09_text_pieces_count : forall g, (forall j, gap_ok (g j)) -> forall ts, pieces_ok ts ->
  forall i depth post k, 1 <= depth -> match_close depth ts = Some post ->
  exists p, render_toks g ts i = p ++ render_toks g post (i + (length ts - length post)) /\
            0 < length p /\
            sref (render_toks g ts i) SkNone (Z.of_nat depth) k = Some (k + length p).
Proof. exact pieces_count. Qed.

(* non-vacuity: a parameter block, an undefined-parameter value, an interpolated expression, a bare
   word starting with a question mark, a quoted key holding a close and a quoted value holding an
   escaped quote and an open, comments holding braces and quotes, NO separator between tokens
   where the layout has none:
     a={[[p]k=@[1+2]]# }"{<LF>"k}"="x\"{"[[!q]?w]}z=1          (gap 2 is the comment)           *)
Definition C09_all_ex_doc : doc :=
  FCons (Field Unq [97%N] (Some Equal)
           (VObject (FCons (ParamO [112%N] false
                              (FCons (Field Unq [107%N] (Some Equal) (VScalar Unq [64;91;49;43;50;93]%N)) FNil))
                    (FCons (Field Quo [107;125]%N (Some Equal) (VScalar Quo [120;92;34;123]%N))
                    (FCons (ParamV [113%N] true [63;119]%N) FNil))) VNil))
 (FCons (Field Unq [122%N] (Some Equal) (VScalar Unq [49%N])) FNil).
Definition C09_all_ex_layout : layout :=
  mkLayout false (fun i => if Nat.eqb i 8 then [35;32;125;34;123;10]%N else []).
Example C09_all_ex :
  skp_fields C09_all_ex_doc = true /\ simple_fields C09_all_ex_doc = false /\
  exists pre post, toks_fields C09_all_ex_doc = pre ++ lbrace :: post /\ length pre = 2 /\
    let s := render_toks (gap C09_all_ex_layout) post 3 in
    skip_ref s = Some (length s - 3) /\ skipn (length s - 3) s = [122;61;49]%N.
Proof.
  split; [reflexivity|]. split; [reflexivity|]. eexists [_; _]. eexists. split; [reflexivity|].
  split; [reflexivity|]. vm_compute. split; reflexivity.
Qed.
Example C09_all_ex_gaps : gaps_ok C09_all_ex_layout.
Proof.
  intros i. apply TextScanProofs.gap_okb_sound. unfold C09_all_ex_layout. cbn [gap].
  destruct (Nat.eqb i 8); reflexivity.
Qed.
