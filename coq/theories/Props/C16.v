(* C16 JSON conversion is valid JSON and carries the document's content: statements only.
   The theorems are about Json.json_value / json_object / json_array, the functions the
   correspondence stream `json` of props/C16.py compares (as trees) with the real json() output
   re-parsed by serde_json.  They hold for every token list satisfying TapeWf.tape_wf, every
   Encoding::decode [dec], both build profiles [dbg] and all options.  Validity of the JSON *text*
   (escaping, number printing) is serde_json's contract: an oracle of the harness, not a theorem. *)
From JV Require Import Bytes Tables Scalar TextTok TapeWf Dom Json.
From JV.proofs Require Import DomProofs JsonProofs.
Open Scope nat_scope.

(* json_total: no unwrap / index / usize-underflow panic and no fuel exhaustion (= the recursion
   terminates), for the three entry points *)
Theorem C16_json_value_total : forall dec dbg o t v, tape_wf t -> v < length t ->
  exists j, json_value dec dbg o t v = Ok j.
Proof. exact json_value_total. Qed.
Print Assumptions C16_json_value_total.

Theorem C16_json_object_total : forall dec dbg o t r, tape_wf t -> obj_node t r ->
  exists j, json_object dec dbg o t r = Ok j.
Proof. exact json_object_total. Qed.
Print Assumptions C16_json_object_total.

Theorem C16_json_array_total : forall dec dbg o t r, tape_wf t -> arr_ok t r ->
  exists j, json_array dec dbg o t r = Ok j.
Proof. exact json_array_total. Qed.
Print Assumptions C16_json_array_total.

(* json_content: the tree of an object node is [content_tree] of the fields [l] of the object
   grammar (C17: = what fields() yields), one serialized value per field ([length vals = length l]:
   nothing lost) and the serialized remainder:
   Preserve       {k1: v1, k2: v2, ..., ["remainder": rem]}           keys and values in document order
   Group          {k: v | [v, v', ...], ...}  one entry per distinct raw key in first-appearance order,
                  holding that key's values in document order
   KeyValuePairs  {"type":"obj","val":[[k1,v1],[k2,v2],...,[rem]]} *)
Theorem C16_json_content : forall dec dbg o t r, tape_wf t -> obj_node t r ->
  let rec := ser_value dec dbg o t (ser_fuel t) in
  exists l last vals rem,
    fields_spec t (o_start r) (o_end r) last l /\
    fields_all dbg t r = Ok (l, last) /\
    omapM (fun f => ser_opvalue rec (field_ov f)) l = Ok vals /\ length vals = length l /\
    ser_remainder dec t rec last (o_end r) = Ok rem /\
    json_object dec dbg o t r = Ok (content_tree dec (duplicate_keys o) l vals rem).
Proof. exact json_content. Qed.
Print Assumptions C16_json_content.

(* in Group mode the values listed under a key are as many as the fields with that key *)
Theorem C16_group_keeps_all_values : forall k l vals, length vals = length l ->
  length (select_vals k l vals) = length (vals_of k l).
Proof. exact select_vals_length. Qed.
Print Assumptions C16_group_keeps_all_values.

(* narrowing_spec: bool, then i64, then u64, then f64, else the decoded string; an integer is only
   emitted as a number when binary64 holds it exactly (|x| <= 2^53 - 1, the generated constant
   f64_int_guard of scalar.rs), otherwise it stays a string *)
Theorem C16_narrowing_spec : forall dec t v s j,
  read_scalar t v = Ok s -> serialize_scalar dec t v = Ok j ->
  match j with
  | JBool b => to_bool s = Ok b
  | JI64 x => is_ok (to_bool s) = false /\ to_i64 s = Ok x /\ (Z.abs x <= Z.of_N f64_int_guard)%Z
  | JU64 n => is_ok (to_bool s) = false /\ is_ok (to_i64 s) = false /\ to_u64 s = Ok n /\ (n <= f64_int_guard)%N
  | JF64 b => is_ok (to_bool s) = false /\ is_ok (to_i64 s) = false /\ is_ok (to_u64 s) = false /\ to_f64 s = Ok b
  | JStr x => is_ok (to_bool s) = false /\ is_ok (to_f64 s) = false /\ read_str dec t v = Ok x
  | _ => False
  end.
Proof. exact narrowing_spec. Qed.
Print Assumptions C16_narrowing_spec.

Theorem C16_int_exact_in_f64 : forall s x b, to_i64 s = Ok x -> Json.to_f64 s = Ok b ->
  (Z.abs x <= Z.of_N f64_int_guard)%Z.
Proof. exact i64_f64_exact. Qed.
Print Assumptions C16_int_exact_in_f64.

(* pretty_irrelevant: the tree does not depend on the `pretty` flag (it only selects serde_json's
   printer) *)
Theorem C16_pretty_irrelevant : forall dec dbg o t b,
  (forall v, json_value dec dbg (with_pretty b o) t v = json_value dec dbg o t v) /\
  (forall r, json_object dec dbg (with_pretty b o) t r = json_object dec dbg o t r) /\
  (forall r, json_array dec dbg (with_pretty b o) t r = json_array dec dbg o t r).
Proof. exact pretty_irrelevant. Qed.
Print Assumptions C16_pretty_irrelevant.

(* non-vacuity and a worked instance: x={a=b 10 c=d 20} k={1 rgb{2}} k=3 c<rgb{1} *)
Definition ex_tape : ttape :=
  [TUnquoted [120]; TObject 10 true; TUnquoted [97]; TUnquoted [98]; TMixedContainer; TUnquoted [49; 48];
   TUnquoted [99]; TOperator Equal; TUnquoted [100]; TUnquoted [50; 48]; TEnd 1;
   TUnquoted [107]; TArray 18 false; TUnquoted [49]; TUnquoted [114; 103; 98]; TArray 17 false; TUnquoted [50]; TEnd 15; TEnd 12;
   TUnquoted [107]; TUnquoted [51];
   TUnquoted [99]; TOperator LessThan; THeader [114; 103; 98]; TArray 26 false; TUnquoted [49]; TEnd 24]%N.

Example C16_nonvacuous :
  tape_wf ex_tape /\
  json_object (fun x => x) false (mk_options false Group NarrowAll) ex_tape (top_reader ex_tape) =
  Ok (JObj [([120], JObj [([97], JStr [98]);
                          (s_remainder, JArr [JI64 10; JObj [([99], JStr [100])]; JI64 20])]);
            ([107], JArr [JArr [JI64 1; JStr [114; 103; 98]; JArr [JI64 2]]; JI64 3]);
            ([99], JObj [(op_name LessThan, JObj [([114; 103; 98], JArr [JI64 1])])])])%N.
Proof. split; [apply tape_wfb_sound; vm_compute; reflexivity | vm_compute; reflexivity]. Qed.

(* Known finding (key header-dup, replayed on the implementation every run): inside the array part
   of a mixed container a header and its container are two values for ValuesIter, while the header's
   own JSON already includes the container: the container's content is emitted twice.
   Witness: a = { b=1 2 3 {} c = rgb { 1 } }   (a tape the real parser produces; well formed). *)
Definition dup_tape : ttape :=
  [TUnquoted [97]; TObject 14 false; TUnquoted [98]; TUnquoted [49]; TMixedContainer; TUnquoted [50]; TUnquoted [51];
   TArray 8 false; TEnd 7; TUnquoted [99]; THeader [114; 103; 98]; TArray 13 false; TUnquoted [49]; TEnd 11; TEnd 1]%N.

Theorem C16_known_header_duplication :
  tape_wf dup_tape /\
  json_object (fun x => x) false default_options dup_tape (top_reader dup_tape) =
  Ok (JObj [([97], JObj [([98], JI64 1);
                         (s_remainder, JArr [JI64 2; JI64 3; JArr []; JStr [99];
                                             JObj [([114; 103; 98], JArr [JI64 1])]; JArr [JI64 1]])])])%N.
Proof. split; [apply tape_wfb_sound; vm_compute; reflexivity | vm_compute; reflexivity]. Qed.
Print Assumptions C16_known_header_duplication.
