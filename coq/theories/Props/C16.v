(* C16 JSON conversion is valid JSON and carries the document's content: statements only. *)
From JV Require Import Bytes TextTok TapeWf Dom Json.
