(* C10 (wave 4, audit/C10.md) -- value kinds and entry-point combinations that Props/C10_link.v left open.
   Statements only.

     * C10_link_datehour: a DateHour `Y.M.D.H` (hour 1..24) read through DateHourVisitor::visit_str from the text
       rendering = the I32 of DateHour::to_binary through visit_i32 = the same characters in a binary string token
       (quoted / unquoted / resolvable id) through visit_str: the value (y, m, d, h) itself.  All calendar days of
       the years the binary format expresses (-5000..32767); zero-padded text only for hours >= 10 (the parser
       does not read `.05` back, C13_fmt_parse_datehour); the text decoder leaves the (ASCII) date text alone.
     * C10_link_date_both_value: the Date half with the value spelled out.
     * C10_any_encoding_any_path: completes C10_bin_any_path_any_encoding_partial / C10_bin_encoding_independent_partial
       for the documents of LogicDoc at the FUEL OF THE ENTRY POINTS (the partial theorems compare the walks at one
       common fuel): three admissible encoding choices of one logical document, read by the tape, the on-demand and
       the stream deserializer respectively, and the text tape path on the text rendering: one value.
     * C10_any_object_refuted: finding any-object-ondemand -- a dynamically typed target on a nested object. *)
From JV Require Import Bytes Tables Utf8 Scalar Date TextTok BinPrim BufWin BinLexer BinReader SerdeShape
  TextDeCommon BinDeCommon TextDeSpec TextDeTape TextDeStream BinDeOndemand BinDeReader BinDeTape LogicDoc.
From JV Require TextDoc BinDoc.
From JV.proofs Require Import C10LinkProofs C10RgbProofs C10KindsProofs.
From Coq Require Import NArith ZArith Lia List Bool.
Import ListNotations.
Open Scope N_scope.

(* dh_text y m d h wide = game_fmt wide (the raw date y.m.d.h); dh_bin y m d h = DateHour::to_binary of it *)
Theorem C10_link_datehour : forall decode pf cfg y m d h wide f,
  (-5000 <= y <= 32767)%Z -> ld_valid_md m d = true -> (1 <= h <= 24)%Z -> (wide = true -> 10 <= h)%Z ->
  tdec decode (dh_text y m d h wide) = dh_text y m d h wide ->
  text_visit decode pf cfg ShDateHour (dh_text y m d h wide) = Ok (DDate y m d h) /\
  bin_visit cfg ShDateHour (BinDoc.SI32 (dh_bin y m d h)) = Ok (DDate y m d h) /\
  (str_ok decode cfg f (dh_text y m d h wide) (dh_text y m d h wide) ->
   bin_visit cfg ShDateHour (bin_str f (dh_text y m d h wide)) = Ok (DDate y m d h)).
Proof. exact datehour_agree. Qed.
Print Assumptions C10_link_datehour.

Theorem C10_link_date_both_value : forall decode pf cfg y m d wide,
  (-5000 <= y <= 32767)%Z -> ld_valid_md m d = true -> tdec decode (date_text y m d wide) = date_text y m d wide ->
  text_visit decode pf cfg ShDate (date_text y m d wide) = Ok (DDate y m d 0) /\
  bin_visit cfg ShDate (BinDoc.SI32 (date_bin y m d)) = Ok (DDate y m d 0).
Proof. exact date_value. Qed.
Print Assumptions C10_link_date_both_value.

(* non-vacuity: the year boundaries and the hour boundaries, short and zero-padded *)
Example C10_link_datehour_nonvacuous :
  dh_text 32767 12 31 24 false = [51; 50; 55; 54; 55; 46; 49; 50; 46; 51; 49; 46; 50; 52] /\
  dh_text (-5000) 1 1 10 true = [45; 53; 48; 48; 48; 46; 48; 49; 46; 48; 49; 46; 49; 48] /\
  dh_bin 32767 12 31 24 = 330847679%Z /\ dh_bin (-5000) 1 1 1 = 0%Z /\ dh_bin 0 1 1 1 = 43800000%Z /\
  ld_valid_md 12 31 = true /\
  text_visit id_dec (fun _ => Err 1) cfg_id ShDateHour (dh_text 32767 12 31 24 false) = Ok (DDate 32767 12 31 24) /\
  bin_visit cfg_id ShDateHour (BinDoc.SI32 330847679) = Ok (DDate 32767 12 31 24).
Proof. repeat split; vm_compute; reflexivity. Qed.

Theorem C10_any_encoding_any_path : forall decode pf cfg sh d e1 e2 e3 cap sched,
  wf_ldoc d = true -> norgb_fields d = true -> shared decode pf cfg sh d ->
  enc_ok decode cfg e1 d -> enc_ok decode cfg e2 d -> enc_ok decode cfg e3 d ->
  no_fail sched = true -> BinLexer.fits cap (BinDoc.enc_doc (fst (to_bin e3 d)) (snd (to_bin e3 d))) = true ->
  let v := TextDeSpec.spec_value decode pf (c_fops cfg) sh (to_text d) in
  let enc e := BinDoc.enc_doc (fst (to_bin e d)) (snd (to_bin e d)) in
  v <> Err EC_UNFIT /\
  TextDeTape.deser_tape decode pf (c_fops cfg) sh (TextDoc.flatten (to_text d)) = v /\
  BinDeTape.deser_tape cfg sh (enc e1) = v /\
  BinDeOndemand.deser_ondemand cfg sh (enc e2) = v /\
  BinDeReader.deser_reader cfg cap sched sh (enc e3) = v.
Proof. exact any_encoding_any_path. Qed.
Print Assumptions C10_any_encoding_any_path.
(* non-vacuity: Props/C10_link.v C10_link_nonvacuous (ex_doc / ex_shape are shared, ex_enc is admissible; so is the
   all-I32 / all-unquoted choice ex_c0 wherever the integers fit -- here a second admissible choice for the example) *)
Definition kinds_doc : ldoc := [ (Unq, [97], LScalar (LInt 7)); (Unq, [108], LArr [LScalar (LBool true); LScalar (LBool false)]) ].
Definition kinds_shape : shape := ShStruct false [ ([97], None, MOnce, ShU 8); ([108], None, MOnce, ShSeq ShBool) ].
Definition kinds_e1 : enc_choice := fun _ => mkchoice WI32 FQuoted true false FUnquoted false false.
Definition kinds_e2 : enc_choice := fun _ => mkchoice WU64 FUnquoted true false FQuoted false false.
Example C10_any_encoding_nonvacuous :
  wf_ldoc kinds_doc = true /\ norgb_fields kinds_doc = true /\
  shared id_dec (fun _ => Err 1) cfg_id kinds_shape kinds_doc /\
  enc_ok id_dec cfg_id kinds_e1 kinds_doc /\ enc_ok id_dec cfg_id kinds_e2 kinds_doc /\
  BinDoc.enc_doc (fst (to_bin kinds_e1 kinds_doc)) (snd (to_bin kinds_e1 kinds_doc))
    <> BinDoc.enc_doc (fst (to_bin kinds_e2 kinds_doc)) (snd (to_bin kinds_e2 kinds_doc)) /\
  BinDeTape.deser_tape cfg_id kinds_shape (BinDoc.enc_doc (fst (to_bin kinds_e1 kinds_doc)) (snd (to_bin kinds_e1 kinds_doc)))
    = Ok (DStruct [ ([97], DU 7); ([108], DSeq [DBool true; DBool false]) ]) /\
  BinDeOndemand.deser_ondemand cfg_id kinds_shape (BinDoc.enc_doc (fst (to_bin kinds_e2 kinds_doc)) (snd (to_bin kinds_e2 kinds_doc)))
    = Ok (DStruct [ ([97], DU 7); ([108], DSeq [DBool true; DBool false]) ]).
Proof.
  split; [reflexivity|]. split; [reflexivity|].
  split. { cbn. repeat split; try reflexivity; try lia; try discriminate. }
  split. { cbn. repeat split; try reflexivity; try lia; try discriminate. }
  split. { cbn. repeat split; try reflexivity; try lia; try discriminate. }
  split; [vm_compute; discriminate|]. split; vm_compute; reflexivity.
Qed.

Theorem C10_any_object_refuted :
  let b := BinDoc.enc_doc (fst (to_bin any_enc any_doc)) (snd (to_bin any_enc any_doc)) in
  let v := Ok (DMap [([97], DAMap [(DStr [98], DStr [99])])]) in
  TextDeTape.deser_tape id_dec (fun _ => Err 1) (c_fops cfg_id) any_shape (TextDoc.flatten (to_text any_doc)) = v /\
  BinDeTape.deser_tape cfg_id any_shape b = v /\
  BinDeOndemand.deser_ondemand cfg_id any_shape b = Err EC_SYNTAX /\
  BinDeReader.deser_reader cfg_id 64 [] any_shape b = Err EC_SYNTAX.
Proof. exact any_object_refuted. Qed.
Print Assumptions C10_any_object_refuted.
