(* C12 — String decoding always yields valid UTF-8 equal to the reference mapping.
   Statements only; every proof is [exact lemma].
   Vocabulary: Encoding.w1252_reference d = flat_map (encode_utf8 ∘ w1252) (unescape (trim_ascii_end d)),
   Encoding.utf8_reference d = lossy (unescape (trim_ascii_end d)); unescape deletes every backslash;
   valid_utf8 = well-formedness per Unicode table 3-7 (utf8_decode succeeds); lossy = model of
   String::from_utf8_lossy (maximal-subpart rule); plain x = x is ASCII and not a backslash;
   has_escape l = l contains a backslash; bytes8 bs = 8 bytes, each < 256. *)
From JV Require Import Bytes Tables U64Swar Utf8 Encoding.
From JV.proofs Require Import SwarProofs Utf8Proofs EncodingProofs.
From JV.proofs Require SwarArith.
Open Scope N_scope.

(* ---- Windows-1252: for EVERY byte string the decoder succeeds (no panic, the unchecked site is sound),
        returns the reference mapping, and is Borrowed exactly when the trimmed input is escape-free ASCII *)
Theorem C12_w1252_spec : forall d,
  exists c, decode_windows1252 d = Ok c /\ cow_bytes c = w1252_reference d /\
            is_borrowed c = forallb plain (trim_ascii_end d).
Proof. exact w1252_spec. Qed.
Print Assumptions C12_w1252_spec.

Theorem C12_w1252_decode_valid : forall d c,
  wf_bytes d -> decode_windows1252 d = Ok c -> valid_utf8 (cow_bytes c) = true.
Proof. exact w1252_decode_valid. Qed.
Print Assumptions C12_w1252_decode_valid.

Theorem C12_w1252_borrowed_iff : forall d c,
  decode_windows1252 d = Ok c ->
  (is_borrowed c = true <-> forallb plain (trim_ascii_end d) = true) /\
  (is_borrowed c = true -> c = Borrowed (trim_ascii_end d)).
Proof. exact w1252_borrowed_iff. Qed.
Print Assumptions C12_w1252_borrowed_iff.

(* ---- UTF-8: for every string of bytes (< 256) the decoder succeeds, returns the reference mapping
        (trim, unescape, lossy), Borrowed exactly when nothing has to be rewritten *)
Theorem C12_utf8_spec : forall d, wf_bytes d ->
  exists c, decode_utf8 d = Ok c /\ cow_bytes c = utf8_reference d /\
            is_borrowed c = negb (has_escape (trim_ascii_end d)) && valid_utf8 (trim_ascii_end d).
Proof. exact utf8_spec. Qed.
Print Assumptions C12_utf8_spec.

Theorem C12_utf8_decode_valid : forall d c,
  wf_bytes d -> decode_utf8 d = Ok c -> valid_utf8 (cow_bytes c) = true.
Proof. exact utf8_decode_valid. Qed.
Print Assumptions C12_utf8_decode_valid.

(* NOTE the honest form for UTF-8: Borrowed <=> no escape and well-formed UTF-8 (a superset of ASCII: valid
   non-ASCII text is borrowed too, through String::from_utf8_lossy). *)
Theorem C12_utf8_borrowed_iff : forall d c,
  wf_bytes d -> decode_utf8 d = Ok c ->
  (is_borrowed c = true <-> has_escape (trim_ascii_end d) = false /\ valid_utf8 (trim_ascii_end d) = true) /\
  (is_borrowed c = true -> c = Borrowed (trim_ascii_end d)).
Proof. exact utf8_borrowed_iff. Qed.
Print Assumptions C12_utf8_borrowed_iff.

(* the property's clause: escape-free ASCII input is returned borrowed (zero copy) by both decoders *)
Theorem C12_plain_ascii_borrowed : forall d,
  wf_bytes d -> forallb plain (trim_ascii_end d) = true ->
  decode_windows1252 d = Ok (Borrowed (trim_ascii_end d)) /\ decode_utf8 d = Ok (Borrowed (trim_ascii_end d)).
Proof. exact plain_ascii_borrowed. Qed.
Print Assumptions C12_plain_ascii_borrowed.

(* ---- trimming ---- *)
Theorem C12_trim_spec : forall d,
  exists ws, d = trim_ascii_end d ++ ws /\ forallb is_ascii_ws ws = true /\
             (trim_ascii_end d = [] \/ exists p x, trim_ascii_end d = p ++ [x] /\ is_ascii_ws x = false).
Proof. exact trim_spec. Qed.
Print Assumptions C12_trim_spec.

(* ---- the std functions as modelled: lossy output is well formed, identity on well-formed input;
        encodings of scalar values are well formed ---- *)
Theorem C12_lossy_valid : forall d, valid_utf8 (lossy d) = true.
Proof. exact lossy_valid. Qed.
Print Assumptions C12_lossy_valid.

Theorem C12_lossy_id : forall d, valid_utf8 d = true -> lossy d = d.
Proof. exact lossy_id. Qed.
Print Assumptions C12_lossy_id.

Theorem C12_valid_encode_all : forall cs r,
  forallb is_scalar_value cs = true -> valid_utf8 (encode_all cs ++ r) = valid_utf8 r.
Proof. exact valid_encode_all. Qed.
Print Assumptions C12_valid_encode_all.

(* well-formedness (valid_utf8) is exactly "a concatenation of encodings of Unicode scalar values" *)
Theorem C12_valid_utf8_iff_encoding : forall d, wf_bytes d ->
  (valid_utf8 d = true <-> exists cs, forallb is_scalar_value cs = true /\ d = encode_all cs).
Proof. exact valid_utf8_iff_encoding. Qed.
Print Assumptions C12_valid_utf8_iff_encoding.

(* ---- table facts: complete finite check over the 256 entries regenerated from data.rs ---- *)
Theorem C12_table_scalar_values : forall b, b < 256 -> is_scalar_value (w1252 b) = true.
Proof. exact w1252_scalar. Qed.
Print Assumptions C12_table_scalar_values.

Theorem C12_table_ascii_identity : forall b, b <? 128 = true -> w1252 b = b.
Proof. exact w1252_ascii. Qed.

Theorem C12_table_latin1_identity : forall b, 160 <= b < 256 -> w1252 b = b.
Proof. exact w1252_latin1. Qed.

Theorem C12_table_unassigned_are_c1 : map w1252 [129; 141; 143; 144; 157] = [129; 141; 143; 144; 157].
Proof. exact w1252_unassigned. Qed.

(* ---- SWAR foundations used by decode_utf8 (shared with C07/C09) ---- *)
Theorem C12_contains_zero_byte_spec : forall bs, bytes8 bs ->
  contains_zero_byte (le_word 8 bs) = existsb (fun b => b =? 0) bs.
Proof. exact contains_zero_byte_spec. Qed.
Print Assumptions C12_contains_zero_byte_spec.

Theorem C12_contains_zero_byte_word : forall x, x < 2 ^ 64 ->
  contains_zero_byte x = existsb (fun b => b =? 0) (word_bytes 8 x).
Proof. exact contains_zero_byte_word. Qed.

Theorem C12_chunk_has_byte_spec : forall bs c, bytes8 bs -> c < 256 ->
  contains_zero_byte (N.lxor (le_word 8 bs) (repeat_byte c)) = existsb (fun b => b =? c) bs.
Proof. exact chunk_has_byte_spec. Qed.
Print Assumptions C12_chunk_has_byte_spec.

Theorem C12_chunk_ascii_spec : forall bs, bytes8 bs ->
  (N.land (le_word 8 bs) enc_ascii_mask =? 0) = forallb (fun b => b <? 128) bs.
Proof. exact chunk_ascii_spec. Qed.
Print Assumptions C12_chunk_ascii_spec.

(* ---- further SWAR foundations of util.rs (not used by encoding.rs; shared with C07 / C09 / C13, pinned here
        because util.rs is an anchor of this property and this family owns the SWAR proofs) ---- *)
Theorem C12_swar_nonzero_lanes_spec : forall bs, bytes8 bs ->
  nonzero_lanes (le_word 8 bs) = le_word 8 (map (fun b => if b =? 0 then 0 else 128) bs).
Proof. exact nonzero_lanes_spec. Qed.

(* leading_whitespace (after the upstream fix): number of leading lanes holding \t or \n, 8 if all do *)
Theorem C12_swar_leading_whitespace_spec : forall bs, bytes8 bs ->
  leading_whitespace (le_word 8 bs) = N.of_nat (length (take_while (fun b => (b =? 9) || (b =? 10)) bs)).
Proof. exact leading_whitespace_spec. Qed.
Print Assumptions C12_swar_leading_whitespace_spec.

Theorem C12_swar_leading_whitespace_word : forall w, w < 2 ^ 64 ->
  leading_whitespace w = N.of_nat (length (take_while (fun b => (b =? 9) || (b =? 10)) (word_bytes 8 w))).
Proof. exact leading_whitespace_word. Qed.

Theorem C12_swar_count_chunk_spec : forall bs c, SwarArith.bytes8 bs -> c < 256 ->
  count_chunk (le_word 8 bs) c = N.of_nat (length (filter (fun b => b =? c) bs)).
Proof. exact SwarArith.count_chunk_spec. Qed.
Print Assumptions C12_swar_count_chunk_spec.

(* Some v iff all 8 bytes are ASCII digits, v = their decimal value (first byte most significant) *)
Theorem C12_swar_fast_digit_parse_spec : forall bs, SwarArith.bytes8 bs ->
  fast_digit_parse (le_word 8 bs) =
  if forallb is_digit bs then Some (fold_left (fun a x => a * 10 + (x - 48)) bs 0) else None.
Proof. exact SwarArith.fast_digit_parse_spec. Qed.
Print Assumptions C12_swar_fast_digit_parse_spec.

(* non-vacuity *)
Example C12_nonvacuous :
  wf_bytes [104; 105; 92; 129; 32; 138; 10] /\
  decode_windows1252 [104; 105; 92; 129; 32; 138; 10] = Ok (Owned [104; 105; 194; 129; 32; 197; 160]) /\
  decode_utf8 [74; 195; 165; 10] = Ok (Borrowed [74; 195; 165]) /\
  forallb plain (trim_ascii_end [97; 98; 32]) = true.
Proof. repeat split; try reflexivity. repeat constructor. Qed.
