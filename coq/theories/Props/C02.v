(* C02 — Text deserialization returns the document's values on both parse paths.
   Statements only.  What is pinned here:
     * the scalar level of both text paths (Serde.text_scalar: typed hint = Scalar.to_u64/to_i64/to_bool,
       fall back to the decoded string, which serde's primitive visitors (Serde.coerce) then accept or
       reject) returns EXACTLY the number / boolean / decoded string the scalar denotes, or an error —
       for every scalar, target width and encoding function;
     * a struct target (Serde.spec_struct = the field fold Derive.visit) drops unknown fields whatever
       they contain, gives a missing Option None, and does not depend on the field order.
   NOT proved (carried by the oracle/correspondence streams of props/C02.py only):
     tape_path_spec / stream_path_spec — that the MapAccess/SeqAccess walks of src/text/de.rs over the
     tape resp. the token stream deliver exactly the (key, value) lists and element lists of the
     document (token-level models TextDeTape / TextDeStream are not written yet); hence the theorems
     below are named _partial where they cover only the scalar/struct level of the full statement
       forall d s, fits s d -> deser_tape enc s (flatten d) = spec_value enc s d
                                = deser_stream enc s (tokens d)        (except captured headers, finding H). *)
From JV Require Import Bytes Scalar Derive Serde.
From JV.proofs Require Import DeriveProofs SerdeProofs.
Open Scope N_scope.

Theorem C02_unsigned_hint_exact_partial : forall (decode : bytes -> bytes) bits raw v,
  text_scalar decode (SU bits) raw = Ok v -> exists n, to_u64 raw = Ok n /\ v = VU n /\ n < 2 ^ bits.
Proof. exact text_u_exact. Qed.
Print Assumptions C02_unsigned_hint_exact_partial.

Theorem C02_unsigned_hint_refuses_partial : forall (decode : bytes -> bytes) bits raw,
  is_ok (to_u64 raw) = false -> text_scalar decode (SU bits) raw = Err E_DE.
Proof. exact text_u_refuses. Qed.
Print Assumptions C02_unsigned_hint_refuses_partial.

Theorem C02_signed_hint_exact_partial : forall (decode : bytes -> bytes) bits raw v,
  text_scalar decode (SI bits) raw = Ok v ->
  exists z, to_i64 raw = Ok z /\ v = VI z /\ (- Z.of_N (2 ^ (bits - 1)) <= z < Z.of_N (2 ^ (bits - 1)))%Z.
Proof. exact text_i_exact. Qed.
Print Assumptions C02_signed_hint_exact_partial.

Theorem C02_bool_hint_exact_partial : forall (decode : bytes -> bytes) raw v,
  text_scalar decode SBool raw = Ok v -> exists b, to_bool raw = Ok b /\ v = VBool b.
Proof. exact text_bool_exact. Qed.
Print Assumptions C02_bool_hint_exact_partial.

Theorem C02_string_decoded_partial : forall (decode : bytes -> bytes) raw,
  text_scalar decode SStr raw = Ok (VStr (decode raw)).
Proof. exact text_str_decodes. Qed.
Print Assumptions C02_string_decoded_partial.

Theorem C02_scalar_never_crashes_partial : forall (decode : bytes -> bytes) sh raw,
  is_crash (text_scalar decode sh raw) = false.
Proof. exact text_scalar_no_crash. Qed.
Print Assumptions C02_scalar_never_crashes_partial.

Theorem C02_unknown_fields_ignored_partial : forall specs l1 k r l2,
  match_field value specs k = None ->
  spec_struct specs (l1 ++ (k, r) :: l2) = spec_struct specs (l1 ++ l2).
Proof. exact struct_unknown_ignored. Qed.
Print Assumptions C02_unknown_fields_ignored_partial.

Theorem C02_struct_order_independent_partial : forall specs kvs kvs',
  values_ok value specs kvs -> (forall i, occ value specs i kvs = occ value specs i kvs') ->
  spec_struct specs kvs = spec_struct specs kvs'.
Proof. exact struct_order_independent. Qed.
Print Assumptions C02_struct_order_independent_partial.

Theorem C02_missing_option_none_partial : forall k, visit value [option_field k] [] = Ok [OVal VNone].
Proof. exact struct_missing_option_none. Qed.
Print Assumptions C02_missing_option_none_partial.

(* non-vacuity: "12" into u8 *)
Example C02_nonvacuous : text_scalar (fun x => x) (SU 8) [49; 50] = Ok (VU 12).
Proof. vm_compute. reflexivity. Qed.
