(* C10 -- Text and binary renderings of one document deserialize to the same value: the BINARY half,
   over the deserializer walks of Props/C04_walk.v.  Statements only.

   FULL statement (DESIGN 6/C10):
       text_bin_agree : shared d -> fits s d ->
         deser_text s (tokens_t d) = deser_bin p s (tokens_b d e)      for every binary path p and encoding e
   by transitivity through a common spec_value.

   PROVED here (all configurations, all shapes, no size bound):
     * C10_bin_encoding_independent_partial: the binary specification does not depend on the encoding
       choice e -- which integer token (I32 / U32 / U64 / I64) carries a number, whether a string is
       quoted, unquoted or a token id that the resolver / strategy turns into the same string, for keys
       and values alike, and where ghost objects are -- for every target that is not dynamically typed on
       an integer (`any` / date on an integer token; u16 = token attribute on a string): [leq_fields]
       relates the two encodings, [spec_shared] is the specification restricted to such targets;
     * C10_bin_any_path_any_encoding_partial: hence ANY binary path on ANY encoding of the logical
       document returns the same value (on-demand vs. stream vs. tape, each on a different encoding).
   MISSING (carried by the oracle stream `text-vs-binary` of props/C10.py only):
     * the text half: TextDeSpec.spec_value (the text walks' specification, Props/C02_walk.v, engineer
       b_tde) and BinDoc.spec_value are two independently written specifications over two document
       types; no common logical document with renderings into both and no proof that the two
       specifications agree on it has been written.  What it needs: (1) a logical document type with
       to_text / to_bin, (2) TextDeCommon.entry/finish (text struct accumulation) = SerdeShape.struct_loop /
       slots_finish, (3) per scalar: Scalar.to_u64 raw = n <-> the integer token's value (Props/C10.v
       pins exactly this at the old Serde.v level), Date (C13), the `float_shared` side condition;
     * fuel: the statements compare the walks at one common fuel; the entry points use a fuel that
       depends on the length of the encoding (no monotonicity lemma for SerdeShape.walk yet). *)
From JV Require Import Bytes Tables BinPrim BufWin BinLexer BinReader BinTape SerdeShape BinDeCommon
  BinDeOndemand BinDeReader BinDeTape BinDoc.
From JV.proofs Require Import BinDeSim BinDocProofs BinDeOdProofs BinDeRdProofs BinDeTpProofs BinDeParseProofs
  BinDeSpecProofs BinDeEncProofs.
Open Scope N_scope.

Theorem C10_bin_encoding_independent_partial : forall cfg fuel sh fs1 g1 fs2 g2,
  leq_fields cfg fs1 fs2 -> spec_shared cfg fuel sh fs2 g2 <> Err EC_UNFIT ->
  spec_value cfg fuel sh fs1 g1 = spec_value cfg fuel sh fs2 g2.
Proof. exact encoding_independent. Qed.
Print Assumptions C10_bin_encoding_independent_partial.

(* the restriction only removes answers: where it has one, it is the specification's *)
Theorem C10_shared_is_spec_partial : forall cfg fuel sh fs g,
  spec_shared cfg fuel sh fs g <> Err EC_UNFIT -> spec_value cfg fuel sh fs g = spec_shared cfg fuel sh fs g.
Proof. exact shared_refines. Qed.

(* three encodings of one logical document, three paths: one value *)
Theorem C10_bin_any_path_any_encoding_partial : forall cfg fuel sh cap sched fs1 g1 fs2 g2 fs3 g3,
  wf_doc fs1 g1 = true -> wf_doc fs2 g2 = true -> wf_doc fs3 g3 = true -> tape_ok_doc fs3 = true ->
  leq_fields cfg fs1 fs2 -> leq_fields cfg fs3 fs2 -> spec_shared cfg fuel sh fs2 g2 <> Err EC_UNFIT ->
  no_fail sched = true -> fits cap (enc_doc fs2 g2) = true ->
  walk_root (c_fops cfg) (ops_od cfg) fuel sh (lx_new (enc_doc fs1 g1))
    = walk_root (c_fops cfg) (ops_rd cfg) fuel sh (rdr_new cap sched (enc_doc fs2 g2)) /\
  deser_tokens cfg (flat_doc fs3) fuel sh
    = walk_root (c_fops cfg) (ops_rd cfg) fuel sh (rdr_new cap sched (enc_doc fs2 g2)) /\
  parse_opt (enc_doc fs3 g3) = Ok (flat_doc fs3).
Proof.
  intros cfg fuel sh cap sched fs1 g1 fs2 g2 fs3 g3 W1 W2 W3 T3 L12 L32 N NF HF.
  pose proof (shared_refines cfg fuel sh fs2 g2 N) as E2.
  assert (N2 : spec_value cfg fuel sh fs2 g2 <> Err EC_UNFIT) by (rewrite E2; exact N).
  pose proof (encoding_independent cfg fuel sh fs1 g1 fs2 g2 L12 N) as E1.
  pose proof (encoding_independent cfg fuel sh fs3 g3 fs2 g2 L32 N) as E3.
  assert (R2 : walk_root (c_fops cfg) (ops_rd cfg) fuel sh (rdr_new cap sched (enc_doc fs2 g2)) = spec_value cfg fuel sh fs2 g2)
    by (apply sim_eq_result; [apply reader_eq_spec_fuel; assumption|exact N2]).
  rewrite R2. split; [|split].
  - rewrite <- E1. apply sim_eq_result; [apply ondemand_eq_spec_fuel, W1|rewrite E1; exact N2].
  - rewrite <- E3. apply sim_eq_result; [apply tape_tokens_eq_spec_fuel|rewrite E3; exact N2].
  - exact (parse_opt_doc fs3 g3 eq_refl W3 T3).
Qed.
Print Assumptions C10_bin_any_path_any_encoding_partial.

(* non-vacuity: the document of C04_walk_nonvacuous re-encoded -- key `abc` as a quoted string instead of
   token 0x1234, 7 as U64 instead of I32, "a" quoted, the array elements as I32 / I64, no ghosts *)
Definition doc_ex2 : list bfield :=
  [ (false, SQuoted [97; 98; 99], VScalar (SU64 7));
    (false, SUnquoted [107], VObj [(false, SQuoted [97], VScalar (SBool true)); (false, SQuoted [53], VArr [VScalar (SI32 1); VScalar (SI64 2)])] false);
    (false, SQuoted [117], VArr [VObj [(false, SUnquoted [122], VScalar (SUnquoted [113]))] false; VArr []]);
    (false, SUnquoted [99], VRgb (mkrgb 1 2 3 (Some 4))) ].
Definition shape_ex2 : shape :=
  ShStruct false [ ([97; 98; 99], None, MOnce, ShU 8);
                   ([107], None, MOnce, ShStruct false [([53], None, MOnce, ShSeq (ShU 64)); ([97], None, MOnce, ShBool)]);
                   ([99], None, MOnce, ShTup [ShStr; ShSeq (ShU 8)]);
                   ([109], None, MOnce, ShOpt ShStr) ].
Example C10_walk_nonvacuous :
  leq_fields cfg0 doc_ex doc_ex2 /\ wf_doc doc_ex2 false = true /\
  spec_shared cfg0 60 shape_ex2 doc_ex2 false = spec_value cfg0 60 shape_ex2 doc_ex true /\
  spec_value cfg0 60 shape_ex2 doc_ex true =
    Ok (DStruct [ ([97; 98; 99], DU 7);
                  ([107], DStruct [([53], DSeq [DU 1; DU 2]); ([97], DBool true)]);
                  ([99], DSeq [DStr RGB_NAME; DSeq [DU 1; DU 2; DU 3; DU 4]]);
                  ([109], DNone) ]).
Proof.
  split; [|vm_compute; repeat split; reflexivity].
  cbn. repeat split; try (left; reflexivity); try (right; eexists; split; reflexivity).
Qed.
