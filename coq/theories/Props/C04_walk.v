(* C04 -- Binary deserialization agrees across the tape, on-demand and streaming paths: the three
   deserializer WALKS inside the model.  Statements only.

   Models (each run from the BYTES by the correspondence stream `walk_model` of props/C04.py):
     BinDeTape.deser_tape       BinaryTape::from_slice + BinaryDeserializer (tape tokens, MapAccess /
                                SeqAccess with end indices, KeyDeserializer, ValueDeserializer)
     BinDeOndemand.deser_ondemand   OndemandBinaryDeserializer over the Lexer (ids first, payloads on demand,
                                skip_value for ignored values, key loop, optional Equal)
     BinDeReader.deser_reader   BinaryReaderDeserializer over the streaming TokenReader (any buffer
                                capacity, any read schedule)
   all three are SerdeShape.walk (the serde visitor side: harness interpreter + serde's primitive
   visitors, shared) over a path_ops record that is the jomini-specific part.

   Specification: BinDoc -- abstract binary documents [fs, gend] (fields key = value with keys encoded as
   token id / quoted / unquoted / i32; values: the ten scalar tokens, rgb, arrays, objects; ghost `{ }`
   before any field but the first and before a closing brace), their encoding [enc_doc] (the encoding
   choices e of `enc d e` are part of the document), and [spec_value] = the same visitor walk over the
   DOCUMENT (a value is its own token).  [spec_value] answers Err EC_UNFIT exactly on the combinations on
   which the paths are not required to agree; [fits] = it does not.

   Proved here, for ALL configurations (resolver function, strategy, flavor decoders, float casts), ALL
   target shapes, ALL well-formed documents, no size bound:
     C04_ondemand_eq_spec, C04_reader_eq_spec (every capacity that fits, every fault-free schedule --
     through the C08 step theorem rdr_next_spec and the C09 skip theorems), C04_tape_eq_spec (through
     C03 optimised = reference and a proof that the reference parser produces the expected tape
     flat_doc), hence C04_paths_agree; the strategy/resolver, unknown-field skipping (IgnoredAny ->
     skip_value / skip_container / no look at the tape), ghost skipping, nested containers, Option,
     enums, typed hints incl. wrong ones (genuine errors are part of spec_value) are all inside these
     statements.  C04_ghost_skipped, C04_rgb_components_*, C04_unknown_field_skipped characterise the
     specification itself.
   Refuted (findings, replayed by props/C04.py): C04_u16_on_id_value_refuted -- a u16 target on a token id
   in VALUE position: on-demand/stream hand out the id, the tape path resolves it and fails;
   C04_rgb_in_array_refuted -- rgb as an ARRAY element: the tape parser does not recognise the block.
   Not proved: fuel sufficiency of spec_value as a general lemma (the statements hold for every fuel,
   including the one the entry points use; Examples show it suffices on concrete documents);
   documents whose fields omit the `=` (the models implement the optional Equal; the document type
   always writes it). *)
From JV Require Import Bytes Tables BinPrim BufWin BinLexer BinReader BinTape SerdeShape BinDeCommon
  BinDeOndemand BinDeReader BinDeTape BinDoc.
From JV.proofs Require Import BinDeSim BinDocProofs BinDeOdProofs BinDeRdProofs BinDeTpProofs BinDeParseProofs BinDeSpecProofs.
Open Scope N_scope.

(* spec_of cfg sh fs g   = spec_value at the fuel the entry points use (BinDeCommon.deser_fuel)
   fits_shape cfg sh fs g = spec_of cfg sh fs g <> Err EC_UNFIT                                  *)

Theorem C04_ondemand_eq_spec : forall cfg sh fs g,
  wf_doc fs g = true -> fits_shape cfg sh fs g ->
  deser_ondemand cfg sh (enc_doc fs g) = spec_of cfg sh fs g.
Proof. exact ondemand_eq_spec. Qed.
Print Assumptions C04_ondemand_eq_spec.

Theorem C04_reader_eq_spec : forall cfg cap sched sh fs g,
  wf_doc fs g = true -> no_fail sched = true -> fits cap (enc_doc fs g) = true -> fits_shape cfg sh fs g ->
  deser_reader cfg cap sched sh (enc_doc fs g) = spec_of cfg sh fs g.
Proof. exact reader_eq_spec. Qed.
Print Assumptions C04_reader_eq_spec.

(* [eq_refl : Tables.fast_path_excludes_i64 = true]: the three id-class tests of the tape parser's key
   fast path exclude I64 in the source as it is (C03); the statement stops type-checking if they do not *)
Theorem C04_tape_eq_spec : forall cfg sh fs g,
  wf_doc fs g = true -> tape_ok_doc fs = true -> fits_shape cfg sh fs g ->
  deser_tape cfg sh (enc_doc fs g) = spec_of cfg sh fs g.
Proof. intros cfg sh fs g. exact (tape_eq_spec cfg sh fs g eq_refl). Qed.
Print Assumptions C04_tape_eq_spec.

Theorem C04_paths_agree : forall cfg cap sched sh fs g,
  wf_doc fs g = true -> tape_ok_doc fs = true -> fits_shape cfg sh fs g ->
  no_fail sched = true -> fits cap (enc_doc fs g) = true ->
  deser_tape cfg sh (enc_doc fs g) = deser_ondemand cfg sh (enc_doc fs g) /\
  deser_ondemand cfg sh (enc_doc fs g) = deser_reader cfg cap sched sh (enc_doc fs g).
Proof. intros cfg cap sched sh fs g. exact (paths_agree cfg cap sched sh fs g eq_refl). Qed.
Print Assumptions C04_paths_agree.

(* the tape parser on encoded documents: the reference interpretation (for the parser as it is,
   whatever its fast paths do) and, through C03, the optimised one *)
Theorem C04_parse_ref_encoded_doc : forall fs g,
  wf_doc fs g = true -> tape_ok_doc fs = true -> parse_ref (enc_doc fs g) = Ok (flat_doc fs).
Proof. exact parse_ref_doc. Qed.
Print Assumptions C04_parse_ref_encoded_doc.

Theorem C04_parse_encoded_doc : forall fs g,
  wf_doc fs g = true -> tape_ok_doc fs = true -> parse_opt (enc_doc fs g) = Ok (flat_doc fs).
Proof. intros fs g. exact (parse_opt_doc fs g eq_refl). Qed.
Print Assumptions C04_parse_encoded_doc.

(* the tape deserializer on the expected tape, for ANY shape and document (no well-formedness needed) *)
Theorem C04_tape_tokens_eq_spec : forall cfg fuel sh fs g,
  spec_value cfg fuel sh fs g <> Err EC_UNFIT ->
  deser_tokens cfg (flat_doc fs) fuel sh = spec_value cfg fuel sh fs g.
Proof. intros cfg fuel sh fs g N. apply sim_eq_result; [apply tape_tokens_eq_spec_fuel|exact N]. Qed.
Print Assumptions C04_tape_tokens_eq_spec.

(* ghost objects: the specified value of a document is that of the document without its ghosts -- so
   every path returns on `a=1 {} b={ c=2 {} }` what it returns on `a=1 b={ c=2 }` *)
Theorem C04_ghost_skipped : forall cfg fuel sh fs g,
  spec_value cfg fuel sh (erase_fields fs) false <> Err EC_UNFIT ->
  spec_value cfg fuel sh fs g = spec_value cfg fuel sh (erase_fields fs) false.
Proof. exact ghost_skipped_spec. Qed.
Print Assumptions C04_ghost_skipped.

(* unknown fields: a field whose key names no field of the struct target ([unknown_key]: the field
   identifier visitor answers None for what the key deserializer hands it -- by name, or by token for a
   token-attribute struct) can be deleted from the document, whatever its value contains (nested
   containers, rgb, values no shape would fit): the specified value is unchanged.  With the path theorems:
   every path skips it in its entirety (on-demand: Lexer::skip_value, stream: skip_container -- the C09
   theorems inside C04_ondemand_eq_spec / C04_reader_eq_spec; tape: the end index). *)
Theorem C04_unknown_field_skipped : forall cfg fuel tk fields g l1 x l2,
  unknown_key cfg tk fields x -> (length (l1 ++ x :: l2) < fuel)%nat ->
  spec_value cfg fuel (ShStruct tk fields) (l1 ++ x :: l2) g = spec_value cfg fuel (ShStruct tk fields) (l1 ++ l2) g.
Proof. exact unknown_field_skipped_spec. Qed.
Print Assumptions C04_unknown_field_skipped.

Example C04_unknown_key_nonvacuous :
  unknown_key cfg0 false [([97], None, MOnce, ShU 8)] (false, SQuoted [98], VObj [(false, SI32 1, VRgb (mkrgb 1 2 3 None))] true) /\
  unknown_key cfg0 true [([97], Some 7, MOnce, ShU 8)] (false, SId 4660, VArr []).
Proof. split; eexists; split; reflexivity. Qed.

(* rgb: the visitor receives the two-element sequence ("rgb", [r, g, b(, a)]) *)
Theorem C04_rgb_components_any : forall cfg n c,
  color_visit cfg n ShAny c = Ok (DSeq [DStr RGB_NAME; DSeq (map DU (channels c))]).
Proof. exact rgb_components_any. Qed.
Theorem C04_rgb_components_typed : forall cfg n bits c,
  forallb (fun x => in_u bits (Z.of_N x)) (channels c) = true ->
  color_visit cfg n (ShTup [ShStr; ShSeq (ShU bits)]) c = Ok (DSeq [DStr RGB_NAME; DSeq (map DU (channels c))]).
Proof. exact rgb_components_typed. Qed.
Print Assumptions C04_rgb_components_typed.

(* the two combinations outside [fits_shape] / [tape_ok_doc] on which the paths genuinely differ
   (findings; props/C04.py replays both on the implementation) *)
Theorem C04_u16_on_id_value_refuted :
  wf_doc doc_u16 false = true /\ tape_ok_doc doc_u16 = true /\
  deser_ondemand cfg0 shape_u16 (enc_doc doc_u16 false) = Ok (DStruct [([120], DU 4660)]) /\
  deser_reader cfg0 64 [] shape_u16 (enc_doc doc_u16 false) = Ok (DStruct [([120], DU 4660)]) /\
  deser_tape cfg0 shape_u16 (enc_doc doc_u16 false) = Err EC_DE /\
  spec_of cfg0 shape_u16 doc_u16 false = Err EC_UNFIT.
Proof. exact u16_on_id_value_refuted. Qed.

Theorem C04_rgb_in_array_refuted :
  wf_doc doc_rgb_arr false = true /\ tape_ok_doc doc_rgb_arr = false /\
  deser_ondemand cfg0 shape_rgb_arr (enc_doc doc_rgb_arr false)
    = Ok (DStruct [([120], DSeq [DSeq [DStr RGB_NAME; DSeq [DU 1; DU 2; DU 3]]])]) /\
  deser_tape cfg0 shape_rgb_arr (enc_doc doc_rgb_arr false) <> deser_ondemand cfg0 shape_rgb_arr (enc_doc doc_rgb_arr false).
Proof. exact rgb_in_array_refuted. Qed.

(* non-vacuity: a well-formed document (token key, ghosts, nested object and arrays, rgb with alpha, an
   unknown field), a partial struct target with a missing Option field, a capacity that fits and one
   that does not; the specification has a value, hence so have all three paths *)
Example C04_walk_nonvacuous :
  wf_doc doc_ex true = true /\ tape_ok_doc doc_ex = true /\ fits 32 (enc_doc doc_ex true) = true /\
  fits 24 (enc_doc doc_ex true) = false /\
  spec_of cfg0 shape_ex doc_ex true =
    Ok (DStruct [ ([97; 98; 99], DU 7);
                  ([107], DMap [([97], DBool true); ([53], DSeq [DU 1; DU 2])]);
                  ([99], DSeq [DStr RGB_NAME; DSeq [DU 1; DU 2; DU 3; DU 4]]);
                  ([109], DNone) ]).
Proof. exact example_fits. Qed.

Example C04_walk_nonvacuous_paths :
  deser_tape cfg0 shape_ex (enc_doc doc_ex true) = spec_of cfg0 shape_ex doc_ex true /\
  deser_reader cfg0 32 [Data 1; Data 3; Data 1] shape_ex (enc_doc doc_ex true) = spec_of cfg0 shape_ex doc_ex true.
Proof. vm_compute. split; reflexivity. Qed.
