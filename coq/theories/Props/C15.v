(* C15 — Well-formed sequences of writer calls parse back to exactly what was written.
   Statements only; every proof is [exact lemma].  The text parser is modelled by another family
   (C01/C06); the clauses "the output parses to the described structure", "integers read back
   exactly", "floats within 2 ulp" are evaluated by oracles on the implementation (props/C15.py).
   Proved here, over the model the correspondence check runs (Writer.v): *)
From JV Require Import Bytes Tables TextTok Date Writer.
From JV.proofs Require Import WriterProofs WriterCallsProofs.
Open Scope N_scope.

(* "Misordered calls ... never a panic": EVERY call history (any length, any order, any payload bytes),
   every indent configuration, every float-printing oracle: the run completes -- no Panic (table
   index, discriminant), no OOB, no OutOfFuel.  An end without a start is the only Err. *)
Theorem C15_no_panic : forall (fdisp : bool -> N -> option N -> bytes) (c : cfg) (calls : list call),
  exists r, run fdisp c calls = Ok r.
Proof. exact run_total. Qed.
Print Assumptions C15_no_panic.

(* "depth() ... always reflect the calls made so far": after every call of every history, depth() and
   whether the call returned Err are exactly the counter [depth_log] over the call prefix
   (open +1; close -1, or Err at 0 leaving the writer unchanged; everything else, incl. write_rgb, 0). *)
Theorem C15_depth_is_counter : forall (fdisp : bool -> N -> option N -> bytes) c calls out log,
  run fdisp c calls = Ok (out, log) ->
  map (fun ew => (fst ew, length (w_depth (snd ew)))) log = depth_log 0 calls.
Proof. intros fdisp c calls out log H. exact (run_depth_log fdisp c calls wr_init out log H). Qed.
Print Assumptions C15_depth_is_counter.

(* the state queries are exactly these sets of states (tables regenerated from writer.rs), and the
   transition table is exactly this map: breaks when writer.rs changes them *)
Theorem C15_state_queries : forall w,
  q_expecting_key w = (match w_state w with WKey | WFirstKey => true | _ => false end) /\
  q_at_unknown_start w = (match w_state w with WFirstUnknown => true | _ => false end) /\
  q_at_array_value w = (match w_state w with WArrayValue => true | _ => false end) /\
  q_depth w = N.of_nat (length (w_depth w)).
Proof.
  intros w. repeat split;
    [apply q_expecting_key_spec | apply q_at_unknown_start_spec | apply q_at_array_value_spec].
Qed.
Print Assumptions C15_state_queries.

Theorem C15_transition_table : forall s, ws_next s = Ok (ws_next_spec s).
Proof. exact ws_next_table. Qed.
Print Assumptions C15_transition_table.

(* "quoted payloads survive escaping": for EVERY payload (all byte values), reading the escaped form
   back with the reference rule (backslash makes the next byte literal) gives the payload minus the
   documented single trailing newline, and the escaped form contains no bare quote and no dangling
   backslash, so `"` ++ escape p ++ `"` is one quoted token. *)
Theorem C15_escape_roundtrip : forall p : bytes,
  unescape (escape p) = strip_one_trailing_nl p /\ no_bare_quote (escape p) = true.
Proof. exact escape_roundtrip. Qed.
Print Assumptions C15_escape_roundtrip.

(* every scalar-like call (unquoted, ints, floats, bool, date, fmt) is: separator chosen by the state,
   the payload bytes verbatim, transition by the table *)
Theorem C15_scalar_call_shape : forall c w data,
  write_raw c w data = WOk (epi_state (pre_state w)) (pre_bytes c w ++ data ++ []) /\
  write_quoted c w data = WOk (epi_state (pre_state w)) (pre_bytes c w ++ ([QUOTE] ++ escape data ++ [QUOTE]) ++ []).
Proof. intros. split; [apply write_raw_shape | apply write_quoted_shape]. Qed.
Print Assumptions C15_scalar_call_shape.

(* "expecting_key() ... reflect the calls made so far", for WELL-FORMED call lists: [wf_fields] = keys
   (any scalar-like call) followed by an optional operator (any of the 8) and a value; values are
   scalar-like calls (unquoted, quoted, bool, i32/u32/i64/u64, f32/f64 with or without precision,
   date, fmt), containers opened with write_object_start / write_array_start and closed in balance,
   or a header followed by a container; arbitrary nesting.  For every such list, every configuration
   and float oracle: no call returns Err, depth() is back to 0 and expecting_key() is true at the
   end.  (The mutual statement behind it, [wf_calls_state], gives the same for every value / field
   list started at any depth: a value in an object leaves the writer expecting a key, a value in an
   array leaves it at an array value, depth restored.)
   PARTIAL with respect to the property's quantifier: write_start (unknown container kind) and
   start_mixed_mode are not covered by this theorem -- the latter cannot be: see known_findings.json
   (calls-mixed-nested-op, calls-mixed-mode-lost); write_rgb is covered through
   [rgb_is_header_array] (it is literally header "rgb" + array of u32). *)
Theorem C15_wellformed_calls_state_partial :
  forall (fdisp : bool -> N -> option N -> bytes) (c : cfg) (fs : list call), wf_fields fs ->
  exists out log w', run fdisp c fs = Ok (out, log)
    /\ Forall (fun e => fst e = false) log /\ last (map snd log) wr_init = w'
    /\ q_depth w' = 0 /\ q_expecting_key w' = true.
Proof. exact wf_document_state. Qed.
Print Assumptions C15_wellformed_calls_state_partial.

Theorem C15_rgb_is_header_array : forall fdisp c w r g b a,
  exec fdisp c w [CRgb r g b a] =
  exec fdisp c w ([CHeader RGB; CArrayStart; CU32 r; CU32 g; CU32 b] ++ (match a with Some x => [CU32 x] | None => [] end) ++ [CEnd]).
Proof. exact rgb_is_header_array. Qed.
Print Assumptions C15_rgb_is_header_array.

(* non-vacuity of wf_fields: data = { a = 1  "q" < { x } } *)
Example C15_wf_nonvacuous :
  wf_fields ([CUnquoted [100]] ++ [COperator Equal] ++
             (CObjectStart :: ([CUnquoted [97]] ++ [] ++ [CI32 1%Z] ++
                               ([CQuoted [113]] ++ [COperator LessThan] ++ (CArrayStart :: ([CUnquoted [120]] ++ []) ++ [CEnd]) ++ []))
                           ++ [CEnd]) ++ []).
Proof.
  apply (WF_cons (CUnquoted [100]) [COperator Equal]); [reflexivity | right; eexists; reflexivity | | constructor].
  apply WV_cont, WC_obj.
  apply (WF_cons (CUnquoted [97]) [] [CI32 1%Z]); [reflexivity | left; reflexivity | apply WV_scalar; reflexivity |].
  apply (WF_cons (CQuoted [113]) [COperator LessThan]); [reflexivity | right; eexists; reflexivity | | constructor].
  apply WV_cont, WC_arr. apply (WVs_cons [CUnquoted [120]] []); [apply WV_scalar; reflexivity | constructor].
Qed.

(* non-vacuity: the counter on a concrete misordered history; a payload the round trip is about *)
Example C15_nonvacuous :
  depth_log 0 [CEnd; CStart; CRgb 1 2 3 None; CEnd; CEnd] = [(true, 0); (false, 1); (false, 1); (false, 0); (true, 0)]%nat
  /\ unescape (escape [34; 92; 10]) = [34; 92].
Proof. split; reflexivity. Qed.
