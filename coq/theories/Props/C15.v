(* C15 — Well-formed sequences of writer calls parse back to exactly what was written.
   Statements only; every proof is [exact lemma].  The text parser is modelled by another family
   (C01/C06); the clauses "the output parses to the described structure", "integers read back
   exactly", "floats within 2 ulp" are evaluated by oracles on the implementation (props/C15.py).
   Proved here, over the model the correspondence check runs (Writer.v): *)
From JV Require Import Bytes Tables TextTok Date Writer.
From JV.proofs Require Import WriterProofs.
Open Scope N_scope.

(* "Misordered calls ... never a panic": EVERY call history (any length, any order, any payload bytes),
   every indent configuration, every float-printing oracle: the run completes -- no Panic (table
   index, discriminant), no OOB, no OutOfFuel.  An end without a start is the only Err. *)
Theorem C15_no_panic : forall (fdisp : bool -> N -> option N -> bytes) (c : cfg) (calls : list call),
  exists r, run fdisp c calls = Ok r.
Proof. exact run_total. Qed.
Print Assumptions C15_no_panic.

(* "depth() ... always reflect the calls made so far": after every call of every history, depth() and
   whether the call returned Err are exactly the counter [depth_log] over the call prefix
   (open +1; close -1, or Err at 0 leaving the writer unchanged; everything else, incl. write_rgb, 0). *)
Theorem C15_depth_is_counter : forall (fdisp : bool -> N -> option N -> bytes) c calls out log,
  run fdisp c calls = Ok (out, log) ->
  map (fun ew => (fst ew, length (w_depth (snd ew)))) log = depth_log 0 calls.
Proof. intros fdisp c calls out log H. exact (run_depth_log fdisp c calls wr_init out log H). Qed.
Print Assumptions C15_depth_is_counter.

(* the state queries are exactly these sets of states (tables regenerated from writer.rs), and the
   transition table is exactly this map: breaks when writer.rs changes them *)
Theorem C15_state_queries : forall w,
  q_expecting_key w = (match w_state w with WKey | WFirstKey => true | _ => false end) /\
  q_at_unknown_start w = (match w_state w with WFirstUnknown => true | _ => false end) /\
  q_at_array_value w = (match w_state w with WArrayValue => true | _ => false end) /\
  q_depth w = N.of_nat (length (w_depth w)).
Proof.
  intros w. repeat split;
    [apply q_expecting_key_spec | apply q_at_unknown_start_spec | apply q_at_array_value_spec].
Qed.
Print Assumptions C15_state_queries.

Theorem C15_transition_table : forall s, ws_next s = Ok (ws_next_spec s).
Proof. exact ws_next_table. Qed.
Print Assumptions C15_transition_table.

(* "quoted payloads survive escaping": for EVERY payload (all byte values), reading the escaped form
   back with the reference rule (backslash makes the next byte literal) gives the payload minus the
   documented single trailing newline, and the escaped form contains no bare quote and no dangling
   backslash, so `"` ++ escape p ++ `"` is one quoted token. *)
Theorem C15_escape_roundtrip : forall p : bytes,
  unescape (escape p) = strip_one_trailing_nl p /\ no_bare_quote (escape p) = true.
Proof. exact escape_roundtrip. Qed.
Print Assumptions C15_escape_roundtrip.

(* every scalar-like call (unquoted, ints, floats, bool, date, fmt) is: separator chosen by the state,
   the payload bytes verbatim, transition by the table *)
Theorem C15_scalar_call_shape : forall c w data,
  write_raw c w data = WOk (epi_state (pre_state w)) (pre_bytes c w ++ data ++ []) /\
  write_quoted c w data = WOk (epi_state (pre_state w)) (pre_bytes c w ++ ([QUOTE] ++ escape data ++ [QUOTE]) ++ []).
Proof. intros. split; [apply write_raw_shape | apply write_quoted_shape]. Qed.
Print Assumptions C15_scalar_call_shape.

(* non-vacuity: the counter on a concrete misordered history; a payload the round trip is about *)
Example C15_nonvacuous :
  depth_log 0 [CEnd; CStart; CRgb 1 2 3 None; CEnd; CEnd] = [(true, 0); (false, 1); (false, 1); (false, 0); (true, 0)]%nat
  /\ unescape (escape [34; 92; 10]) = [34; 92].
Proof. split; reflexivity. Qed.
