(* C15 placeholder, replaced below *)
From JV Require Import Bytes Tables TextTok Writer.
From JV.proofs Require Import WriterProofs.
Theorem C15_ws_next_table : forall s, ws_next s = Ok (ws_next_spec s).
Proof. exact ws_next_table. Qed.
