(* C20 at the binary-reader level -- I/O failures of the underlying Read surface as errors.
   Statements only.  Models: BufWin (Read with a schedule of [Data n | Fail] events, buffer
   window), BinReader (rdr_next / rdr_read / rdr_read_bytes / rdr_skip_container, stream_run,
   run_stream), BinLexer (slice lexer: lx_next_token, run_lexer, tok_fits / fits).
   All C08 theorems assume [no_fail sched = true]; here the schedule is ARBITRARY.

   steq s1 s2  = s2 is a fault-free twin of s1: same window (fst), same unread data and delivered
                 count, and sched (snd s2) = clean (sched (snd s1)) (Fail events dropped).
   sinv input s = stream_inv input (fst s) (snd s): input = consumed prefix ++ window ++ unread.
   st_okf s d pos c = C08's st_ok without the no_fail clause: pending data d, position pos, capacity c.
   Proof route: fault erasure; the faulty state and its twin run in lock step through every
   iteration of the step loops until the faulty one returns E_Io; C08 applies to the twin.

   Proved (every statement for EVERY schedule):
     * C20_bin_next_fault_sound / _read_ / _read_bytes_ / _skip_container_fault_sound: one call =
       Err E_Io with an intact stream view and a position inside the input, or exactly the twin's
       outcome (token, None, ANY error incl. BufferFull) with twin successor states.  No buffer-size
       hypothesis.
     * C20_bin_next_fault_lexer: with C08's hypotheses minus no_fail, next() = Err E_Io from a
       state with the same pending data / position / capacity, or the slice lexer's next_token.
     * C20_bin_run_prefix / C20_bin_stream_lockstep / C20_bin_stream_fault_prefix /
       C20_bin_stream_fault_exact: a run is the twin's run (= run_lexer when the buffer fits), or a
       prefix of its tokens followed by (Err E_Io, p), p inside the input; with a fitting buffer p
       is exactly the slice lexer's cursor after the returned tokens.
     * C20_bin_persistent_errors_call / _run_end / _run / C20_bin_stream_fail_first: while the Read
       is failing no call reports a clean end, LexEof or a crash; tokens come from the buffer
       without touching the Read; the run ends with E_Io (or BufferFull / InvalidRgb decided from
       buffered bytes alone).
     * C20_bin_position_le_delivered / _position_new / _delivered_exact: position + buffered =
       delivered is kept by every operation into whatever state it returns.
     * C20_bin_next_retry / C20_bin_read_bytes_retry_position: next() and read_bytes() are resumable
       after E_Io at every position (nothing is consumed before the result is complete).
     * C20_bin_skip_container_fault_lands: skip_container lands where token counting lands, or
       reports E_Io from inside the pending data.
   Not claimed / finding: skip_container is NOT resumable after E_Io (the nesting depth is lost):
   C20_bin_ex_finding_skip_container_retry. *)
From JV Require Import Bytes Tables BinPrim BufWin BinLexer BinReader.
From JV.proofs Require Import BinLexProofs BufWinProofs BinStreamProofs FaultProofs FaultBinProofs.
From Coq Require Import List NArith ZArith.
Import ListNotations.
Open Scope nat_scope.

(* ---------- one call against the fault-free twin: no side condition on buffer size ---------- *)
(* next(): Err E_Io with an intact stream view and a position inside the input, or exactly the
   twin's outcome (token / None / any error, BufferFull included) with twin successor states *)
Theorem C20_bin_next_fault_sound : forall input s1 s2, steq s1 s2 -> sinv input s1 ->
  (fst (rdr_next s1) = Err E_Io /\ sinv input (snd (rdr_next s1)) /\
   rdr_position (snd (rdr_next s1)) <= length input) \/
  (fst (rdr_next s1) = fst (rdr_next s2) /\ steq (snd (rdr_next s1)) (snd (rdr_next s2)) /\
   sinv input (snd (rdr_next s1))).
Proof. exact bin_next_fault_sound. Qed.
Print Assumptions C20_bin_next_fault_sound.

Theorem C20_bin_read_fault_sound : forall input s1 s2, steq s1 s2 -> sinv input s1 ->
  (fst (rdr_read s1) = Err E_Io /\ sinv input (snd (rdr_read s1)) /\
   rdr_position (snd (rdr_read s1)) <= length input) \/
  (fst (rdr_read s1) = fst (rdr_read s2) /\ steq (snd (rdr_read s1)) (snd (rdr_read s2)) /\
   sinv input (snd (rdr_read s1))).
Proof. exact bin_read_fault_sound. Qed.
Print Assumptions C20_bin_read_fault_sound.

Theorem C20_bin_read_bytes_fault_sound : forall input n s1 s2, steq s1 s2 -> sinv input s1 ->
  (fst (rdr_read_bytes n s1) = Err E_Io /\ sinv input (snd (rdr_read_bytes n s1)) /\
   rdr_position (snd (rdr_read_bytes n s1)) <= length input) \/
  (fst (rdr_read_bytes n s1) = fst (rdr_read_bytes n s2) /\
   steq (snd (rdr_read_bytes n s1)) (snd (rdr_read_bytes n s2)) /\
   sinv input (snd (rdr_read_bytes n s1))).
Proof. exact bin_read_bytes_fault_sound. Qed.
Print Assumptions C20_bin_read_bytes_fault_sound.

Theorem C20_bin_skip_container_fault_sound : forall input s1 s2, steq s1 s2 -> sinv input s1 ->
  (fst (rdr_skip_container s1) = Err E_Io /\ sinv input (snd (rdr_skip_container s1)) /\
   rdr_position (snd (rdr_skip_container s1)) <= length input) \/
  (fst (rdr_skip_container s1) = fst (rdr_skip_container s2) /\
   steq (snd (rdr_skip_container s1)) (snd (rdr_skip_container s2)) /\
   sinv input (snd (rdr_skip_container s1))).
Proof. exact bin_skip_container_fault_sound. Qed.
Print Assumptions C20_bin_skip_container_fault_sound.

(* every state has a fault-free twin; a fresh reader's twin is the fresh reader over clean sch *)
Theorem C20_bin_twin_exists : forall s, steq s (twin s) /\ no_fail (sched (snd (twin s))) = true.
Proof. intros s. split; [apply steq_twin|apply twin_no_fail]. Qed.
Theorem C20_bin_twin_new : forall capv sch d, steq (rdr_new capv sch d) (rdr_new capv (clean sch) d).
Proof. exact steq_new. Qed.
Theorem C20_bin_clean_no_fail : forall sch, no_fail (clean sch) = true.
Proof. exact clean_no_fail_b. Qed.
Theorem C20_bin_clean_id : forall sch, no_fail sch = true -> clean sch = sch.
Proof. exact clean_id_b. Qed.
Theorem C20_bin_sinv_new : forall capv sch input, sinv input (rdr_new capv sch input).
Proof. exact sinv_new. Qed.

(* every result of every operation (token, end, ANY error) carries an intact stream view *)
Theorem C20_bin_next_keeps_stream : forall input s, sinv input s -> sinv input (snd (rdr_next s)).
Proof. exact rdr_next_sinv. Qed.
Theorem C20_bin_read_bytes_keeps_stream : forall input n s, sinv input s -> sinv input (snd (rdr_read_bytes n s)).
Proof. exact rdr_read_bytes_sinv. Qed.
Theorem C20_bin_skip_container_keeps_stream : forall input s, sinv input s -> sinv input (snd (rdr_skip_container s)).
Proof. exact rdr_skip_container_sinv. Qed.

(* ---------- one call against the slice lexer (C08_next_eq_lexer without no_fail) ---------- *)
(* Under ANY schedule next() either returns Err E_Io and stands exactly where it stood (same
   pending data, position and capacity: the call can be retried), or returns what the slice
   lexer's next_token returns on the pending data, the states staying related. *)
Theorem C20_bin_next_fault_lexer : forall s l c,
  st_okf s (lx_data l) (lx_position l) c -> length (lx_data l) <= lx_orig l -> tok_fits c (lx_data l) = true ->
  (exists s', rdr_next s = (Err E_Io, s') /\ st_okf s' (lx_data l) (lx_position l) c) \/
  (exists s', rdr_next s = (fst (lx_next_token l), s') /\
              st_okf s' (lx_data (snd (lx_next_token l))) (lx_position (snd (lx_next_token l))) c).
Proof. exact bin_next_fault_cursor. Qed.
Print Assumptions C20_bin_next_fault_lexer.

(* ---------- non-vacuity ---------- *)
(* id 10285, '=', u32 7 read through a 16-byte buffer; the Read delivers 2 bytes, fails, then
   delivers the rest.  The first call succeeds although a Fail is scheduled later, the second
   call hits the fault. *)
Definition exb_input : bytes := concat (map write_token [BId 10285%N; BEqual; BU32 7%N]).
Definition exb_sched : list event := [Data 2; Fail; Data 10].
Definition exb_s0 : rstate := rdr_new 16 exb_sched exb_input.
Definition exb_s1 : rstate :=
  (mkbw 16 [] 2 0, mkrd [1; 0; 20; 0; 7; 0; 0; 0]%N [Fail; Data 10] 1 2).
Definition exb_s2 : rstate :=
  (mkbw 16 [] 0 2, mkrd [1; 0; 20; 0; 7; 0; 0; 0]%N [Data 10] 2 2).

Example C20_bin_ex_success_before_fail :
  rdr_next exb_s0 = (Ok (Some (BId 10285%N)), exb_s1) /\ In Fail (sched (snd exb_s0)) /\
  sinv exb_input exb_s0 /\ st_okf exb_s0 exb_input 0 16 /\ tok_fits 16 exb_input = true.
Proof.
  split; [vm_compute; reflexivity|]. split; [right; left; reflexivity|]. split; [apply sinv_new|].
  split; vm_compute; auto.
Qed.

Example C20_bin_ex_io_error :
  rdr_next exb_s1 = (Err E_Io, exb_s2) /\ sinv exb_input exb_s1 /\
  st_okf exb_s1 (skipn 2 exb_input) 2 16 /\ tok_fits 16 (skipn 2 exb_input) = true /\
  fst (rdr_next (twin exb_s1)) = Ok (Some BEqual).
Proof.
  split; [vm_compute; reflexivity|]. split; [exists [45; 40]%N; split; reflexivity|].
  split; [vm_compute; auto|]. split; vm_compute; reflexivity.
Qed.

Example C20_bin_ex_read_bytes :
  fst (rdr_read_bytes 4 exb_s0) = Err E_Io /\
  fst (rdr_read_bytes 2 exb_s0) = Ok [45; 40]%N /\ In Fail (sched (snd (snd (rdr_read_bytes 2 exb_s0)))).
Proof. split; [vm_compute; reflexivity|]. split; [vm_compute; reflexivity|]. vm_compute. left. reflexivity. Qed.

(* skipping 'a = 7 }' (the inside of a container) followed by one more id: the fault is hit when
   the closing brace is not yet buffered, and is harmless when it is *)
Definition exk_input : bytes := concat (map write_token [BId 10285%N; BEqual; BU32 7%N; BClose; BId 10286%N]).
Example C20_bin_ex_skip_container :
  fst (rdr_skip_container (rdr_new 16 [Data 11; Fail; Data 10] exk_input)) = Err E_Io /\
  fst (rdr_skip_container (rdr_new 16 [Data 12; Fail; Data 10] exk_input)) = Ok tt /\
  rdr_position (snd (rdr_skip_container (rdr_new 16 [Data 12; Fail; Data 10] exk_input))) = 12 /\
  In Fail (sched (snd (snd (rdr_skip_container (rdr_new 16 [Data 12; Fail; Data 10] exk_input))))).
Proof.
  split; [vm_compute; reflexivity|]. split; [vm_compute; reflexivity|]. split; [vm_compute; reflexivity|].
  vm_compute. left. reflexivity.
Qed.

(* ---------- the whole run ---------- *)
(* run_res = (tokens, (how the run ended, final position)).  No hypothesis on buffer size, input
   or fuel: the run under faults is the run of the twin (BufferFull of a too small buffer
   included), or a prefix of the twin's token list followed by the terminal event Err E_Io at a
   position inside the input.  (The prefix is the whole list when the failing read is the one that
   would have found the end of the data: C20_bin_ex_run_all_tokens_then_io.) *)
Theorem C20_bin_run_prefix : forall input fuel s1 s2, steq s1 s2 -> sinv input s1 ->
  stream_run fuel s1 = stream_run fuel s2 \/
  exists pre suf p, stream_run fuel s1 = (pre, (Err E_Io, p)) /\ fst (stream_run fuel s2) = pre ++ suf /\
                    p <= length input.
Proof. exact stream_run_prefix. Qed.
Print Assumptions C20_bin_run_prefix.

Theorem C20_bin_stream_lockstep : forall capv sch input,
  run_stream capv sch input = run_stream capv (clean sch) input \/
  exists pre suf p, run_stream capv sch input = (pre, (Err E_Io, p)) /\
                    fst (run_stream capv (clean sch) input) = pre ++ suf /\ p <= length input.
Proof. exact run_stream_lock. Qed.
Print Assumptions C20_bin_stream_lockstep.

(* with a buffer that fits the input (C08's hypothesis): the slice lexer's result, or a prefix of
   the slice lexer's tokens followed by the I/O error *)
Theorem C20_bin_stream_fault_prefix : forall input sch capv, fits capv input = true ->
  run_stream capv sch input = run_lexer input \/
  exists pre suf p, run_stream capv sch input = (pre, (Err E_Io, p)) /\
                    fst (run_lexer input) = pre ++ suf /\ p <= length input.
Proof. exact bin_stream_fault_prefix. Qed.
Print Assumptions C20_bin_stream_fault_prefix.

(* the two cases are exclusive: a slice-lexer run ends with a clean end, LexEof or InvalidRgb
   (OutOfFuel is part of the model's vocabulary only), never with E_Io *)
Theorem C20_bin_lexer_run_end : forall fuel l,
  let o := fst (snd (lex_run fuel l)) in
  o = Ok tt \/ o = Err E_LexEof \/ o = Err E_InvalidRgb \/ o = OutOfFuel.
Proof. exact lex_run_end. Qed.
Theorem C20_bin_lexer_never_io : forall fuel l, fst (snd (lex_run fuel l)) <> Err E_Io.
Proof. exact lex_run_never_io. Qed.

(* ---------- a failing Read ---------- *)
(* While the next event of the schedule is Fail (cap > 0 = a real buffer; cap 0 is the slice
   window, which never reads): next() returns a token only from already-buffered bytes, without
   touching the Read; it never reports a clean end, LexEof or a crash; the errors are E_Io (the
   failed read: the schedule advances by that one event, pending data / position / capacity
   unchanged), BufferFull and InvalidRgb (decided from the window alone, state unchanged). *)
Theorem C20_bin_persistent_errors_call : forall s tl,
  sched (snd s) = Fail :: tl -> 0 < cap (fst s) ->
  match fst (rdr_next s) with
  | Ok (Some _) => snd (snd (rdr_next s)) = snd s /\ cap (fst (snd (rdr_next s))) = cap (fst s)
  | Ok None => False
  | Err e => (e = E_Io /\ snd (snd (rdr_next s)) = rd_after_fail (snd s) /\ kept s (snd (rdr_next s))) \/
             (e = E_BufferFull /\ snd (rdr_next s) = s) \/ (e = E_InvalidRgb /\ snd (rdr_next s) = s)
  | _ => False
  end.
Proof. exact next_failing. Qed.
Print Assumptions C20_bin_persistent_errors_call.

Theorem C20_bin_persistent_errors_run_end : forall fuel s tl,
  sched (snd s) = Fail :: tl -> 0 < cap (fst s) ->
  let o := fst (snd (stream_run fuel s)) in
  o = Err E_Io \/ o = Err E_BufferFull \/ o = Err E_InvalidRgb \/ o = OutOfFuel.
Proof. exact stream_run_failing. Qed.
Print Assumptions C20_bin_persistent_errors_run_end.

(* against the slice lexer, from any state with a failing Read and a buffer that fits the pending
   data: the run returns the tokens already buffered (a prefix of the lexer's tokens) and then
   the I/O error; the only other possibility is that the buffered bytes already decide the
   lexer's own InvalidRgb (or that the fuel given is too small for the lexer itself) *)
Theorem C20_bin_persistent_errors_run : forall fuel s l c tl,
  st_okf s (lx_data l) (lx_position l) c -> length (lx_data l) <= lx_orig l ->
  fits_fuel fuel c (lx_data l) = true -> 0 < c ->
  sched (snd s) = Fail :: tl ->
  (stream_run fuel s = lex_run fuel l /\
   (fst (snd (lex_run fuel l)) = Err E_InvalidRgb \/ fst (snd (lex_run fuel l)) = OutOfFuel)) \/
  exists pre suf p, stream_run fuel s = (pre, (Err E_Io, p)) /\ fst (lex_run fuel l) = pre ++ suf /\
                    p <= lx_orig l.
Proof. exact persistent_run_lexer. Qed.
Print Assumptions C20_bin_persistent_errors_run.

Theorem C20_bin_stream_fail_first : forall input capv tl, 0 < capv ->
  run_stream capv (Fail :: tl) input = ([], (Err E_Io, 0)).
Proof. exact bin_stream_fail_first. Qed.
Print Assumptions C20_bin_stream_fail_first.

(* ---------- positions never exceed the bytes delivered ---------- *)
(* finv s = fill_inv (fst s) (snd s): position + buffered bytes = bytes delivered by the Read;
   pos_ok s = finv s /\ rdr_position s <= delivered (snd s) *)
Theorem C20_bin_position_new : forall capv sch input, finv (rdr_new capv sch input).
Proof. exact finv_new. Qed.
Theorem C20_bin_position_le_delivered : forall s, finv s ->
  pos_ok (snd (rdr_next s)) /\ pos_ok (snd (rdr_read s)) /\
  (forall n, pos_ok (snd (rdr_read_bytes n s))) /\ pos_ok (snd (rdr_skip_container s)).
Proof. exact bin_position_le_delivered. Qed.
Print Assumptions C20_bin_position_le_delivered.
(* together with the stream view: delivered is exactly the number of bytes taken from the data *)
Theorem C20_bin_delivered_exact : forall input s, sinv input s -> finv s ->
  delivered (snd s) + length (rest (snd s)) = length input.
Proof. exact delivered_exact. Qed.

(* ---------- retry ---------- *)
(* The binary reader consumes nothing before a token is complete, so it is resumable after every
   I/O error of next(): the reader returned with E_Io holds the same pending data at the same
   position, and when the rest of the schedule is fault-free the retried call returns the slice
   lexer's answer for the call that failed.  (For an arbitrary rest of the schedule apply
   C20_bin_next_fault_lexer to s'.) *)
Theorem C20_bin_next_retry : forall s l c s',
  st_okf s (lx_data l) (lx_position l) c -> length (lx_data l) <= lx_orig l -> tok_fits c (lx_data l) = true ->
  rdr_next s = (Err E_Io, s') ->
  st_okf s' (lx_data l) (lx_position l) c /\
  (no_fail (sched (snd s')) = true ->
   exists s'', rdr_next s' = (fst (lx_next_token l), s'') /\
               st_ok s'' (lx_data (snd (lx_next_token l))) (lx_position (snd (lx_next_token l))) c).
Proof. exact bin_next_retry_cursor. Qed.
Print Assumptions C20_bin_next_retry.

Theorem C20_bin_read_bytes_retry_position : forall n s s' d pos c,
  st_okf s d pos c -> rdr_read_bytes n s = (Err E_Io, s') -> st_okf s' d pos c.
Proof. exact bin_read_bytes_io_kept. Qed.

(* ---------- non-vacuity, runs ---------- *)
Example C20_bin_ex_run :
  run_stream 16 exb_sched exb_input = ([BId 10285%N], (Err E_Io, 2)) /\
  run_lexer exb_input = ([BId 10285%N; BEqual; BU32 7%N], (Ok tt, 10)) /\ fits 16 exb_input = true.
Proof. repeat split; vm_compute; reflexivity. Qed.

(* a schedule with a fault that is never reached: the run is the fault-free run *)
Example C20_bin_ex_run_unreached_fault :
  run_stream 16 [Data 20; Data 1; Fail] exb_input = run_lexer exb_input.
Proof. vm_compute. reflexivity. Qed.

(* the fault hits the read that would have found the end of the data: all tokens, then E_Io *)
Example C20_bin_ex_run_all_tokens_then_io :
  run_stream 16 [Data 20; Fail] exb_input = ([BId 10285%N; BEqual; BU32 7%N], (Err E_Io, 10)).
Proof. vm_compute. reflexivity. Qed.

(* lockstep with a buffer that is too small (the 6-byte u32 token through 4 bytes): the twin
   ends with BufferFull; an unreached fault changes nothing, a reached one cuts the run *)
Example C20_bin_ex_lockstep_small_buffer :
  fits 4 exb_input = false /\
  run_stream 4 [Data 1; Data 1; Data 1; Data 1; Data 1; Data 1; Data 1; Data 1; Fail] exb_input
    = ([BId 10285%N; BEqual], (Err E_BufferFull, 4)) /\
  run_stream 4 [Data 2; Data 2; Fail] exb_input = ([BId 10285%N; BEqual], (Err E_Io, 4)) /\
  run_stream 4 (clean [Data 2; Data 2; Fail]) exb_input = ([BId 10285%N; BEqual], (Err E_BufferFull, 4)).
Proof. repeat split; vm_compute; reflexivity. Qed.

(* the hypotheses of C20_bin_persistent_errors_run hold at exb_s1 (the Read is failing, nothing is
   buffered): the run from there is the I/O error *)
Example C20_bin_ex_persistent :
  let l := mklx (skipn 2 exb_input) 10 in
  sched (snd exb_s1) = Fail :: [Data 10] /\ st_okf exb_s1 (lx_data l) (lx_position l) 16 /\
  length (lx_data l) <= lx_orig l /\ fits_fuel 9 16 (lx_data l) = true /\
  stream_run 9 exb_s1 = ([], (Err E_Io, 2)) /\ lex_run 9 l = ([BEqual; BU32 7%N], (Ok tt, 10)).
Proof. cbv zeta. split; [reflexivity|]. split; [vm_compute; auto|]. split; [vm_compute; repeat constructor|]. repeat split; vm_compute; reflexivity. Qed.

(* the other branch of C20_bin_persistent_errors_run: everything is buffered, the Read is
   failing, and the buffered bytes hold a malformed rgb block ('=' where '}' is expected) *)
Definition exr_input : bytes :=
  concat (map write_token [BId 10285%N; BEqual]) ++
  [67; 2; 3; 0; 20; 0; 1; 0; 0; 0; 20; 0; 1; 0; 0; 0; 20; 0; 1; 0; 0; 0; 1; 0]%N.
Example C20_bin_ex_persistent_invalid_rgb :
  run_stream 32 [Data 30; Fail] exr_input = ([BId 10285%N; BEqual], (Err E_InvalidRgb, 4)) /\
  run_lexer exr_input = ([BId 10285%N; BEqual], (Err E_InvalidRgb, 4)).
Proof. split; vm_compute; reflexivity. Qed.

(* retry after the fault of C20_bin_ex_io_error: the retried call returns '=' *)
Example C20_bin_ex_retry :
  rdr_next exb_s1 = (Err E_Io, exb_s2) /\ no_fail (sched (snd exb_s2)) = true /\
  fst (rdr_next exb_s2) = Ok (Some BEqual) /\
  fst (lx_next_token (mklx (skipn 2 exb_input) 10)) = Ok (Some BEqual) /\
  rdr_position (snd (rdr_next exb_s2)) = 4.
Proof. repeat split; vm_compute; reflexivity. Qed.

Example C20_bin_ex_position :
  finv exb_s0 /\ finv exb_s1 /\ finv exb_s2 /\ delivered (snd exb_s2) = 2 /\ rdr_position exb_s2 = 2.
Proof. repeat split. Qed.

(* ---------- skip_container against its fault-free specification (C09_bin_reader_skip_lands) ---------- *)
(* within d pos c b r: the reader (b, r) stands inside the data d that was pending at position
   pos: d = skipped prefix ++ window ++ unread, position = pos + |skipped prefix|, capacity c.
   Under ANY schedule, called just after an Open with a buffer fitting the pending data and the
   matching close present: the skip lands exactly where token counting lands, or reports the I/O
   error from a position inside the pending data. *)
Theorem C20_bin_skip_container_fault_lands : forall s d pos c r,
  st_okf s d pos c -> fits c d = true -> balanced_read d = Some r ->
  (exists s', rdr_skip_container s = (Err E_Io, s') /\ within d pos c (fst s') (snd s')) \/
  (exists s', rdr_skip_container s = (Ok tt, s') /\ st_okf s' r (pos + (length d - length r)) c).
Proof. exact bin_skip_container_fault_lands. Qed.
Print Assumptions C20_bin_skip_container_fault_lands.

(* FINDING bin-skip-container-not-resumable (a limitation, reproduced by the model; nothing is
   claimed about retrying skip_container): the nesting depth is a local of skip_container and is
   lost when the call returns E_Io.  Body '{ } } id' (a container holding one nested container):
   the fault hits after the inner Open was consumed; the retried call starts again at depth 1,
   takes the inner Close for the matching one and returns Ok at position 4 instead of 6. *)
Definition exn_body : bytes := concat (map write_token [BOpen; BClose; BClose; BId 10285%N]).
Example C20_bin_ex_finding_skip_container_retry :
  balanced_read exn_body = Some [45; 40]%N /\ fits 16 exn_body = true /\
  let r1 := rdr_skip_container (rdr_new 16 [Data 2; Fail; Data 10] exn_body) in
  fst r1 = Err E_Io /\ rdr_position (snd r1) = 2 /\
  fst (rdr_skip_container (snd r1)) = Ok tt /\ rdr_position (snd (rdr_skip_container (snd r1))) = 4 /\
  rdr_position (snd (rdr_skip_container (rdr_new 16 [Data 2; Data 10] exn_body))) = 6.
Proof. cbv zeta. repeat split; vm_compute; reflexivity. Qed.

(* ---------- the run against the slice lexer with the exact error position ---------- *)
(* lx_position l' is the slice lexer's cursor after the tokens [pre]: the lexer's own run is [pre]
   followed by its run from l' *)
Theorem C20_bin_run_fault_exact : forall fuel s l c,
  st_okf s (lx_data l) (lx_position l) c -> length (lx_data l) <= lx_orig l ->
  fits_fuel fuel c (lx_data l) = true ->
  stream_run fuel s = lex_run fuel l \/
  exists pre l', stream_run fuel s = (pre, (Err E_Io, lx_position l')) /\
                 lx_orig l' = lx_orig l /\ length (lx_data l') <= lx_orig l' /\
                 lex_run fuel l = (pre ++ fst (lex_run (fuel - length pre) l'),
                                   snd (lex_run (fuel - length pre) l')).
Proof. exact stream_run_fault_lexer. Qed.
Print Assumptions C20_bin_run_fault_exact.

Theorem C20_bin_stream_fault_exact : forall input sch capv, fits capv input = true ->
  run_stream capv sch input = run_lexer input \/
  exists pre l', run_stream capv sch input = (pre, (Err E_Io, lx_position l')) /\
                 lx_orig l' = length input /\ length (lx_data l') <= length input /\
                 run_lexer input = (pre ++ fst (lex_run (S (length input) - length pre) l'),
                                    snd (lex_run (S (length input) - length pre) l')).
Proof. exact run_stream_fault_lexer. Qed.
Print Assumptions C20_bin_stream_fault_exact.

(* in C20_bin_ex_run the error position 2 is the lexer's cursor after [BId 10285] *)
Example C20_bin_ex_run_exact :
  let l' := mklx (skipn 2 exb_input) 10 in
  run_stream 16 exb_sched exb_input = ([BId 10285%N], (Err E_Io, lx_position l')) /\
  run_lexer exb_input = ([BId 10285%N] ++ fst (lex_run 10 l'), snd (lex_run 10 l')).
Proof. cbv zeta. split; vm_compute; reflexivity. Qed.
