(* C20 at the binary-reader level -- I/O failures of the underlying Read surface as errors.
   Statements only.  Models: BufWin (Read with a schedule of [Data n | Fail] events, buffer
   window), BinReader (rdr_next / rdr_read / rdr_read_bytes / rdr_skip_container, stream_run,
   run_stream), BinLexer (slice lexer: lx_next_token, run_lexer, tok_fits / fits).
   All C08 theorems assume [no_fail sched = true]; here the schedule is ARBITRARY.

   steq s1 s2  = s2 is a fault-free twin of s1: same window (fst), same unread data and delivered
                 count, and sched (snd s2) = clean (sched (snd s1)) (Fail events dropped).
   sinv input s = stream_inv input (fst s) (snd s): input = consumed prefix ++ window ++ unread.
   st_okf s d pos c = C08's st_ok without the no_fail clause: pending data d, position pos, capacity c.
   Proof route: fault erasure; the faulty state and its twin run in lock step through every
   iteration of the step loops until the faulty one returns E_Io; C08 applies to the twin. *)
From JV Require Import Bytes Tables BinPrim BufWin BinLexer BinReader.
From JV.proofs Require Import BinLexProofs BufWinProofs BinStreamProofs FaultProofs FaultBinProofs.
From Coq Require Import List NArith ZArith.
Import ListNotations.
Open Scope nat_scope.

(* ---------- one call against the fault-free twin: no side condition on buffer size ---------- *)
(* next(): Err E_Io with an intact stream view and a position inside the input, or exactly the
   twin's outcome (token / None / any error, BufferFull included) with twin successor states *)
Theorem C20_bin_next_fault_sound : forall input s1 s2, steq s1 s2 -> sinv input s1 ->
  (fst (rdr_next s1) = Err E_Io /\ sinv input (snd (rdr_next s1)) /\
   rdr_position (snd (rdr_next s1)) <= length input) \/
  (fst (rdr_next s1) = fst (rdr_next s2) /\ steq (snd (rdr_next s1)) (snd (rdr_next s2)) /\
   sinv input (snd (rdr_next s1))).
Proof. exact bin_next_fault_sound. Qed.
Print Assumptions C20_bin_next_fault_sound.

Theorem C20_bin_read_fault_sound : forall input s1 s2, steq s1 s2 -> sinv input s1 ->
  (fst (rdr_read s1) = Err E_Io /\ sinv input (snd (rdr_read s1)) /\
   rdr_position (snd (rdr_read s1)) <= length input) \/
  (fst (rdr_read s1) = fst (rdr_read s2) /\ steq (snd (rdr_read s1)) (snd (rdr_read s2)) /\
   sinv input (snd (rdr_read s1))).
Proof. exact bin_read_fault_sound. Qed.
Print Assumptions C20_bin_read_fault_sound.

Theorem C20_bin_read_bytes_fault_sound : forall input n s1 s2, steq s1 s2 -> sinv input s1 ->
  (fst (rdr_read_bytes n s1) = Err E_Io /\ sinv input (snd (rdr_read_bytes n s1)) /\
   rdr_position (snd (rdr_read_bytes n s1)) <= length input) \/
  (fst (rdr_read_bytes n s1) = fst (rdr_read_bytes n s2) /\
   steq (snd (rdr_read_bytes n s1)) (snd (rdr_read_bytes n s2)) /\
   sinv input (snd (rdr_read_bytes n s1))).
Proof. exact bin_read_bytes_fault_sound. Qed.
Print Assumptions C20_bin_read_bytes_fault_sound.

Theorem C20_bin_skip_container_fault_sound : forall input s1 s2, steq s1 s2 -> sinv input s1 ->
  (fst (rdr_skip_container s1) = Err E_Io /\ sinv input (snd (rdr_skip_container s1)) /\
   rdr_position (snd (rdr_skip_container s1)) <= length input) \/
  (fst (rdr_skip_container s1) = fst (rdr_skip_container s2) /\
   steq (snd (rdr_skip_container s1)) (snd (rdr_skip_container s2)) /\
   sinv input (snd (rdr_skip_container s1))).
Proof. exact bin_skip_container_fault_sound. Qed.
Print Assumptions C20_bin_skip_container_fault_sound.

(* every state has a fault-free twin; a fresh reader's twin is the fresh reader over clean sch *)
Theorem C20_bin_twin_exists : forall s, steq s (twin s) /\ no_fail (sched (snd (twin s))) = true.
Proof. intros s. split; [apply steq_twin|apply twin_no_fail]. Qed.
Theorem C20_bin_twin_new : forall capv sch d, steq (rdr_new capv sch d) (rdr_new capv (clean sch) d).
Proof. exact steq_new. Qed.
Theorem C20_bin_clean_no_fail : forall sch, no_fail (clean sch) = true.
Proof. exact clean_no_fail_b. Qed.
Theorem C20_bin_clean_id : forall sch, no_fail sch = true -> clean sch = sch.
Proof. exact clean_id_b. Qed.
Theorem C20_bin_sinv_new : forall capv sch input, sinv input (rdr_new capv sch input).
Proof. exact sinv_new. Qed.

(* every result of every operation (token, end, ANY error) carries an intact stream view *)
Theorem C20_bin_next_keeps_stream : forall input s, sinv input s -> sinv input (snd (rdr_next s)).
Proof. exact rdr_next_sinv. Qed.
Theorem C20_bin_read_bytes_keeps_stream : forall input n s, sinv input s -> sinv input (snd (rdr_read_bytes n s)).
Proof. exact rdr_read_bytes_sinv. Qed.
Theorem C20_bin_skip_container_keeps_stream : forall input s, sinv input s -> sinv input (snd (rdr_skip_container s)).
Proof. exact rdr_skip_container_sinv. Qed.

(* ---------- one call against the slice lexer (C08_next_eq_lexer without no_fail) ---------- *)
(* Under ANY schedule next() either returns Err E_Io and stands exactly where it stood (same
   pending data, position and capacity: the call can be retried), or returns what the slice
   lexer's next_token returns on the pending data, the states staying related. *)
Theorem C20_bin_next_fault_lexer : forall s l c,
  st_okf s (lx_data l) (lx_position l) c -> length (lx_data l) <= lx_orig l -> tok_fits c (lx_data l) = true ->
  (exists s', rdr_next s = (Err E_Io, s') /\ st_okf s' (lx_data l) (lx_position l) c) \/
  (exists s', rdr_next s = (fst (lx_next_token l), s') /\
              st_okf s' (lx_data (snd (lx_next_token l))) (lx_position (snd (lx_next_token l))) c).
Proof. exact bin_next_fault_cursor. Qed.
Print Assumptions C20_bin_next_fault_lexer.

(* ---------- non-vacuity ---------- *)
(* id 10285, '=', u32 7 read through a 16-byte buffer; the Read delivers 2 bytes, fails, then
   delivers the rest.  The first call succeeds although a Fail is scheduled later, the second
   call hits the fault. *)
Definition exb_input : bytes := concat (map write_token [BId 10285%N; BEqual; BU32 7%N]).
Definition exb_sched : list event := [Data 2; Fail; Data 10].
Definition exb_s0 : rstate := rdr_new 16 exb_sched exb_input.
Definition exb_s1 : rstate :=
  (mkbw 16 [] 2 0, mkrd [1; 0; 20; 0; 7; 0; 0; 0]%N [Fail; Data 10] 1 2).
Definition exb_s2 : rstate :=
  (mkbw 16 [] 0 2, mkrd [1; 0; 20; 0; 7; 0; 0; 0]%N [Data 10] 2 2).

Example C20_bin_ex_success_before_fail :
  rdr_next exb_s0 = (Ok (Some (BId 10285%N)), exb_s1) /\ In Fail (sched (snd exb_s0)) /\
  sinv exb_input exb_s0 /\ st_okf exb_s0 exb_input 0 16 /\ tok_fits 16 exb_input = true.
Proof.
  split; [vm_compute; reflexivity|]. split; [right; left; reflexivity|]. split; [apply sinv_new|].
  split; vm_compute; auto.
Qed.

Example C20_bin_ex_io_error :
  rdr_next exb_s1 = (Err E_Io, exb_s2) /\ sinv exb_input exb_s1 /\
  st_okf exb_s1 (skipn 2 exb_input) 2 16 /\ tok_fits 16 (skipn 2 exb_input) = true /\
  fst (rdr_next (twin exb_s1)) = Ok (Some BEqual).
Proof.
  split; [vm_compute; reflexivity|]. split; [exists [45; 40]%N; split; reflexivity|].
  split; [vm_compute; auto|]. split; vm_compute; reflexivity.
Qed.

Example C20_bin_ex_read_bytes :
  fst (rdr_read_bytes 4 exb_s0) = Err E_Io /\
  fst (rdr_read_bytes 2 exb_s0) = Ok [45; 40]%N /\ In Fail (sched (snd (snd (rdr_read_bytes 2 exb_s0)))).
Proof. split; [vm_compute; reflexivity|]. split; [vm_compute; reflexivity|]. vm_compute. left. reflexivity. Qed.

(* skipping 'a = 7 }' (the inside of a container) followed by one more id: the fault is hit when
   the closing brace is not yet buffered, and is harmless when it is *)
Definition exk_input : bytes := concat (map write_token [BId 10285%N; BEqual; BU32 7%N; BClose; BId 10286%N]).
Example C20_bin_ex_skip_container :
  fst (rdr_skip_container (rdr_new 16 [Data 11; Fail; Data 10] exk_input)) = Err E_Io /\
  fst (rdr_skip_container (rdr_new 16 [Data 12; Fail; Data 10] exk_input)) = Ok tt /\
  rdr_position (snd (rdr_skip_container (rdr_new 16 [Data 12; Fail; Data 10] exk_input))) = 12 /\
  In Fail (sched (snd (snd (rdr_skip_container (rdr_new 16 [Data 12; Fail; Data 10] exk_input))))).
Proof. repeat split; try (vm_compute; reflexivity). vm_compute. left. reflexivity. Qed.
