(* C12 (wave 4) — statements only; every proof is [exact lemma].
   Vocabulary beyond Props/C12.v: EncodingRef.cp1252 = the Windows-1252 code page written out literally
   (0x80..0x9f block of the Unicode mapping file, the five undefined positions = C1 controls, identity
   elsewhere) -- independent of src/data.rs, which Tables.w1252 is generated from;
   EncodingRef.cp1252_reference d = flat_map (encode_utf8 ∘ cp1252) (unescape (trim_ascii_end d));
   EncodingRef.scalar_display = model of `impl Display for Scalar` (the other caller of decode_windows1252). *)
From JV Require Import Bytes Tables U64Swar Utf8 Encoding EncodingRef.
From JV.proofs Require Import Utf8Proofs EncodingProofs EncodingMoreProofs.
Open Scope N_scope.

(* ---- ONE statement per decoder, for EVERY byte string: no panic / unchecked site, output = reference mapping
        (over the literal code page resp. lossy decoding), output well-formed UTF-8, Borrowed exactly when the
        reference mapping leaves the trimmed input unchanged, and then the result IS the trimmed input ---- *)
Theorem C12_w1252_total : forall d, wf_bytes d ->
  exists c, decode_windows1252 d = Ok c /\
            cow_bytes c = cp1252_reference d /\
            valid_utf8 (cow_bytes c) = true /\
            (is_borrowed c = true <-> cp1252_reference d = trim_ascii_end d) /\
            (is_borrowed c = true -> c = Borrowed (trim_ascii_end d)).
Proof. exact w1252_full. Qed.
Print Assumptions C12_w1252_total.

Theorem C12_utf8_total : forall d, wf_bytes d ->
  exists c, decode_utf8 d = Ok c /\
            cow_bytes c = utf8_reference d /\
            valid_utf8 (cow_bytes c) = true /\
            (is_borrowed c = true <-> utf8_reference d = trim_ascii_end d) /\
            (is_borrowed c = true -> c = Borrowed (trim_ascii_end d)).
Proof. exact utf8_full. Qed.
Print Assumptions C12_utf8_total.

(* ---- the Cow variant against the reference itself ---- *)
Theorem C12_w1252_borrowed_iff_unchanged : forall d c, wf_bytes d ->
  decode_windows1252 d = Ok c -> (is_borrowed c = true <-> w1252_reference d = trim_ascii_end d).
Proof. exact w1252_borrowed_iff_unchanged. Qed.
Print Assumptions C12_w1252_borrowed_iff_unchanged.

Theorem C12_utf8_borrowed_iff_unchanged : forall d c, wf_bytes d ->
  decode_utf8 d = Ok c -> (is_borrowed c = true <-> utf8_reference d = trim_ascii_end d).
Proof. exact utf8_borrowed_iff_unchanged. Qed.
Print Assumptions C12_utf8_borrowed_iff_unchanged.

(* ---- the table generated from src/data.rs is the code page: all 256 entries (complete finite check) ---- *)
Theorem C12_table_is_cp1252 : forall b, b < 256 -> w1252 b = cp1252 b.
Proof. exact cp1252_table. Qed.
Print Assumptions C12_table_is_cp1252.

Theorem C12_reference_over_literal_code_page : forall d, wf_bytes d -> w1252_reference d = cp1252_reference d.
Proof. exact cp1252_reference_eq. Qed.

(* ---- trimming: exactly TAB LF FF CR SPACE (not VT 0x0b, not NUL, not 0x1c..0x1f, not 0x85 / 0xa0) ---- *)
Theorem C12_ascii_ws_exact : forall b,
  is_ascii_ws b = true <-> b = 9 \/ b = 10 \/ b = 12 \/ b = 13 \/ b = 32.
Proof. exact ascii_ws_exact. Qed.

Theorem C12_trim_idempotent : forall d, trim_ascii_end (trim_ascii_end d) = trim_ascii_end d.
Proof. exact trim_idem. Qed.

(* ---- the model of String::from_utf8_lossy, facts that do not mention its definition ---- *)
Theorem C12_lossy_keeps_valid_prefix : forall a b, valid_utf8 a = true -> lossy (a ++ b) = a ++ lossy b.
Proof. exact lossy_keeps_valid_prefix. Qed.
Print Assumptions C12_lossy_keeps_valid_prefix.

Theorem C12_lossy_ascii_from_input : forall b d, b <? 128 = true -> In b (lossy d) -> In b d.
Proof. exact lossy_ascii_from_input. Qed.

(* an ASCII byte occurs in the output exactly when it occurs in the input: replacement never produces or swallows one *)
Theorem C12_lossy_ascii_bytes : forall b d, b <? 128 = true -> (In b (lossy d) <-> In b d).
Proof. exact lossy_ascii_bytes. Qed.
Print Assumptions C12_lossy_ascii_bytes.

Theorem C12_lossy_idempotent : forall d, lossy (lossy d) = lossy d.
Proof. exact lossy_idempotent. Qed.

(* ---- Scalar's Display (src/scalar.rs), the other crate-internal caller of decode_windows1252 ---- *)
Theorem C12_scalar_display_spec : forall d,
  scalar_display d = if forallb is_ascii d then Ok (Some (unescape (trim_ascii_end d))) else Ok None.
Proof. exact scalar_display_spec. Qed.
Print Assumptions C12_scalar_display_spec.

(* non-vacuity: an Owned and a Borrowed instance of each total statement, the five holes of the code page *)
Example C12_more_nonvacuous :
  wf_bytes [128; 92; 159; 32] /\
  decode_windows1252 [128; 92; 159; 32] = Ok (Owned [226; 130; 172; 197; 184]) /\
  cp1252_reference [128; 92; 159; 32] = [226; 130; 172; 197; 184] /\
  decode_utf8 [97; 237; 160; 128; 9] = Ok (Owned [97; 239; 191; 189; 239; 191; 189; 239; 191; 189]) /\
  decode_utf8 [226; 130; 172; 12] = Ok (Borrowed [226; 130; 172]) /\
  utf8_reference [226; 130; 172; 12] = trim_ascii_end [226; 130; 172; 12] /\
  map cp1252 [129; 141; 143; 144; 157] = [129; 141; 143; 144; 157] /\
  scalar_display [97; 92; 34; 10] = Ok (Some [97; 34]).
Proof. repeat split; try reflexivity. repeat constructor. Qed.
