(* C09, wave 4 -- the SWAR helpers of util.rs that text skip_container uses (anchor
   "contains_zero_byte / count_chunk / repeat_byte", util.rs:42-84), for ALL 2^64 words / all
   8-byte chunks (not samples).  The lemmas are owned by the SWAR family and also pinned under C12;
   they are re-pinned here because util.rs is an anchor of C09.  Statements only. *)
From JV Require Import Bytes Tables U64Swar TextReader.
From JV.proofs Require Import SwarProofs TextSkipProofs.
From JV.proofs Require SwarArith.
Open Scope N_scope.

(* repeat_byte c = the word whose 8 lanes all hold c *)
Theorem C09_swar_repeat_byte : forall c, c < 256 -> repeat_byte c = le_word 8 (repeat c 8).
Proof. exact SwarArith.repeat_byte_spec. Qed.
Print Assumptions C09_swar_repeat_byte.

(* contains_zero_byte: exact for every 64-bit word (no false positive, no false negative) *)
Theorem C09_swar_contains_zero_byte_word : forall x, x < 2 ^ 64 ->
  contains_zero_byte x = existsb (fun b => b =? 0) (word_bytes 8 x).
Proof. exact contains_zero_byte_word. Qed.
Print Assumptions C09_swar_contains_zero_byte_word.

(* the test `contains_zero_byte(data ^ repeat_byte(c))` of skip_container: some lane equals c *)
Theorem C09_swar_has_byte : forall bs c, bytes8 bs -> c < 256 ->
  czb_eq (le_word 8 bs) c = existsb (fun b => b =? c) bs.
Proof. exact czb_eq_spec. Qed.
Print Assumptions C09_swar_has_byte.

(* count_chunk: the number of lanes equal to c (0..8), for every chunk and every byte c *)
Theorem C09_swar_count_chunk : forall bs c, SwarArith.bytes8 bs -> c < 256 ->
  count_chunk (le_word 8 bs) c = N.of_nat (length (filter (fun b => b =? c) bs)).
Proof. exact SwarArith.count_chunk_spec. Qed.
Print Assumptions C09_swar_count_chunk.

Example C09_swar_ex :
  count_chunk (le_word 8 [125;125;125;125;125;125;125;125]) 125 = 8 /\
  count_chunk (le_word 8 [125;123;124;126;253;93;91;125]) 125 = 2 /\
  czb_eq (le_word 8 [33;35;36;162;163;3;67;99]) 35 = true /\
  czb_eq (le_word 8 [33;34;36;162;163;3;67;99]) 35 = false.
Proof. vm_compute. repeat split; reflexivity. Qed.
