(* C05 -- "never reads or writes out of bounds", binary tape parser, the raw vector writes
   (copyless.rs alloc()/init(), binary/tape.rs: first write of parse_slice_into_tape_core, reserve(2) / pop /
   ptr.add(..).write / set_len in the `=`-in-ArrayValue arm, mixed_insert1/2).
   Statements only; model BinTapeCap.v, proofs proofs/BinTapeCapProofs.v (plan at its top).

   The token tape is a vector WITH a capacity: (live elements, spare slots), a spare slot uninitialised until a
   raw write reaches it.  reserve(n) follows Vec::reserve under an arbitrary growth POLICY [pol] -- the theorems
   quantify over every policy (RawVec's amortised doubling, the exact minimum, anything in between or beyond),
   over every vector [v0] handed to parse_slice_into_tape (a recycled tape of any content and any capacity, a
   fresh one) and over every byte string.  The ORDER of the raw operations is generated from the source
   (Tables.bt_*_ops, tools/gen_tables.py block w_btcap): reordering them in the source changes the model these
   theorems are about.

     C05_tapecap_alloc_in_bounds        alloc().init(x) is a push, whatever the capacity (grows when full)
     C05_tapecap_init_in_bounds         clear / reserve(max(len/5,10)) / write at index 0: in bounds, tape empty
     C05_tapecap_equal_arm_in_bounds    the `=` in ArrayValue state: reserve(2), unchecked pop, the three writes at
                                        len..len+2 and set_len(len+3) -- resp. the write at parent_ind+1 and
                                        set_len(parent_ind+2) -- stay inside the allocation and over initialised
                                        slots; the result is exactly BinTape's transition (its OOB 350 = pop on an
                                        empty tape is excluded by C05_binary_tape_never_crashes)
     C05_tapecap_refines                erasing the capacity gives exactly BinTape.parse (optimised and reference,
                                        as-is and repaired): every theorem about BinTape.parse transfers
     C05_tapecap_never_out_of_bounds    NO run on ANY byte string reaches OOB (360 raw write beyond the capacity,
                                        361 set_len beyond the capacity, 362 set_len over an uninitialised slot,
                                        350 pop on empty, 310/321/331 unchecked reads), Panic or OutOfFuel
     C05_tapecap_result                 value-or-error, same tape, capacity >= length
     C05_tapecap_check_runs             what the stream `tape_cap_model` runs (rust_policy, fresh vector of
                                        capacity c0) erases to BinTape.parse_opt / parse_ref
     C05_tapecap_reserve_after_pop_refuted   the order of seeded change C05_4 (pop, early return, THEN
                                        reserve(2)) reaches OOB 360 on a vector that is one slot short of full,
                                        where the order of the source does not: the model distinguishes them *)
From JV Require Import Bytes Tables BinPrim BinTape BinTapeCap.
From JV.proofs Require Import BinTapeCapProofs.
Open Scope nat_scope.

Theorem C05_tapecap_alloc_in_bounds : forall pol x v, exists sp', v_alloc pol x v = Ok (push (fst v) x, sp').
Proof. exact v_alloc_ok. Qed.
Print Assumptions C05_tapecap_alloc_in_bounds.
(* a full vector grows; with the exact policy by one slot *)
Example alloc_on_full_vector : v_alloc exact_policy TEqual ([TMixed], []) = Ok ([TMixed; TEqual], []).
Proof. vm_compute. reflexivity. Qed.
Example alloc_on_full_vector_rust : v_alloc rust_policy TEqual ([TMixed], []) = Ok ([TMixed; TEqual], [None; None]).
Proof. vm_compute. reflexivity. Qed.

Theorem C05_tapecap_init_in_bounds : forall pol v0 d, exists sp', init_c pol v0 d = Ok ([], sp').
Proof. exact init_c_ok. Qed.
Print Assumptions C05_tapecap_init_in_bounds.

Theorem C05_tapecap_equal_arm_in_bounds : forall pol d par t sp,
  omap fst (eq_arm_c pol d par t sp) =
  match pop t with
  | None => OOB 350
  | Some (t1, last) =>
    if is_array_or_end last then Err E_Syntax
    else if only_empties par t1 then
      do t2 <- set_parent_to_object par t1;
      Ok (mkst d ObjectValue par (push (firstn (S par) t2) last))
    else Ok (mkst d ArrayValueMixed par (push (push (push t1 TMixed) last) TEqual))
  end.
Proof. exact eq_arm_c_ref. Qed.
Print Assumptions C05_tapecap_equal_arm_in_bounds.
(* both branches on a vector without any spare room *)
Example equal_arm_mixed_on_full_vector :
  omap fst (eq_arm_c exact_policy [] 1 [TToken 9; TArray 0; TToken 5] []) =
  Ok (mkst [] ArrayValueMixed 1 [TToken 9; TArray 0; TMixed; TToken 5; TEqual]).
Proof. vm_compute. reflexivity. Qed.
Example equal_arm_empties_on_full_vector :
  omap fst (eq_arm_c exact_policy [] 1 [TToken 9; TArray 0; TArray 3; TEnd 2; TToken 5] []) =
  Ok (mkst [] ObjectValue 1 [TToken 9; TObject 0; TToken 5]).
Proof. vm_compute. reflexivity. Qed.

Theorem C05_tapecap_refines : forall pol fx opt v0 d, omap fst (parse_cap pol fx opt v0 d) = parse fx opt d.
Proof. exact parse_cap_refines. Qed.
Print Assumptions C05_tapecap_refines.

Theorem C05_tapecap_never_out_of_bounds : forall pol fx opt v0 d, is_crash (parse_cap pol fx opt v0 d) = false.
Proof. exact parse_cap_no_crash. Qed.
Print Assumptions C05_tapecap_never_out_of_bounds.

Theorem C05_tapecap_result : forall pol fx opt v0 d,
  match parse_cap pol fx opt v0 d, parse fx opt d with
  | Ok v, Ok t => fst v = t /\ length t <= v_cap v
  | Err e, Err e' => e = e'
  | _, _ => False
  end.
Proof. exact parse_cap_result. Qed.
Print Assumptions C05_tapecap_result.

Theorem C05_tapecap_check_runs : forall c0 d,
  omap fst (parse_cap_opt c0 d) = parse_opt d /\ omap fst (parse_cap_ref c0 d) = parse_ref d.
Proof. intros. split; [apply parse_cap_opt_ref | apply parse_cap_ref_ref]. Qed.
Print Assumptions C05_tapecap_check_runs.
(* `0x2d82 = { 0x2000 0x2001 0x2002 0x2003 0x2004 0x2005 0x2006 = 0x3000 }`: 26 bytes, capacity max(26/5, 10) = 10,
   nine tokens on the tape when the `=` arrives (the input of seeded/C05_4/demo.rs): the run grows to 20 *)
Definition demo_c05_4 : bytes :=
  [130; 45; 1; 0; 3; 0; 0; 32; 1; 32; 2; 32; 3; 32; 4; 32; 5; 32; 6; 32; 1; 0; 0; 48; 4; 0]%N.
Example capacity_boundary_run : omap snd (parse_cap_opt 0 demo_c05_4) = Ok 20 /\ omap snd (parse_cap_exact true 0 demo_c05_4) = Ok 13.
Proof. split; vm_compute; reflexivity. Qed.

Theorem C05_tapecap_reserve_after_pop_refuted :
  exists pol d par t sp,
    eq_arm_gen pol [OPop false; OCheckLast; OReserve 2] (prog bt_eq_empties_ops) (prog bt_eq_mixed_ops) d par t sp = OOB 360%N
    /\ is_crash (eq_arm_c pol d par t sp) = false.
Proof. exact reserve_after_pop_refuted. Qed.
Print Assumptions C05_tapecap_reserve_after_pop_refuted.
