(* C19 (text token level, wave 5, w_tdef) -- truncated text input through the token reader.
   Statements only; proofs in proofs/TruncTextTokProofs.v.

   Models: TextRef (reference tokenizer: item / tk / tokens_of -- the specification side of C07),
   TextReader.run_slice (TokenReader::from_slice) and run_stream (the buffered TokenReader over a
   scheduled Read), the models the streams text_token_truncations / text_token_special_ends run
   against the real reader (kinds tr.slice / tr.stream) on every prefix.

   tok_cut full pre   (full = outputs of the complete run, pre = outputs of the run on a prefix):
     (i)  pre = ts ++ [OEnd | OErr Eof]   and  full = ts ++ rest, rest <> []
          -- the tokens of the prefix are literally the first tokens of the complete run; or
     (ii) pre = ts ++ [RUnq u; OEnd]      and  full = ts ++ RUnq (u ++ w) :: rest,  u, w <> []
          -- the same, plus ONE shortened unquoted scalar, the last token, followed by a clean end.
   So for EVERY document (accepted or not) and EVERY cut point: no token of the prefix run is
   invented, merged with its neighbour or extended; braces, operators and QUOTED scalars are never
   altered (a two-byte operator cut after its first byte, an open `@[`, a partial BOM and an open
   quote are Eof errors -- the shortened-operator case of the work plan does not exist in the code);
   only an unquoted scalar that runs into the end of the data may be shorter.
   C19_text_tok_quote_cut: the tokenizer standing on an opening quote reports Eof for every cut
   before the closing quote (the error is not a shorter string, not an unquoted scalar, not a clean
   end); with the closing quote present it is the token (C19_text_tok_quote_whole).

   Hypotheses: wf_bytes (every element of the input list is < 256: true of every real input) for
   the reader models; the buffered reader additionally needs fault-free schedules and a buffer
   larger than the document (as C19_lex_stream_trunc for the binary reader).
   NOT covered: the run-level form of the quote clause ("the run on a prefix that ends between the
   quotes of a quoted token of the complete run ends with Eof") -- the stream oracle checks it; a
   buffer smaller than the document (C07_stream_full: same tokens, then BufferFull). *)
From JV Require Import Bytes Tables U64Swar BufWin TextTok TextReader TextRef.
From JV.proofs Require Import TextRefProofs TruncTextTokProofs.
From Coq Require Import List.
Import ListNotations.
Open Scope nat_scope.

(* one item of a prefix vs. the item of the longer input *)
Theorem C19_text_tok_item_prefix : forall start P X, item_pre X (item start P) (item start (P ++ X)).
Proof. exact item_prefix. Qed.
Print Assumptions C19_text_tok_item_prefix.

(* one token *)
Theorem C19_text_tok_token_prefix : forall P X start, tk_pre X (fst (tk start P)) (fst (tk start (P ++ X))).
Proof. intros. apply (tk_prefix (length P)). apply le_n. Qed.
Print Assumptions C19_text_tok_token_prefix.

(* MAIN: the reference tokenizer on every prefix of every input *)
Theorem C19_text_tok_trunc : forall D k, tok_cut (tokens_of D) (tokens_of (firstn k D)).
Proof. exact tokens_trunc. Qed.
Print Assumptions C19_text_tok_trunc.

(* TokenReader::from_slice *)
Theorem C19_text_tok_slice_reader_trunc : forall D k, wf_bytes D ->
  tok_cut (fst (run_slice D)) (fst (run_slice (firstn k D))).
Proof. exact slice_reader_trunc. Qed.
Print Assumptions C19_text_tok_slice_reader_trunc.

(* the buffered TokenReader, any two fault-free schedules *)
Theorem C19_text_tok_stream_trunc : forall D k capv sch1 sch2,
  wf_bytes D -> no_fail sch1 -> no_fail sch2 -> length D < capv ->
  tok_cut (fst (run_stream capv sch1 D)) (fst (run_stream capv sch2 (firstn k D))).
Proof. exact stream_reader_trunc. Qed.
Print Assumptions C19_text_tok_stream_trunc.

(* a cut between the quotes *)
Theorem C19_text_tok_quote_cut : forall start s' i j, rq_scan s' 0 = inl i -> j <= i ->
  exists k m, tk start (34%N :: firstn j s') = (REof k, m).
Proof. exact tk_quote_cut. Qed.
Print Assumptions C19_text_tok_quote_cut.

Theorem C19_text_tok_quote_whole : forall start s' i, rq_scan s' 0 = inl i ->
  exists m, tk start (34%N :: s') = (RTok (RQuo (firstn i s')) (skipn (S i) s'), m).
Proof. exact tk_quote_whole. Qed.

(* ---------- non-vacuity:  ab=QxSyQ c>=de  with Q the double quote and S a space ---------- *)
Definition C19_tt_doc : bytes := [97;98;61;34;120;32;121;34;32;99;62;61;100;101]%N.

Example C19_tt_doc_whole :
  run_slice C19_tt_doc =
    ([OTok (RUnq [97;98]%N); OTok (ROp Equal); OTok (RQuo [120;32;121]%N);
      OTok (RUnq [99%N]); OTok (ROp GreaterThanEqual); OTok (RUnq [100;101]%N); OEnd], 14) /\
  wf_bytes C19_tt_doc.
Proof. split; [vm_compute; reflexivity|repeat constructor]. Qed.

(* cut inside the first scalar (1): shortened scalar, clean end -- case (ii);
   cut inside the quoted scalar (6): Eof after the two complete tokens -- case (i), error;
   cut after the closing quote (8): clean end -- case (i);
   cut after `>` of `>=` (11): Eof, not the operator `>`;
   cut inside the last scalar (13): shortened scalar *)
Example C19_tt_doc_cuts :
  fst (run_slice (firstn 1 C19_tt_doc)) = [OTok (RUnq [97%N]); OEnd] /\
  fst (run_slice (firstn 6 C19_tt_doc)) = [OTok (RUnq [97;98]%N); OTok (ROp Equal); OErr E_Eof] /\
  fst (run_slice (firstn 8 C19_tt_doc)) = [OTok (RUnq [97;98]%N); OTok (ROp Equal); OTok (RQuo [120;32;121]%N); OEnd] /\
  fst (run_slice (firstn 11 C19_tt_doc)) =
    [OTok (RUnq [97;98]%N); OTok (ROp Equal); OTok (RQuo [120;32;121]%N); OTok (RUnq [99%N]); OErr E_Eof] /\
  fst (run_slice (firstn 13 C19_tt_doc)) =
    [OTok (RUnq [97;98]%N); OTok (ROp Equal); OTok (RQuo [120;32;121]%N); OTok (RUnq [99%N]);
     OTok (ROp GreaterThanEqual); OTok (RUnq [100%N]); OEnd].
Proof. repeat split; vm_compute; reflexivity. Qed.

(* both disjuncts of tok_cut are inhabited by these cuts *)
Example C19_tt_cut_case_ii :
  exists ts u w rest, u <> [] /\ w <> [] /\
    fst (run_slice (firstn 1 C19_tt_doc)) = map OTok ts ++ [OTok (RUnq u); OEnd] /\
    fst (run_slice C19_tt_doc) = map OTok ts ++ OTok (RUnq (u ++ w)) :: rest.
Proof.
  exists [], [97%N], [98%N]. eexists. split; [discriminate|]. split; [discriminate|].
  split; vm_compute; reflexivity.
Qed.

(* the quote clause on this document: s' = the bytes behind the opening quote, closing quote at index 3 *)
Example C19_tt_quote :
  rq_scan (skipn 4 C19_tt_doc) 0 = inl 3 /\
  fst (tk false (34%N :: firstn 3 (skipn 4 C19_tt_doc))) = REof 3.
Proof. split; vm_compute; reflexivity. Qed.

(* the buffered reader, one byte per read, on the cut at 6 *)
Example C19_tt_stream_cut :
  fst (run_stream 15 [Data 1; Data 1; Data 1; Data 1; Data 1; Data 1; Data 1] (firstn 6 C19_tt_doc))
    = [OTok (RUnq [97;98]%N); OTok (ROp Equal); OErr E_Eof].
Proof. vm_compute. reflexivity. Qed.
